/-
The generator's emission plan at the granularity that is formalised (sdk/python/generator/Generator.py,
StructTypeFormatter.generate_type_hints): which classes are written, in which order, and the
`TYPE_HINTS` table of each struct class. Method-body text is not modelled.
-/
import SymbolVerif.Model.Codec.Schema
namespace SymbolVerif.Codec

def abstractNames (S : Schema) : List String :=
  S.filterMap fun e => match e.2 with
    | .struct d => if d.abstract then some e.1 else none
    | _ => none

/-- classes in declaration order, then one factory per abstract struct in declaration order -/
def emissionPlan (S : Schema) : List String :=
  S.map (·.1) ++ (abstractNames S).map (· ++ "Factory")

/-- `fix_name`: members called `type` / `property` get a trailing underscore -/
def printerName (n : String) : String := if n == "type" || n == "property" then n ++ "_" else n

def typeHint (S : Schema) (f : Field) : Option String :=
  match f.kind with
  | .ref ty _ => match S.find ty with
    | some (.int ..) | some (.bytes _) => some ("pod:" ++ ty)
    | some (.enum ..) => some ("enum:" ++ ty)
    | some (.struct _) => some ("struct:" ++ ty)
    | none => none
  | .barray _ => some "bytes_array"
  | .array elem .. => some ("array[" ++ elem ++ "]")
  | _ => none

/-- own (not inherited) members with a type hint, in layout order -/
def typeHints (S : Schema) (d : StructDef) : List (String × String) :=
  (d.fields.drop d.inherited).filterMap fun f => (typeHint S f).map fun h => (printerName f.name, h)

end SymbolVerif.Codec

namespace SymbolVerif.Codec

/-! ### method bodies of `serialize` / `_serialize` and `size`, as text

A port of `StructFormatter.generate_serialize_field(s)`, `generate_size_field`, `generate_condition(prefix_field=True)`
and the printers' `store` / `get_size`, over the IR. The harness compares these lines with the bodies found in the
generated modules (shipped and freshly generated from random schemas), class by class. -/

def pyBool (b : Bool) : String := if b then "True" else "False"

def toBytesCall (value : String) (w : Nat) (signed : Bool) : String :=
  value ++ ".to_bytes(" ++ toString w ++ ", byteorder='little', signed=" ++ pyBool signed ++ ")"

def sortAccessor (key : String) : String :=
  "lambda e: e." ++ key ++ ".comparer() if hasattr(e." ++ key ++ ", 'comparer') else e." ++ key

/-- the way a condition value is written: `Enum.MEMBER` for an enum discriminant, the number otherwise; and the postfix
    of the discriminant (`_computed` for a `@sizeref` member) -/
def condOperands (S : Schema) (d : StructDef) (c : Cond) : String × String :=
  match d.fields.find? (fun g => g.name == c.field) with
  | none => ("<unknown condition member>", "")
  | some cf =>
    match cf.kind with
    | .ref ty _ =>
      match S.find ty with
      | some (.enum _ _ _ members) =>
        let name := match members.find? (fun m => m.2 == c.value) with
          | some m => m.1
          | none => toString c.value
        (ty ++ "." ++ name, "")
      | _ => (toString c.value, "")
    | .sizeRef .. => (toString c.value, "_computed")
    | _ => (toString c.value, "")

/-- `generate_condition(field, prefix_field=True)` without the trailing newline; `none` for an unconditional member -/
def conditionLine (S : Schema) (d : StructDef) (f : Field) : Option String :=
  match f.cond with
  | none => none
  | some c =>
    if c.viaSelf then some ("if self." ++ f.name ++ ":")
    else
      let op := match c.op with | .eq => "==" | .ne => "!=" | .isIn => "in" | .notIn => "not in"
      let operands := condOperands S d c
      some ("if " ++ operands.1 ++ " " ++ op ++ " self." ++ c.field ++ operands.2 ++ ":")

def arraySizeCall (attr : String) (align : Nat) (padLast : Bool) : String :=
  if align != 0 then
    "ArrayHelpers.size(self." ++ attr ++ ", " ++ toString align ++ ", skip_last_element_padding=" ++ pyBool (!padLast) ++ ")"
  else "ArrayHelpers.size(self." ++ attr ++ ")"

/-- `printer.store(value) + comment` of one member -/
def storeExpr (d : StructDef) (f : Field) : String :=
  let attr := printerName f.name
  let find (n : String) : Option Field := d.fields.find? (·.name == n)
  match f.kind with
  | .int w s => toBytesCall ("self._" ++ attr) w s
  | .reserved w s _ => toBytesCall ("self._" ++ attr) w s
  | .sizeF w => toBytesCall "self.size" w false
  | .count w s target absent =>
    let x := "self._" ++ printerName target
    let v := match absent with
      | some a => "(len(" ++ x ++ ") if " ++ x ++ " is not None else " ++ toString a ++ ")"
      | none => "len(" ++ x ++ ")"
    toBytesCall v w s ++ "  # " ++ f.name
  | .byteSize w s target =>
    let call := match find target with
      | some ⟨_, .array _ _ align padLast _, _⟩ => arraySizeCall (printerName target) align padLast
      | _ => "<unknown>"
    toBytesCall call w s ++ "  # " ++ f.name
  | .sizeOf w s target => toBytesCall ("self." ++ printerName target ++ ".size") w s ++ "  # " ++ f.name
  | .sizeRef w s _ _ => toBytesCall ("self." ++ attr ++ "_computed") w s
  | .ref _ _ => "self._" ++ attr ++ ".serialize()"
  | .barray _ => "self._" ++ attr
  | .array _ mode align padLast sortKey =>
    if align != 0 then
      "ArrayHelpers.write_variable_size_elements(self._" ++ attr ++ ", " ++ toString align ++
        ", skip_last_element_padding=" ++ pyBool (!padLast) ++ ")"
    else match mode, sortKey with
      | .fill, _ => "ArrayHelpers.write_array(self._" ++ attr ++ ")"
      | _, some k => "ArrayHelpers.write_array(self._" ++ attr ++ ", " ++ sortAccessor k ++ ")"
      | _, none => "ArrayHelpers.write_array(self._" ++ attr ++ ")"

def guarded (cond : Option String) (line : String) : List String :=
  match cond with
  | none => [line]
  | some c => [c, "\t" ++ line]

/-- the own (not inherited) members, in layout order -/
def ownFields (d : StructDef) : List Field := d.fields.drop (if d.base.isSome then d.inherited else 0)

/-- the lines of `generate_serialize_fields` -/
def serializeFieldLines (S : Schema) (d : StructDef) : List String :=
  (ownFields d).flatMap fun f => guarded (conditionLine S d f) ("buffer += " ++ storeExpr d f)

/-- body of `serialize` of a struct class -/
def serializeBody (S : Schema) (d : StructDef) : List String :=
  ["buffer = bytearray()"] ++ (if d.base.isSome then ["super()._serialize(buffer)"] else []) ++
  (if d.abstract then ["self._serialize(buffer)"] else serializeFieldLines S d) ++ ["return buffer"]

/-- `printer.get_size()` of one member -/
def sizeExpr (f : Field) : String :=
  let attr := printerName f.name
  match f.kind with
  | .int w _ | .reserved w _ _ | .sizeF w | .count w _ _ _ | .byteSize w _ _ | .sizeOf w _ _ | .sizeRef w _ _ _ => toString w
  | .ref _ _ => "self." ++ attr ++ ".size"
  | .barray _ => "len(self._" ++ attr ++ ")"
  | .array _ _ align padLast _ => arraySizeCall attr align padLast

/-- body of the `size` property -/
def sizeBody (S : Schema) (d : StructDef) : List String :=
  ["size = 0"] ++ (if d.base.isSome then ["size += super().size"] else []) ++
  ((ownFields d).flatMap fun f => guarded (conditionLine S d f) ("size += " ++ sizeExpr f)) ++ ["return size"]

end SymbolVerif.Codec

/-
The emitted `sort` method of a struct class as syntax -- `self._x = sorted(self._x, key=…)` for a keyed array,
`self._x.sort()` for a member of struct type, each under the member's condition -- and what running it does to the
object. `renderSort (emitSort S d)` is the text `sortBody S d` (Emission.lean).
-/
import SymbolVerif.Model.Codec.EmissionSem
import SymbolVerif.Model.Codec.Render
namespace SymbolVerif.Codec
open SymbolVerif.Bytes

inductive SortStmt
  /-- `self._m = sorted(self._m, key=lambda e: …)`; `elem`: the element type (not rendered) -/
  | sorted (member elem key : String)
  /-- `self._m.sort()`; `ty`: the member's type (not rendered) -/
  | nested (member ty : String)
  deriving Repr, Inhabited

structure GSortStmt where
  cond : Option CondExpr
  stmt : SortStmt
  deriving Repr, Inhabited

def SortStmt.render : SortStmt → String
  | .sorted m _ k => "self._" ++ printerName m ++ " = sorted(" ++ ("self._" ++ printerName m) ++ ", key=" ++ sortAccessor k ++ ")"
  | .nested m _ => "self._" ++ printerName m ++ ".sort()"

def GSortStmt.render (g : GSortStmt) : List String := guarded (g.cond.map CondExpr.render) g.stmt.render

def renderSort (p : List GSortStmt) : List String :=
  let lines := p.flatMap GSortStmt.render
  if lines.isEmpty then ["pass"] else lines

/-- `printer.sort(field_name)` as syntax -/
def sortAst (S : Schema) (f : Field) : Option SortStmt :=
  match f.kind with
  | .array elem _ _ _ (some k) => some (.sorted f.name elem k)
  | .ref ty _ => match S.find ty with
    | some (.struct _) => some (.nested f.name ty)
    | _ => none
  | _ => none

def sortStmtOf (S : Schema) (d : StructDef) (f : Field) : Option GSortStmt :=
  (sortAst S f).map fun s => { cond := condAst S d f, stmt := s }

def emitSort (S : Schema) (d : StructDef) : List GSortStmt := d.fields.filterMap (sortStmtOf S d)

/-! ### semantics: the object's members after the statements -/

/-- `self._m = v` -/
def setMember (vs : List (String × Val)) (m : String) (v : Val) : List (String × Val) :=
  vs.map fun nv => if nv.1 == m then (nv.1, v) else nv

/-- `sorted(l, key=accessor)` is `sortByKey` (stable, ascending: `Render.lean`); `x.sort()` of a member of struct type
    is the recursive call; a member that is not what the statement expects (`None`, a wrong type) raises -/
def SortStmt.exec (S : Schema) (T : String → Bytes → Bytes) (recSort : String → Val → R Val)
    (vs : List (String × Val)) : SortStmt → R (List (String × Val))
  | .sorted m elem k =>
    match Val.get vs m with
    | some (.arr l) => do
      let keys ← l.mapM (sortKeyOf S T elem k)
      .ok (setMember vs m (.arr (sortByKey (keys.zip l))))
    | _ => .error .shape
  | .nested m ty =>
    match Val.get vs m with
    | some (.struct vty fs) => do
      let v' ← recSort ty (.struct vty fs)
      .ok (setMember vs m v')
    | _ => .error .shape

def GSortStmt.exec (S : Schema) (T : String → Bytes → Bytes) (r : Rec) (recSort : String → Val → R Val)
    (vs : List (String × Val)) (g : GSortStmt) : R (List (String × Val)) := do
  let present ← evalGuard { S := S, T := T, calls := r, vs := vs, selfSize := .error .unsupported } g.cond
  if present then g.stmt.exec S T recSort vs else .ok vs

def execSort (S : Schema) (T : String → Bytes → Bytes) (r : Rec) (recSort : String → Val → R Val) :
    List GSortStmt → List (String × Val) → R (List (String × Val))
  | [], vs => .ok vs
  | g :: rest, vs => do let vs' ← g.exec S T r recSort vs; execSort S T r recSort rest vs'

/-- running the emitted `sort` of the class on an object: its members afterwards -/
def emittedSort (S : Schema) (T : String → Bytes → Bytes) (r : Rec) (recSort : String → Val → R Val) (d : StructDef)
    (vs : List (String × Val)) : R (List (String × Val)) := execSort S T r recSort (emitSort S d) vs

/-! ### side conditions -/

/-- schema side: the statements' guards read members that `sort` does not touch before the guard is evaluated -- the
    discriminant of a condition is not itself a keyed array or a struct-typed member, and a size-ref discriminant
    describes the member it guards -/
def sortDeclOk (S : Schema) (d : StructDef) : Bool :=
  d.fields.all fun f =>
    match f.cond with
    | none => true
    | some c =>
      c.viaSelf ||
      (match lookupField d.fields c.field with
        | some cf =>
          (sortAst S cf).isNone &&
          (match cf.kind with
            | .sizeRef _ _ target _ => target == f.name
            | _ => true)
        | none => true)

/-- object side: every member's condition evaluates, and the members the statements touch are what they expect -/
def sortObjOk (S : Schema) (r : Rec) (d : StructDef) (vs : List (String × Val)) : Bool :=
  d.fields.all fun f =>
    match condOnObject r d.fields vs f with
    | .ok present =>
      !present ||
      (match sortAst S f, Val.get vs f.name with
        | some (.sorted ..), some (.arr _) => true
        | some (.nested ..), some (.struct ..) => true
        | some _, _ => false
        | none, _ => true)
    | .error _ => false

end SymbolVerif.Codec

/-
Codec IR: the expanded, classified layout of a CATS schema, and the value universe.
The IR is produced from the schema *text* by `translate/cats.py` (an independent reader of the
`.cats` files, not `catparser`) and regenerated on every run.

Correspondence with the generator's own classification (sdk/python/generator/StructTypeFormatter.py,
printers.py): `FK.reserved` = `is_reserved`, `FK.count/byteSize/sizeOf` = `is_bound_size`,
`FK.sizeRef` = `is_computed`, `FK.sizeF` = the first field when it is the struct's `@size` member,
the remaining kinds are the value-carrying members (`non_reserved_fields`).
-/
import SymbolVerif.Model.Bytes
namespace SymbolVerif.Codec

inductive CondOp | eq | ne | isIn | notIn
  deriving DecidableEq, Repr, Inhabited

/-- `member = T if VALUE op field`. `value` is the numeric value (enum members resolved).
    `viaSelf`: in `serialize`/`size` the generator tests the truthiness of the member itself
    (`if self.<member>:`), which it does for members of builtin (non-named) type. -/
structure Cond where
  field : String
  op : CondOp
  value : Int
  viaSelf : Bool
  deriving DecidableEq, Repr, Inhabited

inductive ArrMode
  | count (field : String)      -- element count in a member
  | sized (field : String)      -- byte size in a member (`@is_byte_constrained`)
  | fill                        -- `__FILL__`
  deriving DecidableEq, Repr, Inhabited

/-- field kinds after inline expansion -/
inductive FK
  | int (w : Nat) (signed : Bool)
  | reserved (w : Nat) (signed : Bool) (value : Int)
  | sizeF (w : Nat)
  | count (w : Nat) (signed : Bool) (target : String) (absent : Option Int)
  | byteSize (w : Nat) (signed : Bool) (target : String)
  | sizeOf (w : Nat) (signed : Bool) (target : String)
  | sizeRef (w : Nat) (signed : Bool) (target : String) (delta : Int)
  | ref (ty : String) (limit : Option String)
  | barray (sizeField : String)
  | array (elem : String) (mode : ArrMode) (align : Nat) (padLast : Bool) (sortKey : Option String)
  deriving DecidableEq, Repr, Inhabited

structure Field where
  name : String
  kind : FK
  cond : Option Cond := none
  deriving DecidableEq, Repr, Inhabited

structure StructDef where
  fields : List Field
  /-- number of leading fields inherited from `base` (the inlined abstract struct) -/
  inherited : Nat := 0
  base : Option String := none
  abstract : Bool := false
  /-- discriminator member names (on an abstract struct) -/
  disc : List String := []
  /-- values of the discriminator members fixed by this concrete struct's initializers -/
  discValues : List Int := []
  /-- `@comparer`: (member, transform?) -/
  comparer : List (String × Option String) := []
  /-- constants (`make_const`) in declaration order: name, type, value as written (a number or an enum member name) -/
  consts : List (String × String × String) := []
  /-- `@initializes(member, CONSTANT)` in declaration order -/
  inits : List (String × String) := []
  deriving DecidableEq, Repr, Inhabited

inductive TypeDef
  | int (w : Nat) (signed : Bool)
  | bytes (n : Nat)
  | enum (w : Nat) (signed : Bool) (bitwise : Bool) (members : List (String × Int))
  | struct (d : StructDef)
  deriving DecidableEq, Repr, Inhabited

abbrev Schema := List (String × TypeDef)

def Schema.find (S : Schema) (n : String) : Option TypeDef := (S.find? (·.1 == n)).map (·.2)

/-- concrete structs recording `a` as their factory type, in declaration order -/
def Schema.children (S : Schema) (a : String) : List (String × StructDef) :=
  S.filterMap fun (n, t) => match t with
    | .struct d => if d.base == some a then some (n, d) else none
    | _ => none

/-- Values: the state of a generated Python object. `struct` lists the value-carrying members in
    layout order; an absent conditional member is `none`. -/
inductive Val
  | int (i : Int)
  | bytes (b : Bytes)
  | struct (ty : String) (fs : List (String × Val))
  | arr (l : List Val)
  | none
  deriving Repr, Inhabited

namespace Val
def get (fs : List (String × Val)) (n : String) : Option Val := (fs.find? (·.1 == n)).map (·.2)
end Val

/-- does the field carry a value in the object (as opposed to being derived or constant)? -/
def FK.carries : FK → Bool
  | .int .. | .ref .. | .barray .. | .array .. => true
  | _ => false

end SymbolVerif.Codec

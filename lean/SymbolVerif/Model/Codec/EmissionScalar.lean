/-
The emitted classes of integer aliases, byte-array aliases and enums: the expressions of their `serialize`, `size`
and `deserialize` as syntax, their rendering (the method bodies of `intAliasClass`, `bytesAliasClass`, `enumClass` in
Emission.lean), and what they compute. The constructors are library code (`BaseValue`, `ByteArray`, `Enum` / `Flag`):
modelled by the checks they make.
-/
import SymbolVerif.Model.Codec.Emission
import SymbolVerif.Model.Codec.Interp
namespace SymbolVerif.Codec
open SymbolVerif.Bytes

/-- what is read from the buffer and handed to the constructor -/
inductive ScalarArg
  | intFromBytes (w : Nat) (signed : Bool)     -- `int.from_bytes(buffer[:w], byteorder='little', signed=…)`
  | getBytes (n : Nat)                         -- `ArrayHelpers.get_bytes(buffer, n)`
  deriving Repr, Inhabited

/-- what `serialize` writes -/
inductive ScalarOut
  | valueToBytes (w : Nat) (signed : Bool)     -- `self.value.to_bytes(w, byteorder='little', signed=…)`
  | selfBytes                                  -- `self.bytes`
  deriving Repr, Inhabited

/-- how the constructor checks its argument -/
inductive ScalarCtor
  | baseValue (w : Nat)                                          -- `BaseValue(size, value, tag)`: unsigned range of `w` bytes
  | byteArray (n : Nat)                                          -- `ByteArray(n, bytes, tag)`: exactly `n` bytes
  | enum (bitwise : Bool) (members : List (String × Int))        -- `Enum(value)` / `Flag(value)`
  deriving Repr, Inhabited

structure ScalarAst where
  name : String
  out : ScalarOut
  /-- `serialize` appends to a fresh `bytearray()` (enums) or returns the expression -/
  viaBuffer : Bool
  /-- the `size` property: `return n`; `none`: inherited, `BaseValue.size` = `SIZE` -/
  sizeProperty : Option Nat
  size : Nat
  arg : ScalarArg
  ctor : ScalarCtor
  deriving Repr, Inhabited

/-- `return Name(<what is read>)` -/
def ScalarArg.renderReturn (name : String) : ScalarArg → String
  | .intFromBytes w s => "return " ++ name ++ "(" ++ intLoad w s ++ ")"
  | .getBytes n => "return " ++ name ++ "(ArrayHelpers.get_bytes(buffer, " ++ toString n ++ "))"

def ScalarOut.render : ScalarOut → String
  | .valueToBytes w s => toBytesCall "self.value" w s
  | .selfBytes => "self.bytes"

def ScalarOut.renderReturn : ScalarOut → String
  | .valueToBytes w s => "return " ++ toBytesCall "self.value" w s
  | .selfBytes => "return self.bytes"

def ScalarAst.serializeBody (a : ScalarAst) : List String :=
  if a.viaBuffer then ["buffer = bytearray()", "buffer += " ++ a.out.render, "return buffer"] else [a.out.renderReturn]

def ScalarAst.sizeBody (a : ScalarAst) : Option (List String) := a.sizeProperty.map fun n => ["return " ++ toString n]

def ScalarAst.deserializeBody (a : ScalarAst) : List String :=
  ["buffer = memoryview(payload)", a.arg.renderReturn a.name]

def intAliasAst (name : String) (w : Nat) (s : Bool) : ScalarAst :=
  ScalarAst.mk name (.valueToBytes w s) false none w (.intFromBytes w s) (.baseValue w)

def bytesAliasAst (name : String) (n : Nat) : ScalarAst :=
  ScalarAst.mk name .selfBytes false (some n) n (.getBytes n) (.byteArray n)

def enumAst (name : String) (w : Nat) (s b : Bool) (ms : List (String × Int)) : ScalarAst :=
  ScalarAst.mk name (.valueToBytes w s) true (some w) w (.intFromBytes w s) (.enum b ms)

def emitScalar (name : String) : TypeDef → Option ScalarAst
  | .int w s => some (intAliasAst name w s)
  | .bytes n => some (bytesAliasAst name n)
  | .enum w s b ms => some (enumAst name w s b ms)
  | .struct _ => none

/-! ### semantics -/

/-- the constructor: the object, or the `ValueError` it raises -/
def ScalarCtor.build : ScalarCtor → Val → R Val
  | .baseValue w, .int i => if 0 ≤ i ∧ i < ((256 ^ w : Nat) : Int) then .ok (.int i) else .error .overflow
  | .byteArray n, .bytes b => if b.length == n then .ok (.bytes b) else .error .shape
  | .enum bitwise members, .int i => if enumAdmits bitwise members i then .ok (.int i) else .error .enumValue
  | _, _ => .error .shape

/-- an object of the class: one its constructor accepts -/
def ScalarCtor.holds (c : ScalarCtor) (v : Val) : Bool := match c.build v with | .ok _ => true | .error _ => false

def ScalarArg.eval (buf : Bytes) : ScalarArg → R Val
  | .intFromBytes w s => .ok (.int (decInt w s buf))
  | .getBytes n => if n > buf.length then .error .short else .ok (.bytes (buf.take n))

def emittedScalarDeserialize (a : ScalarAst) (payload : Bytes) : R Val := do
  let x ← a.arg.eval payload
  a.ctor.build x

def emittedScalarSerialize (a : ScalarAst) (v : Val) : R Bytes :=
  match a.out, v with
  | .valueToBytes w s, .int i => encInt w s i            -- `int.to_bytes` raises `OverflowError` out of range
  | .selfBytes, .bytes b => .ok b
  | _, _ => .error .shape

def emittedScalarSize (a : ScalarAst) (v : Val) : R Nat :=
  match a.ctor, v with
  | .baseValue _, .int _ | .enum .., .int _ | .byteArray _, .bytes _ => .ok a.size
  | _, _ => .error .shape

end SymbolVerif.Codec

/-
Model of the Patricia half of sdk/python/symbolchain/symbol/Merkle.py (with BufferReader.py):
`_get_nibble_at`, `_encode_path`, `LeafNode/BranchNode.calculate_hash`, `TreeNode.hex_path`,
`deserialize_patricia_tree_nodes`, `prove_patricia_merkle`; and the specification side: a compact Patricia
tree datatype, its node hashes, the proof path cut from a tree along a key, and the inverse of the deserializer.
The hash is a parameter `H` (SHA3-256 in the SDK). Core Lean only.
Every function here is pure: `nodeHash`, `provePatricia`, … are functions of the node contents they are given. The Python
objects are mutable (`leaf.value`, `branch.links[i]`, `node.path` can be assigned); the correspondence check therefore also plays
histories (hash/prove, edit in place, hash/prove again) and requires the answer of the model on the *current* contents.
-/
import SymbolVerif.Model.Sdk.Merkle
namespace SymbolVerif.Sdk.Patricia
open SymbolVerif SymbolVerif.Bytes

/-- `PatriciaTreePath(path, size)`: packed nibbles and the nibble count -/
structure Path where
  bytes : Bytes
  size : Nat
  deriving DecidableEq, Repr

/-- `LeafNode(path, value)` / `BranchNode(path, links)`; a link is a hash or `None` -/
inductive Node
  | leaf (path : Path) (value : Bytes)
  | branch (path : Path) (links : List (Option Bytes))
  deriving DecidableEq, Repr

def Node.path : Node → Path
  | .leaf p _ => p
  | .branch p _ => p

/-- the hex digits of a byte string, as numbers (`hexlify(..).upper()`, one entry per character) -/
def nibbles (bs : Bytes) : List Nat := bs.flatMap fun b => [b.toNat / 16, b.toNat % 16]

/-- `_get_nibble_at(path, index)`; `none` = `IndexError` -/
def nibbleAt (p : Path) (i : Nat) : Option Nat :=
  (p.bytes[i / 2]?).map fun b => if i % 2 = 1 then b.toNat % 16 else b.toNat / 16

/-- the `while i < path.size` loop of `_encode_path`: `count` pairs starting at nibble `i` -/
def encodePairs (p : Path) : Nat → Nat → Option Bytes
  | _, 0 => some []
  | i, c + 1 => do
    let a ← nibbleAt p i
    let b ← nibbleAt p (i + 1)
    let r ← encodePairs p (i + 2) c
    pure (UInt8.ofNat ((a <<< 4) + b) :: r)

/-- `_encode_path(path, is_leaf)`: first byte carries the leaf flag 0x20, the odd flag 0x10 and, for an odd
    nibble count, the first nibble; the remaining nibbles are packed two per byte. -/
def encodePath (p : Path) (isLeaf : Bool) : Option Bytes :=
  let flag : Nat := if isLeaf then 0x20 else 0
  if p.size % 2 = 1 then do
    let n0 ← nibbleAt p 0
    let rest ← encodePairs p 1 (p.size / 2)
    pure (UInt8.ofNat (flag ||| (0x10 ||| n0)) :: rest)
  else do
    let rest ← encodePairs p 0 (p.size / 2)
    pure (UInt8.ofNat flag :: rest)

/-- `calculate_hash` of either node kind (`None` links hash as the zero hash); `none` = `IndexError` -/
def nodeHash (H : Bytes → Bytes) : Node → Option Bytes
  | .leaf p v => (encodePath p true).map fun e => H (e ++ v)
  | .branch p links => (encodePath p false).map fun e => H (e ++ (links.map fun l => l.getD Merkle.zeroHash).flatten)

/-- `hex_path`: `hexlify(path.path).upper()[:path.size]` (lenient when the size exceeds the bytes) -/
def hexPath (p : Path) : List Nat := (nibbles p.bytes).take p.size

/-! ### `deserialize_patricia_tree_nodes` over `BufferReader` -/

/-- the state of a `BufferReader`: the unread suffix, and whether the offset has run past the end
    (after which every read yields `b''` and `eof` is never true again). -/
structure Reader where
  rest : Bytes
  over : Bool
  deriving DecidableEq, Repr

/-- `read_bytes(count)`: a slice, silently short at the end of the buffer -/
def Reader.read (r : Reader) (n : Nat) : Bytes × Reader :=
  if r.over then ([], r)
  else if n ≤ r.rest.length then (r.rest.take n, ⟨r.rest.drop n, false⟩)
  else (r.rest, ⟨[], true⟩)

/-- `_deserialize_path` -/
def parsePath (r : Reader) : Path × Reader :=
  let (nb, r1) := r.read 1
  let numNibbles := leNat nb
  let (pb, r2) := r1.read ((numNibbles + 1) / 2)
  (⟨pb, numNibbles⟩, r2)

/-- `Hash256(reader.read_bytes(32))`; `none` = `ValueError` (wrong size) -/
def readHash (r : Reader) : Option (Bytes × Reader) :=
  let (b, r') := r.read 32
  if b.length = 32 then some (b, r') else none

/-- the `for index` loop of `_deserialize_branch`: `count` link slots starting at `index` -/
def readLinks (mask : Nat) : Nat → Nat → Reader → Option (List (Option Bytes) × Reader)
  | _, 0, r => some ([], r)
  | idx, c + 1, r =>
    if mask &&& 2 ^ idx ≠ 0 then do
      let (h, r1) ← readHash r
      let (ls, r2) ← readLinks mask (idx + 1) c r1
      pure (some h :: ls, r2)
    else do
      let (ls, r2) ← readLinks mask (idx + 1) c r
      pure (none :: ls, r2)

/-- one iteration of the `while not reader.eof` loop; `none` = `ValueError` -/
def parseNode (r : Reader) : Option (Node × Reader) :=
  let (mb, r1) := r.read 1
  let marker := leNat mb
  if marker = 0xFF then
    let (p, r2) := parsePath r1
    (readHash r2).map fun (v, r3) => (.leaf p v, r3)
  else if marker = 0 then
    let (p, r2) := parsePath r1
    let (maskBytes, r3) := r2.read 2
    (readLinks (leNat maskBytes) 0 16 r3).map fun (ls, r4) => (.branch p ls, r4)
  else none

/-- outcome of `deserialize_patricia_tree_nodes`: the nodes, a `ValueError`, or no return at all: once the
    offset is past the end `eof` stays false, every marker reads as 0 and the loop appends empty branch
    nodes for ever (a truncated branch node does this). -/
inductive DResult
  | ok (nodes : List Node)
  | valueError
  | diverges
  deriving DecidableEq, Repr

def deserializeFrom (r : Reader) : DResult :=
  if r.over then .diverges
  else if r.rest.isEmpty then .ok []
  else match parseNode r with
    | none => .valueError
    | some (node, r') =>
      if _h : r'.rest.length < r.rest.length then
        match deserializeFrom r' with
        | .ok ns => .ok (node :: ns)
        | e => e
      else .diverges   -- unreachable: every iteration consumes the marker byte (`parseNode_consumes`)
termination_by r.rest.length

def deserialize (buffer : Bytes) : DResult := deserializeFrom ⟨buffer, false⟩

/-! ### `prove_patricia_merkle` -/

/-- `PatriciaMerkleProofResult` -/
inductive Verdict
  | validPositive | validNegative | inconclusive
  | stateHashDoesNotMatchRoots | unanchoredPathTree | leafValueMismatch | unlinkedNode | pathMismatch
  deriving DecidableEq, Repr

def Verdict.code : Verdict → Nat
  | .validPositive => 0x0001 | .validNegative => 0x0002 | .inconclusive => 0x4001
  | .stateHashDoesNotMatchRoots => 0x8001 | .unanchoredPathTree => 0x8002 | .leafValueMismatch => 0x8003
  | .unlinkedNode => 0x8004 | .pathMismatch => 0x8005

/-- `f'{index:01X}'` as digit values (a single digit below 16) -/
def hexDigitsOf (k : Nat) : List Nat :=
  if _h : k < 16 then [k] else hexDigitsOf (k / 16) ++ [k % 16]
termination_by k
decreasing_by omega

/-- state of the `for node in reversed(merkle_path)` loop -/
inductive Walk
  | start                                        -- `child_hash = None`, `actual_path = ''`
  | ok (child : Bytes) (actual : List Nat)
  | unlinked                                     -- returned `UNLINKED_NODE`
  | error                                        -- raised (`IndexError` in `_encode_path`, `AttributeError`: a leaf has no `links`)
  deriving DecidableEq, Repr

/-- the loop, written over the path in root-to-leaf order: the tail is processed before the head. -/
def walk (H : Bytes → Bytes) : List Node → Walk
  | [] => .start
  | node :: rest =>
    match walk H rest with
    | .unlinked => .unlinked
    | .error => .error
    | .start =>
      match nodeHash H node with
      | none => .error
      | some h => .ok h (hexPath node.path)
    | .ok child actual =>
      match nodeHash H node with
      | none => .error
      | some h =>
        match node with
        | .leaf _ _ => .error
        | .branch p links =>
          if links.contains (some child) then .ok h (hexPath p ++ hexDigitsOf (links.idxOf (some child)) ++ actual)
          else .unlinked

/-- `_check_state_hash` -/
def checkStateHash (H : Bytes → Bytes) (stateHash : Bytes) (roots : List Bytes) : Bool :=
  stateHash == H roots.flatten

/-- `prove_patricia_merkle(encoded_key, value_to_test, merkle_path, state_hash, subcache_merkle_roots)`;
    `none` = a Python exception (empty path, malformed node, leaf in the middle, key exhausted). -/
def provePatricia (H : Bytes → Bytes) (key value : Bytes) (path : List Node) (stateHash : Bytes)
    (roots : List Bytes) : Option Verdict :=
  if !checkStateHash H stateHash roots then some .stateHashDoesNotMatchRoots else
  match path.head?, path.getLast? with
  | some first, some last =>
    match nodeHash H first with
    | none => none
    | some h0 =>
      if !roots.contains h0 then some .unanchoredPathTree else
      match last with
      | .leaf _ leafValue =>
        if value != leafValue then some .leafValueMismatch else
        match walk H path with
        | .ok _ actual => some (if actual != nibbles key then .pathMismatch else .validPositive)
        | .unlinked => some .unlinkedNode
        | _ => none
      | .branch _ links =>
        match walk H path with
        | .ok _ actual =>
          if !(actual.isPrefixOf (nibbles key)) then some .pathMismatch else
          match (nibbles key)[actual.length]? with
          | none => none
          | some nextNibble =>
            match links[nextNibble]? with
            | none => none
            | some none => some .validNegative
            | some (some _) => some .inconclusive
        | .unlinked => some .unlinkedNode
        | _ => none
  | _, _ => none

/-! ### specification side: trees, their hashes, proofs cut from them, serialization -/

/-- a compact Patricia tree over nibble strings; `empty` stands for an absent child -/
inductive PTree
  | empty
  | leaf (path : List Nat) (value : Bytes)
  | branch (path : List Nat) (children : Fin 16 → PTree)

def PTree.isEmpty : PTree → Bool
  | .empty => true
  | _ => false

/-- two nibbles per byte, a trailing single nibble in the high half -/
def packNibbles : List Nat → Bytes
  | [] => []
  | [a] => [UInt8.ofNat (a * 16)]
  | a :: b :: rest => UInt8.ofNat (a * 16 + b) :: packNibbles rest

def toPath (ns : List Nat) : Path := ⟨packNibbles ns, ns.length⟩

/-- the compact encoding of a nibble string, stated directly -/
def encodeNibbles (ns : List Nat) (isLeaf : Bool) : Bytes :=
  let flag : Nat := if isLeaf then 0x20 else 0
  if ns.length % 2 = 1 then UInt8.ofNat (flag ||| (0x10 ||| ns.headD 0)) :: packNibbles ns.tail
  else UInt8.ofNat flag :: packNibbles ns

/-- node hash of a tree (`empty` is given the zero hash, which is what an absent link contributes) -/
def PTree.hash (H : Bytes → Bytes) : PTree → Bytes
  | .empty => Merkle.zeroHash
  | .leaf p v => H (encodeNibbles p true ++ v)
  | .branch p ch => H (encodeNibbles p false ++ (List.ofFn fun i => (ch i).hash H).flatten)

/-- the link a parent stores for a child -/
def PTree.link (H : Bytes → Bytes) (t : PTree) : Option Bytes :=
  if t.isEmpty then none else some (t.hash H)

def branchNode (H : Bytes → Bytes) (p : List Nat) (ch : Fin 16 → PTree) : Node :=
  .branch (toPath p) (List.ofFn fun i => (ch i).link H)

/-- `key = p ++ n :: rest`: the nibble that selects the child, and what is left of the key -/
def stepKey (p key : List Nat) : Option (Nat × List Nat) :=
  if p.isPrefixOf key then
    match key.drop p.length with
    | n :: rest => some (n, rest)
    | [] => none
  else none

def child (ch : Fin 16 → PTree) (n : Nat) : PTree := if h : n < 16 then ch ⟨n, h⟩ else .empty

/-- ordinary lookup -/
def PTree.lookup : PTree → List Nat → Option Bytes
  | .empty, _ => none
  | .leaf p v, key => if p = key then some v else none
  | .branch p ch, key =>
    match stepKey p key with
    | some (n, rest) => if h : n < 16 then (ch ⟨n, h⟩).lookup rest else none
    | none => none

/-- the proof path the tree yields for a key: every node visited by the lookup, root first -/
def PTree.proof (H : Bytes → Bytes) : PTree → List Nat → List Node
  | .empty, _ => []
  | .leaf p v, _ => [.leaf (toPath p) v]
  | .branch p ch, key =>
    branchNode H p ch ::
      (match stepKey p key with
       | some (n, rest) => if h : n < 16 then (ch ⟨n, h⟩).proof H rest else []
       | none => [])

/-- the nibble string spelled by the visited nodes and the links between them -/
def PTree.trace : PTree → List Nat → List Nat
  | .empty, _ => []
  | .leaf p _, _ => p
  | .branch p ch, key =>
    p ++ (match stepKey p key with
          | some (n, rest) =>
            if h : n < 16 then (if (ch ⟨n, h⟩).isEmpty then [] else n :: (ch ⟨n, h⟩).trace rest) else []
          | none => [])

/-- the lookup runs into an absent child of a branch all of whose ancestors (and itself) match the key -/
def PTree.deadEnd : PTree → List Nat → Bool
  | .empty, _ => false
  | .leaf _ _, _ => false
  | .branch p ch, key =>
    match stepKey p key with
    | some (n, rest) => if h : n < 16 then ((ch ⟨n, h⟩).isEmpty || (ch ⟨n, h⟩).deadEnd rest) else false
    | none => false

/-- every path nibble is a nibble -/
def PTree.WF : PTree → Prop
  | .empty => True
  | .leaf p _ => ∀ n ∈ p, n < 16
  | .branch p ch => (∀ n ∈ p, n < 16) ∧ ∀ i, (ch i).WF

/-- the hypothesis `links.index` needs: along the key, no earlier sibling carries the hash of the chosen child -/
def PTree.IndexOK (H : Bytes → Bytes) : PTree → List Nat → Prop
  | .empty, _ => True
  | .leaf _ _, _ => True
  | .branch p ch, key =>
    match stepKey p key with
    | some (n, rest) =>
      if h : n < 16 then
        ((ch ⟨n, h⟩).isEmpty = false →
          (∀ j : Fin 16, j.val < n → (ch j).link H ≠ some ((ch ⟨n, h⟩).hash H)) ∧ (ch ⟨n, h⟩).IndexOK H rest)
      else True
    | none => True

/-- bit `i` set iff link `i` present -/
def maskOf : List (Option Bytes) → Nat
  | [] => 0
  | l :: ls => (if l.isSome then 1 else 0) + 2 * maskOf ls

/-- the wire form read back by `deserialize_patricia_tree_nodes` (the SDK has no writer; this is its inverse) -/
def serializeNode : Node → Bytes
  | .leaf p v => 0xFF :: UInt8.ofNat p.size :: (p.bytes ++ v)
  | .branch p links =>
    0x00 :: UInt8.ofNat p.size :: (p.bytes ++ (leBytes 2 (maskOf links) ++ (links.filterMap id).flatten))

def serialize (nodes : List Node) : Bytes := (nodes.map serializeNode).flatten

/-- what the wire form can represent -/
def Node.WF : Node → Prop
  | .leaf p v => p.size < 256 ∧ p.bytes.length = (p.size + 1) / 2 ∧ v.length = 32
  | .branch p links =>
    p.size < 256 ∧ p.bytes.length = (p.size + 1) / 2 ∧ links.length = 16 ∧ ∀ h, some h ∈ links → h.length = 32

end SymbolVerif.Sdk.Patricia

/-
Model of sdk/python/symbolchain/symbol/IdGenerator.py, symbol/Metadata.py and the
namespace-alias half of symbol/Network.py (Address.from_namespace_id / to_namespace_id).
The hash is a parameter `H` (SHA3-256 in the SDK).
-/
import SymbolVerif.Model.Bytes
namespace SymbolVerif.Sdk
open SymbolVerif.Bytes

/-- `NAMESPACE_FLAG = 1 << 63` (re-checked against the source by `Generated/SdkConsts.lean`). -/
def namespaceFlag : Nat := 2 ^ 63

/-- `generate_mosaic_id(owner_address, nonce)`; `none` models the `OverflowError` of `nonce.to_bytes(4)`. -/
def mosaicId (H : Bytes → Bytes) (addr : Bytes) (nonce : Nat) : Option Nat :=
  match encU 4 nonce with
  | none => none
  | some nb =>
    let r := leNat ((H (nb ++ addr)).take 8)
    some (if r &&& namespaceFlag ≠ 0 then r - namespaceFlag else r)

/-- `generate_namespace_id(name, parent)`; `name` is the UTF-8 encoding. -/
def namespaceId (H : Bytes → Bytes) (name : Bytes) (parent : Nat) : Option Nat :=
  match encU 8 parent with
  | none => none
  | some pb => some (leNat ((H (pb ++ name)).take 8) ||| namespaceFlag)

def isAlphanum (c : Char) : Bool := ('a' ≤ c && c ≤ 'z') || ('0' ≤ c && c ≤ '9')

/-- `is_valid_namespace_name` (truthiness of the Python expression). -/
def isValidName : List Char → Bool
  | [] => false
  | c :: cs => isAlphanum c && (c :: cs).all (fun ch => isAlphanum ch || ch == '_' || ch == '-')

/-- `str.split('.')` on a character list. -/
def splitDot : List Char → List (List Char)
  | [] => [[]]
  | c :: cs =>
    match splitDot cs with
    | [] => [[]]            -- unreachable
    | p :: ps => if c == '.' then [] :: p :: ps else (c :: p) :: ps

def utf8 (cs : List Char) : Bytes := (String.ofList cs).toUTF8.toList

/-- the loop of `generate_namespace_path`: `acc` is the path so far (reversed), `parent` the last id. -/
def pathLoop (H : Bytes → Bytes) : List (List Char) → Nat → List Nat → Option (List Nat)
  | [], _, acc => some acc.reverse
  | p :: ps, parent, acc =>
    if !isValidName p then none
    else match namespaceId H (utf8 p) parent with
      | none => none
      | some i => pathLoop H ps i (i :: acc)

def namespacePath (H : Bytes → Bytes) (fqn : List Char) : Option (List Nat) :=
  pathLoop H (splitDot fqn) 0 []

/-- `generate_mosaic_alias_id`. -/
def mosaicAliasId (H : Bytes → Bytes) (fqn : List Char) : Option Nat :=
  match namespacePath H fqn with
  | some p => p.getLast?
  | none => none

/-- `metadata_generate_key(seed)`: `key_bytes[7] |= 0x80`. An `IndexError` (digest shorter than 8) is `none`. -/
def metadataKey (H : Bytes → Bytes) (seed : Bytes) : Option Nat :=
  let kb := (H seed).take 8
  match kb[7]? with
  | none => none
  | some b => some (leNat (kb.set 7 (b ||| 0x80)))

/-- the two loops of `metadata_update_value`: XOR over the common prefix, then the tail of the longer. -/
def xorTail : Bytes → Bytes → Bytes
  | [], ys => ys
  | xs, [] => xs
  | x :: xs, y :: ys => (x ^^^ y) :: xorTail xs ys

/-- `metadata_update_value(old, new)`. -/
def metadataUpdate (old new : Bytes) : Bytes :=
  if old.isEmpty then new else xorTail old new

/-- `Address.from_namespace_id(ns, id)`: `none` = `ValueError`/`OverflowError`. -/
def aliasAddress (ns : Nat) (networkId : Nat) : Option Bytes :=
  if networkId + 1 ≥ 256 then none
  else match encU 8 ns with
    | none => none
    | some nb => some (UInt8.ofNat (networkId + 1) :: nb ++ zeros (24 - 9))

/-- `Address.to_namespace_id()` on 24 address bytes. -/
def aliasNamespaceId (addr : Bytes) : Option Nat :=
  match addr with
  | [] => none
  | b :: rest => if b &&& 1 = 0 then none else some (leNat (rest.take 8))

end SymbolVerif.Sdk

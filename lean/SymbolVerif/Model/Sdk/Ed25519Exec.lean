/-
Executable edwards25519 arithmetic: a translation of sdk/python/symbolchain/external/ed25519.py
(extended coordinates, formulas add-2008-hwcd-3 / dbl-2008-hwcd) over `Nat` modulo q.
Used only by drivers to instantiate the curve parameters of the models; no theorem depends on it.
Differences from the Python text, none of which changes a result: subtraction is done as
`a + q - b` (coordinates are kept reduced), `inv`/`pow` are square-and-multiply with explicit fuel,
and `scalarmult` walks the bits from the top instead of recursing on `e // 2`.
Core Lean only; total functions.
-/
import SymbolVerif.Model.Bytes
namespace SymbolVerif.Sdk.Ed25519Exec
open SymbolVerif SymbolVerif.Bytes

def q : Nat := 2 ^ 255 - 19
def l : Nat := 2 ^ 252 + 27742317777372353535851937790883648493

/-- `pow(x, e, m)` for `e < 2^fuel`. -/
def powModFuel (m : Nat) : Nat → Nat → Nat → Nat
  | 0, _, _ => 1 % m
  | fuel + 1, x, e =>
    if e = 0 then 1 % m
    else
      let h := powModFuel m fuel x (e / 2)
      let s := h * h % m
      if e % 2 = 1 then s * x % m else s

def powMod (x e m : Nat) : Nat := powModFuel m (e.log2 + 1) x e

/-- `inv(z)` = z^(q-2) mod q. -/
def inv (z : Nat) : Nat := powMod (z % q) (q - 2) q

/-- `a - b mod q` for reduced `b`. -/
def sub (a b : Nat) : Nat := (a + q - b % q) % q

def d : Nat := (q - 121665) * inv 121666 % q
def sqrtM1 : Nat := powMod 2 ((q - 1) / 4) q

def xrecover (y : Nat) : Nat :=
  let xx := sub (y * y) 1 * inv (d * y % q * y + 1) % q
  let x := powMod xx ((q + 3) / 8) q
  let x := if sub (x * x) xx ≠ 0 then x * sqrtM1 % q else x
  if x % 2 ≠ 0 then q - x else x

structure Point where
  x : Nat
  y : Nat
  z : Nat
  t : Nat
deriving Repr, DecidableEq

def By : Nat := 4 * inv 5 % q
def Bx : Nat := xrecover By
def B : Point := ⟨Bx % q, By % q, 1, Bx * By % q⟩
def ident : Point := ⟨0, 1, 1, 0⟩

def add (P Q : Point) : Point :=
  let a := sub P.y P.x * sub Q.y Q.x % q
  let b := (P.y + P.x) * (Q.y + Q.x) % q
  let c := P.t * 2 * d % q * Q.t % q
  let dd := P.z * 2 * Q.z % q
  let e := sub b a
  let f := sub dd c
  let g := (dd + c) % q
  let h := (b + a) % q
  ⟨e * f % q, g * h % q, f * g % q, e * h % q⟩

def double (P : Point) : Point :=
  let a := P.x * P.x % q
  let b := P.y * P.y % q
  let c := 2 * P.z * P.z % q
  let e := sub (sub ((P.x + P.y) * (P.x + P.y)) a) b
  let g := sub b a
  let f := sub g c
  let h := sub (sub 0 a) b
  ⟨e * f % q, g * h % q, f * g % q, e * h % q⟩

/-- `scalarmult(P, e)` for `e < 2^bits`. -/
def scalarMultBits (P : Point) (e : Nat) : Nat → Point
  | 0 => ident
  | i + 1 =>
    -- processes bit `i` last: result = 2 * (e >> (i+1)) P ... built from the top
    let Q := double (scalarMultBits P (e / 2) i)
    if e % 2 = 1 then add Q P else Q

def scalarMult (P : Point) (e : Nat) : Point := scalarMultBits P e (e.log2 + 1)

/-- `scalarmult_B(e)` (which reduces `e` modulo the group order first). -/
def scalarMultB (e : Nat) : Point := scalarMult B (e % l)

/-- `encodeint(y)` -/
def encodeInt (y : Nat) : Bytes := leBytes 32 y

/-- `encodepoint(P)`: 255 bits of y, then the low bit of x. -/
def encodePoint (P : Point) : Bytes :=
  let zi := inv P.z
  let x := P.x * zi % q
  let y := P.y * zi % q
  leBytes 32 (y % 2 ^ 255 + 2 ^ 255 * (x % 2))

/-- the clamped scalar `2^254 + sum(2^i * bit(h, i) for i in range(3, 254))`. -/
def clamp (h : Bytes) : Nat :=
  let n := leNat (h.take 32)
  2 ^ 254 + (n % 2 ^ 254) / 8 * 8

/-- `crypto_scalarmult_ed25519_base(h32)`: clamp, multiply the base point, encode. -/
def scalarBaseClamped (h : Bytes) : Bytes := encodePoint (scalarMultB (clamp h))

/-- `crypto_scalarmult_ed25519_base_noclamp(s)` -/
def scalarBaseNoClamp (s : Bytes) : Bytes := encodePoint (scalarMultB (leNat (s.take 32)))

/-- `publickey_hash_unsafe(sk, hashobj)` -/
def publicKey (H512 : Bytes → Bytes) (sk : Bytes) : Bytes := scalarBaseClamped (H512 sk)

def isOnCurve (P : Point) : Bool :=
  P.z % q ≠ 0 && P.x * P.y % q = P.z * P.t % q &&
    sub (sub (sub (P.y * P.y) (P.x * P.x)) (P.z * P.z)) (d * P.t % q * P.t) = 0

def decodeInt (s : Bytes) : Nat := leNat (s.take 32)

/-- `iscanonical(s)` -/
def isCanonical (s : Bytes) : Bool := leNat (s.take 32) % 2 ^ 255 < q

/-- `decodepoint(s)`; `none` = ValueError('decoding point that is not on curve'). -/
def decodePoint (s : Bytes) : Option Point :=
  let n := leNat (s.take 32)
  let y := n % 2 ^ 255
  let x := xrecover y
  let x := if x % 2 ≠ n / 2 ^ 255 % 2 then q - x else x
  let P : Point := ⟨x, y, 1, x * y % q⟩
  if isOnCurve P then some P else none

/-- `isinmainsubgroup(P)` -/
def isInMainSubgroup (P : Point) : Bool :=
  let H := scalarMult P l
  H.x = 0 && H.y = H.z

/-- projective equality, as tested at the end of `checkvalid_hash`. -/
def pointEq (P Q : Point) : Bool :=
  sub (P.x * Q.z) (Q.x * P.z) = 0 && sub (P.y * Q.z) (Q.y * P.z) = 0

end SymbolVerif.Sdk.Ed25519Exec

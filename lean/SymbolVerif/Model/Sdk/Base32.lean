/-
Model of RFC 4648 base32 as `base64.b32encode` / `base64.b32decode` compute it (the two calls made by
symbol/Network.py and nem/Network.py: Address.__init__ / Address.__str__), and of the alphabet constant
`BASE32_RFC4648_ALPHABET` of symbolchain/Network.py.

A 5-byte group is read as a big-endian number below 2^40 and written as eight base-32 digits, most
significant first. A trailing group of 1-4 bytes is zero-padded to five, encoded, and its last
6/4/3/1 characters are replaced by '=' (exactly the stdlib's table).

Decoding models the unpadded fragment: the result is `none` (binascii.Error) when the length is not a
multiple of 8 or a character is outside the alphabet (this includes lower case, because the SDK calls
`b32decode` without `casefold`, and '=' - see `Address.lean` for why that is exact for addresses).
Core Lean only.
-/
import SymbolVerif.Model.Bytes
namespace SymbolVerif.Sdk.Base32
open SymbolVerif SymbolVerif.Bytes

/-- `BASE32_RFC4648_ALPHABET` (tied to the source text by `Generated/C08Consts.lean`). -/
def alphabet : List Char := "ABCDEFGHIJKLMNOPQRSTUVWXYZ234567".toList

/-- digit -> character (`b32tab`). -/
def charOf (d : Nat) : Char := alphabet.getD d 'A'

/-- character -> digit (`b32rev`); `none` = KeyError -> binascii.Error('Non-base32 digit found'). -/
def valOf (c : Char) : Option Nat :=
  let i := alphabet.idxOf c
  if i < 32 then some i else none

/-- `k` base-`b` digits of `n`, least significant first. -/
def digitsLE (b : Nat) : Nat → Nat → List Nat
  | 0, _ => []
  | k + 1, n => n % b :: digitsLE b k (n / b)

def ofDigitsLE (b : Nat) : List Nat → Nat
  | [] => 0
  | d :: ds => d + b * ofDigitsLE b ds

/-- one full quantum: 5 bytes -> 8 characters. -/
def encGroup (g : Bytes) : List Char :=
  (digitsLE 32 8 (beNat g)).reverse.map charOf

/-- one full quantum back: 8 characters -> 5 bytes (`acc.to_bytes(5, 'big')`). -/
def decGroup (cs : List Char) : Option Bytes :=
  match cs.mapM valOf with
  | none => none
  | some ds => some (beBytes 5 (ofDigitsLE 32 ds.reverse))

/-- number of '=' for a trailing group of `r` bytes. -/
def padCount : Nat → Nat
  | 1 => 6
  | 2 => 4
  | 3 => 3
  | 4 => 1
  | _ => 0

/-- trailing partial group (1-4 bytes). -/
def encTail (g : Bytes) : List Char :=
  (encGroup (g ++ zeros (5 - g.length))).take (8 - padCount g.length) ++ List.replicate (padCount g.length) '='

/-- `base64.b32encode(bs).decode('utf8')`. -/
def encode32 : Bytes → List Char
  | a :: b :: c :: d :: e :: rest => encGroup [a, b, c, d, e] ++ encode32 rest
  | [] => []
  | g => encTail g

/-- `base64.b32decode(s)` on strings without padding; `none` = binascii.Error. -/
def decode32 : List Char → Option Bytes
  | c0 :: c1 :: c2 :: c3 :: c4 :: c5 :: c6 :: c7 :: rest =>
    match decGroup [c0, c1, c2, c3, c4, c5, c6, c7], decode32 rest with
    | some g, some r => some (g ++ r)
    | _, _ => none
  | [] => some []
  | _ => none

end SymbolVerif.Sdk.Base32

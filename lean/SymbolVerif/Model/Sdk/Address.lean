/-
Model of sdk/python/symbolchain/Network.py (public_key_to_address, is_valid_address,
is_valid_address_string), symbol/Network.py and nem/Network.py (Address.__init__ / __str__,
Network.address_hasher / create_address) and the length check of ByteArray.py.

Parameters: `H` the network's address hasher (SHA3-256 on Symbol, Keccak-256 on NEM) and `R`
(RIPEMD-160, symbolchain/ripemd160.py). Exceptions are `none`.
Core Lean only.
-/
import SymbolVerif.Model.Sdk.Base32
namespace SymbolVerif.Sdk
open SymbolVerif SymbolVerif.Bytes

/-- what differs between the two `Address` / `Network` class pairs. -/
structure AddressKind where
  /-- `Address.SIZE` -/
  size : Nat
  /-- `Address.ENCODED_SIZE` -/
  encodedSize : Nat
  /-- how many of the four checksum bytes `create_address` keeps (`checksum[0:3]` on Symbol, all on NEM) -/
  checksumKeep : Nat
  /-- Symbol: the text form is the base32 of the bytes with the final character removed, and parsing
      appends 'A' and removes the final byte. NEM: plain base32. -/
  padded : Bool
deriving Repr, DecidableEq

def symbolKind : AddressKind := ⟨24, 39, 3, true⟩
def nemKind : AddressKind := ⟨25, 40, 4, false⟩

/-- `ByteArray.__init__(fixed_size, raw_bytes)`: `none` = ValueError. -/
def byteArray (size : Nat) (raw : Bytes) : Option Bytes :=
  if size ≠ raw.length then none else some raw

/-- `bytes([identifier])`: `none` = ValueError for an identifier outside `range(256)`. -/
def identifierByte (id : Nat) : Option UInt8 :=
  if id < 256 then some (UInt8.ofNat id) else none

/-- `Network.public_key_to_address(public_key)` on the public key's bytes (no length check there). -/
def publicKeyToAddress (H R : Bytes → Bytes) (k : AddressKind) (id : Nat) (pk : Bytes) : Option Bytes :=
  let partOne := H pk
  let partTwo := R partOne
  match identifierByte id with
  | none => none
  | some b =>
    let version := [b] ++ partTwo
    let checksum := (H version).take 4
    byteArray k.size (version ++ checksum.take k.checksumKeep)

/-- `Network.is_valid_address(address)` on `address.bytes`; `none` = IndexError on empty bytes. -/
def isValidAddress (H : Bytes → Bytes) (id : Nat) (bs : Bytes) : Option Bool :=
  match bs with
  | [] => none
  | b :: _ =>
    if b.toNat ≠ id then some false
    else
      let fromAddress := bs.drop (1 + 20)
      let calculated := (H (bs.take (1 + 20))).take fromAddress.length
      some (decide (fromAddress = calculated))

/-- `str(Address(bytes))`. (`bytes(0)` in the Symbol source is the empty byte string: 24 bytes are
    encoded with one '=' of padding, which `[0:-1]` removes.) -/
def addressToString (k : AddressKind) (a : Bytes) : List Char :=
  if k.padded then (Base32.encode32 (a ++ [])).dropLast else Base32.encode32 a

/-- `Address(str)`: `none` = binascii.Error from `b32decode` or ValueError from `ByteArray`. -/
def addressOfString (k : AddressKind) (s : List Char) : Option Bytes :=
  let raw := if k.padded then (Base32.decode32 (s ++ ['A'])).map List.dropLast else Base32.decode32 s
  match raw with
  | none => none
  | some b => byteArray k.size b

/-- `Network.is_valid_address_string(address_string)`. -/
def isValidAddressString (H : Bytes → Bytes) (k : AddressKind) (id : Nat) (s : List Char) : Option Bool :=
  if k.encodedSize ≠ s.length then some false
  else if s.any (fun ch => !Base32.alphabet.contains ch) then some false
  else match addressOfString k s with
    | none => none
    | some a => isValidAddress H id a

end SymbolVerif.Sdk

/-
Model of the transaction-hash framing of sdk/python/symbolchain/facade/SymbolFacade.py
(`hash_transaction`, `_is_aggregate_transaction`, `_transaction_data_buffer`, `extract_signing_payload`,
`hash_embedded_transactions`) and facade/NemFacade.py (`hash_transaction`).
Inputs are the serialized bytes; the hashes are parameters (`H` = SHA3-256, `K` = Keccak-256 in the SDK).
Core Lean only.
-/
import SymbolVerif.Model.Sdk.Merkle
namespace SymbolVerif.Sdk.TxHash
open SymbolVerif

/-- `TRANSACTION_HEADER_SIZE` = size(4) + reserved(4) + signature(64) + signer(32) + reserved(4);
    re-read from the source into `Generated/C09Consts.lean` and tied by `C09.source_constants_tied`. -/
def headerSize : Nat := 108

/-- `AGGREGATE_HASHED_SIZE` = version/network/type(4) + max_fee(8) + deadline(8) + transactions_hash(32) -/
def aggregateHashedSize : Nat := 52

/-- `sc.TransactionType.AGGREGATE_BONDED.value`, `AGGREGATE_COMPLETE.value` (in the order of the source) -/
def aggregateTypes : List Nat := [16961, 16705]

/-- `transaction_type_offset = TRANSACTION_HEADER_SIZE + 2` -/
def typeOffset : Nat := headerSize + 2

/-- `_is_aggregate_transaction(buffer)`: the little-endian 16-bit type code at offset 110 is an aggregate code.
    `none` models the `IndexError` of a buffer shorter than 112 bytes. -/
def isAggregate (tx : Bytes) : Option Bool :=
  match tx[typeOffset + 1]?, tx[typeOffset]? with
  | some hi, some lo => some (decide ((hi.toNat <<< 8) + lo.toNat ∈ aggregateTypes))
  | _, _ => none

/-- `_transaction_data_buffer(buffer)`: the bytes after the header; for aggregates only the 52-byte head. -/
def dataWindow (tx : Bytes) : Option Bytes :=
  (isAggregate tx).map fun agg =>
    let dataEnd := if agg then headerSize + aggregateHashedSize else tx.length
    (tx.take dataEnd).drop headerSize

/-- `SymbolFacade.hash_transaction`: `sig`, `signer` are the transaction's fields, `seed` the network's
    generation-hash seed, `tx` the result of `transaction.serialize()`. -/
def hashSymbol (H : Bytes → Bytes) (sig signer seed tx : Bytes) : Option Bytes :=
  (dataWindow tx).map fun w => H (sig ++ signer ++ seed ++ w)

/-- the same, reading signature and signer out of the serialized bytes (offsets 8 and 72). -/
def hashSymbolSerialized (H : Bytes → Bytes) (seed tx : Bytes) : Option Bytes :=
  hashSymbol H ((tx.drop 8).take 64) ((tx.drop 72).take 32) seed tx

/-- `SymbolFacade.extract_signing_payload` -/
def signingPayload (seed tx : Bytes) : Option Bytes :=
  (dataWindow tx).map fun w => seed ++ w

/-- `SymbolFacade.hash_embedded_transactions`: each embedded transaction's serialization is hashed, the hashes
    go through a `MerkleHashBuilder`. -/
def hashEmbedded (H : Bytes → Bytes) (embedded : List Bytes) : Bytes :=
  Merkle.build H (embedded.map H)

/-- `NemFacade.hash_transaction`, given the serialization of the non-verifiable transaction. -/
def hashNem (K : Bytes → Bytes) (nonVerifiable : Bytes) : Bytes := K nonVerifiable

/-- NEM layout: type(4) version(1) reserved(2) network(1) timestamp(4) signer_size(4) signer(32) come before
    `signature_size(4) signature(64)`; the non-verifiable form is the serialization without those 68 bytes. -/
def nemSignatureStart : Nat := 48
def nemSignatureEnd : Nat := 116

def nemNonVerifiable (tx : Bytes) : Bytes := tx.take nemSignatureStart ++ tx.drop nemSignatureEnd

/-- `NemFacade.hash_transaction` on the serialization of a (top-level, signed-layout) NEM transaction. -/
def hashNemSerialized (K : Bytes → Bytes) (tx : Bytes) : Bytes := hashNem K (nemNonVerifiable tx)

end SymbolVerif.Sdk.TxHash

/-
Model of shared key derivation:
  * sdk/python/symbolchain/external/ed25519.py: derive_shared_secret_unsafe (with iscanonical / decodepoint / isinmainsubgroup)
  * sdk/python/symbolchain/SharedKey.py: _derive_shared_key (HKDF-SHA256, zero salt, info label)
  * symbol/SharedKey.py (label `catapult`, SHA-512, secret as given), nem/SharedKey.py (label `nem-nis1`, Keccak-512 over the
    re-reversed secret; deprecated: Keccak-256 of secret XOR salt)
The group, the hashes and HKDF are parameters. Core Lean only.
-/
import SymbolVerif.Model.Bytes
import SymbolVerif.Model.Sdk.Ed25519
namespace SymbolVerif.Sdk.SharedKey
open SymbolVerif SymbolVerif.Bytes SymbolVerif.Sdk.Ed25519

/-- the three public-key checks of `derive_shared_secret_unsafe`. -/
structure KeyChecks (G : Type) where
  /-- `iscanonical(pk)`: y coordinate below the field prime -/
  isCanonical : Bytes → Bool
  /-- `decodepoint(pk)`; `none` = ValueError('decoding point that is not on curve') -/
  decodePoint : Bytes → Option G
  /-- `isinmainsubgroup(A)` -/
  inMainSubgroup : G → Bool

inductive DeriveError where
  | notCanonical        -- ValueError('point is not canonical')
  | notOnCurve          -- ValueError('decoding point that is not on curve')
  | notInMainSubgroup   -- ValueError('point is not in main subgroup')
deriving DecidableEq, Repr

variable {G : Type}

/-- `ed25519.derive_shared_secret_unsafe(pk, sk, hashobj)`; the scheme supplies hash and secret preparation
    (NEM passes `key_pair.private_key.bytes[::-1]`, which is the reversed secret the key pair hashes, too). -/
def sharedSecret (S : Scheme G) (K : KeyChecks G) (otherPk sk : Bytes) : Except DeriveError Bytes :=
  if !K.isCanonical otherPk then .error .notCanonical
  else match K.decodePoint otherPk with
    | none => .error .notOnCurve
    | some A =>
      if !K.inMainSubgroup A then .error .notInMainSubgroup
      else .ok (S.encode (S.smul (secretScalar S sk) A))

/-- `HKDF(SHA256, length=32, salt=bytes(32), info=label).derive(ikm)` as a parameter: salt, ikm, info, length. -/
abbrev Hkdf := Bytes → Bytes → Bytes → Nat → Bytes

/-- `b'catapult'` -/
def labelSymbol : Bytes := [0x63, 0x61, 0x74, 0x61, 0x70, 0x75, 0x6C, 0x74]
/-- `b'nem-nis1'` -/
def labelNem : Bytes := [0x6E, 0x65, 0x6D, 0x2D, 0x6E, 0x69, 0x73, 0x31]

/-- `SharedKey._derive_shared_key(other_public_key_bytes, private_key_bytes, info, hash)` -/
def sharedKey (S : Scheme G) (K : KeyChecks G) (hkdf : Hkdf) (label : Bytes) (otherPk sk : Bytes) : Except DeriveError Bytes :=
  match sharedSecret S K otherPk sk with
  | .error e => .error e
  | .ok secret => .ok (hkdf (zeros 32) secret label 32)

/-- `[secret[i] ^ salt[i] for i in range(32)]`; `none` = IndexError (either operand shorter than 32). -/
def xor32 (secret salt : Bytes) : Option Bytes :=
  if secret.length < 32 ∨ salt.length < 32 then none else some (Bytes.xor (secret.take 32) (salt.take 32))

/-- `nem.SharedKey.derive_shared_key_deprecated(key_pair, other_public_key, salt)`: Keccak-256 of secret XOR salt.
    outer `Except` = ValueError of the key checks, inner `none` = IndexError on a short salt. -/
def sharedKeyDeprecated (S : Scheme G) (K : KeyChecks G) (H256 : Bytes → Bytes) (otherPk sk salt : Bytes) :
    Except DeriveError (Option Bytes) :=
  match sharedSecret S K otherPk sk with
  | .error e => .error e
  | .ok secret => .ok ((xor32 secret salt).map H256)

end SymbolVerif.Sdk.SharedKey

/-
Model of sdk/python/symbolchain/Bip32.py (Bip32Node, Bip32), the part of BufferWriter.py it uses, and
facade/SymbolFacade.py / facade/NemFacade.py `bip32_path` / `bip32_node_to_key_pair` together with the
constructors of symbol/KeyPair.py and nem/KeyPair.py they call.

Parameters: `hm key data` = HMAC-SHA512 (`hmac.new(key, data, hashlib.sha512).digest()`),
`toSeed mnemonic passphrase` = the BIP39 seed (`Mnemonic(language).to_seed`), `H512` = SHA-512 (Symbol) or
Keccak-512 (NEM) and `scalarBase` = clamping base-point multiplication returning the encoded point
(`crypto_scalarmult_ed25519_base`; the same function underlies `Ed25519PrivateKey.public_key()`).
Exceptions are `none`. Core Lean only.
-/
import SymbolVerif.Model.Bytes
namespace SymbolVerif.Sdk
open SymbolVerif SymbolVerif.Bytes

/-! ### BufferWriter -/

/-- `BufferWriter(byte_order)`: the byte order and the buffer so far. -/
structure BufferWriter where
  big : Bool
  buffer : Bytes
deriving Repr, DecidableEq

def BufferWriter.new (big : Bool) : BufferWriter := ⟨big, []⟩

/-- `write_int(value, count)`: `value.to_bytes(count, byte_order)`; `none` = OverflowError. -/
def BufferWriter.writeInt (w : BufferWriter) (value count : Nat) : Option BufferWriter :=
  if value < 256 ^ count then
    some { w with buffer := w.buffer ++ (if w.big then beBytes count value else leBytes count value) }
  else none

def BufferWriter.writeBytes (w : BufferWriter) (value : Bytes) : BufferWriter :=
  { w with buffer := w.buffer ++ value }

/-! ### Bip32Node -/

/-- `PrivateKey.SIZE` -/
def privateKeySize : Nat := 32

structure Bip32Node where
  privateKey : Bytes
  chainCode : Bytes
deriving Repr, DecidableEq

/-- `Bip32Node(hmac_key, data)`; `none` = ValueError of `PrivateKey(...)` when the MAC is shorter than 32 bytes. -/
def Bip32Node.mk' (hm : Bytes → Bytes → Bytes) (hmacKey data : Bytes) : Option Bip32Node :=
  let r := hm hmacKey data
  if privateKeySize ≠ (r.take privateKeySize).length then none
  else some ⟨r.take privateKeySize, r.drop privateKeySize⟩

/-- `0x80000000 | identifier` -/
def hardened (identifier : Nat) : Nat := 0x80000000 ||| identifier

/-- `derive_one(identifier)` for a non-negative identifier. -/
def Bip32Node.deriveOne (hm : Bytes → Bytes → Bytes) (n : Bip32Node) (identifier : Nat) : Option Bip32Node := do
  let w := BufferWriter.new true
  let w ← w.writeInt 0 1
  let w := w.writeBytes n.privateKey
  let w ← w.writeInt (hardened identifier) 4
  Bip32Node.mk' hm n.chainCode w.buffer

/-- `derive_one` on a Python int: a negative identifier makes `0x80000000 | identifier` negative and
    `to_bytes` raises OverflowError. -/
def Bip32Node.deriveOneInt (hm : Bytes → Bytes → Bytes) (n : Bip32Node) : Int → Option Bip32Node
  | .ofNat i => n.deriveOne hm i
  | .negSucc _ => none

/-- `derive_path(path)`: the loop `next_node = next_node.derive_one(identifier)`. -/
def Bip32Node.derivePath (hm : Bytes → Bytes → Bytes) (n : Bip32Node) : List Nat → Option Bip32Node
  | [] => some n
  | i :: rest =>
    match n.deriveOne hm i with
    | none => none
    | some child => child.derivePath hm rest

def Bip32Node.derivePathInt (hm : Bytes → Bytes → Bytes) (n : Bip32Node) : List Int → Option Bip32Node
  | [] => some n
  | i :: rest =>
    match n.deriveOneInt hm i with
    | none => none
    | some child => child.derivePathInt hm rest

/-! ### Bip32 -/

/-- `Bip32(curve_name).root_hmac_key`: `(curve_name + ' seed').encode('utf8')`. -/
def rootHmacKey (curveName : String) : Bytes := ofString (curveName ++ " seed")

/-- `Bip32(curve_name).from_seed(seed)`. -/
def fromSeed (hm : Bytes → Bytes → Bytes) (curveName : String) (seed : Bytes) : Option Bip32Node :=
  Bip32Node.mk' hm (rootHmacKey curveName) seed

/-- `Bip32(curve_name, language).from_mnemonic(mnemonic, password)`. -/
def fromMnemonic (hm : Bytes → Bytes → Bytes) (toSeed : String → String → Bytes) (curveName : String)
    (mnemonic password : String) : Option Bip32Node :=
  fromSeed hm curveName (toSeed mnemonic password)

/-! ### facades -/

/-- `SymbolFacade.BIP32_CURVE_NAME`, `NemFacade.BIP32_CURVE_NAME` -/
def symbolCurveName : String := "ed25519"
def nemCurveName : String := "ed25519-keccak"

def purpose : Nat := 44
def symbolMainnetCoinType : Nat := 4343
def nemMainnetCoinType : Nat := 43
def testCoinType : Nat := 1

/-- `SymbolFacade.bip32_path(account_id)`; the network is known by its name. -/
def symbolBip32Path (networkName : String) (accountId : Nat) : List Nat :=
  [purpose, if "mainnet" = networkName then symbolMainnetCoinType else testCoinType, accountId, 0, 0]

/-- `NemFacade.bip32_path(account_id)`. -/
def nemBip32Path (networkName : String) (accountId : Nat) : List Nat :=
  [purpose, if "mainnet" = networkName then nemMainnetCoinType else testCoinType, accountId, 0, 0]

/-- what a key pair object holds: the bytes that are hashed to obtain the signing scalar (`secret`), the
    public key, and what the `private_key` property shows. -/
structure KeyPairModel where
  secret : Bytes
  publicKey : Bytes
  shownPrivateKey : Bytes
deriving Repr, DecidableEq

/-- Ed25519 public key of a 32-byte secret under the 512-bit hash `H512`: `scalarBase (H512 secret)[:32]`. -/
def ed25519PublicKey (H512 : Bytes → Bytes) (scalarBase : Bytes → Bytes) (secret : Bytes) : Bytes :=
  scalarBase ((H512 secret).take 32)

/-- `symbol.KeyPair(private_key)`. -/
def symbolKeyPair (H512 : Bytes → Bytes) (scalarBase : Bytes → Bytes) (privateKey : Bytes) : KeyPairModel :=
  ⟨privateKey, ed25519PublicKey H512 scalarBase privateKey, privateKey⟩

/-- `nem.KeyPair(private_key)`: `_sk = private_key.bytes[::-1]`, the `private_key` property shows `_sk[::-1]`. -/
def nemKeyPair (H512 : Bytes → Bytes) (scalarBase : Bytes → Bytes) (privateKey : Bytes) : KeyPairModel :=
  let sk := privateKey.reverse
  ⟨sk, ed25519PublicKey H512 scalarBase sk, sk.reverse⟩

/-- `PrivateKey(bytes)`: `none` = ValueError unless 32 bytes. -/
def privateKeyOf (raw : Bytes) : Option Bytes :=
  if privateKeySize ≠ raw.length then none else some raw

/-- `SymbolFacade.bip32_node_to_key_pair(node)`. -/
def symbolNodeToKeyPair (H512 : Bytes → Bytes) (scalarBase : Bytes → Bytes) (n : Bip32Node) : KeyPairModel :=
  symbolKeyPair H512 scalarBase n.privateKey

/-- `NemFacade.bip32_node_to_key_pair(node)`: `KeyPair(PrivateKey(node.private_key.bytes[::-1]))`. -/
def nemNodeToKeyPair (H512 : Bytes → Bytes) (scalarBase : Bytes → Bytes) (n : Bip32Node) : Option KeyPairModel :=
  match privateKeyOf n.privateKey.reverse with
  | none => none
  | some pk => some (nemKeyPair H512 scalarBase pk)

end SymbolVerif.Sdk

/-
Model of encrypted message framing:
  * sdk/python/symbolchain/Cipher.py (AesGcmCipher / AesCbcCipher wrappers: tag appended / PKCS7 padding)
  * sdk/python/symbolchain/impl/CipherHelpers.py (tag|iv|ct and salt|iv|ct framing)
  * symbol/MessageEncoder.py (0x01 marker, delegation marker + ephemeral key, deprecated hex variant)
  * nem/MessageEncoder.py (GCM, deprecated CBC with salt)
AES itself is a parameter (`Aead`, `BlockCipher`), as are group, hashes and HKDF. Random choices of the code (IV, salt,
ephemeral key) are arguments. A result `none` means an exception escapes the call. Core Lean only.
-/
import SymbolVerif.Model.Bytes
import SymbolVerif.Model.Sdk.Ed25519
import SymbolVerif.Model.Sdk.SharedKey
namespace SymbolVerif.Sdk.Message
open SymbolVerif SymbolVerif.Bytes SymbolVerif.Sdk.Ed25519 SymbolVerif.Sdk.SharedKey

inductive CipherError where
  | invalidTag   -- cryptography.exceptions.InvalidTag
  | refused      -- ValueError of the library (authentication tag shorter than 16 bytes, unsupported IV size): not caught
deriving DecidableEq, Repr

/-- raw AES-GCM: `enc key iv clear = (ciphertext, tag)`, `dec key iv tag ciphertext`. -/
structure Aead where
  enc : Bytes → Bytes → Bytes → Bytes × Bytes
  dec : Bytes → Bytes → Bytes → Bytes → Except CipherError Bytes

/-- raw AES-CBC on whole blocks: `enc key iv padded`, `dec key iv ciphertext`. -/
structure BlockCipher where
  enc : Bytes → Bytes → Bytes → Bytes
  dec : Bytes → Bytes → Bytes → Bytes

def tagSize : Nat := 16      -- AesGcmCipher.TAG_SIZE
def gcmIvSize : Nat := 12    -- GCM_IV_SIZE
def cbcIvSize : Nat := 16    -- CBC_IV_SIZE
def saltSize : Nat := 32     -- SALT_SIZE

/-! ### Cipher.py -/

/-- `AesGcmCipher.encrypt`: ciphertext with the tag appended. -/
def gcmEncrypt (A : Aead) (key clear iv : Bytes) : Bytes :=
  let (ct, tag) := A.enc key iv clear
  ct ++ tag

/-- `AesGcmCipher.decrypt`: the last 16 bytes are the tag (shorter input: the library refuses the short tag). -/
def gcmDecrypt (A : Aead) (key ctTag iv : Bytes) : Except CipherError Bytes :=
  if ctTag.length < tagSize then .error .refused
  else A.dec key iv (ctTag.drop (ctTag.length - tagSize)) (ctTag.take (ctTag.length - tagSize))

/-- `padding.PKCS7(128).padder()` -/
def pkcs7Pad (clear : Bytes) : Bytes :=
  let n := 16 - clear.length % 16
  clear ++ List.replicate n (UInt8.ofNat n)

/-- `padding.PKCS7(128).unpadder()`; `none` = ValueError('Invalid padding bytes'). -/
def pkcs7Unpad (padded : Bytes) : Option Bytes :=
  match padded.getLast? with
  | none => none
  | some b =>
    let n := b.toNat
    if n = 0 ∨ 16 < n ∨ padded.length < n ∨ padded.length % 16 ≠ 0 then none
    else if (padded.drop (padded.length - n)).all (· == b) then some (padded.take (padded.length - n)) else none

/-- `AesCbcCipher.encrypt` -/
def cbcEncrypt (C : BlockCipher) (key clear iv : Bytes) : Bytes := C.enc key iv (pkcs7Pad clear)

/-- `AesCbcCipher.decrypt`; `none` = one of the three ValueErrors ('Invalid IV size', 'The length of the provided data is
    not a multiple of the block length', 'Invalid padding bytes'), all of which nem `try_decode` swallows. -/
def cbcDecrypt (C : BlockCipher) (key ct iv : Bytes) : Option Bytes :=
  if iv.length ≠ cbcIvSize ∨ ct.length % 16 ≠ 0 then none else pkcs7Unpad (C.dec key iv ct)

/-! ### CipherHelpers.py -/

/-- the parameters of one network's message encoder. -/
structure Env (G : Type) where
  scheme : Scheme G
  checks : KeyChecks G
  hkdf : Hkdf
  label : Bytes
  aead : Aead

variable {G : Type}

def Env.sharedKey (E : Env G) (otherPk sk : Bytes) : Except DeriveError Bytes :=
  SharedKey.sharedKey E.scheme E.checks E.hkdf E.label otherPk sk

/-- `encode_aes_gcm`: (tag, iv, ciphertext); `none` = ValueError of the key checks. -/
def encodeAesGcm (E : Env G) (sk recipientPk iv clear : Bytes) : Option (Bytes × Bytes × Bytes) :=
  match E.sharedKey recipientPk sk with
  | .error _ => none
  | .ok key =>
    let out := gcmEncrypt E.aead key clear iv
    some (out.drop (out.length - tagSize), iv, out.take (out.length - tagSize))

/-- `decode_aes_gcm` after the shared key is known: tag = first 16 bytes, iv = next 12, rest = ciphertext. -/
def decodeAesGcmWith (A : Aead) (key encoded : Bytes) : Except CipherError Bytes :=
  let tag := encoded.take tagSize
  let iv := (encoded.drop tagSize).take gcmIvSize
  let data := encoded.drop (tagSize + gcmIvSize)
  gcmDecrypt A key (data ++ tag) iv

inductive DecodeOutcome where
  | decoded (clear : Bytes)
  | invalidTag
  | keyError (e : DeriveError)
  | refused
deriving DecidableEq, Repr

/-- `decode_aes_gcm(shared_key_class, key_pair, recipient_public_key, encoded_message)` -/
def decodeAesGcm (E : Env G) (sk otherPk encoded : Bytes) : DecodeOutcome :=
  match E.sharedKey otherPk sk with
  | .error e => .keyError e
  | .ok key =>
    match decodeAesGcmWith E.aead key encoded with
    | .ok clear => .decoded clear
    | .error .invalidTag => .invalidTag
    | .error .refused => .refused

/-! ### symbol/MessageEncoder.py -/

def delegationMarker : Bytes := [0xFE, 0x2A, 0x80, 0x61, 0x57, 0x73, 0x01, 0xE2]

/-- `MessageEncoder(key_pair).encode(recipient_public_key, message)`: `0x01 ‖ tag ‖ iv ‖ ciphertext`. -/
def encodeSymbol (E : Env G) (sk recipientPk iv clear : Bytes) : Option Bytes :=
  (encodeAesGcm E sk recipientPk iv clear).map fun (tag, iv, ct) => 1 :: (tag ++ iv ++ ct)

/-- `MessageEncoder(key_pair).try_decode(recipient_public_key, encoded_message)`.
    `some (true, m)`: decoded; `some (false, original)`: not decoded; `none`: an exception escapes (empty message, key
    check failure other than the caught one, library refusal of a short tag). -/
def tryDecodeSymbol (E : Env G) (sk recipientPk encoded : Bytes) : Option (Bool × Bytes) :=
  match encoded with
  | [] => none
  | b :: rest =>
    if b = 1 then
      match decodeAesGcm E sk recipientPk rest with
      | .decoded clear => some (true, clear)
      | .invalidTag => some (false, encoded)
      | .keyError _ => none
      | .refused => none
    else if b = 0xFE ∧ encoded.take 8 = delegationMarker then
      let ephemeral := (encoded.drop 8).take 32
      if ephemeral.length ≠ 32 then none      -- PublicKey(...) ValueError (wrong size): re-raised
      else match decodeAesGcm E sk ephemeral (encoded.drop 40) with
        | .decoded clear => some (true, clear)
        | .invalidTag => some (false, encoded)
        | .keyError .notInMainSubgroup => some (false, encoded)
        | .keyError _ => none
        | .refused => none
    else some (false, encoded)

/-- `encode_persistent_harvesting_delegation(node_public_key, remote_key_pair, vrf_root_key_pair)` with the ephemeral secret
    and IV as arguments: `marker ‖ ephemeral public key ‖ tag ‖ iv ‖ ciphertext` of `remote secret ‖ vrf secret`. -/
def encodeDelegation (E : Env G) (ephemeralSk nodePk iv remoteSk vrfSk : Bytes) : Option Bytes :=
  (encodeAesGcm E ephemeralSk nodePk iv (remoteSk ++ vrfSk)).map fun (tag, iv, ct) =>
    delegationMarker ++ publicKey E.scheme ephemeralSk ++ tag ++ iv ++ ct

def hexDigitLower (n : Nat) : UInt8 := UInt8.ofNat (if n < 10 then 48 + n else 87 + n)

/-- `hexlify(data)` (lower case ASCII) -/
def hexlify (bs : Bytes) : Bytes := bs.flatMap fun b => [hexDigitLower (b.toNat / 16), hexDigitLower (b.toNat % 16)]

def hexValue (c : UInt8) : Option Nat :=
  if 48 ≤ c.toNat ∧ c.toNat ≤ 57 then some (c.toNat - 48)
  else if 97 ≤ c.toNat ∧ c.toNat ≤ 102 then some (c.toNat - 87)
  else if 65 ≤ c.toNat ∧ c.toNat ≤ 70 then some (c.toNat - 55)
  else none

/-- `unhexlify` of ASCII text; `none` = binascii.Error (odd length, non-hex digit). -/
def unhexlify : Bytes → Option Bytes
  | [] => some []
  | [_] => none
  | a :: b :: rest =>
    match hexValue a, hexValue b, unhexlify rest with
    | some x, some y, some r => some (UInt8.ofNat (16 * x + y) :: r)
    | _, _, _ => none

inductive HexOutcome where
  | ok (bs : Bytes)
  | caught        -- UnicodeDecodeError or binascii.Error: swallowed by try_decode_deprecated
  | escapes       -- valid UTF-8 containing non-ASCII characters: `unhexlify(str)` raises a plain ValueError
deriving DecidableEq, Repr

/-- `unhexlify(data.decode('utf8'))` -/
def unhexlifyUtf8 (data : Bytes) : HexOutcome :=
  if data.all (·.toNat < 128) then
    match unhexlify data with
    | some bs => .ok bs
    | none => .caught
  else if (String.fromUTF8? (ByteArray.mk data.toArray)).isSome then .escapes else .caught

/-- `encode_deprecated`: `0x01 ‖ hexlify(encode(...)[1:])` -/
def encodeSymbolDeprecated (E : Env G) (sk recipientPk iv clear : Bytes) : Option Bytes :=
  (encodeSymbol E sk recipientPk iv clear).map fun m => 1 :: hexlify (m.drop 1)

/-- `try_decode_deprecated`: a type-1 message whose tail is hex is un-hexed first (and on failure it is the un-hexed
    message that comes back, as in the code); otherwise plain `try_decode`. -/
def tryDecodeSymbolDeprecated (E : Env G) (sk recipientPk encoded : Bytes) : Option (Bool × Bytes) :=
  match encoded with
  | [] => none
  | b :: rest =>
    if b = 1 then
      match unhexlifyUtf8 rest with
      | .ok bs => tryDecodeSymbol E sk recipientPk (1 :: bs)
      | .caught => tryDecodeSymbol E sk recipientPk encoded
      | .escapes => none
    else tryDecodeSymbol E sk recipientPk encoded

/-! ### nem/MessageEncoder.py (messages are the `message` bytes of a `Message` whose type must be ENCRYPTED = 2) -/

def nemEncryptedType : Nat := 2

/-- the extra parameters of the NEM encoder: Keccak-256 and raw AES-CBC for the deprecated format. -/
structure NemExtra where
  H256 : Bytes → Bytes
  block : BlockCipher

/-- `encode`: `tag ‖ iv ‖ ciphertext` -/
def encodeNem (E : Env G) (sk recipientPk iv clear : Bytes) : Option Bytes :=
  (encodeAesGcm E sk recipientPk iv clear).map fun (tag, iv, ct) => tag ++ iv ++ ct

/-- `encode_deprecated`: `salt ‖ iv ‖ AES-CBC(PKCS7(clear))` under Keccak-256(shared secret XOR salt). -/
def encodeNemDeprecated (E : Env G) (X : NemExtra) (sk recipientPk salt iv clear : Bytes) : Option Bytes :=
  match sharedKeyDeprecated E.scheme E.checks X.H256 recipientPk sk salt with
  | .ok (some key) => some (salt ++ iv ++ cbcEncrypt X.block key clear iv)
  | _ => none

/-- `decode_aes_cbc`; outer `none` = an exception escapes (key checks, short salt), inner `none` = swallowed ValueError. -/
def decodeAesCbc (E : Env G) (X : NemExtra) (sk otherPk encoded : Bytes) : Option (Option Bytes) :=
  let salt := encoded.take saltSize
  let iv := (encoded.drop saltSize).take cbcIvSize
  let data := encoded.drop (saltSize + cbcIvSize)
  match sharedKeyDeprecated E.scheme E.checks X.H256 otherPk sk salt with
  | .ok (some key) => some (cbcDecrypt X.block key data iv)
  | _ => none

/-- `try_decode(recipient_public_key, encoded_message)`: GCM first; on an invalid tag the deprecated CBC format is tried. -/
def tryDecodeNem (E : Env G) (X : NemExtra) (sk recipientPk : Bytes) (messageType : Nat) (encoded : Bytes) : Option (Bool × Bytes) :=
  if messageType ≠ nemEncryptedType then none     -- RuntimeError('invalid message format')
  else match decodeAesGcm E sk recipientPk encoded with
    | .decoded clear => some (true, clear)
    | .keyError _ => none
    | .refused => none
    | .invalidTag =>
      match decodeAesCbc E X sk recipientPk encoded with
      | none => none
      | some (some clear) => some (true, clear)
      | some none => some (false, encoded)

end SymbolVerif.Sdk.Message

/-
Model of the Merkle half of sdk/python/symbolchain/symbol/Merkle.py:
`MerkleHashBuilder.update/final` (the in-place loop, with its `num_remaining_hashes += 1` trick),
`prove_merkle`, and the textbook specification (`root`, `auditPath`) they are compared with.
The hash is a parameter `H` (SHA3-256 in the SDK). Core Lean only.
-/
import SymbolVerif.Model.Bytes
namespace SymbolVerif.Sdk.Merkle
open SymbolVerif

/-- `Hash256.zero()` -/
def zeroHash : Bytes := Bytes.zeros 32

/-! ### `MerkleHashBuilder` -/

/-- `update`: `self.hashes.append(component_hash.bytes)` -/
def update (hashes : List Bytes) (h : Bytes) : List Bytes := hashes ++ [h]

/-- The inner `while i < num_remaining_hashes` loop of `final`. State: the list `self.hashes`
    (overwritten in place, never shortened), `n = num_remaining_hashes`, the index `i`.
    Returns the list and `n` as they are when the loop exits.
    Termination measure: `n - i` (in the duplication branch `n` grows by one and `i` by two). -/
def innerLoop (H : Bytes → Bytes) (hs : List Bytes) (n i : Nat) : List Bytes × Nat :=
  if i < n then
    if i + 1 < n then
      innerLoop H (hs.set (i / 2) (H (hs[i]?.getD [] ++ hs[i + 1]?.getD []))) n (i + 2)
    else
      -- odd number of hashes: duplicate the last one, `num_remaining_hashes += 1`
      innerLoop H (hs.set (i / 2) (H (hs[i]?.getD [] ++ hs[i]?.getD []))) (n + 1) (i + 2)
  else (hs, n)
termination_by n - i
decreasing_by all_goals omega

/-- after the inner loop started at `i` (with `n - i` iterations' worth left), `n` has been rounded up
    to make `n - i` even. This is what the outer loop's termination rests on. -/
theorem innerLoop_snd (H : Bytes → Bytes) (hs : List Bytes) (n i : Nat) (h : i ≤ n) :
    (innerLoop H hs n i).2 = n + (n - i) % 2 := by
  induction hs, n, i using innerLoop.induct H with
  | case1 hs n i h1 h2 ih =>
    rw [innerLoop, if_pos h1, if_pos h2, ih (by omega)]; omega
  | case2 hs n i h1 h2 ih =>
    rw [innerLoop, if_pos h1, if_neg h2, ih (by omega)]; omega
  | case3 hs n i h1 =>
    rw [innerLoop, if_neg h1]
    have : n - i = 0 := by omega
    simp [this]

/-- The outer `while num_remaining_hashes > 1` loop: one inner pass, then `num_remaining_hashes //= 2`.
    Termination measure: `n` (for `n ≥ 2`, `(n + n % 2) / 2 < n`). -/
def outerLoop (H : Bytes → Bytes) (hs : List Bytes) (n : Nat) : List Bytes :=
  if h : 1 < n then
    outerLoop H (innerLoop H hs n 0).1 ((innerLoop H hs n 0).2 / 2)
  else hs
termination_by n
decreasing_by
  rw [innerLoop_snd H hs n 0 (Nat.zero_le _)]
  omega

/-- `final()`: the state of `self.hashes` after the call. -/
def finalState (H : Bytes → Bytes) (hashes : List Bytes) : List Bytes :=
  outerLoop H hashes hashes.length

/-- `final()`: the returned hash. -/
def final (H : Bytes → Bytes) (hashes : List Bytes) : Bytes :=
  if hashes.isEmpty then zeroHash else (finalState H hashes)[0]?.getD []

/-- the whole life of a builder: `update` for each leaf, then `final`. -/
def build (H : Bytes → Bytes) (leaves : List Bytes) : Bytes :=
  final H (leaves.foldl update [])

/-! ### the textbook definition -/

/-- one level up: hash adjacent pairs; an unpaired last node is paired with itself. -/
def pairUp (H : Bytes → Bytes) : List Bytes → List Bytes
  | [] => []
  | [a] => [H (a ++ a)]
  | a :: b :: rest => H (a ++ b) :: pairUp H rest

theorem pairUp_length (H : Bytes → Bytes) (l : List Bytes) : (pairUp H l).length = (l.length + 1) / 2 := by
  induction l using pairUp.induct with
  | case1 => rfl
  | case2 a => simp [pairUp]
  | case3 a b rest ih => simp only [pairUp, List.length_cons, ih]; omega

/-- Merkle root: zero hash for no leaves, the leaf itself for one leaf, otherwise the root of the level above. -/
def root (H : Bytes → Bytes) (l : List Bytes) : Bytes :=
  match l with
  | [] => zeroHash
  | [h] => h
  | a :: b :: rest => root H (pairUp H (a :: b :: rest))
termination_by l.length
decreasing_by simp only [pairUp_length, List.length_cons]; omega

/-! ### audit paths -/

/-- `MerklePart(hash, is_left)` -/
structure Part where
  hash : Bytes
  isLeft : Bool
  deriving DecidableEq, Repr

/-- `calculate_next_hash` -/
def nextHash (H : Bytes → Bytes) (working : Bytes) (part : Part) : Bytes :=
  if part.isLeft then H (part.hash ++ working) else H (working ++ part.hash)

/-- `prove_merkle(leaf_hash, merkle_path, root_hash)` -/
def proveMerkle (H : Bytes → Bytes) (leaf : Bytes) (path : List Part) (rootHash : Bytes) : Bool :=
  rootHash == path.foldl (nextHash H) leaf

/-- the sibling of position `i` on one level: the neighbour in the pair, or the node itself when it is the
    unpaired last node; it stands on the left exactly when `i` is odd. -/
def sibling (l : List Bytes) (i : Nat) : Part :=
  if i % 2 = 1 then ⟨l[i - 1]?.getD [], true⟩
  else ⟨(l[i + 1]?).getD (l[i]?.getD []), false⟩

/-- the honest audit path of leaf `i`, leaf to root. -/
def auditPath (H : Bytes → Bytes) (l : List Bytes) (i : Nat) : List Part :=
  match l with
  | [] => []
  | [_] => []
  | a :: b :: rest => sibling (a :: b :: rest) i :: auditPath H (pairUp H (a :: b :: rest)) (i / 2)
termination_by l.length
decreasing_by simp only [pairUp_length, List.length_cons]; omega

/-- the shape of the honest path of leaf `i` among `n` leaves: one side flag per level, flag `k` being bit `k` of `i` -/
def pathShape (n i : Nat) : List Bool :=
  if _h : n ≤ 1 then [] else (i % 2 == 1) :: pathShape ((n + 1) / 2) (i / 2)
termination_by n
decreasing_by omega

end SymbolVerif.Sdk.Merkle

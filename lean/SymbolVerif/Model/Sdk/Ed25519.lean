/-
Model of the two Ed25519 signature schemes of the SDK
  * sdk/python/symbolchain/symbol/KeyPair.py (KeyPair, Verifier; RFC 8032 Ed25519 with SHA-512 through `cryptography`)
  * sdk/python/symbolchain/nem/KeyPair.py    (KeyPair, Verifier; Keccak-512, byte-reversed secret, libsodium scalar/point calls)
generic over the group: `Curve G` is a plain record of operations (no laws; the laws are explicit hypotheses of the
theorems in Properties/C07.lean) and the hash is a field of `Scheme`. Core Lean only.
-/
import SymbolVerif.Model.Bytes
namespace SymbolVerif.Sdk.Ed25519
open SymbolVerif SymbolVerif.Bytes

/-- the group operations the schemes use. `decode` is the verifier's reading of a public key: `none` = the key is refused
    (NEM: `crypto_core_ed25519_is_valid_point`; Symbol: the library's point decoding). -/
structure Curve (G : Type) where
  add : G → G → G
  neg : G → G
  zero : G
  smul : Nat → G → G
  B : G
  L : Nat
  encode : G → Bytes
  decode : Bytes → Option G

/-- a curve plus the scheme's choices: 512-bit hash `H`, the bytes of the secret that get hashed (`prepareSecret`), and
    `strict` = the libsodium call conventions of nem/KeyPair.py (zero `S` refused outright, zero scalars are a library error). -/
structure Scheme (G : Type) extends Curve G where
  H : Bytes → Bytes
  prepareSecret : Bytes → Bytes
  strict : Bool

/-- Symbol: SHA-512 (passed in), secret as given. -/
def symbolScheme {G : Type} (C : Curve G) (sha512 : Bytes → Bytes) : Scheme G :=
  { C with H := sha512, prepareSecret := id, strict := false }

/-- NEM: Keccak-512 (passed in), secret byte-reversed (`private_key.bytes[::-1]`). -/
def nemScheme {G : Type} (C : Curve G) (keccak512 : Bytes → Bytes) : Scheme G :=
  { C with H := keccak512, prepareSecret := List.reverse, strict := true }

variable {G : Type}

/-- `a[0] &= 0xF8; a[31] &= 0x7F; a[31] |= 0x40` on the first 32 bytes, read little-endian
    (= `2^254 + sum(2^i * bit(h, i) for i in range(3, 254))` of external/ed25519.py). -/
def clamp (h : Bytes) : Nat :=
  2 ^ 254 + (leNat (h.take 32) % 2 ^ 254) / 8 * 8

def hashedSecret (S : Scheme G) (sk : Bytes) : Bytes := S.H (S.prepareSecret sk)

/-- the secret scalar `a`. -/
def secretScalar (S : Scheme G) (sk : Bytes) : Nat := clamp (hashedSecret S sk)

def publicPoint (S : Scheme G) (sk : Bytes) : G := S.smul (secretScalar S sk) S.B

/-- `KeyPair(private_key).public_key` -/
def publicKey (S : Scheme G) (sk : Bytes) : Bytes := S.encode (publicPoint S sk)

/-- 512-bit little-endian reading of a digest, reduced modulo the group order (`crypto_core_ed25519_scalar_reduce`). -/
def hashScalar (S : Scheme G) (bs : Bytes) : Nat := leNat (S.H bs) % S.L

/-- `r = H(hashed_secret[32:] ‖ message) mod L` -/
def nonce (S : Scheme G) (sk m : Bytes) : Nat := hashScalar S ((hashedSecret S sk).drop 32 ++ m)

/-- `h = H(encoded_R ‖ public_key ‖ message) mod L` -/
def challenge (S : Scheme G) (R pk m : Bytes) : Nat := hashScalar S (R ++ pk ++ m)

/-- the scalar half `S = (r + h·a) mod L` of the signature of `m`. -/
def signatureScalar (S : Scheme G) (sk m : Bytes) : Nat :=
  let r := nonce S sk m
  let R := S.encode (S.smul r S.B)
  (r + challenge S R (publicKey S sk) m * secretScalar S sk) % S.L

/-- `KeyPair.sign(message)`: `R ‖ S`. `none` = library error of the strict (NEM) variant when the reduced nonce is zero
    (`crypto_scalarmult_ed25519_base_noclamp` refuses the zero scalar). -/
def sign (S : Scheme G) (sk m : Bytes) : Option Bytes :=
  let r := nonce S sk m
  if S.strict && r == 0 then none
  else some (S.encode (S.smul r S.B) ++ leBytes 32 (signatureScalar S sk m))

inductive Verdict where
  | accept
  | reject
  | zeroKey        -- `Verifier(public_key)` raised ValueError('public key cannot be zero')
  | libraryError   -- strict variant: libsodium refused a zero scalar (challenge hash ≡ 0 mod L)
deriving DecidableEq, Repr

/-- `Verifier.verify(message, signature)` after construction succeeded. `sig` is `R ‖ S` (64 bytes by the `Signature` type). -/
def verifyCore (S : Scheme G) (pk m sig : Bytes) : Verdict :=
  let R := sig.take 32
  let s := leNat (sig.drop 32)
  if S.strict && s == 0 then .reject            -- `_is_canonical_s`: zero S
  else if S.L ≤ s then .reject                   -- non-reduced S
  else
    let h := challenge S R pk m
    match S.decode pk with
    | none => .reject
    | some A =>
      if S.strict && h == 0 then .libraryError
      else if S.encode (S.add (S.smul s S.B) (S.neg (S.smul h A))) == R then .accept else .reject

/-- `Verifier(public_key).verify(message, signature)` -/
def verify (S : Scheme G) (pk m sig : Bytes) : Verdict :=
  if pk == zeros 32 then .zeroKey else verifyCore S pk m sig

end SymbolVerif.Sdk.Ed25519

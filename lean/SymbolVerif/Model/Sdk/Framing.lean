/-
Model of what the facades sign.
  * SymbolFacade.extract_signing_payload / _transaction_data_buffer / _is_aggregate_transaction / cosign_transaction_hash
  * NemFacade.extract_signing_payload = serialization of nem/TransactionFactory.to_non_verifiable_transaction, at byte level
  * symbol/VotingKeysGenerator.generate
Transactions are their serialized bytes (as `transaction.serialize()` gives them). Core Lean only.
-/
import SymbolVerif.Model.Bytes
import SymbolVerif.Model.Sdk.Ed25519
namespace SymbolVerif.Sdk.Framing
open SymbolVerif SymbolVerif.Bytes SymbolVerif.Sdk.Ed25519

/-! ### Symbol -/

/-- `TRANSACTION_HEADER_SIZE` (size 4, reserved 4, signature 64, signer 32, reserved 4); tied to the source by `C07.source_constants_tied`. -/
def transactionHeaderSize : Nat := 108

/-- `AGGREGATE_HASHED_SIZE` (version/network/type 4, max_fee 8, deadline 8, transactions_hash 32). -/
def aggregateHashedSize : Nat := 52

/-- `[sc.TransactionType.AGGREGATE_BONDED.value, sc.TransactionType.AGGREGATE_COMPLETE.value]` -/
def aggregateTypes : List Nat := [0x4241, 0x4141]

/-- the 16-bit little-endian type code at offset header + 2; `none` = Python `IndexError` (buffer shorter than header + 4). -/
def transactionType (tx : Bytes) : Option Nat :=
  match tx[transactionHeaderSize + 2]?, tx[transactionHeaderSize + 3]? with
  | some lo, some hi => some (hi.toNat * 256 + lo.toNat)
  | _, _ => none

/-- `_is_aggregate_transaction(transaction_buffer)` -/
def isAggregate (tx : Bytes) : Option Bool := (transactionType tx).map aggregateTypes.contains

/-- `_transaction_data_buffer(transaction_buffer)`: `buffer[108:len]`, or `buffer[108:160]` for the two aggregate types. -/
def dataBuffer (tx : Bytes) : Option Bytes :=
  (isAggregate tx).map fun agg =>
    if agg then (tx.drop transactionHeaderSize).take aggregateHashedSize else tx.drop transactionHeaderSize

/-- `SymbolFacade.extract_signing_payload(transaction)` with `seed = network.generation_hash_seed.bytes`. -/
def signingPayloadSymbol (seed tx : Bytes) : Option Bytes := (dataBuffer tx).map (seed ++ ·)

variable {G : Type}

/-- `sign_transaction(key_pair, transaction)`; outer `none` = IndexError, inner = signer's library error. -/
def signTransactionSymbol (S : Scheme G) (seed sk tx : Bytes) : Option (Option Bytes) :=
  (signingPayloadSymbol seed tx).map (sign S sk)

/-- `verify_transaction(transaction, signature)`: the signer key is bytes 72..104 of the serialization. -/
def signerPublicKeySymbol (tx : Bytes) : Bytes := (tx.drop 72).take 32

def verifyTransactionSymbol (S : Scheme G) (seed tx sig : Bytes) : Option Verdict :=
  (signingPayloadSymbol seed tx).map fun p => verify S (signerPublicKeySymbol tx) p sig

/-- `cosign_transaction_hash(key_pair, transaction_hash, detached)` serialized: `version = 0` (8 bytes) ‖ signer ‖
    signature over the 32 hash bytes [‖ parent hash when detached]. -/
def cosignature (S : Scheme G) (sk hash : Bytes) (detached : Bool) : Option Bytes :=
  (sign S sk hash).map fun sig =>
    leBytes 8 0 ++ publicKey S sk ++ sig ++ (if detached then hash else [])

/-! ### NEM -/

/-- offset of `signature_size` in a serialized NEM transaction: type 4, version 1, reserved 2, network 1, timestamp 4,
    signer_public_key_size 4, signer_public_key 32. -/
def nemSignatureOffset : Nat := 48

/-- `signature_size` 4 + `signature` 64 -/
def nemSignatureBlock : Nat := 68

/-- `TransactionType.MULTISIG` -/
def nemMultisigType : Nat := 0x1004

/-- fee 8 + deadline 4 + inner_transaction_size 4: what follows the signature up to the inner transaction. -/
def nemMultisigFixed : Nat := 16

/-- byte-level `to_non_verifiable_transaction(transaction).serialize()`: the serialization without the size-prefixed
    signature; a multisig transaction additionally loses its cosignatures (the non-verifiable class has no such member),
    i.e. it ends after the inner transaction whose size is the 4 bytes before it. -/
def toNonVerifiableNem (tx : Bytes) : Bytes :=
  let head := tx.take nemSignatureOffset
  let rest := tx.drop (nemSignatureOffset + nemSignatureBlock)
  if leNat (tx.take 4) = nemMultisigType then
    head ++ rest.take (nemMultisigFixed + leNat ((rest.drop 12).take 4))
  else head ++ rest

/-- `NemFacade.extract_signing_payload` -/
def signingPayloadNem (tx : Bytes) : Bytes := toNonVerifiableNem tx

def signerPublicKeyNem (tx : Bytes) : Bytes := (tx.drop 16).take 32

def signTransactionNem (S : Scheme G) (sk tx : Bytes) : Option Bytes := sign S sk (signingPayloadNem tx)

def verifyTransactionNem (S : Scheme G) (tx sig : Bytes) : Verdict :=
  verify S (signerPublicKeyNem tx) (signingPayloadNem tx) sig

/-! ### voting keys -/

/-- the identifiers in generation order: `reversed(range(start, end + 1))`. -/
def votingIdentifiers (start stop : Nat) : List Nat :=
  (List.range (stop + 1 - start)).map fun i => stop - i

/-- one tree entry: child private key ‖ root signature over (child public key ‖ identifier as 8 LE bytes). -/
def votingEntry (S : Scheme G) (rootSk childSk : Bytes) (identifier : Nat) : Option Bytes :=
  (sign S rootSk (publicKey S childSk ++ leBytes 8 identifier)).map (childSk ++ ·)

def votingHeader (S : Scheme G) (rootSk : Bytes) (start stop : Nat) : Bytes :=
  leBytes 8 start ++ leBytes 8 stop ++ leBytes 8 0xFFFFFFFFFFFFFFFF ++ leBytes 8 0xFFFFFFFFFFFFFFFF ++
    publicKey S rootSk ++ leBytes 8 start ++ leBytes 8 stop

/-- the entries for the identifiers `ids`, the first of which uses the `i`-th generated child key. -/
def votingEntries (S : Scheme G) (rootSk : Bytes) (childKeys : Nat → Bytes) : List Nat → Nat → Option (List Bytes)
  | [], _ => some []
  | identifier :: ids, i =>
    match votingEntry S rootSk (childKeys i) identifier with
    | none => none
    | some e => (votingEntries S rootSk childKeys ids (i + 1)).map (e :: ·)

/-- `VotingKeysGenerator(root, gen).generate(start, end)`; `childKeys i` is the i-th key the generator returns.
    `none` = `OverflowError` of `write_int(_, 8)` or a signer library error. -/
def votingKeyTree (S : Scheme G) (rootSk : Bytes) (start stop : Nat) (childKeys : Nat → Bytes) : Option Bytes :=
  if 2 ^ 64 ≤ start ∨ 2 ^ 64 ≤ stop then none
  else
    (votingEntries S rootSk childKeys (votingIdentifiers start stop) 0).map
      fun entries => votingHeader S rootSk start stop ++ entries.flatten

end SymbolVerif.Sdk.Framing

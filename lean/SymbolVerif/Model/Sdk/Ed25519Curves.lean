/-
The executable instantiations of `Ed25519.Curve` used by the C07/C14 drivers: edwards25519 arithmetic translated from
external/ed25519.py (`Ed25519Exec.lean`) plus the two key-acceptance policies of the verifiers. No theorem depends on
this file (the theorems quantify over any `Curve`); core Lean only.
-/
import SymbolVerif.Model.Sdk.Ed25519
import SymbolVerif.Model.Sdk.Ed25519Exec
namespace SymbolVerif.Sdk.Ed25519Curves
open SymbolVerif SymbolVerif.Bytes SymbolVerif.Sdk.Ed25519 SymbolVerif.Sdk.Ed25519Exec

/-- `-P` in extended coordinates. -/
def negPoint (P : Point) : Point := ⟨(q - P.x % q) % q, P.y, P.z, (q - P.t % q) % q⟩

def isIdentity (P : Point) : Bool := P.x % q = 0 && sub P.y P.z = 0

/-- `crypto_core_ed25519_is_valid_point` (libsodium): canonical encoding, on the curve, in the prime-order subgroup and
    not of small order (within the subgroup: not the identity). -/
def decodeValidPoint (s : Bytes) : Option Point :=
  if !isCanonical s then none
  else match decodePoint s with
    | none => none
    | some P => if isInMainSubgroup P && !isIdentity P then some P else none

/-- RFC 8032 / OpenSSL point decoding as used by `Ed25519PublicKey.verify`: the key only has to decode to a curve point. -/
def decodeCurvePoint (s : Bytes) : Option Point :=
  if s.length ≠ 32 then none else decodePoint s

def curveWith (decode : Bytes → Option Point) : Curve Point where
  add := add
  neg := negPoint
  zero := ident
  smul := fun n P => scalarMult P n
  B := B
  L := l
  encode := encodePoint
  decode := decode

/-- NEM verifier (nem/KeyPair.py) -/
def nemCurve : Curve Point := curveWith decodeValidPoint

/-- Symbol verifier (symbol/KeyPair.py through `cryptography`) -/
def symbolCurve : Curve Point := curveWith decodeCurvePoint

end SymbolVerif.Sdk.Ed25519Curves

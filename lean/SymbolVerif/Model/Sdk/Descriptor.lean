/-
Model of transaction creation from a descriptor:
  sdk/python/symbolchain/RuleBasedTransactionFactory.py   (rules, `create_from_factory`, `_auto_encode_strings`)
  sdk/python/symbolchain/TransactionDescriptorProcessor.py (`lookup_value`, `copy_to`)
  sdk/python/symbolchain/symbol/TransactionFactory.py       (`_create_and_extend`: forced network, autosort, id autofill)
  sdk/python/symbolchain/nem/TransactionFactory.py          (`create`: forced network, autosort, transfer message hack)
over the codec IR of `Model/Codec/Schema.lean` (the generated classes `sc` / `nc` are the interpretation of
that IR; `TYPE_HINTS`, constructor defaults and attribute names are functions of the IR).

A descriptor is a `DVal.dict`. The created object is a `Codec.Val` (member state, as in C01). A member that
ends up holding a Python value of the wrong class is *not* an error of `create` in the code, so it is not
one here: such a member holds `rawMark` (or `strMark s` for a `str` that nobody encoded); `Codec.encode`
refuses such a value exactly as `serialize()` raises on such an object.

Parameters (third-party primitives): SHA3-256, RIPEMD-160, the comparer transform of `sort()`, and UTF-8
validity of a byte string (`bytes.decode('utf8')`).

`type_rule_overrides` (the optional second argument of the two `TransactionFactory` constructors, built by the
facades from an AccountDescriptorRepository) are the field `Config.overrides`: arbitrary converters keyed by class.

Not modelled: values that Python accepts by duck typing
although no SDK documentation offers them (a `str`, `dict`, `tuple` or `bytes` where a list is expected; a
`list`/`dict` whose `len()` happens to equal the size of a byte array). Core Lean only.
-/
import SymbolVerif.Model.Codec.Render
import SymbolVerif.Model.Sdk.Ids
import SymbolVerif.Model.Sdk.Address
namespace SymbolVerif.Sdk.Descriptor
open SymbolVerif SymbolVerif.Bytes SymbolVerif.Codec SymbolVerif.Sdk

/-! ### descriptors -/

/-- the Python values a descriptor is made of -/
inductive DVal
  | int (i : Int)
  | str (s : String)
  | bytes (b : Bytes)
  | list (l : List DVal)
  /-- `dict` in insertion order (keys pairwise distinct) -/
  | dict (kvs : List (String × DVal))
  /-- SDK value object (`symbolchain.CryptoTypes.*`, `<network>.Network.Address`): class name and `.bytes` -/
  | sdk (cls : String) (b : Bytes)
  /-- object of the generated module (`sc` / `nc`): class name and state -/
  | codec (cls : String) (v : Val)
  /-- `None` -/
  | none
  deriving Repr, Inhabited

inductive E
  | noEntryPoint
  | noType
  | badTypeName
  | unknownType (name : String)
  | computedKey (key : String)
  | unknownKey (key : String)
  | readOnlyKey (key : String)
  | notExtendable (key : String)
  | unknownEnumName (ty name : String)
  | unknownFlagName (ty name : String)
  | enumValue (ty : String) (i : Int)
  | outOfRange (ty : String) (i : Int)
  | badHex
  | badBase32
  | badLength (expected found : Nat)
  | badForm (what : String)
  | autofill (why : String)
  /-- raised by a `type_rule_overrides` converter -/
  | overrideRaised (why : String)
  | sort (e : Codec.Err)
  | schema (why : String)
  deriving Repr, Inhabited, DecidableEq

/-- third-party primitives -/
structure Prims where
  sha3_256 : Bytes → Bytes
  ripemd160 : Bytes → Bytes
  transform : String → Bytes → Bytes
  validUtf8 : Bytes → Bool

/-- the keys of `type_rule_overrides` are classes: of the generated module (`sc.Amount`) or of the SDK (`PublicKey`) -/
inductive ClassRef
  | module (name : String)
  | sdk (name : String)
  deriving DecidableEq, Repr, Inhabited

/-- a converter of `type_rule_overrides`: any Python callable (it may raise) -/
abbrev Conv := DVal → Except E DVal

/-- what the two `TransactionFactory` classes and the facade fix (regenerated from the sources on every run) -/
structure Config where
  schema : Schema
  /-- `facade.network.identifier` -/
  networkId : Int
  /-- the abstract type whose generated factory `create` uses -/
  txBase : String
  /-- … and `create_embedded` (`none`: no such entry point) -/
  embBase : Option String
  /-- `add_struct_parser` names -/
  structRules : List String
  /-- `sdk_type_mapping`: rule name ↦ SDK class name -/
  sdkMapping : List (String × String)
  /-- `add_array_parser` element names (without `struct:`) -/
  arrayRules : List String
  /-- SDK `ByteArray` classes the mapping uses: name ↦ `SIZE` -/
  sdkClasses : List (String × Nat)
  /-- the SDK class the custom type converter recognises -/
  addressClass : String
  addressKind : AddressKind
  /-- the module class the custom type converter builds -/
  addressTarget : String
  /-- nem: the converter passes `str(value).encode('utf8')` instead of `value.bytes` -/
  addressAsText : Bool
  /-- symbol `_create_and_extend`: namespace / mosaic id autofill -/
  idAutofill : Bool
  /-- nem `create`: transfer message hack -/
  messageHack : Bool
  /-- the flags parser refuses a negative `int` before handing it to the `Flag` class (read from the source of
      `add_flags_parser` on every run; without the guard Python's `Flag` takes a negative number as a complement) -/
  flagsRejectNegative : Bool := false
  /-- `type_rule_overrides.get(cls)` (the argument of the `TransactionFactory` constructor; empty on the default facade path) -/
  overrides : ClassRef → Option Conv := fun _ => none

/-! ### markers for ill-typed member contents -/

/-- a member holding a Python value of the wrong class (schema type names never start with `<`) -/
def rawMark : Val := .struct "<raw>" []

/-- … an `int` where an object is expected -/
def rawInt (i : Int) : Val := .struct "<raw>" [("int", .int i)]

/-- … a byte string where an object (or an integer) is expected -/
def rawBytes (b : Bytes) : Val := .struct "<raw>" [("bytes", .bytes b)]

/-- a member holding a Python `str` (kept until somebody encodes it) -/
def strMark (s : String) : Val := .struct "<str>" [("utf8", .bytes (ofString s))]

def isStrMark : Val → Option Bytes
  | .struct "<str>" [("utf8", .bytes b)] => some b
  | _ => none

/-! ### names -/

/-- `generator/name_formatting.py: fix_name` -/
def fixName (n : String) : String := if n == "type" || n == "property" then n ++ "_" else n

def snakeChars : Bool → List Char → List Char
  | _, [] => []
  | first, c :: cs => (if !first && c.isUpper then ['_', c.toLower] else [c.toLower]) ++ snakeChars false cs

/-- `underline_name`: `_` before every upper-case letter but the first, then lower case -/
def snake (s : String) : String := String.ofList (snakeChars true s.toList)

/-- `FactoryFormatter.skip_embedded` -/
def skipEmbedded (s : String) : String :=
  if "embedded_".toList.isPrefixOf s.toList then String.ofList (s.toList.drop 9) else s

/-- `str.endswith` -/
def endsWith (s suffix : String) : Bool := suffix.toList.reverse.isPrefixOf s.toList.reverse

/-- value-carrying members (those with a property and a private attribute), in layout order -/
def carrying (d : StructDef) : List Field := d.fields.filter (·.kind.carries)

def computedNames (d : StructDef) : List String :=
  d.fields.filterMap fun f => match f.kind with | .sizeRef .. => some (f.name ++ "_computed") | _ => none

/-- `str.startswith('_')` -/
def startsWithUnderscore (s : String) : Bool := s.toList.head? == some '_'

/-- the properties of a generated class: one per value-carrying member (under its printer name), `size`, and a
    `…_computed` getter per `@sizeref` member -/
def propertyNames (d : StructDef) : List String :=
  (carrying d).map (fun f => fixName f.name) ++ ["size"] ++ computedNames d

inductive KeyClass
  /-- a public data member: a property with a setter -/
  | member (f : Field)
  /-- a property without setter (`size`, `…_computed`): `setattr` raises AttributeError -/
  | readOnly
  /-- not a public data member: `copy_to` raises ValueError -/
  | unknown
  deriving Repr, Inhabited

/-- `copy_to`'s test of a descriptor key against an instance of a generated class:
    `key.startswith('_') or not (hasattr(transaction, key) and (class attribute is None or a property))`.
    Every instance attribute of a generated class is private, so what passes is exactly a property of the class;
    private attributes, methods, class constants (`TYPE_HINTS`, `TRANSACTION_VERSION`, …) and dunder names do not. -/
def classify (d : StructDef) (key : String) : KeyClass :=
  if startsWithUnderscore key then .unknown else
  match (carrying d).find? (fun f => fixName f.name == key) with
  | some f => .member f
  | none => if key == "size" || (computedNames d).contains key then .readOnly else .unknown

/-! ### constructor defaults -/

/-- a conditional member is initialised only when it is the default arm of its implicit union
    (`StructTypeFormatter.get_ctor_descriptor`) -/
def condDefaultAbsent (S : Schema) (d : StructDef) (f : Field) : Bool :=
  match f.cond with
  | none => false
  | some c =>
    match lookupField d.fields c.field with
    | some cf =>
      match cf.kind with
      | .ref ety _ =>
        match S.find ety with
        | some (.enum _ _ _ ((_, v0) :: _)) => v0 != c.value
        | _ => true
      | _ => true
    | none => true

def defaultMember (S : Schema) (rec : String → Val) (d : StructDef) (f : Field) : Val :=
  if condDefaultAbsent S d f then .none else
  match f.kind with
  | .int .. => .int 0
  | .barray _ => .bytes []
  | .array .. => .arr []
  | .ref ty _ => rec ty
  | _ => .none

/-- replace the value of member `name` (first occurrence semantics of `Val.get` are preserved: names are unique) -/
def assign (vs : List (String × Val)) (name : String) (v : Val) : List (String × Val) :=
  vs.map fun nv => if nv.1 == name then (nv.1, v) else nv

def assignAll (vs : List (String × Val)) : List (String × Val) → List (String × Val)
  | [] => vs
  | (n, v) :: rest => assignAll (assign vs n v) rest

/-- the constants a concrete type assigns in its constructor: the discriminator members of its factory type -/
def initializers (S : Schema) (d : StructDef) : List (String × Val) :=
  match d.base with
  | none => []
  | some b =>
    match S.find b with
    | some (.struct bd) => bd.disc.zip (d.discValues.map Val.int)
    | _ => []

def defaultTypeStep (S : Schema) (rec : String → Val) (ty : String) : Val :=
  match S.find ty with
  | some (.int ..) => .int 0
  | some (.bytes n) => .bytes (zeros n)
  | some (.enum _ _ _ members) => .int ((members.head?.map (·.2)).getD 0)
  | some (.struct d) =>
    .struct ty (assignAll ((carrying d).map fun f => (f.name, defaultMember S rec d f)) (initializers S d))
  | none => .none

def defaultN (S : Schema) : Nat → String → Val
  | 0 => fun _ => .none
  | n + 1 => defaultTypeStep S (defaultN S n)

/-- `Class()` of the generated module -/
def defaultOf (S : Schema) (ty : String) : Val := defaultN S (defaultFuel S) ty

/-! ### rules -/

/-- where a value is going -/
inductive Slot
  | int (w : Nat) (signed : Bool)
  | barray
  | ty (name : String)
  | array (elem : String)
  deriving Repr, Inhabited, DecidableEq

def slotOf : FK → Slot
  | .int w s => .int w s
  | .barray _ => .barray
  | .ref ty _ => .ty ty
  | .array elem .. => .array elem
  | _ => .barray   -- not value carrying; never asked

/-- the parsing rule `TYPE_HINTS` selects for a slot (`_build_type_hints_map`, `autodetect`, `_build_rules`) -/
inductive Rule
  | noRule
  | podInt (ty : String) (w : Nat) (signed : Bool)
  | sdkBytes (ty : String) (sdkClass : String)
  | enum (ty : String) (bitwise : Bool) (members : List (String × Int))
  | struct (ty : String) (d : StructDef)
  | array (elem : String)
  /-- `add_pod_parser` found the class among the `type_rule_overrides`: the override *is* the rule -/
  | override (f : Conv)
  deriving Inhabited

def ruleOf (cfg : Config) : Slot → Rule
  | .int .. => .noRule
  | .barray => .noRule
  | .array elem => if cfg.arrayRules.contains elem then .array elem else .noRule
  | .ty ty =>
    match cfg.schema.find ty with
    | some (.int w s) =>
      -- `autodetect`: add_pod_parser(class name, module class)
      match cfg.overrides (.module ty) with
      | some f => .override f
      | none => .podInt ty w s
    | some (.bytes _) =>
      -- `_build_rules`: add_pod_parser(name, SDK class) for the names of `sdk_type_mapping` only
      match cfg.sdkMapping.find? (·.1 == ty) with
      | some (_, k) =>
        (match cfg.overrides (.sdk k) with
         | some f => .override f
         | none => .sdkBytes ty k)
      | none => .noRule
    | some (.enum _ _ b ms) => .enum ty b ms
    | some (.struct d) => if cfg.structRules.contains ty then .struct ty d else .noRule
    | none => .noRule

def lookupLast (table : List (String × Int)) (s : String) : Option Int := (table.reverse.find? (·.1 == s)).map (·.2)

/-- iteration over an `Enum` class skips aliases (members repeating an earlier value) -/
def canonicalEnum : List (String × Int) → List (String × Int) → List (String × Int)
  | _, [] => []
  | seen, (n, v) :: rest =>
    if seen.any (·.2 == v) then canonicalEnum seen rest else (n, v) :: canonicalEnum ((n, v) :: seen) rest

def isPow2 (v : Int) : Bool := decide (0 < v) && (v.toNat &&& (v.toNat - 1)) == 0

/-- `dict(map(lambda key: (key.name.lower(), key), cls))`; iterating a `Flag` class yields the single-bit
    members only, and `none` is added by hand -/
def nameTable (bitwise : Bool) (members : List (String × Int)) : List (String × Int) :=
  if bitwise then (members.filter fun m => isPow2 m.2).map (fun m => (m.1.toLower, m.2)) ++ [("none", 0)]
  else (canonicalEnum [] members).map fun m => (m.1.toLower, m.2)

/-- `str.split(' ')` -/
def splitBlankChars : List Char → List (List Char)
  | [] => [[]]
  | c :: cs =>
    match splitBlankChars cs with
    | [] => [[]]            -- unreachable
    | p :: ps => if c == ' ' then [] :: p :: ps else (c :: p) :: ps

def splitBlank (s : String) : List String := (splitBlankChars s.toList).map String.ofList

def flagsByName (ty : String) (table : List (String × Int)) : List String → Except E Nat
  | [] => .ok 0
  | p :: ps =>
    match lookupLast table p with
    | none => .error (.unknownFlagName ty p)
    | some v =>
      match flagsByName ty table ps with
      | .error e => .error e
      | .ok r => .ok (v.toNat ||| r)

/-- `FlagClass(i)` (Python 3.11+, STRICT boundary): a value within `~all_bits ..= all_bits` whose bits are all
    declared; a negative value stands for its complement within `all_bits` -/
def flagOfInt (members : List (String × Int)) (i : Int) : Option Int :=
  let mask := flagMask members
  let allBits : Nat := 2 ^ (if mask == 0 then 0 else Nat.log2 mask + 1) - 1
  if i < -((allBits : Int) + 1) || i > (allBits : Int) then none else
  let v : Nat := if i < 0 then ((allBits : Int) + 1 + i).toNat else i.toNat
  if (v &&& (allBits ^^^ mask)) != 0 then none else some (v : Int)

def enumByName (ty : String) (bitwise : Bool) (members : List (String × Int)) (s : String) : Except E Val :=
  if bitwise then
    match flagsByName ty (nameTable true members) (splitBlank s) with
    | .ok r => .ok (.int r)
    | .error e => .error e
  else
    match lookupLast (nameTable false members) s with
    | some v => .ok (.int v)
    | none => .error (.unknownEnumName ty s)

/-! ### the type converter and placing a Python value into a member -/

def mkModuleBytes (cfg : Config) (cls : String) (b : Bytes) : Except E DVal :=
  match cfg.schema.find cls with
  | some (.bytes n) => if n == b.length then .ok (.codec cls (.bytes b)) else .error (.badLength n b.length)
  | _ => .error (.badForm "no such byte array class in the module")

/-- `_type_converter_factory` with `_symbol_type_converter` / `_nem_type_converter` -/
def convert (cfg : Config) : DVal → Except E DVal
  | .sdk cls b =>
    if cls == cfg.addressClass then
      mkModuleBytes cfg cfg.addressTarget
        (if cfg.addressAsText then ofString (String.ofList (addressToString cfg.addressKind b)) else b)
    else mkModuleBytes cfg cls b
  | dv => .ok dv

/-- may a member of this slot hold an object of module class `cls`? -/
def fits (cfg : Config) (slot : Slot) (cls : String) : Bool :=
  match slot with
  | .ty ty =>
    cls == ty ||
    (match cfg.schema.find ty, cfg.schema.find cls with
     | some (.bytes n), some (.bytes m) => n == m
     | some (.struct d), some (.struct c) => d.abstract && c.base == some ty
     | _, _ => false)
  | _ => false

/-- member state after `setattr(entity, key, value)` (and, at the top level, `_auto_encode_strings`) -/
def place (cfg : Config) (top : Bool) (slot : Slot) : DVal → Val
  | .int i => match slot with | .int .. => .int i | _ => rawInt i
  | .bytes b => match slot with | .barray => .bytes b | _ => rawBytes b
  | .str s =>
    if top then (match slot with | .barray => .bytes (ofString s) | _ => rawBytes (ofString s)) else strMark s
  | .codec cls v => if fits cfg slot cls then v else rawMark
  | .none => .none
  | _ => rawMark

def convertPlace (cfg : Config) (top : Bool) (slot : Slot) (dv : DVal) : Except E Val :=
  match convert cfg dv with
  | .error e => .error e
  | .ok dv' => .ok (place cfg top slot dv')

def sdkSize (cfg : Config) (k : String) : Nat := ((cfg.sdkClasses.find? (·.1 == k)).map (·.2)).getD 0

/-- `SdkClass(value)` for the classes of `sdk_type_mapping`: the `.bytes` of the resulting object -/
def sdkBytesOf (cfg : Config) (k : String) : DVal → Except E Bytes
  | .sdk cls b => if cls == k then .ok b else .error (.badForm "SDK object of another class")
  | .bytes b => if sdkSize cfg k == b.length then .ok b else .error (.badLength (sdkSize cfg k) b.length)
  | .str s =>
    if k == cfg.addressClass then
      match addressOfString cfg.addressKind s.toList with
      | some b => .ok b
      | none => .error .badBase32
    else
      match ofHex s with
      | none => .error .badHex
      | some b => if sdkSize cfg k == b.length then .ok b else .error (.badLength (sdkSize cfg k) b.length)
  | _ => .error (.badForm "not bytes, str or SDK object")

/-- what `lookup_value` / `copy_to` make of the result `r` of an override: a list goes through the type converter item
    by item (and is then `extend`ed onto the member), anything else through the type converter as a whole -/
def settle (cfg : Config) (top : Bool) (slot : Slot) : DVal → Except E Val
  | .list items =>
    match items.mapM (convertPlace cfg false slot) with
    | .ok vs => .ok (.arr vs)
    | .error e => .error e
  | r => convertPlace cfg top slot r

/-- `rules[hint](value)` for an overridden rule: the override sees the descriptor value as it is -/
def applyOverride (cfg : Config) (top : Bool) (slot : Slot) (f : Conv) (dv : DVal) : Except E Val :=
  match f dv with
  | .error e => .error e
  | .ok r => settle cfg top slot r

/-- rule + type converter on a value that is neither a list nor a dict -/
def coerceAtom (cfg : Config) (top hinted : Bool) (slot : Slot) (dv : DVal) : Except E Val :=
  match (if hinted then ruleOf cfg slot else .noRule) with
  | .noRule => convertPlace cfg top slot dv
  | .podInt ty w s =>
    match dv with
    | .int i => if inRange w s i then .ok (.int i) else .error (.outOfRange ty i)
    | .codec c v => if c == ty then .ok v else .error (.badForm "object of another class for a pod")
    | _ => .error (.badForm "not an int for a pod")
  | .sdkBytes _ k =>
    match sdkBytesOf cfg k dv with
    | .error e => .error e
    | .ok b => convertPlace cfg top slot (.sdk k b)
  | .enum ty bitwise members =>
    match dv with
    | .str s => enumByName ty bitwise members s
    | .int i =>
      if bitwise then
        if cfg.flagsRejectNegative && i < 0 then .error (.enumValue ty i) else
        (match flagOfInt members i with
         | some v => .ok (.int v)
         | none => .error (.enumValue ty i))
      else if enumAdmits false members i then .ok (.int i) else .error (.enumValue ty i)
    | _ => convertPlace cfg top slot dv
  | .struct .. => .error (.badForm "not a dict for a struct")
  | .array _ => .error (.badForm "not a list for an array")
  | .override f => applyOverride cfg top slot f dv

/-! ### `copy_to` -/

structure St where
  vs : List (String × Val)

/-- `setattr(transaction, key, value)`, or `getattr(transaction, key).extend(value)` for a list -/
def storeMember (st : St) (f : Field) (key : String) (cv : Val) : Except E St :=
  match cv with
  | .arr l =>
    match Val.get st.vs f.name with
    | some (.arr old) => .ok { st with vs := assign st.vs f.name (.arr (old ++ l)) }
    | _ => .error (.notExtendable key)
  | v => .ok { st with vs := assign st.vs f.name v }

def freshMembers (S : Schema) (ty : String) : Except E (List (String × Val)) :=
  match defaultOf S ty with
  | .struct _ vs => .ok vs
  | _ => .error (.schema "not a struct type")

mutual
/-- `lookup_value(key)` for the member behind `key`: parsing rule, then the type converter
    (`hinted = false`: the elements of an array whose element type has no registered array parser) -/
def coerce (cfg : Config) (top hinted : Bool) (slot : Slot) : DVal → Except E Val
  | .list l =>
    match (if hinted then ruleOf cfg slot else .noRule) with
    | .override f => applyOverride cfg top slot f (.list l)
    | _ =>
      match slot with
      | .array elem =>
        match coerceItems cfg (hinted && cfg.arrayRules.contains elem) (.ty elem) l with
        | .ok vs => .ok (.arr vs)
        | .error e => .error e
      | _ => .error (.notExtendable "list for a member that is no array")
  | .dict kvs =>
    match (if hinted then ruleOf cfg slot else .noRule) with
    | .override f => applyOverride cfg top slot f (.dict kvs)
    | .struct ty d =>
      match freshMembers cfg.schema ty with
      | .error e => .error e
      | .ok fresh =>
        match copyEntries cfg ty d false kvs { vs := fresh } with
        | .ok st => .ok (.struct ty st.vs)
        | .error e => .error e
    | .podInt .. => .error (.badForm "dict for a pod")
    | .sdkBytes .. => .error (.badForm "dict for a byte array")
    | .array _ => .error (.badForm "dict for an array")
    | _ => .ok rawMark
  | .int i => coerceAtom cfg top hinted slot (.int i)
  | .str s => coerceAtom cfg top hinted slot (.str s)
  | .bytes b => coerceAtom cfg top hinted slot (.bytes b)
  | .sdk c b => coerceAtom cfg top hinted slot (.sdk c b)
  | .codec c v => coerceAtom cfg top hinted slot (.codec c v)
  | .none => coerceAtom cfg top hinted slot .none

def coerceItems (cfg : Config) (hinted : Bool) (slot : Slot) : List DVal → Except E (List Val)
  | [] => .ok []
  | dv :: rest =>
    match coerce cfg false hinted slot dv with
    | .error e => .error e
    | .ok v =>
      match coerceItems cfg hinted slot rest with
      | .error e => .error e
      | .ok vs => .ok ((match v with | .arr _ => rawMark | w => w) :: vs)

/-- `TransactionDescriptorProcessor.copy_to(entity, ['type'] if top else None)` -/
def copyEntries (cfg : Config) (ty : String) (d : StructDef) (top : Bool) : List (String × DVal) → St → Except E St
  | [], st => .ok st
  | (key, dv) :: rest, st =>
    if top && key == "type" then copyEntries cfg ty d top rest st
    else if endsWith key "_computed" then .error (.computedKey key)
    else
      match classify d key with
      | .unknown => .error (.unknownKey key)
      | .readOnly => .error (.readOnlyKey key)
      | .member f =>
        match coerce cfg top true (slotOf f.kind) dv with
        | .error e => .error e
        | .ok cv =>
          match storeMember st f key cv with
          | .error e => .error e
          | .ok st' => copyEntries cfg ty d top rest st'
end

/-! ### `create_from_factory` -/

def lookupKey (kvs : List (String × DVal)) (k : String) : Option DVal := (kvs.find? (·.1 == k)).map (·.2)

/-- `{**descriptor, key: value}` -/
def setKey (kvs : List (String × DVal)) (k : String) (v : DVal) : List (String × DVal) :=
  if kvs.any (·.1 == k) then kvs.map (fun kv => if kv.1 == k then (k, v) else kv) else kvs ++ [(k, v)]

/-- `Factory.create_by_name`: a dict literal keyed by `skip_embedded(underline_name(child))` (last entry wins) -/
def createByName (S : Schema) (base name : String) : Option (String × StructDef) :=
  ((S.children base).filter fun c => skipEmbedded (snake c.1) == name).getLast?

def resolve (cfg : Config) (embedded : Bool) (desc : List (String × DVal)) : Except E (String × StructDef) :=
  match (if embedded then cfg.embBase else some cfg.txBase) with
  | none => .error .noEntryPoint
  | some base =>
    match lookupKey desc "type" with
    | none => .error .noType
    | some (.str name) =>
      match createByName cfg.schema base name with
      | some r => .ok r
      | none => .error (.unknownType name)
    | some _ => .error .badTypeName

/-- the descriptor the factory really processes: the facade's network goes in last -/
def withNetwork (cfg : Config) (desc : List (String × DVal)) : List (String × DVal) :=
  setKey desc "network" (.int cfg.networkId)

/-- `create_from_factory` (including `_auto_encode_strings`, which `place` applies as it goes) -/
def build (cfg : Config) (embedded : Bool) (desc : List (String × DVal)) : Except E (String × StructDef × St) :=
  match resolve cfg embedded (withNetwork cfg desc) with
  | .error e => .error e
  | .ok (ty, d) =>
    match freshMembers cfg.schema ty with
    | .error e => .error e
    | .ok fresh =>
      match copyEntries cfg ty d true (withNetwork cfg desc) { vs := fresh } with
      | .error e => .error e
      | .ok st => .ok (ty, d, st)

/-! ### after `create_from_factory` -/

def enumMemberValue (S : Schema) (ety member : String) : Option Int :=
  match S.find ety with
  | some (.enum _ _ _ ms) => (ms.find? (·.1 == member)).map (·.2)
  | _ => none

/-- `generate_namespace_id(transaction.name.decode('utf8'), parent_id)` -/
def namespaceIdFor (p : Prims) (S : Schema) (vs : List (String × Val)) : Except E Nat :=
  match Val.get vs "registration_type" with
  | none => .error (.autofill "no registration_type")
  | some rt =>
    let parent : Except E Int :=
      match rt, enumMemberValue S "NamespaceRegistrationType" "CHILD" with
      | .int r, some c =>
        if r == c then
          (match Val.get vs "parent_id" with
           | some (.int q) => .ok q
           | _ => .error (.autofill "parent_id has no value"))
        else .ok 0
      | _, _ => .ok 0
    match parent with
    | .error e => .error e
    | .ok q =>
      match Val.get vs "name" with
      | some (.bytes name) =>
        if !p.validUtf8 name then .error (.autofill "name is not UTF-8")
        else if q < 0 then .error (.autofill "parent id out of range")
        else
          match namespaceId p.sha3_256 name q.toNat with
          | some i => .ok i
          | none => .error (.autofill "parent id out of range")
      | _ => .error (.autofill "name is not bytes")

/-- `generate_mosaic_id(network.public_key_to_address(PublicKey(signer_public_key.bytes)), nonce.value)` -/
def mosaicIdFor (p : Prims) (cfg : Config) (vs : List (String × Val)) : Except E Nat :=
  match Val.get vs "signer_public_key", Val.get vs "nonce" with
  | some (.bytes pk), some (.int nonce) =>
    if pk.length != 32 then .error (.autofill "signer public key length")
    else if cfg.networkId < 0 || nonce < 0 then .error (.autofill "out of range")
    else
      match publicKeyToAddress p.sha3_256 p.ripemd160 cfg.addressKind cfg.networkId.toNat pk with
      | none => .error (.autofill "address")
      | some addr =>
        match mosaicId p.sha3_256 addr nonce.toNat with
        | some i => .ok i
        | none => .error (.autofill "nonce out of range")
  | _, _ => .error (.autofill "signer public key or nonce has no value")

/-- symbol `_create_and_extend`, "autogenerate artifact ids" -/
def autofillIds (p : Prims) (cfg : Config) (vs : List (String × Val)) : Except E (List (String × Val)) :=
  match Val.get vs "type" with
  | some (.int t) =>
    if some t == enumMemberValue cfg.schema "TransactionType" "NAMESPACE_REGISTRATION" then
      match namespaceIdFor p cfg.schema vs with
      | .ok i => .ok (assign vs "id" (.int i))
      | .error e => .error e
    else if some t == enumMemberValue cfg.schema "TransactionType" "MOSAIC_DEFINITION" then
      match mosaicIdFor p cfg vs with
      | .ok i => .ok (assign vs "id" (.int i))
      | .error e => .error e
    else .ok vs
  | _ => .ok vs

/-- nem `create`, "hack: explicitly translate transfer message" -/
def messageHack (cfg : Config) (vs : List (String × Val)) : Except E (List (String × Val)) :=
  match Val.get vs "type" with
  | some (.int t) =>
    if some t == enumMemberValue cfg.schema "TransactionType" "TRANSFER" then
      match Val.get vs "message" with
      | none => .error (.autofill "no message member")
      | some (.struct mty mvs) =>
        if mty == "<raw>" || mty == "<str>" then .error (.autofill "message is no Message object") else
        match Val.get mvs "message" with
        | some inner =>
          match isStrMark inner with
          | some b => .ok (assign vs "message" (.struct mty (assign mvs "message" (.bytes b))))
          | none => .ok vs
        | none => .ok vs
      | some _ => .ok vs
    else .ok vs
  | _ => .ok vs

/-- can the generated `sort()` run on this object at all? A keyed array must be a list (`sorted(x)`), an
    unconditional struct member an object with a `sort` method. -/
def sortable (S : Schema) (d : StructDef) (vs : List (String × Val)) : Bool :=
  (carrying d).all fun f =>
    match f.kind, f.cond, Val.get vs f.name with
    | .array _ _ _ _ (some _), none, some (.arr _) => true
    | .array _ _ _ _ (some _), none, _ => false
    | .ref ty _, none, some (.struct ..) => (match S.find ty with | some (.struct _) => true | _ => true)
    | .ref ty _, none, _ => (match S.find ty with | some (.struct _) => false | _ => true)
    | _, _, _ => true

/-- what the two `TransactionFactory.create` do after `create_from_factory`. (The nem message hack is applied
    before sorting here, after it in the code: the two steps touch different parts of the object and
    neither reads what the other writes, and with the `str` still in place the size of the message
    could not be expressed in `Codec.sort`.) -/
def finish (p : Prims) (cfg : Config) (autosort : Bool) (ty : String) (d : StructDef) (st : St) : Except E Val :=
  match (if cfg.messageHack then messageHack cfg st.vs else .ok st.vs) with
  | .error e => .error e
  | .ok vs0 =>
    let sorted : Except E (List (String × Val)) :=
      if autosort then
        if !sortable cfg.schema d vs0 then .error (.sort .shape) else
        match Codec.sort cfg.schema p.transform ty (.struct ty vs0) with
        | .ok (.struct _ vs) => .ok vs
        | .ok _ => .error (.schema "sort")
        | .error e => .error (.sort e)
      else .ok vs0
    match sorted with
    | .error e => .error e
    | .ok vs1 =>
      match (if cfg.idAutofill then autofillIds p cfg vs1 else .ok vs1) with
      | .error e => .error e
      | .ok vs2 => .ok (.struct ty vs2)

/-- `facade.transaction_factory.create(descriptor, autosort)` / `create_embedded(descriptor, autosort)` -/
def create (p : Prims) (cfg : Config) (autosort embedded : Bool) (desc : List (String × DVal)) : Except E Val :=
  match build cfg embedded desc with
  | .error e => .error e
  | .ok (ty, d, st) => finish p cfg autosort ty d st

end SymbolVerif.Sdk.Descriptor

/-
Shared foundation: byte strings, little-endian integers, hex.
Core Lean only (no Mathlib) so the driver can be linked as an executable.
-/
namespace SymbolVerif

abbrev Bytes := List UInt8

namespace Bytes

/-- `w` little-endian bytes of `n` (i.e. of `n % 256^w`), as Python's `(n % 256**w).to_bytes(w,'little')`. -/
def leBytes : Nat → Nat → Bytes
  | 0, _ => []
  | w + 1, n => UInt8.ofNat (n % 256) :: leBytes w (n / 256)

/-- little-endian value of a byte string, as `int.from_bytes(bs,'little')`. -/
def leNat : Bytes → Nat
  | [] => 0
  | b :: bs => b.toNat + 256 * leNat bs

/-- big-endian bytes (`to_bytes(w,'big')`). -/
def beBytes (w n : Nat) : Bytes := (leBytes w n).reverse

def beNat (bs : Bytes) : Nat := leNat bs.reverse

/-- `int.to_bytes(w,'little',signed=False)`: `none` models `OverflowError`. -/
def encU (w : Nat) (n : Nat) : Option Bytes :=
  if n < 256 ^ w then some (leBytes w n) else none

/-- `int.to_bytes(w,'little',signed=True)`. -/
def encS (w : Nat) (i : Int) : Option Bytes :=
  if - (256 ^ w / 2 : Int) ≤ i ∧ i < (256 ^ w / 2 : Int) then
    some (leBytes w (i % (256 ^ w : Int)).toNat)
  else none

/-- `int.from_bytes(bs[:w],'little',signed=False)` (lenient on short input, like Python slices). -/
def decU (w : Nat) (bs : Bytes) : Nat := leNat (bs.take w)

/-- `int.from_bytes(bs[:w],'little',signed=True)`. -/
def decS (w : Nat) (bs : Bytes) : Int :=
  let t := bs.take w
  let n := leNat t
  if 2 * n < 256 ^ t.length ∨ t.length = 0 then (n : Int) else (n : Int) - (256 ^ t.length : Int)

def xor (a b : Bytes) : Bytes := List.zipWith (· ^^^ ·) a b

def zeros (n : Nat) : Bytes := List.replicate n 0

/-! hex -/

def hexDigit (n : Nat) : Char :=
  if n < 10 then Char.ofNat (48 + n) else Char.ofNat (55 + n)   -- upper case

def toHex (bs : Bytes) : String :=
  String.ofList (bs.flatMap fun b => [hexDigit (b.toNat / 16), hexDigit (b.toNat % 16)])

def hexVal (c : Char) : Option Nat :=
  if '0' ≤ c ∧ c ≤ '9' then some (c.toNat - 48)
  else if 'a' ≤ c ∧ c ≤ 'f' then some (c.toNat - 87)
  else if 'A' ≤ c ∧ c ≤ 'F' then some (c.toNat - 55)
  else none

def ofHexChars : List Char → Option Bytes
  | [] => some []
  | [_] => none
  | a :: b :: rest => do
    let x ← hexVal a
    let y ← hexVal b
    let r ← ofHexChars rest
    pure (UInt8.ofNat (16 * x + y) :: r)

def ofHex (s : String) : Option Bytes := ofHexChars s.toList

def ofString (s : String) : Bytes := s.toUTF8.toList

end Bytes
end SymbolVerif

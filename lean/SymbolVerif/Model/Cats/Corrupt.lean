/-
The corruption catalogue of property C11: single-point edits of a CATS document, each of which is meant to leave the
language. The operators are defined here (the reference); `driver_c11` applies them for the harness.

An operator maps a document to the list of its corrupted versions, one per applicable site, in document order.
Line-level operators work on the *raw tokens* of one physical line (words `[A-Za-z0-9_]+`, runs of blanks, string
literals, single other characters; the concatenation of the tokens is the line), so that everything outside the
edited token is preserved byte for byte. Comment lines and blank lines have no sites.

The last three operators (`join-lines`, `join-lines-flush`, `split-line`) move a line end. Unlike the others they do not always
leave the language (two comment lines joined are one comment; a comment split before a `#` is two comments): for them the
language model (`Parser.parse`) says which of their results are ill-formed (`Op.arbitrated`). The same holds for the near-miss
operators `near-miss-spacing`, `respace`, `near-miss-word`, which build almost-legal texts from the legal spellings: white space
between two tokens is trivia, inside the one terminal `not in` / `not equals` it is not.
-/
import SymbolVerif.Model.Cats.Lexer
namespace SymbolVerif.Cats.Corrupt
open SymbolVerif.Cats.Lexer

inductive Op where
  | badWidth            -- unsupported integer width
  | wrongCase           -- a name moved to the wrong case class
  | oneCharName         -- a name cut to one character
  | unknownKeyword      -- a keyword that does not exist
  | unknownAttribute    -- an attribute that does not exist
  | unknownTransform    -- a comparer transform that does not exist
  | unknownCondOp       -- a condition operator that does not exist
  | missingOperand      -- an operand removed
  | missingBracket      -- a parenthesis removed
  | missingEquals       -- `=` removed
  | missingFinalNewline -- the last line end removed
  | dedentedMember      -- a member moved out of its declaration
  | emptyStruct         -- a struct without members
  | wrongArity          -- an attribute with the wrong number of arguments
  | joinLines           -- the line end between two lines removed, the indentation of the second line kept
  | joinLinesFlush      -- the same, the indentation of the second line removed as well
  | splitLine           -- a line end inserted inside a line, in front of a token
  | nearMissSpacing     -- a legal two-word spelling with its blank removed, doubled or turned into a tab (`notin`, `not  in`)
  | respace             -- the same at every gap between two tokens; a blank inserted where there is none (`make_const (`)
  | nearMissWord        -- a legal word in another case, truncated, or doubled
  | widthSweep          -- an integer type with every other width (0..140, 256, 512, leading-zero spellings), both signs
  deriving DecidableEq, Repr, Inhabited

def Op.all : List Op :=
  [.badWidth, .wrongCase, .oneCharName, .unknownKeyword, .unknownAttribute, .unknownTransform, .unknownCondOp,
   .missingOperand, .missingBracket, .missingEquals, .missingFinalNewline, .dedentedMember, .emptyStruct, .wrongArity,
   .joinLines, .joinLinesFlush, .splitLine, .nearMissSpacing, .respace, .nearMissWord, .widthSweep]

/-- operators whose results are not all ill-formed: the language model decides for each result -/
def Op.arbitrated : Op → Bool
  | .joinLines | .joinLinesFlush | .splitLine | .nearMissSpacing | .respace | .nearMissWord | .widthSweep => true
  | _ => false

def Op.name : Op → String
  | .badWidth => "bad-width" | .wrongCase => "wrong-case" | .oneCharName => "one-char-name"
  | .unknownKeyword => "unknown-keyword" | .unknownAttribute => "unknown-attribute"
  | .unknownTransform => "unknown-transform" | .unknownCondOp => "unknown-cond-op"
  | .missingOperand => "missing-operand" | .missingBracket => "missing-bracket" | .missingEquals => "missing-equals"
  | .missingFinalNewline => "missing-final-newline" | .dedentedMember => "dedented-member"
  | .emptyStruct => "empty-struct" | .wrongArity => "wrong-arity"
  | .joinLines => "join-lines" | .joinLinesFlush => "join-lines-flush" | .splitLine => "split-line"
  | .nearMissSpacing => "near-miss-spacing" | .respace => "respace" | .nearMissWord => "near-miss-word"
  | .widthSweep => "width-sweep"

def Op.ofName (s : String) : Option Op := Op.all.find? (·.name = s)

/-! ## raw tokens of a line -/

def isWordChar (c : Char) : Bool := isLower c || isUpper c || isDigit c || c == '_'

/-- a string literal from its opening quote up to and including the next quote (the rest of the line if none) -/
def takeString : Chars → Chars × Chars
  | [] => ([], [])
  | c :: cs => if c == '"' then ([c], cs) else let (s, r) := takeString cs; (c :: s, r)

/-- splits a line into raw tokens; `budget` bounds the recursion (the line length suffices) -/
def rawTokensAux : Nat → Chars → List Chars
  | 0, _ => []
  | _, [] => []
  | fuel + 1, c :: cs =>
    if isWordChar c then
      (c :: cs.takeWhile isWordChar) :: rawTokensAux fuel (cs.dropWhile isWordChar)
    else if isWs c then
      (c :: cs.takeWhile isWs) :: rawTokensAux fuel (cs.dropWhile isWs)
    else if c == '"' then
      let (s, r) := takeString cs
      (c :: s) :: rawTokensAux fuel r
    else [c] :: rawTokensAux fuel cs

def rawTokens (line : Chars) : List Chars := rawTokensAux (line.length + 1) line

/-- blanks, and the carriage return of a `\r\n` line end -/
def isWsTok (t : Chars) : Bool := (t.all fun c => isWs c || c == '\r') && !t.isEmpty
def isWord (t : Chars) : Bool := match t with | c :: _ => isWordChar c | [] => false
def tokIs (t : Chars) (s : String) : Bool := t == s.toList

/-- the tokens that are not blanks, with their index in the token list -/
def significant (toks : List Chars) : List (Nat × Chars) :=
  (enumFrom 0 toks).filter fun e => !isWsTok e.2

def replaceAt (toks : List Chars) (j : Nat) (new : List Chars) : Chars :=
  ((toks.take j) ++ new ++ (toks.drop (j + 1))).flatten

/-- the line with everything from token `j` on removed -/
def cutFrom (toks : List Chars) (j : Nat) : Chars := (toks.take j).flatten

def intNames : List String := ["uint8", "uint16", "uint32", "uint64", "int8", "int16", "int32", "int64"]
def functionKeywords : List String := ["make_const", "make_reserved", "sizeof", "array", "binary_fixed"]
def statementKeywords : List String := ["using", "struct", "enum", "import", "abstract", "inline"]
def flagAttributes : List String := ["is_aligned", "is_size_implicit", "is_bitwise", "is_byte_constrained"]
def variadicAttributes : List String := ["discriminator", "comparer"]

def isOneOf (t : Chars) (names : List String) : Bool := names.any fun n => tokIs t n

/-- the width texts of `width-sweep`: every width 0..140 that is not a supported one, 256, 512, and the supported widths spelled
    with leading zeros -/
def sweepWidths : List String :=
  ((List.range 141).filter fun w => !(w == 8 || w == 16 || w == 32 || w == 64)).map toString ++
    ["256", "512", "08", "016", "032", "0064", "008"]

/-- the spellings of the grammar that consist of two words -/
def twoWordSpellings : List (String × String) :=
  [("not", "in"), ("not", "equals"), ("not", "pad_last"), ("abstract", "struct"), ("inline", "struct")]

/-- every word the grammar spells out -/
def legalWords : List String :=
  ["using", "struct", "enum", "import", "abstract", "inline", "make_const", "make_reserved", "sizeof", "array", "binary_fixed",
   "if", "equals", "in", "not", "pad_last", "ripemd_keccak_256", "__value__", "__FILL__",
   "is_aligned", "is_size_implicit", "is_bitwise", "is_byte_constrained", "size", "initializes", "discriminator", "comparer",
   "alignment", "sort_key", "sizeref"] ++ ["uint8", "uint16", "uint32", "uint64", "int8", "int16", "int32", "int64"]

def upperChar (c : Char) : Char := if isLower c then Char.ofNat (c.toNat - 32) else c
def lowerChar (c : Char) : Char := if isUpper c then Char.ofNat (c.toNat + 32) else c

/-- the significant token before position `p` of the significant list -/
def prevSig (sig : List (Nat × Chars)) (p : Nat) : Option Chars := if p == 0 then none else (sig[p - 1]?).map (·.2)
def nextSig (sig : List (Nat × Chars)) (p : Nat) : Option Chars := (sig[p + 1]?).map (·.2)

def isCodeLine (line : Chars) : Bool := !isBlankLine line && !isCommentLine line
def isIndented (line : Chars) : Bool := match line with | c :: _ => isWs c | [] => false

/-- position (in the significant list) of the first token equal to `s` -/
def findSig (sig : List (Nat × Chars)) (s : String) : Option Nat := sig.findIdx? fun e => tokIs e.2 s

/-- parenthesis depth in front of every significant token -/
def depths : List (Nat × Chars) → Nat → List Nat
  | [], _ => []
  | (_, t) :: rest, d =>
    d :: depths rest (if tokIs t "(" then d + 1 else if tokIs t ")" then d - 1 else d)

/-- the `if` that starts a condition: the first word `if` after the first `=`, outside parentheses
    (inside `array(T, if)` the word is a member name) -/
def conditionIf (sig : List (Nat × Chars)) : Option Nat :=
  match findSig sig "=" with
  | none => none
  | some e =>
    ((enumFrom 0 (sig.zip (depths sig 0))).find? fun x => x.1 > e && tokIs x.2.1.2 "if" && x.2.2 == 0).map (·.1)

/-! ## line-level operators: the corrupted versions of one code line -/

def lineVariants (op : Op) (line : Chars) : List Chars :=
  if !isCodeLine line then [] else
  let toks := rawTokens line
  let sig := significant toks
  let positions := enumFrom 0 sig
  let startsWithAt := (sig.head?.map fun e => tokIs e.2 "@").getD false
  match op with
  | .badWidth =>
    -- an integer type in a type position: after `=`, `:`, or as first argument of array/make_const/make_reserved/sizeof
    positions.filterMap fun (p, j, t) =>
      if isOneOf t intNames &&
          (match prevSig sig p with
           | some q => tokIs q "=" || tokIs q ":" ||
              (tokIs q "(" && p ≥ 2 && ((sig[p - 2]?).map fun e => isOneOf e.2 ["array", "make_const", "make_reserved", "sizeof"]).getD false)
           | none => false)
      then some (replaceAt toks j [(if t.head? == some 'u' then "uint24" else "int24").toList])
      else none
  | .wrongCase =>
    positions.filterMap fun (p, j, t) =>
      if startsWithAt then none
      -- the declared name after `using` / `struct` / `enum`: second letter to upper case (leaves USER_TYPE_NAME)
      else if p ≥ 1 && isWord t && ((prevSig sig p).map fun q => isOneOf q ["using", "struct", "enum"]).getD false
          && (p == 1 || (p == 2 && ((sig.head?).map fun e => isOneOf e.2 ["abstract", "inline"]).getD false)) then
        match t with
        | a :: b :: rest => if isUpper a && isLower b then some (replaceAt toks j [a :: upperChar b :: rest]) else none
        | _ => none
      -- the name of a member / enum value: first word of an indented line, followed by `=`
      else if p == 0 && isIndented line && isWord t && ((nextSig sig p).map fun q => tokIs q "=").getD false then
        match t with
        | a :: rest =>
          if isLower a then some (replaceAt toks j [upperChar a :: rest])
          else if isUpper a then some (replaceAt toks j [t.map lowerChar])
          else none
        | [] => none
      else none
  | .oneCharName =>
    positions.filterMap fun (p, j, t) =>
      if startsWithAt then none
      else if p ≥ 1 && isWord t && ((prevSig sig p).map fun q => isOneOf q ["using", "struct", "enum"]).getD false
          && (p == 1 || (p == 2 && ((sig.head?).map fun e => isOneOf e.2 ["abstract", "inline"]).getD false)) then
        match t with
        | a :: _ :: _ => if isUpper a then some (replaceAt toks j [[a]]) else none
        | _ => none
      else if p == 0 && isIndented line && isWord t && ((nextSig sig p).map fun q => tokIs q "=").getD false then
        match t with
        | a :: _ :: _ => if isLower a || isUpper a then some (replaceAt toks j [[a]]) else none
        | _ => none
      else none
  | .unknownKeyword =>
    let condIf := conditionIf sig
    positions.filterMap fun (p, j, t) =>
      let isStatementKeyword := p == 0 && isOneOf t statementKeywords &&
        !((nextSig sig p).map fun q => tokIs q "=").getD false
      let isFunctionKeyword := (isOneOf t functionKeywords || tokIs t "inline") &&
        ((prevSig sig p).map fun q => tokIs q "=").getD false
      let isStructAfterModifier := p == 1 && tokIs t "struct" && ((sig.head?).map fun e => isOneOf e.2 ["abstract", "inline"]).getD false
      if isStatementKeyword || isFunctionKeyword || isStructAfterModifier || condIf == some p then
        some (replaceAt toks j ['x' :: t])
      else none
  | .unknownAttribute =>
    positions.filterMap fun (p, j, t) =>
      if startsWithAt && p == 1 && isWord t then some (replaceAt toks j ['x' :: t]) else none
  | .unknownTransform =>
    positions.filterMap fun (p, j, t) =>
      if startsWithAt && isWord t && ((prevSig sig p).map fun q => tokIs q "!").getD false then some (replaceAt toks j ['x' :: t]) else none
  | .unknownCondOp =>
    match conditionIf sig with
    | none => []
    | some i =>
      -- `if VALUE OP…`: the first word of the operator
      match sig[i + 2]? with
      | some (j, t) => if isOneOf t ["equals", "in", "not"] then [replaceAt toks j ['x' :: t]] else []
      | none => []
  | .missingOperand =>
    -- everything after the first `=` / `:`; the operand before each `)`; the last word of a condition
    let afterAssign := positions.filterMap fun (p, j, t) =>
      if !startsWithAt && (tokIs t "=" || tokIs t ":") && findSig sig (String.ofList t) == some p && p + 1 < sig.length then
        some (cutFrom toks (j + 1))
      else none
    let beforeParen := positions.filterMap fun (p, _, t) =>
      if tokIs t ")" && p ≥ 1 then
        match sig[p - 1]? with
        | some (j', t') => if isWord t' then some (replaceAt toks j' []) else none
        | none => none
      else none
    let conditionEnd := match conditionIf sig, sig.getLast? with
      | some _, some (j, t) => if isWord t then [replaceAt toks j []] else []
      | _, _ => []
    afterAssign ++ beforeParen ++ conditionEnd
  | .missingBracket =>
    positions.filterMap fun (_, j, t) => if tokIs t "(" || tokIs t ")" then some (replaceAt toks j []) else none
  | .missingEquals =>
    match findSig sig "=" with
    | some p => if startsWithAt then [] else match sig[p]? with | some (j, _) => [replaceAt toks j [[' ']]] | none => []
    | none => []
  | .wrongArity =>
    if !startsWithAt then [] else
    match sig[1]? with
    | none => []
    | some (_, name) =>
      if isOneOf name flagAttributes then [(line.reverse.dropWhile fun c => isWs c || c == '\r').reverse ++ "(ab)".toList]
      else if isOneOf name variadicAttributes then
        match findSig sig "(", findSig sig ")" with
        | some a, some b =>
          match sig[a]?, sig[b]? with
          | some (ja, _), some (jb, _) => [((toks.take (ja + 1)) ++ (toks.drop jb)).flatten]
          | _, _ => []
        | _, _ => []
      else
        match findSig sig ")" with
        | some b => match sig[b]? with | some (jb, _) => [replaceAt toks jb [", zz".toList, ")".toList]] | none => []
        | none => []
  | .widthSweep =>
    -- the sites of `bad-width`; per site both signs, per sign every text of `sweepWidths`, in this order
    positions.flatMap fun (p, j, t) =>
      if isOneOf t intNames &&
          (match prevSig sig p with
           | some q => tokIs q "=" || tokIs q ":" ||
              (tokIs q "(" && p ≥ 2 && ((sig[p - 2]?).map fun e => isOneOf e.2 ["array", "make_const", "make_reserved", "sizeof"]).getD false)
           | none => false)
      then ["uint", "int"].flatMap fun sign => sweepWidths.map fun w => replaceAt toks j [(sign ++ w).toList]
      else []
  | .nearMissSpacing =>
    -- the blank(s) between the two words of a two-word spelling: removed, two blanks, a tab
    (enumFrom 0 toks).flatMap fun (j, t) =>
      if j ≥ 1 && isWsTok t &&
          twoWordSpellings.any (fun (a, b) => ((toks[j - 1]?).map fun x => tokIs x a).getD false && ((toks[j + 1]?).map fun x => tokIs x b).getD false)
      then [replaceAt toks j [], replaceAt toks j [[' ', ' ']], replaceAt toks j [['\t']]]
      else []
  | .respace =>
    -- every gap between two tokens of the line (not the indentation, not what follows the last token)
    (enumFrom 0 toks).flatMap fun (j, t) =>
      if j == 0 || j + 1 ≥ toks.length then []
      else if isWsTok t then
        if ((toks[j - 1]?).map fun x => !isWsTok x).getD false then
          [replaceAt toks j [], replaceAt toks j [[' ', ' ']], replaceAt toks j [['\t']]]
        else []
      else if ((toks[j - 1]?).map fun x => !isWsTok x).getD false then [replaceAt toks j [[' '], t]]
      else []
  | .nearMissWord =>
    (enumFrom 0 toks).flatMap fun (j, t) =>
      if isOneOf t legalWords then
        [replaceAt toks j [match t with | a :: rest => upperChar a :: rest | [] => []], replaceAt toks j [t.map upperChar],
         replaceAt toks j [t.dropLast], replaceAt toks j [t ++ t]]
      else []
  | _ => []

/-! ## document-level operators -/

def joinLines (lines : List Chars) : Chars := (lines.intersperse ['\n']).flatten

/-- lines `i+1 …` that belong to the body of the header at line `i`: indented or blank or comment-only-indented lines
    up to the next line that starts in column 0 -/
def bodyLength (rest : List Chars) : Nat :=
  (rest.takeWhile fun l => isBlankLine l || isIndented l).length

def isStructHeader (line : Chars) : Bool :=
  isCodeLine line && !isIndented line &&
    (match significant (rawTokens line) with
     | (_, a) :: (_, b) :: _ => tokIs a "struct" || (isOneOf a ["abstract", "inline"] && tokIs b "struct")
     | _ => false)

def docVariants (op : Op) (lines : List Chars) : List (List Chars) :=
  let indexed := enumFrom 0 lines
  match op with
  | .missingFinalNewline =>
    -- drop the last line end together with any blank lines after the last statement
    let kept := (lines.reverse.dropWhile isBlankLine).reverse
    match kept.getLast? with
    | some last => [kept.dropLast ++ [(last.reverse.dropWhile (fun c => isWs c || c == '\r')).reverse]]
    | none => []
  | .dedentedMember =>
    indexed.filterMap fun (i, l) =>
      if isCodeLine l && isIndented l then some (lines.take i ++ [l.dropWhile isWs] ++ lines.drop (i + 1)) else none
  | .emptyStruct =>
    indexed.filterMap fun (i, l) =>
      if isStructHeader l then
        let rest := lines.drop (i + 1)
        let n := bodyLength rest
        -- keep the final (empty) segment after the last line end
        let tail := rest.drop n
        some (lines.take (i + 1) ++ (if tail.isEmpty then [[]] else tail))
      else none
  | .joinLines | .joinLinesFlush =>
    -- site i: the line end after line i is removed (with its `\r`), for every line that is followed by another line that ends in a
    -- line end (the last line end is the business of `missing-final-newline`)
    indexed.filterMap fun (i, l) =>
      if i + 2 < lines.length then
        let next := lines.getD (i + 1) []
        let first := if l.getLast? == some '\r' then l.dropLast else l
        some (lines.take i ++ [first ++ (if op == .joinLinesFlush then next.dropWhile isWs else next)] ++ lines.drop (i + 2))
      else none
  | .splitLine =>
    -- a line end (the one the line itself has) in front of every significant token but the first, the rest of the line starting in
    -- column 0 or with the indentation of the line; all lines that are not blank, comment lines included
    indexed.flatMap fun (i, l) =>
      if isBlankLine l || i + 1 ≥ lines.length then [] else
      let toks := rawTokens l
      let indent := l.takeWhile isWs
      let eol : Chars := if l.getLast? == some '\r' then ['\r'] else []
      ((significant toks).drop 1).flatMap fun (j, _) =>
        [indent, []].map fun lead =>
          lines.take i ++ [(toks.take j).flatten ++ eol, lead ++ (toks.drop j).flatten] ++ lines.drop (i + 1)
  | _ =>
    indexed.flatMap fun (i, l) => (lineVariants op l).map fun l' => lines.take i ++ [l'] ++ lines.drop (i + 1)

/-- all corrupted versions of a document under one operator, one per site, in document order -/
def variants (op : Op) (doc : Chars) : List Chars := (docVariants op (physLines doc)).map joinLines

def siteCount (op : Op) (doc : Chars) : Nat := (variants op doc).length

/-- the document corrupted at site `k` -/
def corrupt (op : Op) (k : Nat) (doc : Chars) : Option Chars := (variants op doc)[k]?

end SymbolVerif.Cats.Corrupt

/-
# Derived facts handed to the generators (model of `catparser/generators/util.py`)

* `buildFactoryMap`: `build_factory_map(ast_models)`, an insertion ordered dict factory type -> `FactoryDescriptor`.
* `processStruct` / `bindSizeFields`: what `extend_models` attaches to every struct member (`AstFieldExtensions`): the type model
  (a declaration of the schema, or the member itself), `is_contents_abstract`, `bound_field`, `size_fields`; members are identified
  by their position in the struct.
* `unalignedSeeds`: the `requires_unaligned` marks set while processing the structs (aligned element types of arrays in unaligned
  structs); `propagateUnaligned order`: the fixed-point loop of `_propagate_unaligned`, where `order` is the iteration order of the
  Python `set` of struct names (an explicit parameter: the Python order depends on the hash seed).
Python exceptions are `Except.error`.  The input is an expanded schema (`type_descriptors`).
-/
import SymbolVerif.Model.Cats.Syntax
namespace SymbolVerif.Cats

/-! ## display types -/

inductive DisplayType where
  | unset | integer | byteArray | typedArray | enum | struct
  deriving DecidableEq, Repr, Inhabited

def DisplayType.isArray (d : DisplayType) : Bool := d = .byteArray || d = .typedArray

def ArrayType.displayType (a : ArrayType) : DisplayType :=
  match a.elementType with
  | .int t => if t.size = 1 then .byteArray else .typedArray
  | .named _ => .typedArray

/-- `StructField.display_type` -/
def FieldType.displayType : FieldType → DisplayType
  | .named _ => .unset
  | .int _ => .integer
  | .array a => a.displayType

def Decl.displayType : Decl → DisplayType
  | .alias a => (match a.linkedType with | .int _ => .integer | .buffer _ => .byteArray)
  | .enum _ => .enum
  | .struct _ => .struct

/-! ## build_factory_map -/

structure FactoryDescriptor where
  discriminatorNames : List Scalar
  discriminatorValues : List Scalar
  discriminatorTypes : List FieldType
  children : List String
  deriving DecidableEq, Repr, Inhabited

/-- a Python dict in insertion order -/
abbrev FactoryMap := List (String × FactoryDescriptor)

/-- the value the first initializer for `name` gives (`next(...)`: `StopIteration` when there is none) -/
def discriminatorValue (M : Struct) (name : Scalar) : Except String Scalar :=
  match M.initializers.find? (fun i => decide (i.targetPropertyName = name)) with
  | some i => pure i.value
  | none => throw "StopIteration: no initializer for a discriminator"

/-- the type of the first member called `name` -/
def discriminatorType (M : Struct) (name : Scalar) : Except String FieldType :=
  match M.structFields.find? (fun f => decide (Scalar.str f.name = name)) with
  | some f => pure f.fieldType
  | none => throw "StopIteration: no member for a discriminator"

/-- the descriptor the first descendant seeds -/
def seedDescriptor (M : Struct) : Except String FactoryDescriptor :=
  match M.discriminator with
  | none => .error "TypeError: discriminator is None"
  | some names =>
    match names.mapM (discriminatorValue M), names.mapM (discriminatorType M) with
    | .ok values, .ok types => .ok ⟨names, values, types, []⟩
    | .error e, _ => .error e
    | _, .error e => .error e

def FactoryMap.hasKey (m : FactoryMap) (k : String) : Bool := m.any (·.1 = k)

def FactoryMap.addChild (m : FactoryMap) (k child : String) : FactoryMap :=
  m.map fun e => if e.1 = k then (e.1, { e.2 with children := e.2.children ++ [child] }) else e

/-- the factory type a declaration records (`None` and `''` are falsy) -/
def Decl.factoryKey? : Decl → Option String
  | .struct M => (match M.factoryType with | some ft => if ft = "" then none else some ft | none => none)
  | _ => none

def factoryMapStep (m : FactoryMap) (d : Decl) : Except String FactoryMap :=
  match d, d.factoryKey? with
  | .struct M, some ft =>
    if m.hasKey ft then .ok (m.addChild ft M.name)
    else
      match seedDescriptor M with
      | .ok fd => .ok ((m ++ [(ft, fd)]).addChild ft M.name)
      | .error e => .error e
  | _, _ => .ok m

def buildFactoryMapFrom (m : FactoryMap) : Schema → Except String FactoryMap
  | [] => pure m
  | d :: rest => do
    let m' ← factoryMapStep m d
    buildFactoryMapFrom m' rest

/-- `build_factory_map(ast_models)` -/
def buildFactoryMap (S : Schema) : Except String FactoryMap := buildFactoryMapFrom [] S

/-! ## extend_models: per member extensions -/

structure FieldExt where
  /-- name of the declaration used as `type_model`; `none`: the member itself -/
  typeModel : Option String
  isPod : Bool
  isContentsAbstract : Bool
  /-- position of `bound_field` in the struct -/
  boundField : Option Nat := none
  /-- positions of the `size_fields` -/
  sizeFields : List Nat := []
  deriving DecidableEq, Repr, Inhabited

/-- the part of `_process_struct` for one member: (extension, element type to mark `requires_unaligned`) -/
def processField (S : Schema) (M : Struct) (f : StructField) : Except String (FieldExt × Option String) :=
  match f.fieldType with
  | .array a =>
    if a.displayType = .typedArray then
      match a.elementType with
      | .named n =>
        match S.lookup n with
        | some (.struct E) =>
          pure (⟨none, true, E.isAbstract, none, []⟩,
            if !M.isAligned.truthy && E.isAligned.truthy then some E.name else none)
        | some _ =>
          -- alias / enum element: `display_type` exists; `getattr(element_type_model, 'is_aligned', False)` is False
          pure (⟨none, true, false, none, []⟩, none)
        | none => throw "AttributeError: NoneType has no attribute display_type"
      | .int _ => throw "AttributeError: NoneType has no attribute display_type"
    else pure (⟨none, true, false, none, []⟩, none)
  | .named n =>
    match S.lookup n with
    | some d => pure (⟨some d.name, false, false, none, []⟩, none)
    | none => pure (⟨none, true, false, none, []⟩, none)
  | .int _ => pure (⟨none, true, false, none, []⟩, none)

/-- position of the first member called `name` (`_find_field_by_name`) -/
def findFieldIndex (fs : List StructField) (name : Scalar) : Option Nat :=
  fs.findIdx? (fun f => decide (Scalar.str f.name = name))

def setBound (exts : List FieldExt) (i : Nat) (target : Nat) : List FieldExt :=
  exts.modify i fun e => { e with boundField := some target }

def addSizeField (exts : List FieldExt) (i : Nat) (sizeField : Nat) : List FieldExt :=
  exts.modify i fun e => { e with sizeFields := e.sizeFields ++ [sizeField] }

/-- an array member binds its size member -/
def bindArrayStep (fs : List StructField) (exts : List FieldExt) (i : Nat) (f : StructField) : Except String (List FieldExt) :=
  match f.fieldType with
  | .array a =>
    (match a.size with
     | .str s =>
       (match findFieldIndex fs (.str s) with
        | some j => .ok (setBound exts j i)
        | none => .error "StopIteration: size member not found")
     | _ => .ok exts)
  | _ => .ok exts

/-- a `sizeof` member and its target get to know each other -/
def bindSizeofStep (fs : List StructField) (exts : List FieldExt) (i : Nat) (f : StructField) : Except String (List FieldExt) :=
  if f.isSizeReference then
    match (match f.value with | .scalar v => findFieldIndex fs v | .cond _ => none) with
    | some j => .ok (addSizeField (setBound exts i j) j i)
    | none => .error "StopIteration: sizeof target not found"
  else .ok exts

/-- one step of `_bind_size_fields` for the member at position `i` -/
def bindStep (fs : List StructField) (exts : List FieldExt) (i : Nat) (f : StructField) : Except String (List FieldExt) :=
  match bindArrayStep fs exts i f with
  | .ok exts1 => bindSizeofStep fs exts1 i f
  | .error e => .error e

def bindLoop (fs : List StructField) : List (Nat × StructField) → List FieldExt → Except String (List FieldExt)
  | [], exts => pure exts
  | (i, f) :: rest, exts => do
    let exts' ← bindStep fs exts i f
    bindLoop fs rest exts'

/-- `_bind_size_fields` -/
def bindSizeFields (fs : List StructField) (exts : List FieldExt) : Except String (List FieldExt) :=
  bindLoop fs ((List.range fs.length).zip fs) exts

/-- `_process_struct`: extensions of all members (by position) and the element types marked `requires_unaligned` -/
def processStruct (S : Schema) (M : Struct) : Except String (List FieldExt × List String) := do
  if M.fields.any Member.isPlaceholder then throw "AttributeError: placeholder has no field_type"
  let results ← M.structFields.mapM (processField S M)
  let exts ← bindSizeFields M.structFields (results.map (·.1))
  pure (exts, results.filterMap (·.2))

/-! ## requires_unaligned -/

/-- the marks set while the structs are processed: aligned element types of (typed) arrays in unaligned structs -/
def unalignedSeeds (S : Schema) : Except String (List String) := do
  let per ← S.structs.mapM fun M => (·.2) <$> processStruct S M
  pure per.flatten

/-- the recorded factory type of a struct name, when it resolves to a declaration (`type_map.get(struct.factory_type)`) -/
def factoryOf (S : Schema) (n : String) : Option String :=
  match S.lookup n with
  | some (.struct M) =>
    (match M.factoryType with
     | some ft => if (S.lookup ft).isSome then some ft else none
     | none => none)
  | _ => none

structure UState where
  /-- names with `requires_unaligned = True` -/
  req : List String
  /-- `MarkedStructs.already_marked`: the descendants whose members have been visited -/
  marked : List String
  deriving DecidableEq, Repr, Inhabited

def addName (l : List String) (n : String) : List String := if n ∈ l then l else l ++ [n]

/-- first half of a pass: descendants of factories that require unaligned get the mark; the ones not yet in `already_marked`
    are tracked -/
def passA (S : Schema) : List String → List String → List String → List String × List String
  | [], req, tracked => (req, tracked)
  | n :: rest, req, tracked =>
    match factoryOf S n with
    | some ft =>
      if ft ∈ req then passA S rest (addName req n) (addName tracked n)
      else passA S rest req tracked
    | none => passA S rest req tracked

/-- the struct typed members of a newly marked struct (an array member raises `RuntimeError`) -/
def structMemberTypes (S : Schema) (n : String) : Except String (List String) :=
  match S.lookup n with
  | some (.struct M) =>
    M.structFields.foldlM (fun acc f =>
      match f.fieldType with
      | .array _ => throw s!"RuntimeError: array field not handled in {n}.{f.name}"
      | .named t => (match S.lookup t with | some (.struct T) => pure (acc ++ [T.name]) | _ => pure acc)
      | .int _ => pure acc) []
  | _ => pure []

/-- second half of a pass: struct typed members of the newly marked structs get the mark.  They do NOT enter `already_marked`:
    their own members have not been visited, and when they derive from a marked factory the next pass visits them as descendants. -/
def passB (S : Schema) : List String → UState → Except String UState
  | [], st => pure st
  | n :: rest, st => do
    let ts ← structMemberTypes S n
    passB S rest ⟨ts.foldl addName st.req, st.marked⟩

/-- one iteration of the `while True` loop -/
def unalignedPass (S : Schema) (order : List String) (st : UState) : Except String UState := do
  let (req, tracked) := passA S order st.req []
  let newly := tracked.filter (· ∉ st.marked)
  passB S newly ⟨req, newly.foldl addName st.marked⟩

def unalignedLoop (S : Schema) (order : List String) : Nat → UState → Except String UState
  | 0, _ => throw "out of fuel"
  | fuel + 1, st => do
    let st' ← unalignedPass S order st
    if st'.marked.length = st.marked.length then pure st' else unalignedLoop S order fuel st'

/-- `_propagate_unaligned(struct_names, type_map)` started from the marks `seeds`; `order` is the iteration order of the set of
    struct names.  Every pass but the last adds a struct name to `already_marked`, so `S.length + 1` passes suffice. -/
def propagateUnaligned (S : Schema) (order : List String) (seeds : List String) : Except String (List String) :=
  (·.req) <$> unalignedLoop S order (S.length + 1) ⟨seeds.foldl addName [], []⟩

/-- the names that end up with `requires_unaligned` after `extend_models` -/
def requiresUnaligned (S : Schema) (order : List String) : Except String (List String) := do
  let seeds ← unalignedSeeds S
  propagateUnaligned S order seeds

end SymbolVerif.Cats

/-
The language of `catbuffer/parser/catparser/grammar/catbuffer.lark` as a total, line-structured recursive-descent
parser producing the `Syntax` AST (what `CatbufferTransformer` builds from the tree).

Layers (structural recursion; the two comma-list scanners carry a budget equal to the remaining input length):
* `Lexer.logicalLines`/`Lexer.events`: logical lines and the `_INDENT`/`_DEDENT` tokens of the `Indenter`;
* `groupBlocks`: a head line with an optional indented body (bodies do not nest in this grammar);
* `parseTopLine`/`parseEnumLine`/`parseStructLine`: one logical line in its context, character level, with lark's
  contextual keyword recognition (which terminals are tried at a position, in which order, prefix matches);
* `topLoop`/`enumLoop`/`structLoop`: the statement level (`[comment] declaration | import | comment`, attribute
  lines before `enum`/`struct` headers and before members, comment attachment).

lark's LALR engine is not modelled; the language and the resulting objects are. One known divergence is deliberate
(see `harness/c04.py`, finding `C04:comment-before-member-keyword-prefix`): lark's LALR state after a comment is
shared by all contexts, which makes the real parser reject a commented `inline Foo` member (and commented members
whose names start with `abstract`/`inline` or are `import`/`struct`/`using`/`enum`); the model accepts them like
their uncommented forms, which is what the grammar rules say.
-/
import SymbolVerif.Model.Cats.Syntax
import SymbolVerif.Model.Cats.Lexer
namespace SymbolVerif.Cats.Parser
open SymbolVerif.Cats SymbolVerif.Cats.Lexer

structure ParseError where
  line : Nat
  msg : String
  deriving DecidableEq, Repr, Inhabited

/-- a top-level statement of a document -/
inductive Item where
  | decl (d : Decl)
  | import (path : String)
  /-- a comment that is not attached to a declaration -/
  | comment (c : Comment)
  deriving DecidableEq, Repr, Inhabited

/-! ## small pieces shared by the line parsers -/

def mkInt (r : Bool × Nat) : IntType := ⟨r.1, r.2, none⟩

/-- `_integer_or_enum_const: FIXED_SIZE_INTEGER "," _dec_or_hex_number | USER_TYPE_NAME "," CONST_PROPERTY_NAME` -/
def integerOrEnumConst (cs : Chars) : Option ((FieldType × Scalar) × Chars) :=
  match fixedSizeInteger cs with
  | some (t, r) => do
    let r ← lit "," r
    let (n, r) ← number r
    some ((.int (mkInt t), .int n), r)
  | none => do
    let (t, r) ← userTypeName cs
    let r ← lit "," r
    let (c, r) ← constName r
    some ((.named t, .str c), r)

/-- the value of a condition: `CONST_PROPERTY_NAME` is tried first, then a number -/
def conditionValue (r : Chars) : Option (Scalar × Chars) :=
  match constName r with
  | some (c, r) => some (Scalar.str c, r)
  | none => (number r).map fun (n, r) => (Scalar.int n, r)

/-- `conditional_expression: "if" (_dec_or_hex_number | CONST_PROPERTY_NAME) CONDITIONAL_OPERATION PROPERTY_NAME` -/
def conditionalExpression (cs : Chars) : Option (Conditional × Chars) := do
  let r ← lit "if" cs
  let (v, r) ← conditionValue r
  let (op, r) ← conditionalOperation r
  let (p, r) ← propertyName r
  some (⟨v, op, p⟩, r)

/-- `[conditional_expression] _NL`: `none` = the line does not end properly -/
def optConditionalEol (cs : Chars) : Option FieldValue :=
  if atEol cs then some (.scalar .none)
  else
    match conditionalExpression cs with
    | some (c, r) => if atEol r then some (.cond c) else none
    | none => none

/-- element type of an array: `FIXED_SIZE_INTEGER | USER_TYPE_NAME` -/
def scanElem (r : Chars) : Option (ElemType × Chars) :=
  match fixedSizeInteger r with
  | some (t, r) => some (ElemType.int (mkInt t), r)
  | none => (userTypeName r).map fun (n, r) => (ElemType.named n, r)

/-- size of an array: `PROPERTY_NAME | _dec_or_hex_number | ARRAY_SIZE_FILL_PLACEHOLDER` -/
def scanSize (r : Chars) : Option (Scalar × Chars) :=
  match propertyName r with
  | some (p, r) => some (Scalar.str p, r)
  | none =>
    match number r with
    | some (n, r) => some (Scalar.int n, r)
    | none => (lit fillPlaceholder r).map fun r => (Scalar.str fillPlaceholder, r)

/-- `array_expression` after the keyword `array` -/
def arrayArguments (cs : Chars) : Option (ArrayType × Chars) := do
  let r ← lit "(" cs
  let (et, r) ← scanElem r
  let r ← lit "," r
  let (size, r) ← scanSize r
  let r ← lit ")" r
  some (⟨et, size, {}⟩, r)

/-- the type of a plain field: `USER_TYPE_NAME | FIXED_SIZE_INTEGER | array_expression` -/
def plainFieldType (cs : Chars) : Option (FieldType × Chars) :=
  match fixedSizeInteger cs with
  | some (t, r) => some (.int (mkInt t), r)
  | none =>
    match userTypeName cs with
    | some (n, r) => some (.named n, r)
    | none => do
      let r ← lit "array" cs
      let (a, r) ← arrayArguments r
      some (.array a, r)

/-- `struct_field` after `name =`: type, optional condition, end of line -/
def plainFieldRest (name : String) (cs : Chars) : Option StructField := do
  let (t, r) ← plainFieldType cs
  let v ← optConditionalEol r
  some { name := name, fieldType := t, value := v }

/-! ## attributes -/

/-- `"(" PROPERTY_NAME ("," PROPERTY_NAME)* ")"` after the first name: the remaining names up to `)`;
    the recursion follows the input -/
def moreProperties : Nat → Chars → Option (List Scalar × Chars)
  | 0, _ => none
  | fuel + 1, cs =>
    match lit ")" cs with
    | some r => some ([], r)
    | none => do
      let r ← lit "," cs
      let (p, r) ← propertyName r
      let (ps, r) ← moreProperties fuel r
      some (.str p :: ps, r)

/-- `PROPERTY_NAME ["!" TRANSFORM_NAME]`: two values, the second `None` without a transform -/
def comparerEntry (cs : Chars) : Option (List Scalar × Chars) := do
  let (p, r) ← propertyName cs
  match lit "!" r with
  | some r => do
    let r ← lit "ripemd_keccak_256" r
    some ([.str p, .str "ripemd_keccak_256"], r)
  | none => some ([.str p, .none], r)

def moreComparerEntries : Nat → Chars → Option (List Scalar × Chars)
  | 0, _ => none
  | fuel + 1, cs =>
    match lit ")" cs with
    | some r => some ([], r)
    | none => do
      let r ← lit "," cs
      let (e, r) ← comparerEntry r
      let (es, r) ← moreComparerEntries fuel r
      some (e ++ es, r)

/-- a struct attribute after `@` (the terminals `STRUCT_ATTRIBUTE_NAME_*`), up to the end of the line -/
def structAttribute (cs : Chars) : Option Attribute :=
  let t := skipWs cs
  let finish (a : Attribute) (r : Chars) : Option Attribute := if atEol r then some a else none
  match litHere "is_size_implicit" t with
  | some r => finish ⟨"is_size_implicit", []⟩ r
  | none =>
  match litHere "is_aligned" t with
  | some r => finish ⟨"is_aligned", []⟩ r
  | none =>
  match litHere "discriminator" t with
  | some r => do
    let r ← lit "(" r
    let (p, r) ← propertyName r
    let (ps, r) ← moreProperties (r.length + 1) r
    finish ⟨"discriminator", .str p :: ps⟩ r
  | none =>
  match litHere "initializes" t with
  | some r => do
    let r ← lit "(" r
    let (p, r) ← propertyName r
    let r ← lit "," r
    let (c, r) ← constName r
    let r ← lit ")" r
    finish ⟨"initializes", [.str p, .str c]⟩ r
  | none =>
  match litHere "comparer" t with
  | some r => do
    let r ← lit "(" r
    let (e, r) ← comparerEntry r
    let (es, r) ← moreComparerEntries (r.length + 1) r
    finish ⟨"comparer", e ++ es⟩ r
  | none =>
  match litHere "size" t with
  | some r => do
    let r ← lit "(" r
    let (p, r) ← propertyName r
    let r ← lit ")" r
    finish ⟨"size", [.str p]⟩ r
  | none => none

/-- an enum attribute after `@` (`ENUM_ATTRIBUTE_NAME_ZERO_PARAMS`) -/
def enumAttribute (cs : Chars) : Option Attribute := do
  let r ← lit "is_bitwise" cs
  if atEol r then some ⟨"is_bitwise", []⟩ else none

/-- a field attribute after `@` (the terminals `FIELD_ATTRIBUTE_NAME_*`); optional parts leave lark's `None`
    placeholders in the value list -/
def fieldAttribute (cs : Chars) : Option Attribute :=
  let t := skipWs cs
  let finish (a : Attribute) (r : Chars) : Option Attribute := if atEol r then some a else none
  match litHere "is_byte_constrained" t with
  | some r => finish ⟨"is_byte_constrained", []⟩ r
  | none =>
  match litHere "alignment" t with
  | some r => do
    let r ← lit "(" r
    let (n, r) ← number r
    match lit "," r with
    | some r =>
      -- `[NEGATION_OPERATOR] FIELD_ATTRIBUTE_NAME_ALIGNMENT_OPTION`: `pad_last` is tried first
      match lit "pad_last" r with
      | some r => do
        let r ← lit ")" r
        finish ⟨"alignment", [.int n, .none, .str "pad_last"]⟩ r
      | none => do
        let r ← lit "not" r
        let r ← lit "pad_last" r
        let r ← lit ")" r
        finish ⟨"alignment", [.int n, .str "not", .str "pad_last"]⟩ r
    | none => do
      let r ← lit ")" r
      finish ⟨"alignment", [.int n, .none, .none]⟩ r
  | none =>
  match litHere "sort_key" t with
  | some r => do
    let r ← lit "(" r
    let (p, r) ← propertyName r
    let r ← lit ")" r
    finish ⟨"sort_key", [.str p]⟩ r
  | none =>
  match litHere "sizeref" t with
  | some r => do
    let r ← lit "(" r
    let (p, r) ← propertyName r
    match lit "," r with
    | some r => do
      let (n, r) ← number r
      let r ← lit ")" r
      finish ⟨"sizeref", [.str p, .int n]⟩ r
    | none => do
      let r ← lit ")" r
      -- no placeholder here: the optional part holds an inlined rule, lark leaves a one-element list
      finish ⟨"sizeref", [.str p]⟩ r
  | none => none

/-! ## top-level lines -/

/-- which attribute lines precede the current line -/
inductive TopMode where
  | start
  | afterEnumAttrs
  | afterStructAttrs
  deriving DecidableEq, Repr, Inhabited

inductive TopLine where
  | import (path : String)
  | alias (name : String) (linked : LinkedType)
  | enumAttr (a : Attribute)
  | structAttr (a : Attribute)
  | enumHeader (name : String) (base : IntType)
  | structHeader (disposition : Option String) (name : String)
  deriving DecidableEq, Repr, Inhabited

/-- `"struct" USER_TYPE_NAME _NL` -/
def structHeaderRest (disposition : Option String) (cs : Chars) : Option TopLine := do
  let r ← lit "struct" cs
  let (n, r) ← userTypeName r
  if atEol r then some (.structHeader disposition n) else none

/-- `"enum" USER_TYPE_NAME ":" FIXED_SIZE_INTEGER _NL` after the keyword -/
def enumHeaderRest (cs : Chars) : Option TopLine := do
  let (n, r) ← userTypeName cs
  let r ← lit ":" r
  let (t, r) ← fixedSizeInteger r
  if atEol r then some (.enumHeader n (mkInt t)) else none

/-- `alias` after the keyword `using` -/
def aliasRest (cs : Chars) : Option TopLine := do
  let (n, r) ← userTypeName cs
  let r ← lit "=" r
  match fixedSizeInteger r with
  | some (t, r) => if atEol r then some (.alias n (.int (mkInt t))) else none
  | none => do
    let r ← lit "binary_fixed" r
    let r ← lit "(" r
    let (size, r) ← number r
    let r ← lit ")" r
    if atEol r then some (.alias n (.buffer size)) else none

/-- one top-level code line. At the start of a statement lark tries `STRUCT_MODIFIER`, then the keywords `import`,
    `struct`, `using`, `enum`, then `@`; after attribute lines only what can continue the declaration. -/
def parseTopLine (mode : TopMode) (cs : Chars) : Option TopLine :=
  match mode with
  | .start =>
    match structModifier cs with
    | some (m, r) => structHeaderRest (some m) r
    | none =>
    match lit "import" cs with
    | some r => do
      let (s, r) ← escapedString r
      if atEol r then some (.import s) else none
    | none =>
    match lit "struct" cs with
    | some _ => structHeaderRest none cs
    | none =>
    match lit "using" cs with
    | some r => aliasRest r
    | none =>
    match lit "enum" cs with
    | some r => enumHeaderRest r
    | none => do
      let r ← lit "@" cs
      match structAttribute r with
      | some a => some (.structAttr a)
      | none => (enumAttribute r).map .enumAttr
  | .afterEnumAttrs =>
    match lit "enum" cs with
    | some r => enumHeaderRest r
    | none => do
      let r ← lit "@" cs
      (enumAttribute r).map .enumAttr
  | .afterStructAttrs =>
    match structModifier cs with
    | some (m, r) => structHeaderRest (some m) r
    | none =>
    match lit "struct" cs with
    | some _ => structHeaderRest none cs
    | none => do
      let r ← lit "@" cs
      (structAttribute r).map .structAttr

/-! ## enum body lines -/

/-- `enum_value: CONST_PROPERTY_NAME "=" _dec_or_hex_number _NL` -/
def parseEnumLine (cs : Chars) : Option EnumValue := do
  let (n, r) ← constName cs
  let r ← lit "=" r
  let (v, r) ← number r
  if atEol r then some { name := n, value := .int v } else none

/-! ## struct body lines -/

inductive StructLine where
  | attr (a : Attribute)
  /-- a member without its attributes and comment -/
  | member (m : Member)
  deriving DecidableEq, Repr, Inhabited

/-- `struct_field_const` after the constant's name: `"=" "make_const" "(" _integer_or_enum_const ")" _NL` -/
def constMemberRest (n : String) (r : Chars) : Option StructLine := do
  let r ← lit "=" r
  let r ← lit "make_const" r
  let r ← lit "(" r
  let ((t, v), r) ← integerOrEnumConst r
  let r ← lit ")" r
  if atEol r then some (.member (.field { name := n, fieldType := t, value := .scalar v, disposition := some "const" })) else none

/-- a member line after `name =` (no attribute lines before it): `make_reserved(…)`, `sizeof(…)`, `inline T`, or a
    plain field -/
def memberAfterEquals (n : String) (r : Chars) : Option StructLine :=
  match lit "make_reserved" r with
  | some r => do
    let r ← lit "(" r
    let ((t, v), r) ← integerOrEnumConst r
    let r ← lit ")" r
    if atEol r then some (.member (.field { name := n, fieldType := t, value := .scalar v, disposition := some "reserved" })) else none
  | none =>
  match lit "sizeof" r with
  | some r => do
    let r ← lit "(" r
    let (t, r) ← fixedSizeInteger r
    let r ← lit "," r
    let (p, r) ← propertyName r
    let r ← lit ")" r
    if atEol r then
      some (.member (.field { name := n, fieldType := .int (mkInt t), value := .scalar (.str p), disposition := some "sizeof" }))
    else none
  | none =>
  match lit "inline" r with
  | some r => do
    let (t, r) ← userTypeName r
    if atEol r then some (.member (.field { name := n, fieldType := .named t, disposition := some "inline" })) else none
  | none => (plainFieldRest n r).map fun f => .member (.field f)

/-- `struct_inline: "inline" USER_TYPE_NAME _NL` after the keyword -/
def unnamedInlineRest (r : Chars) : Option StructLine := do
  let (t, r) ← userTypeName r
  if atEol r then some (.member (.inlinePlaceholder t none)) else none

/-- a plain field after its name: `"=" type [condition] _NL` -/
def plainMemberRest (n : String) (r : Chars) : Option StructLine := do
  let r ← lit "=" r
  (plainFieldRest n r).map fun f => .member (.field f)

/-- one code line of a struct body. Without preceding attribute lines lark tries `CONST_PROPERTY_NAME`,
    `PROPERTY_NAME` (retagged to the keyword `inline` when it is exactly that), `__value__`, `@`; after attribute
    lines only a plain field (`PROPERTY_NAME` without retagging, or `__value__`) or another attribute. -/
def parseStructLine (afterAttrs : Bool) (cs : Chars) : Option StructLine :=
  if afterAttrs then
    match propertyName cs with
    | some (n, r) => plainMemberRest n r
    | none =>
    match lit "__value__" cs with
    | some r => plainMemberRest "__value__" r
    | none => do
      let r ← lit "@" cs
      (fieldAttribute r).map .attr
  else
    match constName cs with
    | some (n, r) => constMemberRest n r
    | none =>
    match propertyName cs with
    | some (n, r) =>
      if n = "inline" then unnamedInlineRest r
      else do
        let r ← lit "=" r
        memberAfterEquals n r
    | none =>
    match lit "__value__" cs with
    | some r => plainMemberRest "__value__" r
    | none => do
      let r ← lit "@" cs
      (fieldAttribute r).map .attr

/-! ## blocks -/

structure Block where
  head : LLine
  /-- the lines between `_INDENT` and `_DEDENT` that follow the head -/
  body : Option (List LLine)
  deriving DecidableEq, Repr, Inhabited

inductive GroupState where
  | top (acc : List Block)
  | inBody (head : LLine) (lines : List LLine) (acc : List Block)

/-- pairs every `_INDENT … _DEDENT` run with the line before it; bodies do not nest in this grammar -/
def groupBlocks : List Ev → GroupState → Except ParseError (List Block)
  | [], .top acc => .ok acc.reverse
  | [], .inBody head _ _ => .error ⟨head.lineNo, "unterminated block"⟩
  | .line l :: rest, .top acc => groupBlocks rest (.top (⟨l, none⟩ :: acc))
  | .indent n :: rest, .top acc =>
    match acc with
    | ⟨h, none⟩ :: acc' => groupBlocks rest (.inBody h [] acc')
    | _ => .error ⟨n, "unexpected indent"⟩
  | .dedent n :: _, .top _ => .error ⟨n, "unexpected dedent"⟩
  | .line l :: rest, .inBody h ls acc => groupBlocks rest (.inBody h (l :: ls) acc)
  | .indent n :: _, .inBody _ _ _ => .error ⟨n, "unexpected indent"⟩
  | .dedent _ :: rest, .inBody h ls acc => groupBlocks rest (.top (⟨h, some ls.reverse⟩ :: acc))

/-! ## statement level -/

def commentOf (l : LLine) : Comment := Comment.ofString (String.ofList l.text)

/-- `(comment | enum_child)*`: `pending` is a comment that may still attach to the next value -/
def enumLoop : List LLine → Option Comment → List EnumValue → Except ParseError (List EnumValue)
  | [], _, acc => .ok acc.reverse        -- a trailing comment is dropped (`_remove_comments`)
  | l :: rest, pending, acc =>
    match l.kind with
    | .comment => enumLoop rest (some (commentOf l)) acc
    | .code =>
      match parseEnumLine l.text with
      | some v => enumLoop rest none ({ v with comment := pending } :: acc)
      | none => .error ⟨l.lineNo, "enum value expected"⟩

/-- `(comment | struct_child)*`: `pending` comment, `attrs` = attribute lines read for the next field -/
def structLoop : List LLine → Option Comment → Option (List Attribute) → List Member → Except ParseError (List Member)
  | [], _, none, acc => .ok acc.reverse
  | [], _, some _, _ => .error ⟨0, "field expected after attributes"⟩
  | l :: rest, pending, attrs, acc =>
    match l.kind with
    | .comment =>
      match attrs with
      | none => structLoop rest (some (commentOf l)) none acc
      | some _ => .error ⟨l.lineNo, "comment between attributes and field"⟩
    | .code =>
      match parseStructLine attrs.isSome l.text with
      | some (.attr a) => structLoop rest pending (some (attrs.getD [] ++ [a])) acc
      | some (.member (.field f)) =>
        structLoop rest none none (.field { f with attributes := attrs, comment := pending } :: acc)
      | some (.member (.inlinePlaceholder t _)) => structLoop rest none none (.inlinePlaceholder t pending :: acc)
      | none => .error ⟨l.lineNo, "struct member expected"⟩

/-- what precedes the current block at the top level -/
structure TopState where
  pending : Option Comment := none
  /-- `some (true, as)`: enum attribute lines read so far; `some (false, as)`: struct attribute lines -/
  attrs : Option (Bool × List Attribute) := none

def TopState.mode (st : TopState) : TopMode :=
  match st.attrs with
  | none => .start
  | some (true, _) => .afterEnumAttrs
  | some (false, _) => .afterStructAttrs

def flushComment (pending : Option Comment) (acc : List Item) : List Item :=
  match pending with
  | some c => .comment c :: acc
  | none => acc

/-- `statement+` over the blocks of a document -/
def topLoop : List Block → TopState → List Item → Except ParseError (List Item)
  | [], st, acc =>
    match st.attrs with
    | some _ => .error ⟨0, "declaration expected after attributes"⟩
    | none => .ok (flushComment st.pending acc).reverse
  | b :: rest, st, acc =>
    let l := b.head
    match l.kind with
    | .comment =>
      match st.attrs, b.body with
      | none, none => topLoop rest { pending := some (commentOf l) } (flushComment st.pending acc)
      | some _, _ => .error ⟨l.lineNo, "comment between attributes and declaration"⟩
      | _, some _ => .error ⟨l.endLineNo, "unexpected indent"⟩
    | .code =>
      match parseTopLine st.mode l.text with
      | none => .error ⟨l.lineNo, "statement expected"⟩
      | some line =>
        match line, b.body with
        | .import p, none => topLoop rest {} (.import p :: flushComment st.pending acc)
        | .alias n t, none => topLoop rest {} (.decl (.alias { name := n, linkedType := t, comment := st.pending }) :: acc)
        | .enumAttr a, none => topLoop rest { st with attrs := some (true, (st.attrs.map (·.2)).getD [] ++ [a]) } acc
        | .structAttr a, none => topLoop rest { st with attrs := some (false, (st.attrs.map (·.2)).getD [] ++ [a]) } acc
        | .enumHeader n base, body =>
          match enumLoop (body.getD []) none [] with
          | .error e => .error e
          | .ok values =>
            topLoop rest {} (.decl (.enum { name := n, base := base, values := values, attributes := st.attrs.map (·.2), comment := st.pending }) :: acc)
        | .structHeader d n, some body =>
          match structLoop body none none [] with
          | .error e => .error ⟨if e.line == 0 then (body.getLast?.map (·.endLineNo)).getD l.lineNo else e.line, e.msg⟩
          | .ok members =>
            topLoop rest {} (.decl (.struct { disposition := d, name := n, fields := members, attributes := st.attrs.map (·.2), comment := st.pending }) :: acc)
        | .structHeader _ _, none => .error ⟨l.lineNo, "a struct needs an indented body"⟩
        | _, some _ => .error ⟨l.endLineNo, "unexpected indent"⟩

/-! ## entry points -/

def liftLex {α : Type} : Except LexError α → Except ParseError α
  | .ok a => .ok a
  | .error e => .error ⟨e.line, e.msg⟩

/-- `create_cats_lark_parser().parse(text)`: all statements of the document, or the first error -/
def parseItems (doc : Chars) : Except ParseError (List Item) := do
  let (ls, eofIndent) ← liftLex (logicalLines doc)
  let evs ← liftLex (events ls eofIndent)
  let blocks ← groupBlocks evs (.top [])
  match topLoop blocks {} [] with
  | .error e => .error ⟨if e.line == 0 then (ls.getLast?.map (·.endLineNo)).getD 1 else e.line, e.msg⟩
  | .ok items => .ok items

/-- the declarations (`Statement` objects) of a document, in source order -/
def declsOf (items : List Item) : Schema := items.filterMap fun | .decl d => some d | _ => none

/-- the import statements of a document, in source order -/
def importsOf (items : List Item) : List String := items.filterMap fun | .import p => some p | _ => none

def parse (doc : Chars) : Except ParseError Schema := (parseItems doc).map declsOf

def parseString (doc : String) : Except ParseError Schema := parse doc.toList

end SymbolVerif.Cats.Parser

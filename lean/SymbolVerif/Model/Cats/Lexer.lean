/-
Lexical layer of the CATS front end (model of `catbuffer.lark`'s terminals, of lark's `_NL` handling and of the
`Indenter` post-lexer configured in `CatsLarkParser.py`: `tab_len = 4`, no parentheses).

Two parts:

* line structure: a document (`List Char`) is cut into *logical lines*. A physical line is what lies between two
  `\n`; blank physical lines (only blanks/tabs, optionally a `\r` before the `\n`) disappear into lark's `_NL` token
  `(\r?\n[\t ]*)+`; a run of physical lines that start with `#` is ONE comment token
  (`MULTILINE_SH_COMMENT = #[^\n]*(\r?\n[\t ]*#[^\n]*)*`); the indentation of a logical line is
  `#blanks + 4·#tabs` of its leading white space (what `Indenter.handle_NL` computes). The text after the last `\n`
  must be white space only (every statement ends in `_NL`); its indentation still takes part in the
  indent/dedent computation (`eofIndent`).
* scanners for the terminals. lark's contextual lexer tries the terminals acceptable in the current parser state in
  a fixed order, each as an anchored regular expression: a *prefix* match, no word boundary (`structFoo` is `struct`
  `Foo`; `inner` after a condition value is `in` `ner`). White space between tokens is optional and ignored
  (`%ignore WS_INLINE`).
-/
namespace SymbolVerif.Cats.Lexer

abbrev Chars := List Char

def isWs (c : Char) : Bool := c == ' ' || c == '\t'
def isLower (c : Char) : Bool := 'a' ≤ c && c ≤ 'z'
def isUpper (c : Char) : Bool := 'A' ≤ c && c ≤ 'Z'
def isDigit (c : Char) : Bool := '0' ≤ c && c ≤ '9'
/-- `"A".."F" | DIGIT` (lower-case hex digits are not part of `HEX_NUMBER`) -/
def isHexDigit (c : Char) : Bool := isDigit c || ('A' ≤ c && c ≤ 'F')

/-- `indent_str.count(' ') + indent_str.count('\t') * tab_len` -/
def indentOf (ws : Chars) : Nat := ws.foldl (fun n c => n + (if c == '\t' then 4 else if c == ' ' then 1 else 0)) 0

/-! ## logical lines -/

/-- the physical lines of a document: `text.split('\n')` -/
def physLines : Chars → List Chars
  | [] => [[]]
  | c :: cs =>
    match physLines cs with
    | [] => [[]]   -- unreachable
    | l :: ls => if c == '\n' then [] :: l :: ls else (c :: l) :: ls

inductive LKind where
  | code
  | comment
  deriving DecidableEq, Repr, Inhabited

structure LLine where
  /-- physical line number (1-based) of the first line -/
  lineNo : Nat
  /-- physical line number of the last line (differs for a multi-line comment) -/
  endLineNo : Nat
  indent : Nat
  kind : LKind
  /-- code: the line without its leading white space and without the `\r` of a `\r\n` line end;
      comment: the text of the comment token (lines joined by `\n`, each without a trailing `\r`) -/
  text : Chars
  deriving DecidableEq, Repr, Inhabited

/-- drops the `\r` of a `\r\n` line end -/
def stripCR (cs : Chars) : Chars :=
  match cs.getLast? with
  | some '\r' => cs.dropLast
  | _ => cs

/-- a physical line that vanishes into `_NL` -/
def isBlankLine (p : Chars) : Bool :=
  let rest := p.dropWhile isWs
  rest.isEmpty || rest == ['\r']

def isCommentLine (p : Chars) : Bool := (p.dropWhile isWs).head? == some '#'

/-- state of the line grouping: logical lines so far (reversed) and whether the previous physical line was a comment
    line (then a following comment line continues the same token) -/
def groupStep (st : List LLine × Bool) (entry : Nat × Chars) : List LLine × Bool :=
  let (acc, inComment) := st
  let (n, p) := entry
  if isCommentLine p then
    let body := stripCR (p.dropWhile isWs)
    match inComment, acc with
    | true, last :: rest => ({ last with endLineNo := n, text := last.text ++ '\n' :: stripCR p } :: rest, true)
    | _, _ => ({ lineNo := n, endLineNo := n, indent := indentOf (p.takeWhile isWs), kind := .comment, text := body } :: acc, true)
  else if isBlankLine p then (acc, false)
  else
    ({ lineNo := n, endLineNo := n, indent := indentOf (p.takeWhile isWs), kind := .code, text := stripCR (p.dropWhile isWs) } :: acc, false)

/-- numbers the elements of a list from `k` -/
def enumFrom {α : Type} (k : Nat) : List α → List (Nat × α)
  | [] => []
  | a :: as => (k, a) :: enumFrom (k + 1) as

structure LexError where
  line : Nat
  msg : String
  deriving DecidableEq, Repr, Inhabited

/-- logical lines of a document and the indentation of what follows the last line end -/
def logicalLines (doc : Chars) : Except LexError (List LLine × Nat) :=
  let phys := physLines doc
  let body := phys.dropLast          -- the lines that end in `\n`
  let tail := phys.getLast?.getD []  -- what follows the last `\n`
  match body with
  | [] => .error ⟨1, if tail.all isWs then "empty document" else "missing final line end"⟩
  | first :: _ =>
    if isBlankLine first then .error ⟨1, "the document starts with an empty line"⟩
    else if !tail.all isWs then .error ⟨phys.length, "missing final line end"⟩
    else .ok (((enumFrom 1 body).foldl groupStep ([], false)).1.reverse, indentOf tail)

/-! ## indentation events (the `Indenter`) -/

inductive Ev where
  | line (l : LLine)
  /-- `_INDENT`; the number is the line on which the preceding `_NL` token starts (lark reports that position) -/
  | indent (atLine : Nat)
  | dedent (atLine : Nat)
  deriving DecidableEq, Repr, Inhabited

/-- `handle_NL` below the current level: pop until the level is reached; `none` = `DedentError` -/
def popTo (v : Nat) (atLine : Nat) : List Nat → Option (List Nat × List Ev)
  | [] => if v == 0 then some ([], []) else none
  | top :: rest =>
    if v < top then
      match popTo v atLine rest with
      | some (st, evs) => some (st, .dedent atLine :: evs)
      | none => none
    else if v == top then some (top :: rest, [])
    else none

/-- `handle_NL` for the `_NL` token that ends line `atLine`, followed by indentation `v`; the stack is
    `indent_level` without its bottom `0` -/
def adjust (stack : List Nat) (v : Nat) (atLine : Nat) : Option (List Nat × List Ev) :=
  let top := stack.head?.getD 0
  if v > top then some (v :: stack, [.indent atLine])
  else popTo v atLine stack

/-- the token stream at line granularity: every logical line, followed by the `_INDENT`/`_DEDENT` tokens the
    post-lexer inserts after the line's `_NL`; at the end of the input all open levels are closed -/
def eventsFrom (eofIndent : Nat) : List Nat → List LLine → Except LexError (List Ev)
  | stack, [] => .ok (stack.map fun _ => .dedent 0)
  | stack, l :: rest =>
    let v := match rest with
      | next :: _ => next.indent
      | [] => eofIndent
    match adjust stack v l.endLineNo with
    | none => .error ⟨l.endLineNo + 1, "inconsistent dedent"⟩
    | some (stack', evs) =>
      match eventsFrom eofIndent stack' rest with
      | .error e => .error e
      | .ok more => .ok (.line l :: evs ++ more)

def events (ls : List LLine) (eofIndent : Nat) : Except LexError (List Ev) := eventsFrom eofIndent [] ls

/-! ## scanners (each is applied after white space has been skipped) -/

def skipWs (cs : Chars) : Chars := cs.dropWhile isWs

/-- end of the logical line: only white space left -/
def atEol (cs : Chars) : Bool := (skipWs cs).isEmpty

/-- a literal terminal: prefix match after optional white space -/
def lit (s : String) (cs : Chars) : Option Chars :=
  let t := skipWs cs
  if s.toList.isPrefixOf t then some (t.drop s.toList.length) else none

/-- a literal at the very start of the input (no white space skipped) -/
def litHere (s : String) (cs : Chars) : Option Chars :=
  if s.toList.isPrefixOf cs then some (cs.drop s.toList.length) else none

/-- `USER_TYPE_NAME: UCASE_LETTER LCASE_LETTER (UCASE_LETTER | LCASE_LETTER | DIGIT)*` -/
def userTypeName (cs : Chars) : Option (String × Chars) :=
  match skipWs cs with
  | a :: b :: rest =>
    if isUpper a && isLower b then
      let p := fun c => isUpper c || isLower c || isDigit c
      some (String.ofList (a :: b :: rest.takeWhile p), rest.dropWhile p)
    else none
  | _ => none

/-- `PROPERTY_NAME: LCASE_LETTER (LCASE_LETTER | DIGIT | "_")+` (at least two characters) -/
def propertyName (cs : Chars) : Option (String × Chars) :=
  match skipWs cs with
  | a :: rest =>
    let p := fun c => isLower c || isDigit c || c == '_'
    if isLower a && !(rest.takeWhile p).isEmpty then
      some (String.ofList (a :: rest.takeWhile p), rest.dropWhile p)
    else none
  | _ => none

/-- `CONST_PROPERTY_NAME: UCASE_LETTER (UCASE_LETTER | DIGIT | "_")+` (at least two characters) -/
def constName (cs : Chars) : Option (String × Chars) :=
  match skipWs cs with
  | a :: rest =>
    let p := fun c => isUpper c || isDigit c || c == '_'
    if isUpper a && !(rest.takeWhile p).isEmpty then
      some (String.ofList (a :: rest.takeWhile p), rest.dropWhile p)
    else none
  | _ => none

def digitVal (c : Char) : Nat := c.toNat - '0'.toNat
def hexVal (c : Char) : Nat := if isDigit c then c.toNat - '0'.toNat else c.toNat - 'A'.toNat + 10

/-- `int(string, 10)` on a run of digits -/
def decValue (ds : Chars) : Nat := ds.foldl (fun n c => 10 * n + digitVal c) 0
/-- `int(string, 16)` on the digits after `0x` -/
def hexValue (ds : Chars) : Nat := ds.foldl (fun n c => 16 * n + hexVal c) 0

/-- `HEX_NUMBER: "0x" ("A".."F" | DIGIT)+` -/
def hexNumber (cs : Chars) : Option (Nat × Chars) :=
  match skipWs cs with
  | '0' :: 'x' :: rest =>
    let ds := rest.takeWhile isHexDigit
    if ds.isEmpty then none else some (hexValue ds, rest.dropWhile isHexDigit)
  | _ => none

/-- `DEC_NUMBER: DIGIT+` -/
def decNumber (cs : Chars) : Option (Nat × Chars) :=
  let t := skipWs cs
  let ds := t.takeWhile isDigit
  if ds.isEmpty then none else some (decValue ds, t.dropWhile isDigit)

/-- `_dec_or_hex_number` (the scanner tries `HEX_NUMBER` first) -/
def number (cs : Chars) : Option (Nat × Chars) :=
  match hexNumber cs with
  | some r => some r
  | none => decNumber cs

/-- `FIXED_SIZE_INTEGER.1: ["u"] "int" ("8" | "16" | "32" | "64")`, compiled by lark to `(?:u)?int(?:16|32|64|8)`;
    the result is (is_unsigned, size in bytes) -/
def fixedSizeInteger (cs : Chars) : Option ((Bool × Nat) × Chars) :=
  let t := skipWs cs
  let (u, t1) := match t with
    | 'u' :: r => (true, r)
    | _ => (false, t)
  match litHere "int" t1 with
  | none => none
  | some t2 =>
    match litHere "16" t2 with
    | some r => some ((u, 2), r)
    | none =>
      match litHere "32" t2 with
      | some r => some ((u, 4), r)
      | none =>
        match litHere "64" t2 with
        | some r => some ((u, 8), r)
        | none =>
          match litHere "8" t2 with
          | some r => some ((u, 1), r)
          | none => none

/-- inside `ESCAPED_STRING = ".*?(?<!\\)(\\\\)*?"`: the string ends at the first `"` preceded by an even number of
    backslashes; `acc` is the content so far (reversed), `esc` the parity of the current backslash run -/
def stringBody : Chars → Chars → Bool → Option (Chars × Chars)
  | [], _, _ => none
  | c :: cs, acc, esc =>
    if c == '"' && !esc then some (acc.reverse, cs)
    else if c == '\\' then stringBody cs (c :: acc) (!esc)
    else stringBody cs (c :: acc) false

/-- `ESCAPED_STRING`; the result is the text between the quotes (`string[1:-1]`, escapes kept) -/
def escapedString (cs : Chars) : Option (String × Chars) :=
  match skipWs cs with
  | '"' :: rest =>
    match stringBody rest [] false with
    | some (body, r) => some (String.ofList body, r)
    | none => none
  | _ => none

/-- `CONDITIONAL_OPERATION`, compiled to `(?:not\ equals|equals|not\ in|in)` (exactly one blank inside) -/
def conditionalOperation (cs : Chars) : Option (String × Chars) :=
  let t := skipWs cs
  match litHere "not equals" t with
  | some r => some ("not equals", r)
  | none =>
    match litHere "equals" t with
    | some r => some ("equals", r)
    | none =>
      match litHere "not in" t with
      | some r => some ("not in", r)
      | none =>
        match litHere "in" t with
        | some r => some ("in", r)
        | none => none

/-- `STRUCT_MODIFIER.1: "inline" | "abstract"`, compiled to `(?:abstract|inline)` -/
def structModifier (cs : Chars) : Option (String × Chars) :=
  let t := skipWs cs
  match litHere "abstract" t with
  | some r => some ("abstract", r)
  | none =>
    match litHere "inline" t with
    | some r => some ("inline", r)
    | none => none

end SymbolVerif.Cats.Lexer

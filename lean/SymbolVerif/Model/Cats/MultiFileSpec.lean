/-
Specification side of C17: the depth-first, import-order traversal as a big-step relation (it mirrors the
call structure of `LarkMultiFileParser.parse`: a derivation is a finite recursion tree), reachability
through imports, and "comes before" in a list.
-/
import SymbolVerif.Model.Cats.MultiFile
namespace SymbolVerif.Cats.MultiFile

/-- `Walk fs done todo post done'`: visiting the paths `todo` in order, starting with the processed-file list
    `done`, succeeds; `post` lists the files that contributed, in the order in which their own declarations
    are emitted (depth-first post-order), `done'` is the processed-file list afterwards. -/
inductive Walk (fs : FS) : List Path → List Path → List Path → List Path → Prop
  | nil {done} : Walk fs done [] [] done
  | seen {done p ps post d} : p ∈ done → Walk fs done ps post d → Walk fs done (p :: ps) post d
  | file {done p ps imps decls o1 d1 o2 d2} :
      p ∉ done → fs.lookup p = some (.parsed imps decls) →
      Walk fs (done ++ [p]) imps o1 d1 → Walk fs d1 ps o2 d2 →
      Walk fs done (p :: ps) (o1 ++ p :: o2) d2

/-- `Fails fs done todo e`: the same traversal ends in the exception `e` (first one met). -/
inductive Fails (fs : FS) : List Path → List Path → Err → Prop
  | seen {done p ps e} : p ∈ done → Fails fs done ps e → Fails fs done (p :: ps) e
  | missing {done p ps} : p ∉ done → fs.lookup p = none → Fails fs done (p :: ps) (.missing p)
  | unparsable {done p ps} : p ∉ done → fs.lookup p = some .unparsable → Fails fs done (p :: ps) (.unparsable p)
  | inImports {done p ps imps decls e} :
      p ∉ done → fs.lookup p = some (.parsed imps decls) →
      Fails fs (done ++ [p]) imps e → Fails fs done (p :: ps) e
  | inRest {done p ps imps decls o1 d1 e} :
      p ∉ done → fs.lookup p = some (.parsed imps decls) →
      Walk fs (done ++ [p]) imps o1 d1 → Fails fs d1 ps e → Fails fs done (p :: ps) e

/-- `Reach fs a b`: `b` is `a` or is reached from `a` through import statements of parsable files. -/
inductive Reach (fs : FS) : Path → Path → Prop
  | refl {a} : Reach fs a a
  | step {a i b imps decls} : fs.lookup a = some (.parsed imps decls) → i ∈ imps → Reach fs i b → Reach fs a b

/-- `a` occurs somewhere before an occurrence of `b` in `l`. -/
def Before (a b : Path) (l : List Path) : Prop := ∃ l1 l2 l3, l = l1 ++ a :: l2 ++ b :: l3

/-- names contributed by a list of files. -/
def namesOf (fs : FS) (post : List Path) : List Name := post.flatMap (declsOf fs)

end SymbolVerif.Cats.MultiFile

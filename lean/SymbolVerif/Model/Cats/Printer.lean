/-
"Printing the parsed declarations back as CATS text" (property C04), defined once here and mirrored in
`harness/c04.py`: comments as `#` lines, attribute lines, the declaration header (`using …`, `enum N : T`,
`[abstract|inline] struct N`; the `# n value(s)` note of `__str__` is not CATS and is dropped), one tab-indented
line per child. All sub-forms come from the nodes' `render` (= `__str__`), with one exception: attribute values
that are lark's `None` placeholders are not printed (`Attribute.__str__` prints them as `None`, which does not
parse; finding `C04:attribute-str-prints-None`).
-/
import SymbolVerif.Model.Cats.Syntax
namespace SymbolVerif.Cats.Printer
open SymbolVerif.Cats

/-- `Attribute.__str__`'s loop with `None` placeholders skipped; `negation` says whether a value `not` is the
    negation qualifier (only inside `@alignment`; elsewhere `not` is a property name) -/
def attributeValues (negation : Bool) : List Scalar → String → List String
  | [], _ => []
  | v :: rest, qualifier =>
    if negation && v = .str "not" then attributeValues negation rest "not "
    else if v = .none then attributeValues negation rest qualifier
    else (qualifier ++ v.pyStr) :: attributeValues negation rest ""

def printAttribute (a : Attribute) : String :=
  if a.name = "comparer" then a.renderFormatted
  else if a.isFlag then "@" ++ a.name
  else "@" ++ a.name ++ "(" ++ ", ".intercalate (attributeValues (a.name = "alignment") a.values "") ++ ")"

/-- the `#` lines that parse back to the comment: every `\n` of the normalised text is one empty `#` line -/
def commentLinesOf : List (List Char) → List String
  | [] => []
  | [seg] => if seg.isEmpty then [] else ["# " ++ String.ofList seg]
  | seg :: rest => (if seg.isEmpty then [] else ["# " ++ String.ofList seg]) ++ "#" :: commentLinesOf rest

def commentLines (c : Option Comment) : List String :=
  match c with
  | none => []
  | some c => commentLinesOf (Comment.splitLines c.parsed.toList)

def attributeLines (attrs : Option (List Attribute)) : List String := (attrList attrs).map printAttribute

def enumValueLines (v : EnumValue) : List String := commentLines v.comment ++ [v.render]

def memberLines : Member → List String
  | .field f => commentLines f.comment ++ attributeLines f.attributes ++ [({ f with attributes := none } : StructField).render]
  | .inlinePlaceholder t c => commentLines c ++ ["inline " ++ t]

def indentLine (s : String) : String := "\t" ++ s

def declLines : Decl → List String
  | .alias a => commentLines a.comment ++ [a.render]
  | .enum e =>
    commentLines e.comment ++ attributeLines e.attributes ++ [s!"enum {e.name} : {e.base.render}"] ++
      (e.values.flatMap enumValueLines).map indentLine
  | .struct s =>
    commentLines s.comment ++ attributeLines s.attributes ++
      [(match s.disposition with | some d => if d = "" then "" else d ++ " " | none => "") ++ s!"struct {s.name}"] ++
      (s.fields.flatMap memberLines).map indentLine

def unlines (ls : List String) : String := String.join (ls.map (· ++ "\n"))

/-- declarations separated by one empty line -/
def printDecls : List Decl → List String
  | [] => []
  | [d] => declLines d
  | d :: rest => declLines d ++ "" :: printDecls rest

def print (ds : Schema) : String := unlines (printDecls ds)

end SymbolVerif.Cats.Printer

/-
# CATS validation (model of `catparser/AstValidator.py`)

`validate mode S` is the list of `ErrorDescriptor`s the validator produces for the schema `S` in `PRE_EXPANSION` / `POST_EXPANSION`
mode, in the order the Python appends them (duplicate-name sets are listed in first-duplicate order; Python holds them in a `set`).
Every error carries the typename, the field names, the message *kind* and the exact message text of the Python.

The model is total and always *reports*.  Where the Python indexes `type_descriptor_map` without a guard and crashes
(`KeyError` / `AttributeError`) the model reports the error the surrounding code reports for "not a struct":
* `sizeof` whose target member has an unknown (or non-struct) type  -> `sizeofFixedSize`
* named inline whose type is an alias / enum                        -> `namedInlineNonInline`
* `sort_key` on an array whose element type is not a struct         -> `unknownSortKey`
Domain: declaration names pairwise distinct (as in `Expand.lean`).
-/
import SymbolVerif.Model.Cats.Syntax
namespace SymbolVerif.Cats

inductive Mode where
  | pre
  | post
  deriving DecidableEq, Repr, Inhabited

inductive MsgKind where
  | duplicateEnumValues | duplicateStructFields
  | unknownInlinedType | unknownType | namedInlineNonInline
  | unknownSizerefProperty | unknownElementType | unknownSortKey | unknownSizeProperty
  | unknownSizeofProperty | sizeofFixedSize | sizeofNotImplicit
  | unknownConditionField | notEnumValue | notNumeric | inapplicableAttribute
  | sizeUnexpectedType | unknownAttributeProperty
  | unknownComparerProperty | unknownComparerTransform
  | unknownInitializerProperty | initializerDifferentType
  deriving DecidableEq, Repr, Inhabited

structure ErrorDescriptor where
  typename : String
  fieldNames : List String
  kind : MsgKind
  message : String
  deriving DecidableEq, Repr, Inhabited

/-! ## helpers -/

/-- `_find_duplicate_names`: names that occur more than once, each listed once (in order of their second occurrence) -/
def findDuplicateNames : List String → List String → List String → List String
  | [], _, dups => dups
  | n :: rest, seen, dups =>
    if n ∈ seen then (if n ∈ dups then findDuplicateNames rest seen dups else findDuplicateNames rest seen (dups ++ [n]))
    else findDuplicateNames rest (seen ++ [n]) dups

def duplicateNames (names : List String) : List String := findDuplicateNames names [] []

/-- `field_map = {field.name: field ...}`: the LAST member with the name -/
def fieldMapGet (M : Struct) (n : String) : Option StructField := M.structFields.reverse.find? (·.name = n)

/-- `name in field_map` for an untyped value (only a `str` can be a key) -/
def inFieldMap (M : Struct) : Scalar → Bool
  | .str n => (fieldMapGet M n).isSome
  | _ => false

/-- `_is_known_type(typename)` for a type name -/
def isKnownType (S : Schema) (n : String) : Bool := (S.lookup n).isSome

/-- `hasattr(field.field_type, attribute.name)` for the attribute names of the grammar -/
def hasAttr : FieldType → String → Bool
  | .int _, n => n = "sizeref"
  | .array _, n => n = "is_byte_constrained" || n = "alignment" || n = "sort_key"
  | .named _, _ => false

def mkErr (typename : String) (fieldNames : List String) (kind : MsgKind) (message : String) : ErrorDescriptor :=
  ⟨typename, fieldNames, kind, message⟩

/-! ## per-field checks (`_validate_struct_field`) -/

/-- `_validate_in_range(value_type, value)` -/
def inRangeErrors (S : Schema) (tn fn : String) (valueType : FieldType) (value : Scalar) : List ErrorDescriptor :=
  let numeric := if value.isInt then [] else [mkErr tn [fn] .notNumeric s!"field value \"{value.pyStr}\" is not a valid numeric value"]
  match valueType with
  | .named n =>
    match S.lookup n with
    | some (.enum e) =>
      if e.values.any (fun v => value = .str v.name) then []
      else [mkErr tn [fn] .notEnumValue s!"field value \"{value.pyStr}\" is not a valid enum value"]
    | _ => numeric
  | _ => numeric

/-- the type check of `_validate_struct_field` (incl. the named inline rule) -/
def typeErrors (S : Schema) (tn : String) (f : StructField) : List ErrorDescriptor :=
  match f.fieldType with
  | .named n =>
    match S.lookup n with
    | none => [mkErr tn [f.name] .unknownType s!"reference to unknown type \"{n}\""]
    | some d =>
      if f.disposition = some "inline" && d.disposition? ≠ some (some "inline") then
        [mkErr tn [f.name] .namedInlineNonInline s!"named inline field referencing non inline struct \"{n}\""]
      else []
  | _ => []

/-- `_validate_integer` -/
def integerErrors (M : Struct) (f : StructField) : List ErrorDescriptor :=
  match f.fieldType with
  | .int t =>
    match t.sizeref with
    | some r => if (fieldMapGet M r.propertyName).isSome then []
      else [mkErr M.name [f.name] .unknownSizerefProperty s!"reference to unknown sizeref property \"{r.propertyName}\""]
    | none => []
  | _ => []

/-- is the sort key a member of the element type? (anything but a struct has no members) -/
def sortKeyValid (S : Schema) (elementType : ElemType) (sortKey : Scalar) : Bool :=
  match elementType with
  | .named n =>
    match S.lookup n with
    | some (.struct E) => E.fields.any fun m => (match m.name? with | some x => sortKey = .str x | none => false)
    | _ => false
  | .int _ => false

/-- `_is_known_type(element_type)` -/
def elemKnown (S : Schema) (a : ArrayType) : Bool :=
  match a.elementType with
  | .named n => isKnownType S n
  | .int _ => true

/-- `is_sort_key_valid` -/
def sortKeyOk (S : Schema) (a : ArrayType) : Bool :=
  if elemKnown S a then (!(a.sortKey.getD .none).truthy || sortKeyValid S a.elementType (a.sortKey.getD .none))
  else !(a.sortKey.getD .none).truthy

def arrayElemErrors (S : Schema) (tn fn : String) (a : ArrayType) : List ErrorDescriptor :=
  if elemKnown S a then []
  else [mkErr tn [fn] .unknownElementType s!"reference to unknown element type \"{a.elementType.render}\""]

def arraySortErrors (S : Schema) (tn fn : String) (a : ArrayType) : List ErrorDescriptor :=
  if sortKeyOk S a then []
  else [mkErr tn [fn] .unknownSortKey s!"reference to unknown sort_key property \"{(a.sortKey.getD .none).pyStr}\""]

def arraySizeErrors (M : Struct) (fn : String) (a : ArrayType) : List ErrorDescriptor :=
  match a.size with
  | .str s => if (fieldMapGet M s).isSome then []
    else [mkErr M.name [fn] .unknownSizeProperty s!"reference to unknown size property \"{s}\""]
  | _ => []

/-- `_validate_array` -/
def arrayErrors (S : Schema) (M : Struct) (f : StructField) : List ErrorDescriptor :=
  match f.fieldType with
  | .array a => arrayElemErrors S M.name f.name a ++ arraySortErrors S M.name f.name a ++ arraySizeErrors M f.name a
  | _ => []

/-- `field_map[field.value]` for the value of a `sizeof` member -/
def sizeofTarget (M : Struct) (value : Scalar) : Option StructField :=
  match value with
  | .str v => fieldMapGet M v
  | _ => none

/-- `_validate_sizeof` -/
def sizeofErrors (S : Schema) (M : Struct) (f : StructField) (value : Scalar) : List ErrorDescriptor :=
  match sizeofTarget M value with
  | none => [mkErr M.name [f.name] .unknownSizeofProperty s!"reference to unknown sizeof property \"{value.pyStr}\""]
  | some target =>
    let fixed := [mkErr M.name [f.name] .sizeofFixedSize s!"sizeof property references fixed size type \"{target.fieldType.render}\""]
    match target.fieldType with
    | .named n =>
      match S.lookup n with
      | some (.struct R) =>
        if R.isSizeImplicit.truthy then []
        else [mkErr M.name [f.name] .sizeofNotImplicit s!"sizeof property references type \"{n}\" without is_size_implicit attribute"]
      | _ => fixed
    | _ => fixed

/-- the `field.value is not None` branch -/
def valueErrors (S : Schema) (M : Struct) (f : StructField) : List ErrorDescriptor :=
  match f.value with
  | .scalar .none => []
  | .scalar v =>
    if f.disposition = some "sizeof" then sizeofErrors S M f v
    else inRangeErrors S M.name f.name f.fieldType v
  | .cond c =>
    if f.disposition = some "sizeof" then sizeofErrors S M f .none  -- (a Conditional is never a key of field_map)
    else
      match fieldMapGet M c.linkedFieldName with
      | none => [mkErr M.name [f.name] .unknownConditionField s!"reference to unknown condition field \"{c.linkedFieldName}\""]
      | some linked => inRangeErrors S M.name f.name linked.fieldType c.value

def attributeErrors (tn : String) (f : StructField) : List ErrorDescriptor :=
  (attrList f.attributes).flatMap fun a =>
    if hasAttr f.fieldType a.name then []
    else [mkErr tn [f.name] .inapplicableAttribute s!"inapplicable attribute \"{a.name}\""]

/-- `_validate_struct_field` -/
def fieldErrors (S : Schema) (M : Struct) (f : StructField) : List ErrorDescriptor :=
  typeErrors S M.name f ++ integerErrors M f ++ arrayErrors S M f ++ valueErrors S M f ++ attributeErrors M.name f

/-- one member: `_validate_unnamed_inline` or `_validate_struct_field` -/
def memberErrors (S : Schema) (M : Struct) : Member → List ErrorDescriptor
  | .inlinePlaceholder t _ =>
    if isKnownType S t then [] else [mkErr M.name [] .unknownInlinedType s!"reference to unknown inlined type \"{t}\""]
  | .field f => fieldErrors S M f

/-! ## struct-level checks after expansion (`_check_struct_attributes`) -/

/-- `_check_known_field`: the errors, and whether the check passed with something to check -/
def knownFieldErrors (M : Struct) (propertyName : String) (values : List Scalar) : List ErrorDescriptor :=
  values.flatMap fun v =>
    if inFieldMap M v then []
    else [mkErr M.name [] .unknownAttributeProperty s!"reference to unknown \"{propertyName}\" property \"{v.pyStr}\""]

def sizeAttributeErrors (M : Struct) : List ErrorDescriptor :=
  let size := M.size
  if !size.truthy then []
  else
    let unknown := knownFieldErrors M "size" [size]
    if !unknown.isEmpty then unknown
    else
      match (match size with | .str n => fieldMapGet M n | _ => none) with
      | some target =>
        (match target.fieldType with
         | .int _ => []
         | _ => [mkErr M.name [] .sizeUnexpectedType s!"reference to \"size\" property \"{size.pyStr}\" has unexpected type"])
      | none => []

def discriminatorErrors (M : Struct) : List ErrorDescriptor :=
  knownFieldErrors M "discriminator" (M.discriminator.getD [])

def comparerErrors (M : Struct) : List ErrorDescriptor :=
  M.comparer.flatMap fun (n, t) =>
    (if inFieldMap M n then [] else [mkErr M.name [] .unknownComparerProperty s!"reference to unknown \"comparer\" property \"{n.pyStr}\""]) ++
    (if t = .none || t = .str "ripemd_keccak_256" then []
     else [mkErr M.name [] .unknownComparerTransform s!"reference to unknown \"comparer\" transform \"{t.pyStr}\""])

def initializerErrors (M : Struct) : List ErrorDescriptor :=
  let isConcrete := !(M.disposition = some "abstract" || M.disposition = some "inline")
  M.initializers.flatMap fun i =>
    let e1 := if inFieldMap M i.targetPropertyName then []
      else [mkErr M.name [] .unknownInitializerProperty s!"reference to unknown \"intializes\" property \"{i.targetPropertyName.pyStr}\""]
    let e2 := if inFieldMap M i.value || !isConcrete then []
      else [mkErr M.name [] .unknownInitializerProperty s!"reference to unknown \"intializes\" property \"{i.value.pyStr}\""]
    if inFieldMap M i.targetPropertyName && inFieldMap M i.value then
      match i.targetPropertyName, i.value with
      | .str a, .str b =>
        match fieldMapGet M a, fieldMapGet M b with
        | some fa, some fb =>
          if fa.fieldType.render ≠ fb.fieldType.render then
            [mkErr M.name [] .initializerDifferentType s!"property \"{a}\" has initializer \"{b}\" of different type"]
          else []
        | _, _ => []
      | _, _ => []
    else e1 ++ e2

def structAttributeErrors (M : Struct) : List ErrorDescriptor :=
  sizeAttributeErrors M ++ discriminatorErrors M ++ comparerErrors M ++ initializerErrors M

/-! ## declarations -/

def enumErrors (e : Enum) : List ErrorDescriptor :=
  match duplicateNames (e.values.map (·.name)) with
  | [] => []
  | dups => [mkErr e.name dups .duplicateEnumValues "duplicate enum values"]

def structErrors (mode : Mode) (S : Schema) (M : Struct) : List ErrorDescriptor :=
  (match duplicateNames (M.fields.filterMap Member.name?) with
   | [] => []
   | dups => [mkErr M.name dups .duplicateStructFields "duplicate struct fields"]) ++
  M.fields.flatMap (memberErrors S M) ++
  (if mode = .post then structAttributeErrors M else [])

def declErrors (mode : Mode) (S : Schema) : Decl → List ErrorDescriptor
  | .enum e => enumErrors e
  | .struct M => structErrors mode S M
  | .alias _ => []

/-- `AstValidator(S).validate()` in the given mode: `.errors` -/
def validate (mode : Mode) (S : Schema) : List ErrorDescriptor := S.flatMap (declErrors mode S)

/-- `ErrorDescriptor.__repr__` -/
def ErrorDescriptor.render (e : ErrorDescriptor) : String :=
  if e.fieldNames.isEmpty then s!"[{e.typename}] {e.message}"
  else s!"[{e.typename}::\{ {", ".intercalate e.fieldNames} }] {e.message}"

end SymbolVerif.Cats

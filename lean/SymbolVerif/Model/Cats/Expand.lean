/-
# CATS post-processing (model of `catparser/AstPostProcessor.py` and the `copy` / `apply_inline_template` methods of `ast.py`)

`applyAttributes`, `expandNamed`, `expandUnnamed`, `typeDescriptors` follow the iterative algorithms of the Python, phase by phase and
struct by struct in declaration order, each struct reading the *current* state of the structs it references.

The model has value semantics, and the named-inline copy does what property C05 demands:
* copying a member never changes the template or another copy (Python `Array.copy` shares the `_attributes` dict);
* the sort key of an array names a member of the *element type* and is not prefixed (Python prefixes it);
* a `__FILL__` array stays a fill array (Python rebuilds it as `array(.., 0)`);
* the target of a `sizeof` member is re-pointed to the prefixed copy (Python leaves it);
* `@sizeref(x)` without a delta means delta 0 (Python raises `IndexError`).
Everything else, including the error behaviour (`Except`), mirrors the code that exists.

Domain: declaration names are assumed pairwise distinct (with a duplicate the Python processes only the last declaration of that
name; nothing in the parser or validator rejects duplicates, the harness never generates them for this model).
Python exceptions (`AstException`, `AttributeError`, `IndexError`, `KeyError`) are `Except.error` with a short reason.
-/
import SymbolVerif.Model.Cats.Syntax
namespace SymbolVerif.Cats

/-! ## apply_attributes -/

/-- `setattr(field.field_type, attribute.name, attribute.values)` for the four attribute names of the grammar -/
def applyAttribute (ft : FieldType) (a : Attribute) : Except String FieldType :=
  match ft, a.name with
  | .int t, "sizeref" =>
    match a.values with
    | [.str p] => pure (.int { t with sizeref := some ⟨p, .int 0⟩ })   -- documented optional delta (Python: IndexError)
    | .str p :: d :: _ => pure (.int { t with sizeref := some ⟨p, d⟩ })
    | _ => throw "sizeref: bad values"
  | .array arr, "is_byte_constrained" => pure (.array { arr with attrs := { arr.attrs with isByteConstrained := true } })
  | .array arr, "sort_key" =>
    match a.values with
    | v :: _ => pure (.array { arr with attrs := { arr.attrs with sortKey := some v } })
    | [] => throw "sort_key: no value"
  | .array arr, "alignment" =>
    match a.values with
    | v :: n :: p :: _ =>
      pure (.array { arr with attrs := { arr.attrs with
        alignment := some v, isLastElementPadded := some (!(n = .str "not" && p = .str "pad_last")) } })
    | _ => throw "alignment: fewer than three values"
  | _, _ => throw s!"field type does not have property {a.name}"

def applyFieldAttributes (f : StructField) : Except String StructField := do
  let ft ← (attrList f.attributes).foldlM applyAttribute f.fieldType
  pure { f with fieldType := ft }

def applyMemberAttributes : Member → Except String Member
  | .field f => .field <$> applyFieldAttributes f
  | m => pure m

def applyStructAttributes (s : Struct) : Except String Struct := do
  let fs ← s.fields.mapM applyMemberAttributes
  pure { s with fields := fs }

def applyDeclAttributes : Decl → Except String Decl
  | .struct s => .struct <$> applyStructAttributes s
  | d => pure d

/-- `AstPostProcessor.apply_attributes` -/
def applyAttributes (S : Schema) : Except String Schema := S.mapM applyDeclAttributes

/-! ## the outer loops of both expansion phases -/

/-- `for model in structs: step(model)`: structs are processed in declaration order, each step reads the current state
    `done ++ todo` of the schema (earlier structs already processed) and replaces the struct it is working on -/
def processStructs (step : Schema → Struct → Except String Struct) (done : Schema) : Schema → Except String Schema
  | [] => pure done
  | .struct M :: rest => do
    let M' ← step (done ++ .struct M :: rest) M
    processStructs step (done ++ [.struct M']) rest
  | d :: rest => processStructs step (done ++ [d]) rest

/-! ## named inlines: copying a template member under a prefix -/

def valuePlaceholder : String := "__value__"

/-- new name of a copied member -/
def prefixName (p n : String) : String := if n = valuePlaceholder then p else p ++ "_" ++ n

/-- new value of a reference to a copied member -/
def prefixRef (p n : String) : String := p ++ "_" ++ n

def IntType.copy (p : String) (t : IntType) : IntType :=
  { t with sizeref := t.sizeref.map fun r => { r with propertyName := prefixRef p r.propertyName } }

/-- the size reference is re-pointed; fill kind, element type and all attributes (incl. the sort key) are kept -/
def ArrayType.copy (p : String) (a : ArrayType) : ArrayType :=
  { a with rawSize := match a.rawSize with
      | .str s => if s = fillPlaceholder then .str s else .str (prefixRef p s)
      | v => v }

def FieldType.copy (p : String) : FieldType → FieldType
  | .named n => .named n
  | .int t => .int (t.copy p)
  | .array a => .array (a.copy p)

def Conditional.copy (p : String) (c : Conditional) : Conditional :=
  { c with linkedFieldName := prefixRef p c.linkedFieldName }

/-- the value of a copied member: condition members and `sizeof` targets are re-pointed, constants are kept -/
def FieldValue.copy (p : String) (disposition : Option String) : FieldValue → FieldValue
  | .cond c => .cond (c.copy p)
  | .scalar (.str s) => if disposition = some "sizeof" then .scalar (.str (prefixRef p s)) else .scalar (.str s)
  | v => v

/-- `StructField.copy(prefix)`; the copy starts without a comment -/
def StructField.copy (p : String) (f : StructField) : StructField :=
  { name := prefixName p f.name
    fieldType := f.fieldType.copy p
    value := f.value.copy p f.disposition
    disposition := f.disposition
    attributes := f.attributes
    comment := none }

/-! ### `[member] text` comments of a named inline site -/

/-- `\s` of Python's `re` on `str` (ASCII part plus the common Unicode spaces) -/
def isPyWhitespace (c : Char) : Bool :=
  c = ' ' || c = '\t' || c = '\n' || c = '\r' || c.toNat = 11 || c.toNat = 12 || (28 ≤ c.toNat && c.toNat ≤ 31) ||
  c.toNat = 0x85 || c.toNat = 0xA0 || c.toNat = 0x1680 || (0x2000 ≤ c.toNat && c.toNat ≤ 0x200A) ||
  c.toNat = 0x2028 || c.toNat = 0x2029 || c.toNat = 0x202F || c.toNat = 0x205F || c.toNat = 0x3000

/-- `^\[(?P<comment_key>\S+)\] ` : the key when the line starts with `[key] ` -/
def matchCommentKey : List Char → Option (List Char)
  | '[' :: rest =>
    let run := rest.takeWhile (fun c => !isPyWhitespace c)
    let after := rest.dropWhile (fun c => !isPyWhitespace c)
    if 2 ≤ run.length && run.getLast? = some ']' && after.head? = some ' ' then some run.dropLast else none
  | _ => none

abbrev CommentMap := List (String × List String)

def CommentMap.assign (m : CommentMap) (k : String) (v : List String) : CommentMap :=
  (k, v) :: m.filter (·.1 ≠ k)

def CommentMap.get? (m : CommentMap) (k : String) : Option (List String) := (m.find? (·.1 = k)).map (·.2)

/-- loop body of `_build_comment_map` : state = (map, active key) -/
def commentMapStep (st : CommentMap × Option String) (line : List Char) : CommentMap × Option String :=
  match matchCommentKey line with
  | some key => (st.1.assign (String.ofList key) [String.ofList (line.drop (key.length + 3))], some (String.ofList key))
  | none =>
    match st.2 with
    | some active => (st.1.assign active ((st.1.get? active).getD [] ++ ["\n" ++ String.ofList line]), some active)
    | none => st

def buildCommentMap (c : Comment) : CommentMap :=
  ((Comment.splitLines c.parsed.toList).foldl commentMapStep ([], none)).1

/-- the comment a copied member receives from the site's comment -/
def siteComment (m : CommentMap) (originalName : String) : Option Comment :=
  (m.get? originalName).map fun parts => Comment.ofString ("\n".intercalate parts)

/-- `Struct.apply_inline_template(named_inline_field)` -/
def applyInlineTemplate (T : Struct) (site : StructField) : Except String (List Member) :=
  if !T.isInline then throw s!"apply_inline_template called for struct {T.name} not marked as inline"
  else if T.fields.any Member.isPlaceholder then throw "template holds an unnamed inline (no copy/name)"
  else
    let cm : CommentMap := match site.comment with | some c => buildCommentMap c | none => []
    pure (T.structFields.map fun f => .field { f.copy site.name with comment := siteComment cm f.name })

/-! ## expand_named_inlines -/

/-- what one member of a struct becomes -/
def expandNamedMember (S : Schema) : Member → Except String (List Member)
  | .field f =>
    if f.isNamedInline then
      match f.fieldType with
      | .named t =>
        match S.lookup t with
        | some (.struct T) => applyInlineTemplate T f
        | some _ => throw s!"named inline of non-struct {t}"
        | none => throw s!"named inline of unknown type {t}"
      | _ => throw "named inline of a builtin type"
    else pure [.field f]
  | m => pure [m]

def expandNamedMembers (S : Schema) : List Member → Except String (List Member)
  | [] => pure []
  | m :: ms => do
    let a ← expandNamedMember S m
    let b ← expandNamedMembers S ms
    pure (a ++ b)

def expandNamedStruct (S : Schema) (M : Struct) : Except String Struct := do
  let fs ← expandNamedMembers S M.fields
  pure { M with fields := fs }

/-- `AstPostProcessor.expand_named_inlines` -/
def expandNamed (S : Schema) : Except String Schema := processStructs expandNamedStruct [] S

/-! ## expand_unnamed_inlines -/

/-- the struct an unnamed inline refers to (`KeyError` -> `AstException`; alias / enum -> `AttributeError`) -/
def refStruct (S : Schema) (t : String) : Except String Struct :=
  match S.lookup t with
  | some (.struct R) => pure R
  | some _ => throw s!"unnamed inline of non-struct {t}"
  | none => throw s!"unnamed inline of unknown type {t}"

/-- one pass of the `while` body over the members: every placeholder is replaced by the referenced struct's current members -/
def spliceFields (S : Schema) : List Member → Except String (List Member)
  | [] => pure []
  | .inlinePlaceholder t _ :: ms => do
    let R ← refStruct S t
    let rest ← spliceFields S ms
    pure (R.fields ++ rest)
  | m :: ms => do
    let rest ← spliceFields S ms
    pure (m :: rest)

/-- the factory type recorded by one referenced struct: itself when abstract, else its own factory type, else unchanged -/
def factoryFrom (R : Struct) (cur : Option String) : Option String :=
  if R.disposition = some "abstract" then some R.name
  else match R.factoryType with
    | some ft => if ft ≠ "" then some ft else cur
    | none => cur

/-- `factory_type` after one pass (the last placeholder that has something to say wins) -/
def spliceFactory (S : Schema) (cur : Option String) : List Member → Option String
  | [] => cur
  | .inlinePlaceholder t _ :: ms =>
    match S.lookup t with
    | some (.struct R) => spliceFactory S (factoryFrom R cur) ms
    | _ => spliceFactory S cur ms
  | _ :: ms => spliceFactory S cur ms

/-- the attributes one referenced struct contributes -/
def attrsFrom (R : Struct) (cur : Option (List Attribute)) : Option (List Attribute) :=
  match R.attributes with
  | some (a :: as) => some (attrList cur ++ a :: as)
  | _ => cur

/-- `attributes` after one pass: referenced structs' attributes appended in member order -/
def spliceAttrs (S : Schema) (cur : Option (List Attribute)) : List Member → Option (List Attribute)
  | [] => cur
  | .inlinePlaceholder t _ :: ms =>
    match S.lookup t with
    | some (.struct R) => spliceAttrs S (attrsFrom R cur) ms
    | _ => spliceAttrs S cur ms
  | _ :: ms => spliceAttrs S cur ms

def Struct.hasPlaceholder (M : Struct) : Bool := M.fields.any Member.isPlaceholder

/-- one iteration of the `while` loop -/
def spliceOnce (S : Schema) (M : Struct) : Except String Struct := do
  let fs ← spliceFields S M.fields
  pure { M with fields := fs, factoryType := spliceFactory S M.factoryType M.fields, attributes := spliceAttrs S M.attributes M.fields }

/-- the `while self._has_unnamed_inline_field(model)` loop, at most `fuel` iterations -/
def expandUnnamedStruct (S : Schema) : Nat → Struct → Except String Struct
  | 0, M => if M.hasPlaceholder then throw "inline cycle (out of fuel)" else pure M
  | fuel + 1, M =>
    if M.hasPlaceholder then do
      let M' ← spliceOnce S M
      expandUnnamedStruct S fuel M'
    else pure M

/-- `AstPostProcessor.expand_unnamed_inlines`; `S.length` iterations per struct suffice for every acyclic schema
    (theorem `unnamed_terminates`), with a cycle the Python does not terminate and the model reports it -/
def expandUnnamed (S : Schema) : Except String Schema :=
  processStructs (fun cur M => expandUnnamedStruct cur S.length M) [] S

/-! ## output -/

/-- `AstPostProcessor.type_descriptors`: inline structs are filtered out -/
def typeDescriptors (S : Schema) : Schema := S.filter fun d => d.disposition? ≠ some (some "inline")

/-- the three phases in the order `__main__` runs them -/
def postProcess (S : Schema) : Except String Schema := do
  let S ← applyAttributes S
  let S ← expandNamed S
  expandUnnamed S

end SymbolVerif.Cats

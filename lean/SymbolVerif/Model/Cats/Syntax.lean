/-
# CATS abstract syntax (model of `catbuffer/parser/catparser/ast.py`)

Plain value-semantics datatypes mirroring the Python AST node classes value-for-value, the observable
`to_legacy_descriptor()` (`toLegacy`, producing a `Desc` tree = ordered dict / list / str / int / bool / None)
and the nodes' `__str__` (`render`).  Core Lean only.

Constructor / structure  <->  Python class (attribute names in `snake_case` on the Python side)

| Lean                                   | Python (`catparser.ast`)                                                   |
|----------------------------------------|----------------------------------------------------------------------------|
| `Scalar.str/int/bool/none`             | an untyped attribute value: `str` (also lark `Token`), `int`, `bool`, `None` |
| `Comment` (`parsed`), `Comment.ofString` | `Comment(string)`; `ofString` is the constructor's normalisation           |
| `SizeRef` (`propertyName`, `delta`)    | `FixedSizeInteger.SizeRef(property_name, delta)`                           |
| `IntType` (`isUnsigned`, `size`, `sizeref`) | `FixedSizeInteger(short_name)`; `size` in bytes; `shortName` is derived   |
| `LinkedType.int / .buffer n`           | `FixedSizeInteger` / `FixedSizeBuffer(size)` (the `linked_type` of an alias) |
| `Alias` (`name`, `linkedType`, `comment`) | `Alias([name, linked_type])`                                             |
| `EnumValue` (`name`, `value`, `comment`) | `EnumValue([name, value])`                                               |
| `Enum` (`name`, `base`, `values`, `attributes`, `comment`) | `Enum([name, base, *values])` + `.attributes`          |
| `Attribute` (`name`, `values`), `isFlag`, `value` | `Attribute(tokens)`: `values` = `tokens[1:]` exactly as the lark parser produces them (`None` placeholders included, e.g. `@alignment(8)` has values `[8, None, None]`, `@comparer(a!t, b)` has `[a, t, b, None]`); `is_flag` = no values; `value` = `True` for a flag else `values[0]` |
| `ElemType.named / .int`                | `Array.element_type`: `str` / `FixedSizeInteger`                           |
| `ArrayAttrs` (`sortKey`, `isByteConstrained`, `alignment`, `isLastElementPadded`) | the `Array._attributes` dict (absent key = `none` / `false`) |
| `ArrayType` (`elementType`, `rawSize`, `attrs`), `.size`, `.disposition`, `.isExpandable` | `Array([element_type, size])`; `_raw_size`; `size` = `0` when `_raw_size == '__FILL__'` |
| `Conditional` (`value`, `operation`, `linkedFieldName`) | `Conditional([value, operation, linked_field_name])`      |
| `FieldType.named / .int / .array`      | `StructField.field_type`: `str`/`Token` / `FixedSizeInteger` / `Array`     |
| `FieldValue.scalar / .cond`            | `StructField.value`: `None`/`int`/`str` (scalar) / `Conditional`           |
| `StructField` (`name`, `fieldType`, `value`, `disposition`, `attributes`, `comment`) | `StructField([name, type, value?], disposition)` + `.attributes` |
| `Member.field / .inlinePlaceholder t c`| `StructField` / `StructInlinePlaceholder([inlined_typename])` (+ comment)  |
| `Struct` (`disposition`, `name`, `fields`, `attributes`, `factoryType`, `requiresUnaligned`, `comment`) | `Struct([disposition, name, *fields])` + `.attributes`, `.factory_type`, `.requires_unaligned` |
| `Decl.alias / .enum / .struct`         | a top level declaration (`Alias` / `Enum` / `Struct`)                      |
| `Schema` = `List Decl`                 | the `type_descriptors` list handed to `AstPostProcessor` / `AstValidator`  |

`attributes : Option (List Attribute)` distinguishes Python `None` from `[]` (the code treats both as "no attributes").
Dispositions are `Option String` as in Python (`'inline'`, `'abstract'`; `'const'`, `'reserved'`, `'sizeof'`, `'inline'`).
-/
namespace SymbolVerif.Cats

/-! ## scalars -/

/-- an untyped Python attribute value -/
inductive Scalar where
  | str (s : String)
  | int (i : Int)
  | bool (b : Bool)
  | none
  deriving DecidableEq, Repr, Inhabited

namespace Scalar
/-- Python `str(v)` / f-string formatting -/
def pyStr : Scalar → String
  | .str s => s
  | .int i => toString i
  | .bool true => "True"
  | .bool false => "False"
  | .none => "None"

/-- Python truthiness -/
def truthy : Scalar → Bool
  | .str s => s ≠ ""
  | .int i => i ≠ 0
  | .bool b => b
  | .none => false

/-- `isinstance(v, str)` -/
def isStr : Scalar → Bool
  | .str _ => true
  | _ => false

/-- `isinstance(v, int)` (Python: `bool` is a subclass of `int`) -/
def isInt : Scalar → Bool
  | .int _ => true
  | .bool _ => true
  | _ => false

def isNone : Scalar → Bool
  | .none => true
  | _ => false

/-- the string when the value is a `str` -/
def str? : Scalar → Option String
  | .str s => some s
  | _ => Option.none
end Scalar

/-! ## descriptor trees (the result type of `to_legacy_descriptor`) -/

/-- JSON-like tree; `dict` keeps Python's insertion order -/
inductive Desc where
  | dict (kvs : List (String × Desc))
  | list (xs : List Desc)
  | str (s : String)
  | int (i : Int)
  | bool (b : Bool)
  | null
  deriving Repr, Inhabited

abbrev DescDict := List (String × Desc)

namespace Desc
def ofScalar : Scalar → Desc
  | .str s => .str s
  | .int i => .int i
  | .bool b => .bool b
  | .none => .null

/-- `d[k] = v` on an insertion-ordered dict: an existing key keeps its position -/
def set : DescDict → String → Desc → DescDict
  | [], k, v => [(k, v)]
  | (k', v') :: rest, k, v => if k' = k then (k, v) :: rest else (k', v') :: set rest k v

/-- `d.update(other)` -/
def update (d other : DescDict) : DescDict := other.foldl (fun acc kv => set acc kv.1 kv.2) d

/-- `_set_if`: set the key when the value is not `None` -/
def setIf (d : DescDict) (k : String) : Option Desc → DescDict
  | some v => set d k v
  | none => d

def lookup : DescDict → String → Option Desc
  | [], _ => none
  | (k', v') :: rest, k => if k' = k then some v' else lookup rest k
end Desc

/-! ## comments -/

structure Comment where
  parsed : String
  deriving DecidableEq, Repr, Inhabited

namespace Comment
def isStripChar (c : Char) : Bool := c = '#' || c = ' ' || c = '\t' || c = '\r'

/-- `line.strip('# \t\r')` -/
def stripLine (cs : List Char) : List Char :=
  ((cs.dropWhile isStripChar).reverse.dropWhile isStripChar).reverse

/-- `string.split('\n')` on characters -/
def splitLines : List Char → List (List Char)
  | [] => [[]]
  | c :: cs =>
    match splitLines cs with
    | [] => [[]]   -- unreachable
    | l :: ls => if c = '\n' then [] :: l :: ls else (c :: l) :: ls

/-- the loop of `Comment.__init__`: state = (parsed so far, needs_separator) -/
def step (st : List Char × Bool) (line : List Char) : List Char × Bool :=
  let l := stripLine line
  if l.isEmpty then (st.1 ++ ['\n'], false)
  else (st.1 ++ (if st.2 then [' '] else []) ++ l, true)

/-- `Comment(string)`: the `parsed` normalisation -/
def normalise (s : String) : String :=
  String.ofList ((splitLines s.toList).foldl step ([], false)).1

def ofString (s : String) : Comment := ⟨normalise s⟩

/-- `str(comment)` -/
def render (c : Comment) : String := c.parsed
end Comment

/-- `{'comments': comment.parsed, **d}` when a comment is attached (and its `parsed` text is... always, even when empty:
    Python tests `if not self.comment`, and a `Comment` object is always truthy) -/
def withComment (c : Option Comment) (d : DescDict) : DescDict :=
  match c with
  | none => d
  | some c => Desc.update [("comments", .str c.parsed)] d

/-! ## builtin types -/

structure SizeRef where
  propertyName : String
  delta : Scalar
  deriving DecidableEq, Repr, Inhabited

/-- `FixedSizeInteger`: `short_name` is `("u" if unsigned) + "int" + str(8 * size)` -/
structure IntType where
  isUnsigned : Bool
  size : Nat
  sizeref : Option SizeRef := none
  deriving DecidableEq, Repr, Inhabited

def formatIsUnsigned (u : Bool) : String := if u then "unsigned" else "signed"

namespace IntType
def shortName (t : IntType) : String := (if t.isUnsigned then "u" else "") ++ "int" ++ toString (8 * t.size)

/-- the eight names of the grammar's `FIXED_SIZE_INTEGER` -/
def ofShortName? (s : String) : Option IntType :=
  match s with
  | "uint8" => some ⟨true, 1, none⟩
  | "uint16" => some ⟨true, 2, none⟩
  | "uint32" => some ⟨true, 4, none⟩
  | "uint64" => some ⟨true, 8, none⟩
  | "int8" => some ⟨false, 1, none⟩
  | "int16" => some ⟨false, 2, none⟩
  | "int32" => some ⟨false, 4, none⟩
  | "int64" => some ⟨false, 8, none⟩
  | _ => none

def render (t : IntType) : String := t.shortName

def toLegacy (t : IntType) : DescDict :=
  let d : DescDict := [("size", .int t.size), ("type", .str "byte"), ("signedness", .str (formatIsUnsigned t.isUnsigned))]
  match t.sizeref with
  | none => d
  | some r => Desc.set d "sizeref" (.dict [("property_name", .str r.propertyName), ("delta", Desc.ofScalar r.delta)])
end IntType

/-- `linked_type` of an alias -/
inductive LinkedType where
  | int (t : IntType)
  | buffer (size : Nat)
  deriving DecidableEq, Repr, Inhabited

namespace LinkedType
def render : LinkedType → String
  | .int t => t.render
  | .buffer n => s!"binary_fixed({n})"

def toLegacy : LinkedType → DescDict
  | .int t => t.toLegacy
  | .buffer n => [("size", .int n), ("type", .str "byte"), ("signedness", .str (formatIsUnsigned true))]

def size : LinkedType → Nat
  | .int t => t.size
  | .buffer n => n

def isUnsigned : LinkedType → Bool
  | .int t => t.isUnsigned
  | .buffer _ => true
end LinkedType

/-! ## attributes -/

/-- `Attribute(tokens)`: `values = tokens[1:]` with lark's `None` placeholders kept -/
structure Attribute where
  name : String
  values : List Scalar := []
  deriving DecidableEq, Repr, Inhabited

namespace Attribute
def isFlag (a : Attribute) : Bool := a.values.isEmpty

/-- `.value`: `True` for a flag, else the first value -/
def value (a : Attribute) : Scalar :=
  match a.values with
  | [] => .bool true
  | v :: _ => v

/-- `Attribute.__str__` loop: a value `'not'` becomes the qualifier of the next value -/
def formatValues : List Scalar → String → List String
  | [], _ => []
  | v :: rest, qualifier =>
    if v = .none then formatValues rest qualifier   -- omitted optional argument (lark's `None` placeholder) is not printed
    else if v = .str "not" then formatValues rest "not " else (qualifier ++ v.pyStr) :: formatValues rest ""

def render (a : Attribute) : String :=
  if a.isFlag then "@" ++ a.name
  else "@" ++ a.name ++ "(" ++ ", ".intercalate (formatValues a.values "") ++ ")"

/-- the `comparer` branch of `_format_attributes`: pairs `(name, transform)`; an odd trailing value is dropped -/
def comparerPairs : List Scalar → List (Scalar × Scalar)
  | a :: b :: rest => (a, b) :: comparerPairs rest
  | _ => []

def renderFormatted (a : Attribute) : String :=
  if a.name ≠ "comparer" then a.render
  else
    let parts := (comparerPairs a.values).map fun (n, t) => if t.truthy then n.pyStr ++ "!" ++ t.pyStr else n.pyStr
    "@" ++ a.name ++ "(" ++ ", ".intercalate parts ++ ")"
end Attribute

/-- the (possibly absent) attribute list as a list -/
def attrList : Option (List Attribute) → List Attribute
  | some l => l
  | none => []

/-- `_format_attributes` -/
def formatAttributes (attrs : Option (List Attribute)) : String :=
  match attrList attrs with
  | [] => ""
  | l => "\n".intercalate (l.map Attribute.renderFormatted) ++ "\n"

/-- first attribute with the given name -/
def findAttribute (attrs : Option (List Attribute)) (name : String) : Option Attribute :=
  (attrList attrs).find? (·.name = name)

/-- `_lookup_attribute_value(attributes, name)` (single value form); `Scalar.none` = Python `None` -/
def lookupAttributeValue (attrs : Option (List Attribute)) (name : String) : Scalar :=
  match findAttribute attrs name with
  | some a => a.value
  | none => .none

/-- `_lookup_attribute_value(attributes, name, True)` -/
def lookupAttributeValues (attrs : Option (List Attribute)) (name : String) : Option (List Scalar) :=
  (findAttribute attrs name).map (·.values)

/-! ## enums and aliases -/

structure Alias where
  name : String
  linkedType : LinkedType
  comment : Option Comment := none
  deriving DecidableEq, Repr, Inhabited

structure EnumValue where
  name : String
  value : Scalar
  comment : Option Comment := none
  deriving DecidableEq, Repr, Inhabited

structure Enum where
  name : String
  base : IntType
  values : List EnumValue
  attributes : Option (List Attribute) := none
  comment : Option Comment := none
  deriving DecidableEq, Repr, Inhabited

def scalarDesc? (v : Scalar) : Option Desc := if v.isNone then none else some (Desc.ofScalar v)

namespace Alias
def render (a : Alias) : String := s!"using {a.name} = {a.linkedType.render}"
def toLegacy (a : Alias) : DescDict :=
  withComment a.comment (Desc.update [("name", .str a.name)] a.linkedType.toLegacy)
end Alias

namespace EnumValue
def render (v : EnumValue) : String := s!"{v.name} = {v.value.pyStr}"
def toLegacy (v : EnumValue) : DescDict :=
  withComment v.comment [("name", .str v.name), ("value", Desc.ofScalar v.value)]
end EnumValue

namespace Enum
def isBitwise (e : Enum) : Scalar := lookupAttributeValue e.attributes "is_bitwise"
def render (e : Enum) : String :=
  formatAttributes e.attributes ++ s!"enum {e.name} : {e.base.render}  # {e.values.length} value(s)"
def toLegacy (e : Enum) : DescDict :=
  withComment e.comment <| Desc.setIf
    [("name", .str e.name), ("type", .str "enum"), ("size", .int e.base.size),
     ("signedness", .str (formatIsUnsigned e.base.isUnsigned)),
     ("values", .list (e.values.map fun v => .dict v.toLegacy))]
    "is_bitwise" (scalarDesc? e.isBitwise)
end Enum

/-! ## arrays -/

inductive ElemType where
  | named (n : String)
  | int (t : IntType)
  deriving DecidableEq, Repr, Inhabited

def ElemType.render : ElemType → String
  | .named n => n
  | .int t => t.render

/-- the `_attributes` dict of an `Array` -/
structure ArrayAttrs where
  sortKey : Option Scalar := none
  isByteConstrained : Bool := false
  alignment : Option Scalar := none
  isLastElementPadded : Option Bool := none
  deriving DecidableEq, Repr, Inhabited

def fillPlaceholder : String := "__FILL__"

structure ArrayType where
  elementType : ElemType
  rawSize : Scalar
  attrs : ArrayAttrs := {}
  deriving DecidableEq, Repr, Inhabited

namespace ArrayType
def isExpandable (a : ArrayType) : Bool := a.rawSize = .str fillPlaceholder
/-- `Array.size`: `0` for a fill array, else the raw size (member name or number) -/
def size (a : ArrayType) : Scalar := if a.isExpandable then .int 0 else a.rawSize
def sortKey (a : ArrayType) : Option Scalar := a.attrs.sortKey
def isByteConstrained (a : ArrayType) : Bool := a.attrs.isByteConstrained
def alignment (a : ArrayType) : Option Scalar := a.attrs.alignment
def isLastElementPadded (a : ArrayType) : Option Bool := a.attrs.isLastElementPadded

def disposition (a : ArrayType) : String :=
  if a.isExpandable then "array fill" else if a.isByteConstrained then "array sized" else "array"

def render (a : ArrayType) : String :=
  let size := if a.disposition = "array fill" then fillPlaceholder else a.size.pyStr
  s!"array({a.elementType.render}, {size})"

def toLegacy (a : ArrayType) : DescDict :=
  let d : DescDict := [("disposition", .str a.disposition), ("size", Desc.ofScalar a.size)]
  let d := match a.elementType with
    | .int t => Desc.update d
        [("element_disposition", .dict [("size", .int t.size), ("signedness", .str (formatIsUnsigned t.isUnsigned))]),
         ("type", .str "byte")]
    | .named n => Desc.set d "type" (.str n)
  let d := Desc.setIf d "sort_key" (a.sortKey.bind scalarDesc?)
  let d := Desc.setIf d "alignment" (a.alignment.bind scalarDesc?)
  Desc.setIf d "is_last_element_padded" (a.isLastElementPadded.map .bool)
end ArrayType

/-! ## struct members -/

structure Conditional where
  value : Scalar
  operation : String
  linkedFieldName : String
  deriving DecidableEq, Repr, Inhabited

namespace Conditional
def render (c : Conditional) : String := s!"if {c.value.pyStr} {c.operation} {c.linkedFieldName}"
def toLegacy (c : Conditional) : DescDict :=
  [("condition", .str c.linkedFieldName), ("condition_operation", .str c.operation), ("condition_value", Desc.ofScalar c.value)]
end Conditional

inductive FieldType where
  | named (n : String)
  | int (t : IntType)
  | array (a : ArrayType)
  deriving DecidableEq, Repr, Inhabited

def FieldType.render : FieldType → String
  | .named n => n
  | .int t => t.render
  | .array a => a.render

inductive FieldValue where
  | scalar (v : Scalar)
  | cond (c : Conditional)
  deriving DecidableEq, Repr, Inhabited

/-- `value is None` -/
def FieldValue.isNone : FieldValue → Bool
  | .scalar .none => true
  | _ => false

structure StructField where
  name : String
  fieldType : FieldType
  value : FieldValue := .scalar .none
  disposition : Option String := none
  attributes : Option (List Attribute) := none
  comment : Option Comment := none
  deriving DecidableEq, Repr, Inhabited

namespace StructField
def isConst (f : StructField) : Bool := f.disposition = some "const"
def isReserved (f : StructField) : Bool := f.disposition = some "reserved"
def isSizeReference (f : StructField) : Bool := f.disposition = some "sizeof"
def isNamedInline (f : StructField) : Bool := f.disposition = some "inline"
def isConditional (f : StructField) : Bool := match f.value with | .cond _ => true | _ => false

def render (f : StructField) : String :=
  let formatted := formatAttributes f.attributes ++ f.name ++ " = "
  match f.disposition with
  | some "inline" => formatted ++ "inline " ++ f.fieldType.render
  | none | some "" =>
    formatted ++ f.fieldType.render ++
      (match f.value with
       | .cond c => " " ++ c.render
       | .scalar v => if v.truthy then " " ++ v.pyStr else "")
  | some d =>
    let v := match f.value with | .cond c => c.render | .scalar v => v.pyStr
    formatted ++ (if d = "const" || d = "reserved" then "make_" else "") ++ s!"{d}({f.fieldType.render}, {v})"

def toLegacyNoComment (f : StructField) : DescDict :=
  let d : DescDict := [("name", .str f.name)]
  let d := match f.fieldType with
    | .named n => Desc.set d "type" (.str n)
    | .int t => Desc.update d t.toLegacy
    | .array a => Desc.update d a.toLegacy
  let d := match f.value with
    | .cond c => Desc.update d c.toLegacy
    | .scalar v => Desc.setIf d "value" (scalarDesc? v)
  Desc.setIf d "disposition" (f.disposition.map .str)

def toLegacy (f : StructField) : DescDict := withComment f.comment f.toLegacyNoComment
end StructField

inductive Member where
  | field (f : StructField)
  | inlinePlaceholder (inlinedTypename : String) (comment : Option Comment)
  deriving DecidableEq, Repr, Inhabited

namespace Member
/-- `hasattr(m, 'name')` / the name -/
def name? : Member → Option String
  | .field f => some f.name
  | .inlinePlaceholder _ _ => none

def isPlaceholder : Member → Bool
  | .inlinePlaceholder _ _ => true
  | .field _ => false

def comment : Member → Option Comment
  | .field f => f.comment
  | .inlinePlaceholder _ c => c

def render : Member → String
  | .field f => f.render
  | .inlinePlaceholder t _ => "inline " ++ t

def toLegacy : Member → DescDict
  | .field f => f.toLegacy
  | .inlinePlaceholder t c => withComment c [("type", .str t), ("disposition", .str "inline")]
end Member

/-! ## structs -/

structure Struct where
  disposition : Option String := none
  name : String
  fields : List Member
  attributes : Option (List Attribute) := none
  factoryType : Option String := none
  requiresUnaligned : Bool := false
  comment : Option Comment := none
  deriving DecidableEq, Repr, Inhabited

structure Initializer where
  targetPropertyName : Scalar
  value : Scalar
  deriving DecidableEq, Repr, Inhabited

namespace Struct
def isAbstract (s : Struct) : Bool := s.disposition = some "abstract"
def isInline (s : Struct) : Bool := s.disposition = some "inline"
def isAligned (s : Struct) : Scalar := lookupAttributeValue s.attributes "is_aligned"
def isSizeImplicit (s : Struct) : Scalar := lookupAttributeValue s.attributes "is_size_implicit"
def size (s : Struct) : Scalar := lookupAttributeValue s.attributes "size"
def discriminator (s : Struct) : Option (List Scalar) := lookupAttributeValues s.attributes "discriminator"

/-- `.comparer`: `None`/`[]` stay as they are (both falsy), else the pairs -/
def comparer (s : Struct) : List (Scalar × Scalar) :=
  match lookupAttributeValues s.attributes "comparer" with
  | none => []
  | some vs => Attribute.comparerPairs vs

/-- `.initializers` (Python raises `IndexError` for an `initializes` attribute with fewer than two values, which the
    grammar excludes; the model reads a missing value as `None`) -/
def initializers (s : Struct) : List Initializer :=
  ((attrList s.attributes).filter (·.name = "initializes")).map fun a =>
    ⟨a.values.head?.getD .none, (a.values.drop 1).head?.getD .none⟩

/-- the field members (placeholders dropped) -/
def structFields (s : Struct) : List StructField :=
  s.fields.filterMap fun | .field f => some f | _ => none

def render (s : Struct) : String :=
  formatAttributes s.attributes ++ (match s.disposition with | some d => if d = "" then "" else d ++ " " | none => "") ++
    s!"struct {s.name}  # {s.fields.length} field(s)"

def layout (s : Struct) : List Desc := s.fields.map fun m => .dict m.toLegacy

def toLegacy (s : Struct) : DescDict :=
  let d : DescDict := [("name", .str s.name), ("type", .str "struct"), ("layout", .list s.layout)]
  let d := Desc.setIf d "disposition" (s.disposition.map .str)
  let d := Desc.setIf d "factory_type" (s.factoryType.map .str)
  let d := Desc.setIf d "is_aligned" (scalarDesc? s.isAligned)
  let d := Desc.setIf d "is_size_implicit" (scalarDesc? s.isSizeImplicit)
  let d := Desc.setIf d "size" (scalarDesc? s.size)
  let d := Desc.setIf d "discriminator" (s.discriminator.map fun vs => .list (vs.map Desc.ofScalar))
  let d := if s.comparer.isEmpty then d else
    Desc.set d "comparer" (.list (s.comparer.map fun (n, t) => .dict [("name", Desc.ofScalar n), ("transform", Desc.ofScalar t)]))
  let d := if s.initializers.isEmpty then d else
    Desc.set d "initializers" (.list (s.initializers.map fun i =>
      .dict [("target_property_name", Desc.ofScalar i.targetPropertyName), ("value", Desc.ofScalar i.value)]))
  withComment s.comment d
end Struct

/-! ## declarations and schemas -/

inductive Decl where
  | alias (a : Alias)
  | enum (e : Enum)
  | struct (s : Struct)
  deriving DecidableEq, Repr, Inhabited

namespace Decl
def name : Decl → String
  | .alias a => a.name
  | .enum e => e.name
  | .struct s => s.name

def struct? : Decl → Option Struct
  | .struct s => some s
  | _ => none

/-- `model.disposition` where the attribute exists (`hasattr(model, 'disposition')` holds for structs only) -/
def disposition? : Decl → Option (Option String)
  | .struct s => some s.disposition
  | _ => none

def render : Decl → String
  | .alias a => a.render
  | .enum e => e.render
  | .struct s => s.render

def toLegacyDict : Decl → DescDict
  | .alias a => a.toLegacy
  | .enum e => e.toLegacy
  | .struct s => s.toLegacy

/-- `to_legacy_descriptor()` -/
def toLegacy (d : Decl) : Desc := .dict d.toLegacyDict
end Decl

abbrev Schema := List Decl

/-- `{model.name: model for model in type_descriptors}` lookup: the LAST declaration with the name wins -/
def Schema.lookup (s : Schema) (name : String) : Option Decl := s.reverse.find? (·.name = name)

/-- the structs of a schema, in order -/
def Schema.structs (s : Schema) : List Struct := s.filterMap Decl.struct?

end SymbolVerif.Cats

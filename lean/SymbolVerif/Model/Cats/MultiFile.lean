/-
Model of `catbuffer/parser/catparser/__main__.py`: `LarkMultiFileParser.parse` (multi-file import
resolution) and the exit-status decision logic of `main()`.

A file system is a finite association list from paths to files; a file is either unparsable (lark
raises) or parsed into its `import` statements (in source order) and the names of its declarations (in
source order). A path that is not in the list is a missing file (`open` raises `OSError`).

Paths are *identities*: the model implements what property C17 demands (each file contributes once),
so the root and an import that names the root are the same path.
-/
namespace SymbolVerif.Cats.MultiFile

abbrev Path := String
abbrev Name := String

inductive File where
  | unparsable : File
  | parsed (imports : List Path) (decls : List Name) : File
deriving Repr, DecidableEq, Inhabited

abbrev FS := List (Path × File)

inductive Err where
  /-- `open(filepath)` raised `OSError` -/
  | missing (p : Path)
  /-- `self.parser.parse(contents)` raised -/
  | unparsable (p : Path)
  /-- the recursion budget ran out (never produced by `parseFiles`, theorem `fuel_suffices`) -/
  | outOfFuel
deriving Repr, DecidableEq, Inhabited

/-- declarations of the file at `p` (nothing for a missing or unparsable file). -/
def declsOf (fs : FS) (p : Path) : List Name :=
  match fs.lookup p with
  | some (.parsed _ decls) => decls
  | _ => []

/-- import statements of the file at `p`. -/
def importsOf (fs : FS) (p : Path) : List Path :=
  match fs.lookup p with
  | some (.parsed imps _) => imps
  | _ => []

/-- the termination measure: entries of the file system whose path has not been processed yet. -/
def unproc (fs : FS) (done : List Path) : Nat := fs.countP (fun e => !done.contains e.1)

/-- result of a (partial) parse: descriptors collected so far and `self.processed_filepaths`. -/
abbrev Res := Except Err (List Name × List Path)

/-- the `for unprocessed_tree in unprocessed_trees: descriptors += self.parse(...)` loop; `self.parse` is
    the parameter `rec`, the processed-file list is threaded through. -/
def parseImportsWith (rec : Path → List Path → Res) : List Path → List Path → Res
  | [], done => .ok ([], done)
  | i :: is, done =>
    match rec i done with
    | .error e => .error e
    | .ok (o1, d1) =>
      match parseImportsWith rec is d1 with
      | .error e => .error e
      | .ok (o2, d2) => .ok (o1 ++ o2, d2)

/-- `LarkMultiFileParser.parse(filepath)` with the processed-file list made explicit. The first argument
    bounds the recursion depth; `parseFiles` supplies `number of files + 1`, which always suffices. -/
def parseFile (fs : FS) : Nat → Path → List Path → Res
  | 0, _, _ => .error .outOfFuel
  | fuel + 1, p, done =>
    if p ∈ done then .ok ([], done)                       -- `if filepath in self.processed_filepaths: return []`
    else
      match fs.lookup p with                              -- `self.processed_filepaths.append(filepath)`; open; parse
      | none => .error (.missing p)
      | some .unparsable => .error (.unparsable p)
      | some (.parsed imps decls) =>
        match parseImportsWith (parseFile fs fuel) imps (done ++ [p]) with
        | .error e => .error e
        | .ok (out, done') => .ok (out ++ decls, done')   -- `return descriptors + [own statements]`

/-- `LarkMultiFileParser().parse(root)`: descriptor names and the processed files in processing order. -/
def parseFilesFull (fs : FS) (root : Path) : Res := parseFile fs (fs.length + 1) root []

def parseFiles (fs : FS) (root : Path) : Except Err (List Name) :=
  (parseFilesFull fs root).map (·.1)

/-! ### exit status of `main()` -/

/-- what happened after parsing, as far as the exit status is concerned. `D` is the descriptor type. The fields are
    the steps of `main()` in the order in which it performs them. -/
structure Stages (D : Type) where
  /-- `_validate(raw_type_descriptors, PRE EXPANSION)` found no errors. It is run on what the parser returned: no
      attribute has been applied yet (an attribute the member type does not have is reported here) -/
  validatePre : List D → Bool
  /-- `processor.apply_attributes()`, after the first validation pass; `none` = an exception escaped -/
  applyAttributes : List D → Option (List D)
  /-- `expand_named_inlines`, `expand_unnamed_inlines` on the attribute-applied declarations; `none` = an exception escaped -/
  expandInlines : List D → Option (List D)
  /-- `_validate(..., POST_EXPANSION)` found no errors -/
  validatePost : List D → Bool
  /-- dumping / `generator_class.generate` / writing the output file went through (vacuously `true` when
      nothing was requested) -/
  generate : List D → Bool

/-- `apply_attributes`, `expand_named_inlines`, `expand_unnamed_inlines`, in this order -/
def Stages.expand {D : Type} (st : Stages D) (ds : List D) : Option (List D) :=
  (st.applyAttributes ds).bind st.expandInlines

/-- `main()`: `sys.exit(1)` for `AstException`/`OSError` out of the parse (and status 1 from the interpreter
    for any other escaping exception), `sys.exit(2)` from `_validate`, 0 at the end. -/
def mainExit {D : Type} (st : Stages D) (parsed : Except Err (List D)) : Nat :=
  match parsed with
  | .error _ => 1
  | .ok ds =>
    if !st.validatePre ds then 2
    else match st.expand ds with
      | none => 1
      | some ds' =>
        if !st.validatePost ds' then 2
        else if st.generate ds' then 0 else 1

/-- whether `main()` reaches the point where the output file is written. -/
def reachesOutput {D : Type} (st : Stages D) (parsed : Except Err (List D)) : Bool :=
  match parsed with
  | .error _ => false
  | .ok ds =>
    st.validatePre ds &&
      match st.expand ds with
      | none => false
      | some ds' => st.validatePost ds'

end SymbolVerif.Cats.MultiFile

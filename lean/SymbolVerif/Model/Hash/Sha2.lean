/-
SHA-256 and SHA-512 (FIPS 180-4), pure, core Lean only.
Used only by the driver to instantiate the hash parameters of the models; no theorem depends on it.
-/
import SymbolVerif.Model.Bytes
namespace SymbolVerif.Hash

/-- Merkle–Damgård padding with a big-endian bit length: `0x80`, zeros, then the bit length of the
message on `lenBytes` bytes, the total being a multiple of `block` bytes. -/
def mdPadBE (block lenBytes : Nat) (m : Array UInt8) : Array UInt8 :=
  let k := (block - (m.size + 1 + lenBytes) % block) % block
  (m.push 0x80 ++ Array.replicate k 0) ++ (Bytes.beBytes lenBytes (8 * m.size)).toArray

/-! SHA-256 -/

private def k256 : Array UInt32 := #[
  0x428A2F98, 0x71374491, 0xB5C0FBCF, 0xE9B5DBA5, 0x3956C25B, 0x59F111F1, 0x923F82A4, 0xAB1C5ED5,
  0xD807AA98, 0x12835B01, 0x243185BE, 0x550C7DC3, 0x72BE5D74, 0x80DEB1FE, 0x9BDC06A7, 0xC19BF174,
  0xE49B69C1, 0xEFBE4786, 0x0FC19DC6, 0x240CA1CC, 0x2DE92C6F, 0x4A7484AA, 0x5CB0A9DC, 0x76F988DA,
  0x983E5152, 0xA831C66D, 0xB00327C8, 0xBF597FC7, 0xC6E00BF3, 0xD5A79147, 0x06CA6351, 0x14292967,
  0x27B70A85, 0x2E1B2138, 0x4D2C6DFC, 0x53380D13, 0x650A7354, 0x766A0ABB, 0x81C2C92E, 0x92722C85,
  0xA2BFE8A1, 0xA81A664B, 0xC24B8B70, 0xC76C51A3, 0xD192E819, 0xD6990624, 0xF40E3585, 0x106AA070,
  0x19A4C116, 0x1E376C08, 0x2748774C, 0x34B0BCB5, 0x391C0CB3, 0x4ED8AA4A, 0x5B9CCA4F, 0x682E6FF3,
  0x748F82EE, 0x78A5636F, 0x84C87814, 0x8CC70208, 0x90BEFFFA, 0xA4506CEB, 0xBEF9A3F7, 0xC67178F2]

private def h256 : Array UInt32 := #[
  0x6A09E667, 0xBB67AE85, 0x3C6EF372, 0xA54FF53A, 0x510E527F, 0x9B05688C, 0x1F83D9AB, 0x5BE0CD19]

/-- rotate right, `0 < n < 32` -/
private def rotr32 (x n : UInt32) : UInt32 := (x >>> n) ||| (x <<< (32 - n))

/-- one compression step on the 64-byte block of `p` starting at `off` -/
private def compress256 (st : Array UInt32) (p : Array UInt8) (off : Nat) : Array UInt32 := Id.run do
  let mut w : Array UInt32 := Array.replicate 64 0
  for t in [0:16] do
    let j := off + 4 * t
    w := w.set! t (((p[j]!).toUInt32 <<< 24) ||| ((p[j+1]!).toUInt32 <<< 16)
      ||| ((p[j+2]!).toUInt32 <<< 8) ||| (p[j+3]!).toUInt32)
  for t in [16:64] do
    let x := w[t-15]!
    let y := w[t-2]!
    let s0 := rotr32 x 7 ^^^ rotr32 x 18 ^^^ (x >>> 3)
    let s1 := rotr32 y 17 ^^^ rotr32 y 19 ^^^ (y >>> 10)
    w := w.set! t (w[t-16]! + s0 + w[t-7]! + s1)
  let mut a := st[0]!
  let mut b := st[1]!
  let mut c := st[2]!
  let mut d := st[3]!
  let mut e := st[4]!
  let mut f := st[5]!
  let mut g := st[6]!
  let mut h := st[7]!
  for t in [0:64] do
    let bs1 := rotr32 e 6 ^^^ rotr32 e 11 ^^^ rotr32 e 25
    let ch := (e &&& f) ^^^ ((~~~ e) &&& g)
    let t1 := h + bs1 + ch + k256[t]! + w[t]!
    let bs0 := rotr32 a 2 ^^^ rotr32 a 13 ^^^ rotr32 a 22
    let maj := (a &&& b) ^^^ (a &&& c) ^^^ (b &&& c)
    let t2 := bs0 + maj
    h := g; g := f; f := e; e := d + t1
    d := c; c := b; b := a; a := t1 + t2
  return #[st[0]! + a, st[1]! + b, st[2]! + c, st[3]! + d,
           st[4]! + e, st[5]! + f, st[6]! + g, st[7]! + h]

/-- SHA-256 (`hashlib.sha256(m).digest()`). -/
def sha256 (msg : Bytes) : Bytes := Id.run do
  let p := mdPadBE 64 8 msg.toArray
  let mut st := h256
  for i in [0:p.size / 64] do
    st := compress256 st p (64 * i)
  let mut out : Array UInt8 := Array.mkEmpty 32
  for i in [0:8] do
    let v := st[i]!
    out := (((out.push (v >>> 24).toUInt8).push (v >>> 16).toUInt8).push (v >>> 8).toUInt8).push v.toUInt8
  return out.toList

/-! SHA-512 -/

private def k512 : Array UInt64 := #[
  0x428A2F98D728AE22, 0x7137449123EF65CD, 0xB5C0FBCFEC4D3B2F, 0xE9B5DBA58189DBBC,
  0x3956C25BF348B538, 0x59F111F1B605D019, 0x923F82A4AF194F9B, 0xAB1C5ED5DA6D8118,
  0xD807AA98A3030242, 0x12835B0145706FBE, 0x243185BE4EE4B28C, 0x550C7DC3D5FFB4E2,
  0x72BE5D74F27B896F, 0x80DEB1FE3B1696B1, 0x9BDC06A725C71235, 0xC19BF174CF692694,
  0xE49B69C19EF14AD2, 0xEFBE4786384F25E3, 0x0FC19DC68B8CD5B5, 0x240CA1CC77AC9C65,
  0x2DE92C6F592B0275, 0x4A7484AA6EA6E483, 0x5CB0A9DCBD41FBD4, 0x76F988DA831153B5,
  0x983E5152EE66DFAB, 0xA831C66D2DB43210, 0xB00327C898FB213F, 0xBF597FC7BEEF0EE4,
  0xC6E00BF33DA88FC2, 0xD5A79147930AA725, 0x06CA6351E003826F, 0x142929670A0E6E70,
  0x27B70A8546D22FFC, 0x2E1B21385C26C926, 0x4D2C6DFC5AC42AED, 0x53380D139D95B3DF,
  0x650A73548BAF63DE, 0x766A0ABB3C77B2A8, 0x81C2C92E47EDAEE6, 0x92722C851482353B,
  0xA2BFE8A14CF10364, 0xA81A664BBC423001, 0xC24B8B70D0F89791, 0xC76C51A30654BE30,
  0xD192E819D6EF5218, 0xD69906245565A910, 0xF40E35855771202A, 0x106AA07032BBD1B8,
  0x19A4C116B8D2D0C8, 0x1E376C085141AB53, 0x2748774CDF8EEB99, 0x34B0BCB5E19B48A8,
  0x391C0CB3C5C95A63, 0x4ED8AA4AE3418ACB, 0x5B9CCA4F7763E373, 0x682E6FF3D6B2B8A3,
  0x748F82EE5DEFB2FC, 0x78A5636F43172F60, 0x84C87814A1F0AB72, 0x8CC702081A6439EC,
  0x90BEFFFA23631E28, 0xA4506CEBDE82BDE9, 0xBEF9A3F7B2C67915, 0xC67178F2E372532B,
  0xCA273ECEEA26619C, 0xD186B8C721C0C207, 0xEADA7DD6CDE0EB1E, 0xF57D4F7FEE6ED178,
  0x06F067AA72176FBA, 0x0A637DC5A2C898A6, 0x113F9804BEF90DAE, 0x1B710B35131C471B,
  0x28DB77F523047D84, 0x32CAAB7B40C72493, 0x3C9EBE0A15C9BEBC, 0x431D67C49C100D4C,
  0x4CC5D4BECB3E42B6, 0x597F299CFC657E2A, 0x5FCB6FAB3AD6FAEC, 0x6C44198C4A475817]

private def h512 : Array UInt64 := #[
  0x6A09E667F3BCC908, 0xBB67AE8584CAA73B, 0x3C6EF372FE94F82B, 0xA54FF53A5F1D36F1,
  0x510E527FADE682D1, 0x9B05688C2B3E6C1F, 0x1F83D9ABFB41BD6B, 0x5BE0CD19137E2179]

/-- rotate right, `0 < n < 64` -/
private def rotr64 (x n : UInt64) : UInt64 := (x >>> n) ||| (x <<< (64 - n))

/-- one compression step on the 128-byte block of `p` starting at `off` -/
private def compress512 (st : Array UInt64) (p : Array UInt8) (off : Nat) : Array UInt64 := Id.run do
  let mut w : Array UInt64 := Array.replicate 80 0
  for t in [0:16] do
    let j := off + 8 * t
    let mut v : UInt64 := 0
    for l in [0:8] do
      v := (v <<< 8) ||| (p[j+l]!).toUInt64
    w := w.set! t v
  for t in [16:80] do
    let x := w[t-15]!
    let y := w[t-2]!
    let s0 := rotr64 x 1 ^^^ rotr64 x 8 ^^^ (x >>> 7)
    let s1 := rotr64 y 19 ^^^ rotr64 y 61 ^^^ (y >>> 6)
    w := w.set! t (w[t-16]! + s0 + w[t-7]! + s1)
  let mut a := st[0]!
  let mut b := st[1]!
  let mut c := st[2]!
  let mut d := st[3]!
  let mut e := st[4]!
  let mut f := st[5]!
  let mut g := st[6]!
  let mut h := st[7]!
  for t in [0:80] do
    let bs1 := rotr64 e 14 ^^^ rotr64 e 18 ^^^ rotr64 e 41
    let ch := (e &&& f) ^^^ ((~~~ e) &&& g)
    let t1 := h + bs1 + ch + k512[t]! + w[t]!
    let bs0 := rotr64 a 28 ^^^ rotr64 a 34 ^^^ rotr64 a 39
    let maj := (a &&& b) ^^^ (a &&& c) ^^^ (b &&& c)
    let t2 := bs0 + maj
    h := g; g := f; f := e; e := d + t1
    d := c; c := b; b := a; a := t1 + t2
  return #[st[0]! + a, st[1]! + b, st[2]! + c, st[3]! + d,
           st[4]! + e, st[5]! + f, st[6]! + g, st[7]! + h]

/-- SHA-512 (`hashlib.sha512(m).digest()`). -/
def sha512 (msg : Bytes) : Bytes := Id.run do
  let p := mdPadBE 128 16 msg.toArray
  let mut st := h512
  for i in [0:p.size / 128] do
    st := compress512 st p (128 * i)
  let mut out : Array UInt8 := Array.mkEmpty 64
  for i in [0:8] do
    let v := st[i]!
    for l in [0:8] do
      out := out.push (v >>> (UInt64.ofNat (8 * (7 - l)))).toUInt8
  return out.toList

end SymbolVerif.Hash

/-
RIPEMD-160 (Dobbertin, Bosselaers, Preneel 1996), pure, core Lean only.
Used only by the driver to instantiate the hash parameters of the models; no theorem depends on it.
-/
import SymbolVerif.Model.Bytes
namespace SymbolVerif.Hash

-- message word selection, left line
private def rmdRL : Array Nat := #[
  0, 1, 2, 3, 4, 5, 6, 7, 8, 9, 10, 11, 12, 13, 14, 15,
  7, 4, 13, 1, 10, 6, 15, 3, 12, 0, 9, 5, 2, 14, 11, 8,
  3, 10, 14, 4, 9, 15, 8, 1, 2, 7, 0, 6, 13, 11, 5, 12,
  1, 9, 11, 10, 0, 8, 12, 4, 13, 3, 7, 15, 14, 5, 6, 2,
  4, 0, 5, 9, 7, 12, 2, 10, 14, 1, 3, 8, 11, 6, 15, 13]

-- message word selection, right line
private def rmdRR : Array Nat := #[
  5, 14, 7, 0, 9, 2, 11, 4, 13, 6, 15, 8, 1, 10, 3, 12,
  6, 11, 3, 7, 0, 13, 5, 10, 14, 15, 8, 12, 4, 9, 1, 2,
  15, 5, 1, 3, 7, 14, 6, 9, 11, 8, 12, 2, 10, 0, 4, 13,
  8, 6, 4, 1, 3, 11, 15, 0, 5, 12, 2, 13, 9, 7, 10, 14,
  12, 15, 10, 4, 1, 5, 8, 7, 6, 2, 13, 14, 0, 3, 9, 11]

-- rotation amounts, left line
private def rmdSL : Array UInt32 := #[
  11, 14, 15, 12, 5, 8, 7, 9, 11, 13, 14, 15, 6, 7, 9, 8,
  7, 6, 8, 13, 11, 9, 7, 15, 7, 12, 15, 9, 11, 7, 13, 12,
  11, 13, 6, 7, 14, 9, 13, 15, 14, 8, 13, 6, 5, 12, 7, 5,
  11, 12, 14, 15, 14, 15, 9, 8, 9, 14, 5, 6, 8, 6, 5, 12,
  9, 15, 5, 11, 6, 8, 13, 12, 5, 12, 13, 14, 11, 8, 5, 6]

-- rotation amounts, right line
private def rmdSR : Array UInt32 := #[
  8, 9, 9, 11, 13, 15, 15, 5, 7, 7, 8, 11, 14, 14, 12, 6,
  9, 13, 15, 7, 12, 8, 9, 11, 7, 7, 12, 7, 6, 15, 13, 11,
  9, 7, 15, 11, 8, 6, 6, 14, 12, 13, 5, 14, 13, 13, 7, 5,
  15, 5, 8, 11, 14, 14, 6, 14, 6, 9, 12, 9, 12, 5, 15, 8,
  8, 5, 12, 9, 12, 5, 14, 6, 8, 13, 6, 5, 15, 13, 11, 11]

private def rmdKL : Array UInt32 := #[0x00000000, 0x5A827999, 0x6ED9EBA1, 0x8F1BBCDC, 0xA953FD4E]
private def rmdKR : Array UInt32 := #[0x50A28BE6, 0x5C4DD124, 0x6D703EF3, 0x7A6D76E9, 0x00000000]

/-- rotate left, `0 < n < 32` -/
private def rmdRotl (x n : UInt32) : UInt32 := (x <<< n) ||| (x >>> (32 - n))

/-- the five round functions -/
private def rmdF (j : Nat) (x y z : UInt32) : UInt32 :=
  if j = 0 then x ^^^ y ^^^ z
  else if j = 1 then (x &&& y) ||| ((~~~ x) &&& z)
  else if j = 2 then (x ||| (~~~ y)) ^^^ z
  else if j = 3 then (x &&& z) ||| (y &&& (~~~ z))
  else x ^^^ (y ||| (~~~ z))

/-- one compression step on the 64-byte block of `p` starting at `off` -/
private def compressRmd (st : Array UInt32) (p : Array UInt8) (off : Nat) : Array UInt32 := Id.run do
  let mut x : Array UInt32 := Array.replicate 16 0
  for t in [0:16] do
    let j := off + 4 * t
    x := x.set! t ((p[j]!).toUInt32 ||| ((p[j+1]!).toUInt32 <<< 8)
      ||| ((p[j+2]!).toUInt32 <<< 16) ||| ((p[j+3]!).toUInt32 <<< 24))
  let mut al := st[0]!
  let mut bl := st[1]!
  let mut cl := st[2]!
  let mut dl := st[3]!
  let mut el := st[4]!
  let mut ar := st[0]!
  let mut br := st[1]!
  let mut cr := st[2]!
  let mut dr := st[3]!
  let mut er := st[4]!
  for j in [0:80] do
    let rnd := j / 16
    let tl := rmdRotl (al + rmdF rnd bl cl dl + x[rmdRL[j]!]! + rmdKL[rnd]!) rmdSL[j]! + el
    al := el; el := dl; dl := rmdRotl cl 10; cl := bl; bl := tl
    let tr := rmdRotl (ar + rmdF (4 - rnd) br cr dr + x[rmdRR[j]!]! + rmdKR[rnd]!) rmdSR[j]! + er
    ar := er; er := dr; dr := rmdRotl cr 10; cr := br; br := tr
  return #[st[1]! + cl + dr, st[2]! + dl + er, st[3]! + el + ar, st[4]! + al + br, st[0]! + bl + cr]

/-- RIPEMD-160 (`hashlib.new('ripemd160', m).digest()`). -/
def ripemd160 (msg : Bytes) : Bytes := Id.run do
  let m := msg.toArray
  -- padding: 0x80, zeros, 64-bit little-endian bit length
  let k := (64 - (m.size + 9) % 64) % 64
  let p := (m.push 0x80 ++ Array.replicate k 0) ++ (Bytes.leBytes 8 (8 * m.size)).toArray
  let mut st : Array UInt32 := #[0x67452301, 0xEFCDAB89, 0x98BADCFE, 0x10325476, 0xC3D2E1F0]
  for i in [0:p.size / 64] do
    st := compressRmd st p (64 * i)
  let mut out : Array UInt8 := Array.mkEmpty 20
  for i in [0:5] do
    let v := st[i]!
    out := (((out.push v.toUInt8).push (v >>> 8).toUInt8).push (v >>> 16).toUInt8).push (v >>> 24).toUInt8
  return out.toList

end SymbolVerif.Hash

/-
Keccak-f[1600] sponge: SHA3-256, Keccak-256, Keccak-512 (pure, core Lean only).
Used only by the driver to instantiate the hash parameters of the models; no theorem depends on it.
-/
import SymbolVerif.Model.Bytes
namespace SymbolVerif.Hash

private def rc : Array UInt64 := #[
  0x0000000000000001, 0x0000000000008082, 0x800000000000808A, 0x8000000080008000,
  0x000000000000808B, 0x0000000080000001, 0x8000000080008081, 0x8000000000008009,
  0x000000000000008A, 0x0000000000000088, 0x0000000080008009, 0x000000008000000A,
  0x000000008000808B, 0x800000000000008B, 0x8000000000008089, 0x8000000000008003,
  0x8000000000008002, 0x8000000000000080, 0x000000000000800A, 0x800000008000000A,
  0x8000000080008081, 0x8000000000008080, 0x0000000080000001, 0x8000000080008008]

-- rotation offsets indexed x + 5*y
private def rot : Array Nat := #[
  0, 1, 62, 28, 27,
  36, 44, 6, 55, 20,
  3, 10, 43, 25, 39,
  41, 45, 15, 21, 8,
  18, 2, 61, 56, 14]

private def rotl (x : UInt64) (n : Nat) : UInt64 :=
  if n % 64 = 0 then x else (x <<< (UInt64.ofNat (n % 64))) ||| (x >>> (UInt64.ofNat (64 - n % 64)))

private def round (a : Array UInt64) (rcv : UInt64) : Array UInt64 := Id.run do
  -- theta
  let mut c : Array UInt64 := Array.replicate 5 0
  for x in [0:5] do
    c := c.set! x (a[x]! ^^^ a[x+5]! ^^^ a[x+10]! ^^^ a[x+15]! ^^^ a[x+20]!)
  let mut a := a
  for x in [0:5] do
    let d := c[(x + 4) % 5]! ^^^ rotl c[(x + 1) % 5]! 1
    for y in [0:5] do
      a := a.set! (x + 5*y) (a[x + 5*y]! ^^^ d)
  -- rho + pi
  let mut b : Array UInt64 := Array.replicate 25 0
  for x in [0:5] do
    for y in [0:5] do
      b := b.set! (y + 5 * ((2*x + 3*y) % 5)) (rotl a[x + 5*y]! rot[x + 5*y]!)
  -- chi
  let mut r : Array UInt64 := Array.replicate 25 0
  for x in [0:5] do
    for y in [0:5] do
      r := r.set! (x + 5*y) (b[x + 5*y]! ^^^ ((~~~ b[(x+1)%5 + 5*y]!) &&& b[(x+2)%5 + 5*y]!))
  -- iota
  r := r.set! 0 (r[0]! ^^^ rcv)
  return r

private def keccakF (a : Array UInt64) : Array UInt64 := Id.run do
  let mut a := a
  for i in [0:24] do
    a := round a rc[i]!
  return a

private def absorbBlock (st : Array UInt64) (blk : Array UInt8) : Array UInt64 := Id.run do
  let mut st := st
  for i in [0:blk.size / 8] do
    let mut w : UInt64 := 0
    for j in [0:8] do
      w := w ||| ((blk[8*i + j]!).toUInt64 <<< (UInt64.ofNat (8*j)))
    st := st.set! i (st[i]! ^^^ w)
  return keccakF st

/-- sponge with rate `rate` bytes, domain suffix `suffix`, output `outLen` bytes (outLen ≤ rate). -/
def sponge (rate : Nat) (suffix : UInt8) (outLen : Nat) (msg : Bytes) : Bytes := Id.run do
  let m := msg.toArray
  let padLen := rate - (m.size % rate)
  let mut p : Array UInt8 := m ++ Array.replicate padLen 0
  p := p.set! m.size (p[m.size]! ||| suffix)
  p := p.set! (p.size - 1) (p[p.size - 1]! ||| 0x80)
  let mut st : Array UInt64 := Array.replicate 25 0
  for i in [0:p.size / rate] do
    st := absorbBlock st (p.extract (i*rate) ((i+1)*rate))
  let mut out : Array UInt8 := #[]
  for i in [0:outLen] do
    out := out.push ((st[i / 8]! >>> (UInt64.ofNat (8 * (i % 8)))).toUInt8)
  return out.toList

def sha3_256 (m : Bytes) : Bytes := sponge 136 0x06 32 m
def keccak_256 (m : Bytes) : Bytes := sponge 136 0x01 32 m
def keccak_512 (m : Bytes) : Bytes := sponge 72 0x01 64 m
def sha3_512 (m : Bytes) : Bytes := sponge 72 0x06 64 m

end SymbolVerif.Hash

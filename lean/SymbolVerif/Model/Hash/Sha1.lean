/-
SHA-1 (FIPS 180-4), pure, core Lean only.
Used only by the driver to instantiate the hash parameters of the models; no theorem depends on it.
-/
import SymbolVerif.Model.Hash.Sha2
namespace SymbolVerif.Hash

/-- rotate left, `0 < n < 32` -/
private def rotl32 (x n : UInt32) : UInt32 := (x <<< n) ||| (x >>> (32 - n))

/-- one compression step on the 64-byte block of `p` starting at `off` -/
private def compressSha1 (st : Array UInt32) (p : Array UInt8) (off : Nat) : Array UInt32 := Id.run do
  let mut w : Array UInt32 := Array.replicate 80 0
  for t in [0:16] do
    let j := off + 4 * t
    w := w.set! t (((p[j]!).toUInt32 <<< 24) ||| ((p[j+1]!).toUInt32 <<< 16)
      ||| ((p[j+2]!).toUInt32 <<< 8) ||| (p[j+3]!).toUInt32)
  for t in [16:80] do
    w := w.set! t (rotl32 (w[t-3]! ^^^ w[t-8]! ^^^ w[t-14]! ^^^ w[t-16]!) 1)
  let mut a := st[0]!
  let mut b := st[1]!
  let mut c := st[2]!
  let mut d := st[3]!
  let mut e := st[4]!
  for t in [0:80] do
    let (f, k) : UInt32 × UInt32 :=
      if t < 20 then ((b &&& c) ||| ((~~~ b) &&& d), 0x5A827999)
      else if t < 40 then (b ^^^ c ^^^ d, 0x6ED9EBA1)
      else if t < 60 then ((b &&& c) ||| (b &&& d) ||| (c &&& d), 0x8F1BBCDC)
      else (b ^^^ c ^^^ d, 0xCA62C1D6)
    let tmp := rotl32 a 5 + f + e + k + w[t]!
    e := d; d := c; c := rotl32 b 30; b := a; a := tmp
  return #[st[0]! + a, st[1]! + b, st[2]! + c, st[3]! + d, st[4]! + e]

/-- SHA-1 (`hashlib.sha1(m).digest()`). -/
def sha1 (msg : Bytes) : Bytes := Id.run do
  let p := mdPadBE 64 8 msg.toArray
  let mut st : Array UInt32 := #[0x67452301, 0xEFCDAB89, 0x98BADCFE, 0x10325476, 0xC3D2E1F0]
  for i in [0:p.size / 64] do
    st := compressSha1 st p (64 * i)
  let mut out : Array UInt8 := Array.mkEmpty 20
  for i in [0:5] do
    let v := st[i]!
    out := (((out.push (v >>> 24).toUInt8).push (v >>> 16).toUInt8).push (v >>> 8).toUInt8).push v.toUInt8
  return out.toList

end SymbolVerif.Hash

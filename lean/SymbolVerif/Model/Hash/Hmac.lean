/-
HMAC (RFC 2104), HKDF-SHA256 (RFC 5869), PBKDF2-HMAC-SHA512 (RFC 8018), pure, core Lean only.
Used only by the driver to instantiate the hash parameters of the models; no theorem depends on it.
-/
import SymbolVerif.Model.Hash.Sha2
namespace SymbolVerif.Hash

/-- HMAC over a hash `H` whose block size is `blockSize` bytes (`hmac.new(key, msg, H).digest()`). -/
def hmac (H : Bytes → Bytes) (blockSize : Nat) (key msg : Bytes) : Bytes :=
  let k0 := if key.length > blockSize then H key else key
  let k := k0 ++ Bytes.zeros (blockSize - k0.length)
  let ipad := k.map (· ^^^ 0x36)
  let opad := k.map (· ^^^ 0x5C)
  H (opad ++ H (ipad ++ msg))

def hmacSha256 (key msg : Bytes) : Bytes := hmac sha256 64 key msg
def hmacSha512 (key msg : Bytes) : Bytes := hmac sha512 128 key msg

/-- HKDF-Extract with SHA-256. An empty salt is equivalent to 32 zero bytes, as in RFC 5869. -/
def hkdfExtractSha256 (salt ikm : Bytes) : Bytes := hmacSha256 salt ikm

/-- HKDF-Expand with SHA-256: the first `len` bytes of `T(1) ‖ T(2) ‖ …`.
RFC 5869 requires `len ≤ 255 * 32`; beyond that the one-byte counter wraps. -/
def hkdfExpandSha256 (prk info : Bytes) (len : Nat) : Bytes := Id.run do
  let mut t : Bytes := []
  let mut okm : Bytes := []
  for i in [0:(len + 31) / 32] do
    t := hmacSha256 prk (t ++ info ++ [UInt8.ofNat (i + 1)])
    okm := okm ++ t
  return okm.take len

/-- HKDF with SHA-256 (extract then expand). -/
def hkdfSha256 (salt ikm info : Bytes) (len : Nat) : Bytes :=
  hkdfExpandSha256 (hkdfExtractSha256 salt ikm) info len

/-- PBKDF2 with HMAC-SHA512 (`hashlib.pbkdf2_hmac('sha512', password, salt, iterations, dkLen)`). -/
def pbkdf2HmacSha512 (password salt : Bytes) (iterations dkLen : Nat) : Bytes := Id.run do
  let mut dk : Bytes := []
  for i in [0:(dkLen + 63) / 64] do
    let mut u := hmacSha512 password (salt ++ Bytes.beBytes 4 (i + 1))
    let mut t := u
    for _ in [1:iterations] do
      u := hmacSha512 password u
      t := Bytes.xor t u
    dk := dk ++ t
  return dk.take dkLen

end SymbolVerif.Hash

/-
Well-formedness of declarations for the round-trip theorems of C04: the syntactic side conditions under which the
text printed for a declaration is read back as that declaration. Names are in their lexical classes, integer types
are the eight supported ones, numbers are naturals (printed in decimal), a member is not called `inline`, a struct
has at least one member. Attributes are covered by the predicates `…A`, documentation comments (in the normal form
`Comment.__init__` produces, `Comment.NormalComment`) by the predicates `…C` at the end of the file.
-/
import SymbolVerif.Model.Cats.Syntax
import SymbolVerif.Proofs.CatsScanLemmas
import SymbolVerif.Proofs.CatsComment
namespace SymbolVerif.Cats
open SymbolVerif.Cats.Lexer

/-- an integer type of the DSL: 1, 2, 4 or 8 bytes, no size reference (that comes from post-processing) -/
def WFInt (t : IntType) : Prop := (t.size = 1 ∨ t.size = 2 ∨ t.size = 4 ∨ t.size = 8) ∧ t.sizeref = none

def IsTypeName (s : String) : Prop := IsUserTypeName s.toList
def IsPropName (s : String) : Prop := IsPropertyName s.toList
def IsConstantName (s : String) : Prop := IsConstName s.toList

/-- a well-formed alias: name in the class `USER_TYPE_NAME`, a supported integer type or any buffer size -/
def WFAlias (a : Alias) : Prop :=
  IsUserTypeName a.name.toList ∧ (match a.linkedType with | .int t => WFInt t | .buffer _ => True)

/-- an enum value line `NAME = n` -/
inductive WFEnumValue : EnumValue → Prop
  | mk (name : String) (n : Nat) : IsConstantName name → WFEnumValue { name := name, value := .int n }

/-- an enum without attributes and comments -/
inductive WFEnum : Enum → Prop
  | mk (name : String) (base : IntType) (values : List EnumValue) :
      IsTypeName name → WFInt base → (∀ v ∈ values, WFEnumValue v) → WFEnum { name := name, base := base, values := values }

/-- element type of an array -/
inductive WFElem : ElemType → Prop
  | named (n : String) : IsTypeName n → WFElem (.named n)
  | int (t : IntType) : WFInt t → WFElem (.int t)

/-- `array(T, size)`: counted by a number or by a member, or filling the rest of the struct -/
inductive WFArray : ArrayType → Prop
  | counted (e : ElemType) (n : Nat) : WFElem e → WFArray { elementType := e, rawSize := .int n }
  | sized (e : ElemType) (p : String) : WFElem e → IsPropName p → WFArray { elementType := e, rawSize := .str p }
  | fill (e : ElemType) : WFElem e → WFArray { elementType := e, rawSize := .str fillPlaceholder }

/-- the type of a plain member -/
inductive WFType : FieldType → Prop
  | named (n : String) : IsTypeName n → WFType (.named n)
  | int (t : IntType) : WFInt t → WFType (.int t)
  | array (a : ArrayType) : WFArray a → WFType (.array a)

def conditionOperations : List String := ["equals", "not equals", "in", "not in"]

/-- `if VALUE OP member` -/
inductive WFCond : Conditional → Prop
  | num (n : Nat) (op p : String) : op ∈ conditionOperations → IsPropName p → WFCond ⟨.int n, op, p⟩
  | const (c op p : String) : IsConstantName c → op ∈ conditionOperations → IsPropName p → WFCond ⟨.str c, op, p⟩

/-- optional condition of a plain member -/
inductive WFValue : FieldValue → Prop
  | none : WFValue (.scalar .none)
  | cond (c : Conditional) : WFCond c → WFValue (.cond c)

/-- the constant of `make_const` / `make_reserved`: an integer type with a number, or an enum type with one of its values -/
inductive WFConstArg : FieldType → Scalar → Prop
  | int (t : IntType) (n : Nat) : WFInt t → WFConstArg (.int t) (.int n)
  | enum (ty c : String) : IsTypeName ty → IsConstantName c → WFConstArg (.named ty) (.str c)

/-- a member name: a `PROPERTY_NAME` other than the keyword `inline` -/
def IsMemberName (s : String) : Prop := IsPropName s ∧ s ≠ "inline"

/-- the member forms, without attributes and comments -/
inductive WFMember : Member → Prop
  | plain (name : String) (t : FieldType) (v : FieldValue) : IsMemberName name → WFType t → WFValue v →
      WFMember (.field { name := name, fieldType := t, value := v })
  | valuePlaceholder (t : FieldType) (v : FieldValue) : WFType t → WFValue v →
      WFMember (.field { name := "__value__", fieldType := t, value := v })
  | const (name : String) (t : FieldType) (v : Scalar) : IsConstantName name → WFConstArg t v →
      WFMember (.field { name := name, fieldType := t, value := .scalar v, disposition := some "const" })
  | reserved (name : String) (t : FieldType) (v : Scalar) : IsMemberName name → WFConstArg t v →
      WFMember (.field { name := name, fieldType := t, value := .scalar v, disposition := some "reserved" })
  | sizeof (name : String) (t : IntType) (p : String) : IsMemberName name → WFInt t → IsPropName p →
      WFMember (.field { name := name, fieldType := .int t, value := .scalar (.str p), disposition := some "sizeof" })
  | namedInline (name ty : String) : IsMemberName name → IsTypeName ty →
      WFMember (.field { name := name, fieldType := .named ty, disposition := some "inline" })
  | unnamedInline (ty : String) : IsTypeName ty → WFMember (.inlinePlaceholder ty none)

def structDispositions : List (Option String) := [none, some "abstract", some "inline"]

/-- a struct without attributes and comments, with at least one member -/
inductive WFStruct : Struct → Prop
  | mk (d : Option String) (name : String) (fields : List Member) :
      d ∈ structDispositions → IsTypeName name → fields ≠ [] → (∀ m ∈ fields, WFMember m) →
      WFStruct { disposition := d, name := name, fields := fields }

/-- a declaration without attributes and comments -/
inductive WFDecl : Decl → Prop
  | alias (a : Alias) : WFAlias a → a.comment = none → WFDecl (.alias a)
  | enum (e : Enum) : WFEnum e → WFDecl (.enum e)
  | struct (s : Struct) : WFStruct s → WFDecl (.struct s)

def WFDecls (ds : Schema) : Prop := ∀ d ∈ ds, WFDecl d

end SymbolVerif.Cats

/-! ### attributes -/

namespace SymbolVerif.Cats
open SymbolVerif.Cats.Lexer

/-- `@is_bitwise` -/
inductive WFEnumAttr : Attribute → Prop
  | bitwise : WFEnumAttr ⟨"is_bitwise", []⟩

/-- one entry of `@comparer(…)`: a member, optionally with the transform -/
def comparerValues : List (String × Bool) → List Scalar
  | [] => []
  | (p, true) :: rest => .str p :: .str "ripemd_keccak_256" :: comparerValues rest
  | (p, false) :: rest => .str p :: .none :: comparerValues rest

/-- the attribute forms of a struct, with the value lists the parser produces -/
inductive WFStructAttr : Attribute → Prop
  | aligned : WFStructAttr ⟨"is_aligned", []⟩
  | sizeImplicit : WFStructAttr ⟨"is_size_implicit", []⟩
  | size (p : String) : IsPropName p → WFStructAttr ⟨"size", [.str p]⟩
  | initializes (p c : String) : IsPropName p → IsConstantName c → WFStructAttr ⟨"initializes", [.str p, .str c]⟩
  | discriminator (p : String) (ps : List String) : IsPropName p → (∀ q ∈ ps, IsPropName q) →
      WFStructAttr ⟨"discriminator", .str p :: ps.map .str⟩
  | comparer (e : String × Bool) (es : List (String × Bool)) : IsPropName e.1 → (∀ x ∈ es, IsPropName x.1) →
      WFStructAttr ⟨"comparer", comparerValues (e :: es)⟩

/-- the attribute forms of a member (lark's `None` placeholders included) -/
inductive WFFieldAttr : Attribute → Prop
  | byteConstrained : WFFieldAttr ⟨"is_byte_constrained", []⟩
  | alignment (n : Nat) : WFFieldAttr ⟨"alignment", [.int n, .none, .none]⟩
  | alignmentPadLast (n : Nat) : WFFieldAttr ⟨"alignment", [.int n, .none, .str "pad_last"]⟩
  | alignmentNotPadLast (n : Nat) : WFFieldAttr ⟨"alignment", [.int n, .str "not", .str "pad_last"]⟩
  | sortKey (p : String) : IsPropName p → WFFieldAttr ⟨"sort_key", [.str p]⟩
  | sizeref (p : String) : IsPropName p → WFFieldAttr ⟨"sizeref", [.str p]⟩
  | sizerefDelta (p : String) (n : Nat) : IsPropName p → WFFieldAttr ⟨"sizeref", [.str p, .int n]⟩

end SymbolVerif.Cats

/-! ### declarations with attributes -/

namespace SymbolVerif.Cats
open SymbolVerif.Cats.Lexer

/-- an attribute list as the parser produces it: absent, or a non-empty list of attributes of the given kind -/
inductive WFAttrs (P : Attribute → Prop) : Option (List Attribute) → Prop
  | none : WFAttrs P none
  | some (a : Attribute) (as : List Attribute) : (∀ x ∈ a :: as, P x) → WFAttrs P (some (a :: as))

/-- an enum, possibly with `@is_bitwise` lines -/
inductive WFEnumA : Enum → Prop
  | mk (name : String) (base : IntType) (values : List EnumValue) (attrs : Option (List Attribute)) :
      IsTypeName name → WFInt base → (∀ v ∈ values, WFEnumValue v) → WFAttrs WFEnumAttr attrs →
      WFEnumA { name := name, base := base, values := values, attributes := attrs }

/-- a member, possibly with attribute lines (the grammar allows them on plain fields and on `__value__`) -/
inductive WFMemberA : Member → Prop
  | bare (m : Member) : WFMember m → WFMemberA m
  | plain (name : String) (t : FieldType) (v : FieldValue) (a : Attribute) (as : List Attribute) :
      IsPropName name → WFType t → WFValue v → (∀ x ∈ a :: as, WFFieldAttr x) →
      WFMemberA (.field { name := name, fieldType := t, value := v, attributes := some (a :: as) })
  | valuePlaceholder (t : FieldType) (v : FieldValue) (a : Attribute) (as : List Attribute) :
      WFType t → WFValue v → (∀ x ∈ a :: as, WFFieldAttr x) →
      WFMemberA (.field { name := "__value__", fieldType := t, value := v, attributes := some (a :: as) })

/-- a struct, possibly with attribute lines, whose members may carry attribute lines -/
inductive WFStructA : Struct → Prop
  | mk (d : Option String) (name : String) (fields : List Member) (attrs : Option (List Attribute)) :
      d ∈ structDispositions → IsTypeName name → fields ≠ [] → (∀ m ∈ fields, WFMemberA m) → WFAttrs WFStructAttr attrs →
      WFStructA { disposition := d, name := name, fields := fields, attributes := attrs }

/-- a declaration without comments; attributes allowed everywhere the grammar has them -/
inductive WFDeclA : Decl → Prop
  | alias (a : Alias) : WFAlias a → a.comment = none → WFDeclA (.alias a)
  | enum (e : Enum) : WFEnumA e → WFDeclA (.enum e)
  | struct (s : Struct) : WFStructA s → WFDeclA (.struct s)

def WFDeclsA (ds : Schema) : Prop := ∀ d ∈ ds, WFDeclA d

end SymbolVerif.Cats

/-! ### declarations with attributes and documentation comments -/

namespace SymbolVerif.Cats
open SymbolVerif.Cats.Lexer

/-- an optional documentation comment as the parser builds it: absent, or in the normal form of `Comment.__init__`
    (`Comment.NormalComment`: the pieces between `\n` are empty or carry no leading / trailing `#`, blank, tab,
    carriage return; the comment is not the empty text) -/
def WFComment (c : Option Comment) : Prop := ∀ x, c = some x → Comment.NormalComment x

theorem wfComment_none : WFComment none := by intro x hx; cases hx

def setMemberComment : Member → Option Comment → Member
  | .field f, c => .field { f with comment := c }
  | .inlinePlaceholder t _, c => .inlinePlaceholder t c

def memberComment : Member → Option Comment
  | .field f => f.comment
  | .inlinePlaceholder _ c => c

/-- an enum value with an optional documentation comment -/
inductive WFEnumValueC : EnumValue → Prop
  | mk (v : EnumValue) (c : Option Comment) : WFEnumValue v → WFComment c → WFEnumValueC { v with comment := c }

/-- a member (any form, with or without attribute lines) with an optional documentation comment -/
inductive WFMemberC : Member → Prop
  | mk (m : Member) (c : Option Comment) : WFMemberA m → WFComment c → WFMemberC (setMemberComment m c)

/-- a declaration with attributes and documentation comments wherever the grammar has them: on the declaration, on
    every enum value, on every member -/
inductive WFDeclC : Decl → Prop
  | alias (a : Alias) : WFAlias a → WFComment a.comment → WFDeclC (.alias a)
  | enum (name : String) (base : IntType) (values : List EnumValue) (attrs : Option (List Attribute)) (c : Option Comment) :
      IsTypeName name → WFInt base → (∀ v ∈ values, WFEnumValueC v) → WFAttrs WFEnumAttr attrs → WFComment c →
      WFDeclC (.enum { name := name, base := base, values := values, attributes := attrs, comment := c })
  | struct (d : Option String) (name : String) (fields : List Member) (attrs : Option (List Attribute)) (c : Option Comment) :
      d ∈ structDispositions → IsTypeName name → fields ≠ [] → (∀ m ∈ fields, WFMemberC m) → WFAttrs WFStructAttr attrs →
      WFComment c →
      WFDeclC (.struct { disposition := d, name := name, fields := fields, attributes := attrs, comment := c })

def WFDeclsC (ds : Schema) : Prop := ∀ d ∈ ds, WFDeclC d

theorem wfMemberA_comment (m : Member) (h : WFMemberA m) : memberComment m = none := by
  cases h with
  | bare m hb => cases hb <;> rfl
  | plain => rfl
  | valuePlaceholder => rfl

theorem setMemberComment_none (m : Member) (h : memberComment m = none) : setMemberComment m none = m := by
  cases m with
  | field f => simp only [memberComment] at h; simp [setMemberComment, ← h]
  | inlinePlaceholder t c => simp only [memberComment] at h; simp [setMemberComment, h]

theorem memberComment_set (m : Member) (c : Option Comment) : memberComment (setMemberComment m c) = c := by
  cases m <;> rfl

theorem wfMemberC_of_A (m : Member) (h : WFMemberA m) : WFMemberC m := by
  have := WFMemberC.mk m none h wfComment_none
  rwa [setMemberComment_none m (wfMemberA_comment m h)] at this

theorem wfEnumValueC_of (v : EnumValue) (h : WFEnumValue v) : WFEnumValueC v := by
  have := WFEnumValueC.mk v none h wfComment_none
  cases h
  exact this

/-- declarations without comments are a special case -/
theorem wfDeclC_of_A (d : Decl) (h : WFDeclA d) : WFDeclC d := by
  cases h with
  | alias a ha hc => exact .alias a ha (by rw [hc]; exact wfComment_none)
  | «enum» e he =>
    cases he with
    | mk name base values attrs hn hb hv hattrs =>
      exact .enum name base values attrs none hn hb (fun v hv' => wfEnumValueC_of v (hv v hv')) hattrs wfComment_none
  | struct s hs =>
    cases hs with
    | mk d name fields attrs hd hn hne hm hattrs =>
      exact .struct d name fields attrs none hd hn hne (fun m hm' => wfMemberC_of_A m (hm m hm')) hattrs wfComment_none

end SymbolVerif.Cats

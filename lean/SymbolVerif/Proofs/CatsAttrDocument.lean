/-
The document-level round trip with attributes (C04): attribute lines before enum / struct headers and before
members. Builds on the layout machinery of `CatsDocument.lean` and on the attribute scanners of `CatsAttrLines.lean`.
-/
import SymbolVerif.Proofs.CatsAttrLines
import SymbolVerif.Proofs.CatsDocument
namespace SymbolVerif.Cats.Parser
open SymbolVerif.Cats SymbolVerif.Cats.Lexer
set_option linter.unusedSimpArgs false

/-! ### texts -/

def attrTexts (o : Option (List Attribute)) : List Chars := (attrList o).map fun a => (Printer.printAttribute a).toList

/-- the lines of one member: its attribute lines, then the member itself -/
def memberTextsA : Member → List Chars
  | .field f => attrTexts f.attributes ++ [(StructField.render { f with attributes := none }).toList]
  | .inlinePlaceholder t _ => [("inline " ++ t).toList]

def declKidsA : Decl → List Chars
  | .alias _ => []
  | .enum e => e.values.map fun v => v.render.toList
  | .struct s => s.fields.flatMap memberTextsA

def declAttrTexts : Decl → List Chars
  | .alias _ => []
  | .enum e => attrTexts e.attributes
  | .struct s => attrTexts s.attributes

/-- attribute lines at the outer level: headers without children -/
def attrSpecs : Bool → List Chars → List SegSpec
  | _, [] => []
  | b, t :: ts => ⟨b, t, []⟩ :: attrSpecs false ts

def declSpecsA (blank : Bool) (d : Decl) : List SegSpec :=
  attrSpecs blank (declAttrTexts d) ++ [⟨blank && (declAttrTexts d).isEmpty, declHead d, declKidsA d⟩]

def docSpecsA : Bool → List Decl → List SegSpec
  | _, [] => []
  | first, d :: rest => declSpecsA (!first) d ++ docSpecsA false rest

/-! ### attribute lines in a struct body -/

theorem parseStructLine_attr (b : Bool) (text : Chars) (a : Attribute) (h : fieldAttribute text = some a) :
    parseStructLine b ('@' :: text) = some (.attr a) := by
  have hat : isWs '@' = false := by decide
  have e1 : constName ('@' :: text) = none := constName_none_of_head _ _ hat (by decide)
  have e2 : propertyName ('@' :: text) = none := propertyName_none_of_head _ _ hat (by decide)
  have e3 : lit "__value__" ('@' :: text) = none := lit_none_of_head "__value__" '_' _ rfl _ _ hat (by decide)
  cases b <;> simp only [parseStructLine, e1, e2, e3, lit_at, h, bind, Option.bind, Option.map, Bool.false_eq_true, ↓reduceIte]

/-- a plain member line after attribute lines -/
theorem parseStructLine_true_plain (name : String) (hn : IsPropName name) (t : FieldType) (v : FieldValue) (ht : WFType t)
    (hv : WFValue v) :
    parseStructLine true (name.toList ++ ' ' :: '=' :: ' ' :: (t.render.toList ++ valueText v)) =
      some (.member (.field { name := name, fieldType := t, value := v })) := by
  have hp := propertyName_append name.toList (' ' :: '=' :: ' ' :: (t.render.toList ++ valueText v)) hn (follows_blank_prop _)
  simp only [parseStructLine, if_true, hp, plainMemberRest, lit_skip_blank, lit_eq, bind, Option.bind,
    plainFieldRest_render name t v ht hv, String.ofList_toList, Option.map]

theorem parseStructLine_true_value (t : FieldType) (v : FieldValue) (ht : WFType t) (hv : WFValue v) :
    parseStructLine true ("__value__".toList ++ ' ' :: '=' :: ' ' :: (t.render.toList ++ valueText v)) =
      some (.member (.field { name := "__value__", fieldType := t, value := v })) := by
  have hv' : "__value__".toList = '_' :: '_' :: 'v' :: 'a' :: 'l' :: 'u' :: 'e' :: '_' :: '_' :: [] := by decide
  rw [hv']
  have h2 : ∀ r, propertyName ('_' :: r) = none := fun r => propertyName_none_of_head '_' r (by decide) (by decide)
  have h3 : ∀ r, lit "__value__" ('_' :: '_' :: 'v' :: 'a' :: 'l' :: 'u' :: 'e' :: '_' :: '_' :: r) = some r := by
    intro r; simp [lit, skipWs, isWs, List.isPrefixOf]
  simp only [parseStructLine, if_true, List.cons_append, List.nil_append, h2, h3, plainMemberRest, lit_skip_blank, lit_eq, bind,
    Option.bind, plainFieldRest_render "__value__" t v ht hv, Option.map]

/-- attribute lines of a member are collected by the member loop -/
theorem structLoop_attr_lines (pend : Option Comment) : ∀ (as : List Attribute) (a : Attribute) (lines : List LLine) (rest : List LLine)
    (cur : Option (List Attribute)) (acc : List Member),
    Forall2 (fun l x => IsCodeLine l (Printer.printAttribute x).toList) lines (a :: as) → (∀ x ∈ a :: as, WFFieldAttr x) →
    structLoop (lines ++ rest) pend cur acc = structLoop rest pend (some (cur.getD [] ++ a :: as)) acc := by
  intro as
  induction as with
  | nil =>
    intro a lines rest cur acc hf hwf
    cases hf with
    | cons hl hnil =>
      cases hnil
      obtain ⟨hkind, htext⟩ := hl
      obtain ⟨text, ht, hparse⟩ := fieldAttribute_render a (hwf a List.mem_cons_self)
      simp only [List.cons_append, List.nil_append, structLoop, hkind, htext, ht, parseStructLine_attr _ text a hparse]
  | cons b bs ih =>
    intro a lines rest cur acc hf hwf
    cases hf with
    | cons hl htail =>
      obtain ⟨hkind, htext⟩ := hl
      obtain ⟨text, ht, hparse⟩ := fieldAttribute_render a (hwf a List.mem_cons_self)
      have := ih b _ rest (some (cur.getD [] ++ [a])) acc htail (fun x hx => hwf x (List.mem_cons_of_mem _ hx))
      simp only [List.cons_append, structLoop, hkind, htext, ht, parseStructLine_attr _ text a hparse, this, Option.getD_some,
        List.append_assoc, List.cons_append, List.nil_append]

/-- the lines of one member (attribute lines included) are read back as that member -/
theorem structLoop_memberA (pend : Option Comment) (m : Member) (hm : WFMemberA m) (lines rest : List LLine) (acc : List Member)
    (hf : Forall2 IsCodeLine lines (memberTextsA m)) :
    structLoop (lines ++ rest) pend none acc = structLoop rest none none (setMemberComment m pend :: acc) := by
  cases hm with
  | bare m hb =>
    have htexts : memberTextsA m = [m.render.toList] := by
      cases hb <;> simp [memberTextsA, attrTexts, attrList, Member.render]
    rw [htexts] at hf
    cases hf with
    | cons hl hnil =>
      cases hnil
      obtain ⟨hkind, htext⟩ := hl
      have hp := parseStructLine_render m hb
      cases hb <;> simp only [List.cons_append, List.nil_append, structLoop, hkind, htext, hp, Option.isSome_none, setMemberComment]
  | plain name t v a as hn ht hv hattrs =>
    have htexts : memberTextsA (.field { name := name, fieldType := t, value := v, attributes := some (a :: as) }) =
        (a :: as).map (fun x => (Printer.printAttribute x).toList) ++
          [name.toList ++ ' ' :: '=' :: ' ' :: (t.render.toList ++ valueText v)] := by
      simp [memberTextsA, attrTexts, attrList, plain_render_toList name t v hv]
    rw [htexts] at hf
    obtain ⟨l1, l2, hsplit, hf1, hf2⟩ := forall2_append_right hf
    subst hsplit
    cases hf2 with
    | @cons ln _ ls _ hl hnil =>
      cases hnil
      obtain ⟨hkind, htext⟩ := hl
      have hattr := structLoop_attr_lines pend as a l1 (ln :: rest) none acc (forall2_map_right hf1) hattrs
      simp only [List.append_assoc, List.cons_append, List.nil_append] at hattr ⊢
      rw [hattr]
      simp only [structLoop, hkind, htext, Option.isSome_some, parseStructLine_true_plain name hn t v ht hv, Option.getD_none,
        List.nil_append, setMemberComment]
  | valuePlaceholder t v a as ht hv hattrs =>
    have htexts : memberTextsA (.field { name := "__value__", fieldType := t, value := v, attributes := some (a :: as) }) =
        (a :: as).map (fun x => (Printer.printAttribute x).toList) ++
          ["__value__".toList ++ ' ' :: '=' :: ' ' :: (t.render.toList ++ valueText v)] := by
      simp [memberTextsA, attrTexts, attrList, plain_render_toList "__value__" t v hv]
    rw [htexts] at hf
    obtain ⟨l1, l2, hsplit, hf1, hf2⟩ := forall2_append_right hf
    subst hsplit
    cases hf2 with
    | @cons ln _ ls _ hl hnil =>
      cases hnil
      obtain ⟨hkind, htext⟩ := hl
      have hattr := structLoop_attr_lines pend as a l1 (ln :: rest) none acc (forall2_map_right hf1) hattrs
      simp only [List.append_assoc, List.cons_append, List.nil_append] at hattr ⊢
      rw [hattr]
      simp only [structLoop, hkind, htext, Option.isSome_some, parseStructLine_true_value t v ht hv, Option.getD_none,
        List.nil_append, setMemberComment]

theorem structLoop_membersA : ∀ (ms : List Member) (kids : List LLine) (acc : List Member), (∀ m ∈ ms, WFMemberA m) →
    Forall2 IsCodeLine kids (ms.flatMap memberTextsA) → structLoop kids none none acc = .ok (acc.reverse ++ ms) := by
  intro ms
  induction ms with
  | nil =>
    intro kids acc _ hf
    cases hf
    simp [structLoop]
  | cons m rest ih =>
    intro kids acc hwf hf
    simp only [List.flatMap_cons] at hf
    obtain ⟨l1, l2, rfl, h1, h2⟩ := forall2_append_right hf
    rw [structLoop_memberA none m (hwf m List.mem_cons_self) l1 l2 acc h1,
      setMemberComment_none m (wfMemberA_comment m (hwf m List.mem_cons_self)),
      ih l2 (m :: acc) (fun x hx => hwf x (List.mem_cons_of_mem _ hx)) h2]
    simp

/-! ### attribute lines at the outer level -/

theorem parseTopLine_at (mode : TopMode) (text : Chars) :
    parseTopLine mode ('@' :: text) =
      (match mode with
       | .start => (match structAttribute text with | some a => some (.structAttr a) | none => (enumAttribute text).map .enumAttr)
       | .afterEnumAttrs => (enumAttribute text).map .enumAttr
       | .afterStructAttrs => (structAttribute text).map .structAttr) := by
  have hat : isWs '@' = false := by decide
  have e1 : structModifier ('@' :: text) = none := structModifier_none_of_head _ _ hat (by decide) (by decide)
  have e2 : lit "import" ('@' :: text) = none := lit_none_of_head "import" 'i' _ rfl _ _ hat (by decide)
  have e3 : lit "struct" ('@' :: text) = none := lit_none_of_head "struct" 's' _ rfl _ _ hat (by decide)
  have e4 : lit "using" ('@' :: text) = none := lit_none_of_head "using" 'u' _ rfl _ _ hat (by decide)
  have e5 : lit "enum" ('@' :: text) = none := lit_none_of_head "enum" 'e' _ rfl _ _ hat (by decide)
  cases mode <;> simp only [parseTopLine, e1, e2, e3, e4, e5, lit_at, bind, Option.bind] <;> rfl

/-- a block that holds one attribute line -/
def IsAttrBlock (b : Block) (t : Chars) : Prop := b.head.kind = .code ∧ b.body = none ∧ b.head.text = t

theorem topLoop_struct_attrs (pend : Option Comment) : ∀ (as : List Attribute) (a : Attribute) (bs rest : List Block)
    (cur : Option (List Attribute)) (acc : List Item),
    Forall2 (fun b x => IsAttrBlock b (Printer.printAttribute x).toList) bs (a :: as) → (∀ x ∈ a :: as, WFStructAttr x) →
    topLoop (bs ++ rest) { pending := pend, attrs := cur.map fun l => (false, l) } acc =
      topLoop rest { pending := pend, attrs := some (false, cur.getD [] ++ a :: as) } acc := by
  intro as
  induction as with
  | nil =>
    intro a bs rest cur acc hf hwf
    cases hf with
    | cons hb hnil =>
      cases hnil
      obtain ⟨hkind, hbody, htext⟩ := hb
      obtain ⟨text, ht, hparse⟩ := structAttribute_render a (hwf a List.mem_cons_self)
      cases cur <;>
        simp only [List.cons_append, List.nil_append, topLoop, hkind, htext, ht, TopState.mode, Option.map, parseTopLine_at, hparse,
          hbody, Option.getD_none, Option.getD_some, List.nil_append]
  | cons b' bs' ih =>
    intro a bs rest cur acc hf hwf
    cases hf with
    | cons hb htail =>
      obtain ⟨hkind, hbody, htext⟩ := hb
      obtain ⟨text, ht, hparse⟩ := structAttribute_render a (hwf a List.mem_cons_self)
      cases cur with
      | none =>
        have := ih b' _ rest (some [a]) acc htail (fun x hx => hwf x (List.mem_cons_of_mem _ hx))
        simp only [Option.map_some, Option.getD_some, List.cons_append, List.nil_append] at this
        simp only [List.cons_append, topLoop, hkind, htext, ht, TopState.mode, Option.map, parseTopLine_at, hparse, hbody,
          Option.getD_none, List.nil_append, this]
      | some l =>
        have := ih b' _ rest (some (l ++ [a])) acc htail (fun x hx => hwf x (List.mem_cons_of_mem _ hx))
        simp only [Option.map_some, Option.getD_some, List.append_assoc, List.cons_append, List.nil_append] at this
        simp only [List.cons_append, topLoop, hkind, htext, ht, TopState.mode, Option.map, parseTopLine_at, hparse, hbody,
          Option.getD_some, this]

theorem topLoop_enum_attrs (pend : Option Comment) : ∀ (as : List Attribute) (a : Attribute) (bs rest : List Block)
    (cur : Option (List Attribute)) (acc : List Item),
    Forall2 (fun b x => IsAttrBlock b (Printer.printAttribute x).toList) bs (a :: as) → (∀ x ∈ a :: as, WFEnumAttr x) →
    topLoop (bs ++ rest) { pending := pend, attrs := cur.map fun l => (true, l) } acc =
      topLoop rest { pending := pend, attrs := some (true, cur.getD [] ++ a :: as) } acc := by
  intro as
  induction as with
  | nil =>
    intro a bs rest cur acc hf hwf
    cases hf with
    | cons hb hnil =>
      cases hnil
      obtain ⟨hkind, hbody, htext⟩ := hb
      obtain ⟨text, ht, hparse, hnone⟩ := enumAttribute_render a (hwf a List.mem_cons_self)
      cases cur <;>
        simp only [List.cons_append, List.nil_append, topLoop, hkind, htext, ht, TopState.mode, Option.map, parseTopLine_at, hparse,
          hnone, hbody, Option.getD_none, Option.getD_some, List.nil_append]
  | cons b' bs' ih =>
    intro a bs rest cur acc hf hwf
    cases hf with
    | cons hb htail =>
      obtain ⟨hkind, hbody, htext⟩ := hb
      obtain ⟨text, ht, hparse, hnone⟩ := enumAttribute_render a (hwf a List.mem_cons_self)
      cases cur with
      | none =>
        have := ih b' _ rest (some [a]) acc htail (fun x hx => hwf x (List.mem_cons_of_mem _ hx))
        simp only [Option.map_some, Option.getD_some, List.cons_append, List.nil_append] at this
        simp only [List.cons_append, topLoop, hkind, htext, ht, TopState.mode, Option.map, parseTopLine_at, hparse, hnone, hbody,
          Option.getD_none, List.nil_append, this]
      | some l =>
        have := ih b' _ rest (some (l ++ [a])) acc htail (fun x hx => hwf x (List.mem_cons_of_mem _ hx))
        simp only [Option.map_some, Option.getD_some, List.append_assoc, List.cons_append, List.nil_append] at this
        simp only [List.cons_append, topLoop, hkind, htext, ht, TopState.mode, Option.map, parseTopLine_at, hparse, hnone, hbody,
          Option.getD_some, this]

/-! ### headers after attribute lines -/

theorem parseTopLine_enumHeader_after (name : String) (base : IntType) (hn : IsTypeName name) (hb : WFInt base) :
    parseTopLine .afterEnumAttrs (s!"enum {name} : {base.render}").toList = some (.enumHeader name base) := by
  rw [enumHeader_toList]
  obtain ⟨u, sz, sr⟩ := base
  obtain ⟨hsz, hsr⟩ := hb
  simp only at hsz hsr
  subst hsr
  have h1 := userTypeName_with_blank name.toList (' ' :: ':' :: ' ' :: (IntType.shortName ⟨u, sz, none⟩).toList) hn
    (follows_blank_type _)
  have h2 := fixedSizeInteger_shortName u sz hsz []
  rw [List.append_nil] at h2
  simp only [parseTopLine, lit_enum, enumHeaderRest, h1, bind, Option.bind, lit_skip_blank, lit_colon,
    fixedSizeInteger_skip_blank, h2, atEol_nil, if_true, mkInt, String.ofList_toList]

theorem parseTopLine_structHeader_after (d : Option String) (name : String) (hd : d ∈ structDispositions) (hn : IsTypeName name) :
    parseTopLine .afterStructAttrs (structHeaderText d name).toList = some (.structHeader d name) := by
  simp only [structDispositions, List.mem_cons, List.not_mem_nil, or_false] at hd
  have h1 := userTypeName_with_blank name.toList [] hn (follows_nil _)
  rw [List.append_nil] at h1
  rcases hd with rfl | rfl | rfl
  · have ht : (structHeaderText none name).toList = 's' :: 't' :: 'r' :: 'u' :: 'c' :: 't' :: ' ' :: name.toList := by
      simp [structHeaderText, String.toList_append, toString]
    rw [ht]
    have hs : isWs 's' = false := by decide
    have e1 : ∀ r, structModifier ('s' :: r) = none := fun r => structModifier_none_of_head _ _ hs (by decide) (by decide)
    simp only [parseTopLine, e1, lit_struct, structHeaderRest, h1, bind, Option.bind, atEol_nil, if_true, String.ofList_toList]
  · have ht : (structHeaderText (some "abstract") name).toList =
        'a' :: 'b' :: 's' :: 't' :: 'r' :: 'a' :: 'c' :: 't' :: ' ' :: 's' :: 't' :: 'r' :: 'u' :: 'c' :: 't' :: ' ' :: name.toList := by
      simp [structHeaderText, String.toList_append, toString]
    rw [ht]
    have e1 : ∀ r, structModifier ('a' :: 'b' :: 's' :: 't' :: 'r' :: 'a' :: 'c' :: 't' :: r) = some ("abstract", r) := by
      intro r; simp [structModifier, skipWs, isWs, litHere, List.isPrefixOf]
    simp only [parseTopLine, e1, structHeaderRest_render _ name hn]
  · have ht : (structHeaderText (some "inline") name).toList =
        'i' :: 'n' :: 'l' :: 'i' :: 'n' :: 'e' :: ' ' :: 's' :: 't' :: 'r' :: 'u' :: 'c' :: 't' :: ' ' :: name.toList := by
      simp [structHeaderText, String.toList_append, toString]
    rw [ht]
    have e1 : ∀ r, structModifier ('i' :: 'n' :: 'l' :: 'i' :: 'n' :: 'e' :: r) = some ("inline", r) := by
      intro r; simp [structModifier, skipWs, isWs, litHere, List.isPrefixOf]
    simp only [parseTopLine, e1, structHeaderRest_render _ name hn]

/-! ### the blocks of one declaration -/

theorem attrBlocks_forall2 : ∀ (texts : List Chars) (blank : Bool) (k : Nat),
    Forall2 IsAttrBlock ((specSegs k (attrSpecs blank texts)).map segBlock) texts := by
  intro texts
  induction texts with
  | nil => intro _ _; exact .nil
  | cons t rest ih =>
    intro blank k
    exact .cons ⟨rfl, rfl, rfl⟩ (ih false _)

theorem topLoop_struct_header (pend : Option Comment) (b : Block) (rest : List Block) (acc : List Item) (st : Option (Bool × List Attribute))
    (d : Option String) (name : String) (kids : List LLine) (fields : List Member) (hkind : b.head.kind = .code)
    (hparse : parseTopLine ({ attrs := st } : TopState).mode b.head.text = some (.structHeader d name))
    (hbody : b.body = some kids) (hloop : structLoop kids none none [] = .ok fields) :
    topLoop (b :: rest) { pending := pend, attrs := st } acc =
      topLoop rest {} (.decl (.struct { disposition := d, name := name, fields := fields, attributes := st.map (·.2), comment := pend }) :: acc) := by
  have hparse' : parseTopLine ({ pending := pend, attrs := st } : TopState).mode b.head.text = some (.structHeader d name) := hparse
  simp only [topLoop, hkind, hparse', hbody, hloop]

theorem topLoop_enum_header (pend : Option Comment) (b : Block) (rest : List Block) (acc : List Item) (st : Option (Bool × List Attribute))
    (name : String) (base : IntType) (values : List EnumValue) (hkind : b.head.kind = .code)
    (hparse : parseTopLine ({ attrs := st } : TopState).mode b.head.text = some (.enumHeader name base))
    (hloop : enumLoop (b.body.getD []) none [] = .ok values) :
    topLoop (b :: rest) { pending := pend, attrs := st } acc =
      topLoop rest {} (.decl (.enum { name := name, base := base, values := values, attributes := st.map (·.2), comment := pend }) :: acc) := by
  have hparse' : parseTopLine ({ pending := pend, attrs := st } : TopState).mode b.head.text = some (.enumHeader name base) := hparse
  simp only [topLoop, hkind, hparse', hloop]

theorem memberTextsA_ne_nil (m : Member) : memberTextsA m ≠ [] := by
  cases m <;> simp [memberTextsA]

theorem kids_isEmpty_struct (fields : List Member) (h : fields ≠ []) : (fields.flatMap memberTextsA).isEmpty = false := by
  cases fields with
  | nil => exact absurd rfl h
  | cons m rest =>
    simp only [List.flatMap_cons]
    cases hm : memberTextsA m with
    | nil => exact absurd hm (memberTextsA_ne_nil m)
    | cons t ts => rfl

theorem kidLines_forall2_texts : ∀ (ts : List Chars) (k : Nat), Forall2 IsCodeLine (kidLines k ts) ts := by
  intro ts
  induction ts with
  | nil => intro k; exact .nil
  | cons t rest ih => intro k; exact .cons ⟨rfl, rfl⟩ (ih (k + 1))

/-- The blocks of a well-formed declaration (attribute lines, header, body) are read back as that declaration. -/
theorem topLoop_declA (blank : Bool) (k : Nat) (d : Decl) (h : WFDeclA d) (rest : List Block) (acc : List Item) :
    topLoop ((specSegs k (declSpecsA blank d)).map segBlock ++ rest) {} acc = topLoop rest {} (.decl d :: acc) := by
  obtain ⟨k', hsegs⟩ := specSegs_append (attrSpecs blank (declAttrTexts d))
    [⟨blank && (declAttrTexts d).isEmpty, declHead d, declKidsA d⟩] k
  have hattrBlocks := attrBlocks_forall2 (declAttrTexts d) blank k
  simp only [declSpecsA, hsegs, List.map_append, specSegs, List.map_cons, List.map_nil, List.append_assoc, List.cons_append,
    List.nil_append]
  generalize hB : (specSegs k (attrSpecs blank (declAttrTexts d))).map segBlock = attrBlocks at hattrBlocks
  generalize hH : (⟨blank && (declAttrTexts d).isEmpty, declHead d, declKidsA d⟩ : SegSpec) = hdr
  have hkind : (segBlock (hdr.seg k')).head.kind = .code := rfl
  have htext : (segBlock (hdr.seg k')).head.text = declHead d := by rw [← hH]; rfl
  have hkidsL : (segBlock (hdr.seg k')).body.getD [] = kidLines (hdr.first k' + 1) (declKidsA d) := by
    rw [segBlock_body_getD, ← hH]; rfl
  cases h with
  | alias a ha hc =>
    simp only [declAttrTexts] at hattrBlocks
    cases hattrBlocks
    obtain ⟨n, lt, c⟩ := a
    simp only at hc
    subst hc
    have hbody : (segBlock (hdr.seg k')).body = none := by rw [← hH]; rfl
    have hparse : parseTopLine .start (segBlock (hdr.seg k')).head.text = some (.alias n lt) := by
      rw [htext]; exact parseTopLine_alias _ ha
    simp only [List.nil_append, topLoop, hkind, TopState.mode, hparse, hbody]
  | «enum» e he =>
    cases he with
    | mk name base values attrs hn hb hv hattrs =>
      have hloop : enumLoop ((segBlock (hdr.seg k')).body.getD []) none [] = .ok values := by
        rw [hkidsL]
        have := enumLoop_render (kidLines (hdr.first k' + 1) (values.map fun v => v.render.toList)) values []
          (kidLines_forall2 (fun v : EnumValue => v.render.toList) values _) hv
        simp only [List.reverse_nil, List.nil_append] at this
        exact this
      cases hattrs with
      | none =>
        simp only [declAttrTexts, attrTexts, attrList, List.map_nil] at hattrBlocks
        cases hattrBlocks
        have hparse : parseTopLine ({ attrs := none } : TopState).mode (segBlock (hdr.seg k')).head.text =
            some (.enumHeader name base) := by
          rw [htext]; exact parseTopLine_enumHeader name base hn hb
        rw [List.nil_append, topLoop_enum_header none _ rest acc none name base values hkind hparse hloop]
        rfl
      | some a as hall =>
        simp only [declAttrTexts, attrTexts, attrList] at hattrBlocks
        have hloopA := topLoop_enum_attrs none as a attrBlocks (segBlock (hdr.seg k') :: rest) none acc
          (forall2_map_right hattrBlocks) hall
        have hparse : parseTopLine ({ attrs := some (true, a :: as) } : TopState).mode (segBlock (hdr.seg k')).head.text =
            some (.enumHeader name base) := by
          rw [htext]; exact parseTopLine_enumHeader_after name base hn hb
        simp only [Option.map_none, Option.getD_none, List.nil_append] at hloopA
        rw [hloopA, topLoop_enum_header none _ rest acc (some (true, a :: as)) name base values hkind hparse hloop]
        rfl
  | struct s hs =>
    cases hs with
    | mk dsp name fields attrs hd hn hne hm hattrs =>
      have hbody : (segBlock (hdr.seg k')).body = some (kidLines (hdr.first k' + 1) (fields.flatMap memberTextsA)) := by
        rw [← hH]
        simp only [segBlock, SegSpec.seg, declKidsA, kidLines_isEmpty, kids_isEmpty_struct fields hne, Bool.false_eq_true,
          if_false]
      have hloop : structLoop (kidLines (hdr.first k' + 1) (fields.flatMap memberTextsA)) none none [] = .ok fields := by
        have := structLoop_membersA fields _ [] hm (kidLines_forall2_texts (fields.flatMap memberTextsA) (hdr.first k' + 1))
        simpa using this
      cases hattrs with
      | none =>
        simp only [declAttrTexts, attrTexts, attrList, List.map_nil] at hattrBlocks
        cases hattrBlocks
        have hparse : parseTopLine ({ attrs := none } : TopState).mode (segBlock (hdr.seg k')).head.text =
            some (.structHeader dsp name) := by
          rw [htext]; exact parseTopLine_structHeader dsp name hd hn
        rw [List.nil_append, topLoop_struct_header none _ rest acc none dsp name _ fields hkind hparse hbody hloop]
        rfl
      | some a as hall =>
        simp only [declAttrTexts, attrTexts, attrList] at hattrBlocks
        have hloopA := topLoop_struct_attrs none as a attrBlocks (segBlock (hdr.seg k') :: rest) none acc
          (forall2_map_right hattrBlocks) hall
        have hparse : parseTopLine ({ attrs := some (false, a :: as) } : TopState).mode (segBlock (hdr.seg k')).head.text =
            some (.structHeader dsp name) := by
          rw [htext]; exact parseTopLine_structHeader_after dsp name hd hn
        simp only [Option.map_none, Option.getD_none, List.nil_append] at hloopA
        rw [hloopA, topLoop_struct_header none _ rest acc (some (false, a :: as)) dsp name _ fields hkind hparse hbody hloop]
        rfl

/-! ### the whole document -/

theorem topLoop_docA : ∀ (ds : List Decl) (first : Bool) (k : Nat) (acc : List Item), WFDeclsA ds →
    topLoop ((specSegs k (docSpecsA first ds)).map segBlock) {} acc = .ok (acc.reverse ++ ds.map Item.decl) := by
  intro ds
  induction ds with
  | nil => intro _ _ acc _; simp [docSpecsA, specSegs, topLoop, flushComment]
  | cons d rest ih =>
    intro first k acc h
    obtain ⟨k', hsegs⟩ := specSegs_append (declSpecsA (!first) d) (docSpecsA false rest) k
    simp only [docSpecsA, hsegs, List.map_append]
    rw [topLoop_declA (!first) k d (h d List.mem_cons_self), ih false k' _ (fun x hx => h x (List.mem_cons_of_mem _ hx))]
    simp

/-! ### cleanliness of attribute lines -/

theorem all_line_commaList (ps : List String) (h : ∀ q ∈ ps, q.toList.all isLineChar = true) :
    (commaList ps).all isLineChar = true := by
  induction ps with
  | nil => rfl
  | cons q rest ih =>
    have hq := h q List.mem_cons_self
    have hr := ih (fun x hx => h x (List.mem_cons_of_mem _ hx))
    simp only [commaList, List.flatMap_cons, List.all_append, List.all_cons, Bool.and_eq_true] at hr ⊢
    exact ⟨⟨by decide, by decide, hq⟩, hr⟩

theorem all_line_entryText (e : String × Bool) (h : IsPropName e.1) : (entryText e).toList.all isLineChar = true := by
  rw [entryText_toList]
  obtain ⟨p, b⟩ := e
  have hp := all_line_propName p h
  cases b
  · simpa using hp
  · simp only [if_true, List.all_append, hp, Bool.true_and]; decide

theorem clean_at (text : Chars) (h : text.all isLineChar = true) : CleanText ('@' :: text) :=
  clean_of_head '@' text (by decide) (by decide) (by simp only [List.all_cons, h, Bool.and_true]; decide)

theorem clean_enumAttr (a : Attribute) (h : WFEnumAttr a) : CleanText (Printer.printAttribute a).toList := by
  cases h
  have : (Printer.printAttribute ⟨"is_bitwise", []⟩).toList = '@' :: "is_bitwise".toList := by decide
  rw [this]; exact clean_at _ (by decide)

theorem clean_structAttr (a : Attribute) (h : WFStructAttr a) : CleanText (Printer.printAttribute a).toList := by
  cases h with
  | aligned =>
    have : (Printer.printAttribute ⟨"is_aligned", []⟩).toList = '@' :: "is_aligned".toList := by decide
    rw [this]; exact clean_at _ (by decide)
  | sizeImplicit =>
    have : (Printer.printAttribute ⟨"is_size_implicit", []⟩).toList = '@' :: "is_size_implicit".toList := by decide
    rw [this]; exact clean_at _ (by decide)
  | size p hp =>
    rw [size_toList]; apply clean_at
    simp [List.all_append, List.all_cons, isLineChar, all_line_propName p hp]
  | initializes p c hp hc =>
    rw [initializes_toList]; apply clean_at
    simp [List.all_append, List.all_cons, isLineChar, all_line_propName p hp, all_line_constName c hc]
  | discriminator p ps hp hps =>
    rw [discriminator_toList]; apply clean_at
    have h1 := all_line_commaList ps (fun q hq => all_line_propName q (hps q hq))
    simp only [List.all_cons, List.all_append, all_line_propName p hp, h1, Bool.and_true, Bool.true_and, List.all_nil]
    decide
  | comparer e es he hes =>
    rw [comparer_toList]; apply clean_at
    have h1 := all_line_commaList (es.map entryText) (by
      intro q hq
      obtain ⟨x, hx, rfl⟩ := List.mem_map.1 hq
      exact all_line_entryText x (hes x hx))
    simp only [List.all_cons, List.all_append, all_line_entryText e he, h1, Bool.and_true, Bool.true_and, List.all_nil]
    decide

theorem clean_fieldAttr (a : Attribute) (h : WFFieldAttr a) : CleanText (Printer.printAttribute a).toList := by
  cases h with
  | byteConstrained =>
    have : (Printer.printAttribute ⟨"is_byte_constrained", []⟩).toList = '@' :: "is_byte_constrained".toList := by decide
    rw [this]; exact clean_at _ (by decide)
  | alignment n =>
    rw [alignment_toList]; apply clean_at
    simp [List.all_append, List.all_cons, isLineChar, all_line_nat n]
    exact all_line_nat' n
  | alignmentPadLast n =>
    rw [alignmentPad_toList]; apply clean_at
    simp [List.all_append, List.all_cons, isLineChar, all_line_nat n]
    exact all_line_nat' n
  | alignmentNotPadLast n =>
    rw [alignmentNotPad_toList]; apply clean_at
    simp [List.all_append, List.all_cons, isLineChar, all_line_nat n]
    exact all_line_nat' n
  | sortKey p hp =>
    rw [sortKey_toList]; apply clean_at
    simp [List.all_append, List.all_cons, isLineChar, all_line_propName p hp]
  | sizeref p hp =>
    rw [sizeref_toList]; apply clean_at
    simp [List.all_append, List.all_cons, isLineChar, all_line_propName p hp]
  | sizerefDelta p n hp =>
    rw [sizerefDelta_toList]; apply clean_at
    simp [List.all_append, List.all_cons, isLineChar, all_line_propName p hp, all_line_nat n]
    exact all_line_nat' n

theorem clean_attrTexts {P : Attribute → Prop} (hP : ∀ a, P a → CleanText (Printer.printAttribute a).toList)
    (o : Option (List Attribute)) (h : WFAttrs P o) : ∀ t ∈ attrTexts o, CleanText t := by
  intro t ht
  cases h with
  | none => simp [attrTexts, attrList] at ht
  | some a as hall =>
    simp only [attrTexts, attrList, List.mem_map] at ht
    obtain ⟨x, hx, rfl⟩ := ht
    exact hP x (hall x hx)

theorem clean_memberTextsA (m : Member) (h : WFMemberA m) : ∀ t ∈ memberTextsA m, CleanText t := by
  intro t ht
  cases h with
  | bare m hb =>
    have htexts : memberTextsA m = [m.render.toList] := by
      cases hb <;> simp [memberTextsA, attrTexts, attrList, Member.render]
    rw [htexts, List.mem_singleton] at ht
    subst ht
    exact clean_member m hb
  | plain name t' v a as hn ht' hv hattrs =>
    simp only [memberTextsA, List.mem_append, List.mem_singleton] at ht
    rcases ht with ht | rfl
    · exact clean_attrTexts clean_fieldAttr _ (.some a as hattrs) t ht
    · rw [plain_render_toList name t' v hv]
      exact clean_plain_line name hn t' v ht' hv
  | valuePlaceholder t' v a as ht' hv hattrs =>
    simp only [memberTextsA, List.mem_append, List.mem_singleton] at ht
    rcases ht with ht | rfl
    · exact clean_attrTexts clean_fieldAttr _ (.some a as hattrs) t ht
    · exact clean_member _ (.valuePlaceholder t' v ht' hv)

theorem clean_attrSpecs : ∀ (texts : List Chars) (b : Bool), (∀ t ∈ texts, CleanText t) → ∀ s ∈ attrSpecs b texts, s.Clean := by
  intro texts
  induction texts with
  | nil => intro _ _ s hs; cases hs
  | cons t rest ih =>
    intro b h s hs
    simp only [attrSpecs, List.mem_cons] at hs
    rcases hs with rfl | hs
    · exact ⟨h t List.mem_cons_self, by intro x hx; cases hx⟩
    · exact ih false (fun x hx => h x (List.mem_cons_of_mem _ hx)) s hs

theorem clean_declSpecsA (blank : Bool) (d : Decl) (h : WFDeclA d) : ∀ s ∈ declSpecsA blank d, s.Clean := by
  intro s hs
  simp only [declSpecsA, List.mem_append, List.mem_singleton] at hs
  cases h with
  | alias a ha hc =>
    rcases hs with hs | rfl
    · simp [declAttrTexts, attrSpecs] at hs
    · exact ⟨clean_head _ (.alias a ha hc), by intro t ht; cases ht⟩
  | «enum» e he =>
    cases he with
    | mk name base values attrs hn hb hv hattrs =>
      rcases hs with hs | rfl
      · exact clean_attrSpecs _ blank (clean_attrTexts clean_enumAttr attrs hattrs) s hs
      · refine ⟨clean_head (.enum { name := name, base := base, values := values }) (.enum _ (.mk name base values hn hb hv)), ?_⟩
        intro t ht
        simp only [declKidsA, List.mem_map] at ht
        obtain ⟨v, hv', rfl⟩ := ht
        exact clean_enumValue v (hv v hv')
  | struct st hst =>
    cases hst with
    | mk dsp name fields attrs hd hn hne hm hattrs =>
      rcases hs with hs | rfl
      · exact clean_attrSpecs _ blank (clean_attrTexts clean_structAttr attrs hattrs) s hs
      · refine ⟨clean_head_printable (.struct { disposition := dsp, name := name, fields := [] }) (.emptyStruct dsp name hd hn), ?_⟩
        intro t ht
        simp only [declKidsA, List.mem_flatMap] at ht
        obtain ⟨m, hm', ht⟩ := ht
        exact clean_memberTextsA m (hm m hm') t ht

theorem clean_docSpecsA : ∀ (ds : List Decl) (first : Bool), WFDeclsA ds → ∀ s ∈ docSpecsA first ds, s.Clean := by
  intro ds
  induction ds with
  | nil => intro _ _ s hs; cases hs
  | cons d rest ih =>
    intro first h s hs
    simp only [docSpecsA, List.mem_append] at hs
    rcases hs with hs | hs
    · exact clean_declSpecsA _ d (h d List.mem_cons_self) s hs
    · exact ih false (fun x hx => h x (List.mem_cons_of_mem _ hx)) s hs

/-! ### the printer emits this layout -/

theorem specPLines_attrSpecs_false : ∀ (texts : List Chars), specPLines (attrSpecs false texts) = texts.map (PLine.code false) := by
  intro texts
  induction texts with
  | nil => rfl
  | cons t rest ih =>
    simp only [attrSpecs, specPLines, List.flatMap_cons, SegSpec.plines, Bool.false_eq_true, if_false, List.nil_append,
      List.map_nil, List.map_cons, List.singleton_append]
    rw [← specPLines, ih]

theorem specPLines_declSpecsA_false (d : Decl) :
    specPLines (declSpecsA false d) =
      (declAttrTexts d).map (PLine.code false) ++ PLine.code false (declHead d) :: (declKidsA d).map (PLine.code true) := by
  simp only [declSpecsA, specPLines, List.flatMap_append, List.flatMap_cons, List.flatMap_nil, List.append_nil, SegSpec.plines,
    Bool.false_and, Bool.false_eq_true, if_false, List.nil_append]
  rw [← specPLines, specPLines_attrSpecs_false]

theorem specPLines_declSpecsA_true (d : Decl) : specPLines (declSpecsA true d) = PLine.blank :: specPLines (declSpecsA false d) := by
  cases hattr : declAttrTexts d with
  | nil =>
    simp [declSpecsA, hattr, attrSpecs, specPLines, SegSpec.plines]
  | cons t ts =>
    simp [declSpecsA, hattr, attrSpecs, specPLines, SegSpec.plines]

theorem memberLines_A (m : Member) (h : WFMemberA m) : (Printer.memberLines m).map String.toList = memberTextsA m := by
  cases h with
  | bare m hb => cases hb <;> simp [Printer.memberLines, Printer.commentLines, Printer.attributeLines, attrList, memberTextsA,
      attrTexts, Member.render]
  | plain name t v a as hn ht hv hattrs =>
    simp [Printer.memberLines, Printer.commentLines, Printer.attributeLines, attrList, memberTextsA, attrTexts, List.map_map,
      Function.comp_def]
  | valuePlaceholder t v a as ht hv hattrs =>
    simp [Printer.memberLines, Printer.commentLines, Printer.attributeLines, attrList, memberTextsA, attrTexts, List.map_map,
      Function.comp_def]

theorem flatMap_memberLines (fields : List Member) (h : ∀ m ∈ fields, WFMemberA m) :
    ((fields.flatMap Printer.memberLines).map Printer.indentLine).map String.toList =
      ((fields.flatMap memberTextsA).map (PLine.code true)).map PLine.chars := by
  induction fields with
  | nil => rfl
  | cons m rest ih =>
    have hm := memberLines_A m (h m List.mem_cons_self)
    have hr := ih (fun x hx => h x (List.mem_cons_of_mem _ hx))
    simp only [List.flatMap_cons, List.map_append, hr]
    congr 1
    rw [← hm]
    simp [List.map_map, Function.comp_def, Printer.indentLine, String.toList_append, PLine.chars]

theorem attributeLines_toList (o : Option (List Attribute)) :
    (Printer.attributeLines o).map String.toList = ((attrTexts o).map (PLine.code false)).map PLine.chars := by
  simp [Printer.attributeLines, attrTexts, List.map_map, Function.comp_def, PLine.chars]

theorem declLines_toListA (d : Decl) (h : WFDeclA d) :
    (Printer.declLines d).map String.toList = (specPLines (declSpecsA false d)).map PLine.chars := by
  rw [specPLines_declSpecsA_false]
  cases h with
  | alias a ha hc =>
    simp [Printer.declLines, hc, Printer.commentLines, declAttrTexts, declHead, declKidsA, PLine.chars]
  | «enum» e he =>
    cases he with
    | mk name base values attrs hn hb hv hattrs =>
      have h1 := flatMap_singleton EnumValue.render values Printer.enumValueLines (fun v hv' => enumValueLines_wf v (hv v hv'))
      have h2 := attributeLines_toList attrs
      simp only [Printer.declLines, Printer.commentLines, List.nil_append, List.map_append, h2, h1, declAttrTexts, declHead,
        declKidsA, List.map_cons, List.map_nil, List.append_assoc, List.cons_append, List.nil_append]
      simp [List.map_map, Function.comp_def, Printer.indentLine, String.toList_append, PLine.chars]
  | struct st hst =>
    cases hst with
    | mk dsp name fields attrs hd hn hne hm hattrs =>
      have h1 := flatMap_memberLines fields hm
      have h2 := attributeLines_toList attrs
      simp only [Printer.declLines, Printer.commentLines, List.nil_append, List.map_append, h2, h1, declAttrTexts, declHead,
        declKidsA, List.map_cons, List.map_nil, List.append_assoc, List.cons_append, List.nil_append]
      simp only [PLine.chars, structHeaderText]
      cases dsp <;> rfl

/-- the characters of the lines of one declaration -/
def declCharsA (d : Decl) : List Chars := (specPLines (declSpecsA false d)).map PLine.chars

theorem specCharsA_true_cons (d : Decl) (r : List Decl) :
    (specPLines (docSpecsA true (d :: r))).map PLine.chars = declCharsA d ++ (specPLines (docSpecsA false r)).map PLine.chars := by
  simp [docSpecsA, specPLines, declCharsA]

theorem specCharsA_false_cons (d : Decl) (r : List Decl) :
    (specPLines (docSpecsA false (d :: r))).map PLine.chars =
      [] :: (declCharsA d ++ (specPLines (docSpecsA false r)).map PLine.chars) := by
  have := specPLines_declSpecsA_true d
  simp only [specPLines] at this
  simp [docSpecsA, specPLines, declCharsA, this, PLine.chars]

theorem printDecls_toListA : ∀ (ds : List Decl), WFDeclsA ds →
    (Printer.printDecls ds).map String.toList = (specPLines (docSpecsA true ds)).map PLine.chars ∧
    (ds ≠ [] → ("" :: Printer.printDecls ds).map String.toList = (specPLines (docSpecsA false ds)).map PLine.chars) := by
  intro ds
  induction ds with
  | nil => intro _; exact ⟨rfl, fun h => absurd rfl h⟩
  | cons d rest ih =>
    intro h
    have hd : (Printer.declLines d).map String.toList = declCharsA d := declLines_toListA d (h d List.mem_cons_self)
    obtain ⟨_, hrest⟩ := ih (fun x hx => h x (List.mem_cons_of_mem _ hx))
    have hfirst : (Printer.printDecls (d :: rest)).map String.toList = (specPLines (docSpecsA true (d :: rest))).map PLine.chars := by
      rw [specCharsA_true_cons]
      cases rest with
      | nil => simp [Printer.printDecls, hd, docSpecsA, specPLines]
      | cons d' rest' =>
        have hr := hrest (by simp)
        simp only [List.map_cons] at hr
        simp only [Printer.printDecls, List.map_append, List.map_cons, hd, hr]
    refine ⟨hfirst, fun _ => ?_⟩
    rw [specCharsA_false_cons, ← specCharsA_true_cons, ← hfirst]
    rfl

theorem print_toListA (ds : List Decl) (h : WFDeclsA ds) :
    (Printer.print ds).toList = unlinesC ((specPLines (docSpecsA true ds)).map PLine.chars) := by
  rw [Printer.print, unlines_toList, (printDecls_toListA ds h).1]

theorem declSpecsA_head (d : Decl) : ∃ s0 tl, declSpecsA false d = s0 :: tl ∧ s0.blankBefore = false := by
  cases hattr : declAttrTexts d with
  | nil => exact ⟨⟨false, declHead d, declKidsA d⟩, [], by simp [declSpecsA, hattr, attrSpecs], rfl⟩
  | cons t ts =>
    exact ⟨⟨false, t, []⟩, attrSpecs false ts ++ [⟨false && (t :: ts).isEmpty, declHead d, declKidsA d⟩],
      by simp only [declSpecsA, hattr, attrSpecs, List.cons_append], rfl⟩

/-- The document-level round trip with attributes. -/
theorem parse_printA (ds : List Decl) (h : WFDeclsA ds) (hne : ds ≠ []) : parse (Printer.print ds).toList = .ok ds := by
  rw [print_toListA ds h]
  obtain ⟨d, rest, rfl⟩ : ∃ d rest, ds = d :: rest := by
    cases ds with
    | nil => exact absurd rfl hne
    | cons d rest => exact ⟨d, rest, rfl⟩
  obtain ⟨s0, tl, hs0, h0⟩ := declSpecsA_head d
  have hspecs : docSpecsA true (d :: rest) = s0 :: (tl ++ docSpecsA false rest) := by
    simp only [docSpecsA, Bool.not_true, hs0, List.cons_append]
  have hclean := clean_docSpecsA (d :: rest) true h
  rw [hspecs] at hclean ⊢
  have hblocks := blocks_of_layout s0 (tl ++ docSpecsA false rest) h0 hclean
  have htop := topLoop_docA (d :: rest) true 1 [] h
  rw [hspecs] at htop
  simp only [List.reverse_nil, List.nil_append] at htop
  simp only [parse, hblocks, htop, Except.map, declsOf_map_decl]

theorem wfDeclA_of_wfDecl (d : Decl) (h : WFDecl d) : WFDeclA d := by
  cases h with
  | alias a ha hc => exact .alias a ha hc
  | «enum» e he =>
    cases he with
    | mk name base values hn hb hv => exact .enum _ (.mk name base values none hn hb hv .none)
  | struct s hs =>
    cases hs with
    | mk d name fields hd hn hne hm => exact .struct _ (.mk d name fields none hd hn hne (fun m hm' => .bare m (hm m hm')) .none)

/-! ### with or without the empty line between declarations -/

/-- the layout of declarations, each with its own choice of an empty line before it -/
def docSpecsWith (bds : List (Bool × Decl)) : List SegSpec := bds.flatMap fun bd => declSpecsA bd.1 bd.2

theorem topLoop_docWith : ∀ (bds : List (Bool × Decl)) (k : Nat) (acc : List Item), (∀ bd ∈ bds, WFDeclA bd.2) →
    topLoop ((specSegs k (docSpecsWith bds)).map segBlock) {} acc = .ok (acc.reverse ++ bds.map fun bd => Item.decl bd.2) := by
  intro bds
  induction bds with
  | nil => intro _ acc _; simp [docSpecsWith, specSegs, topLoop, flushComment]
  | cons bd rest ih =>
    intro k acc h
    obtain ⟨k', hsegs⟩ := specSegs_append (declSpecsA bd.1 bd.2) (docSpecsWith rest) k
    have hunfold : docSpecsWith (bd :: rest) = declSpecsA bd.1 bd.2 ++ docSpecsWith rest := by simp [docSpecsWith]
    simp only [hunfold, hsegs, List.map_append]
    rw [topLoop_declA bd.1 k bd.2 (h bd List.mem_cons_self), ih k' _ (fun x hx => h x (List.mem_cons_of_mem _ hx))]
    simp

theorem declSpecsA_head' (b : Bool) (d : Decl) : ∃ s0 tl, declSpecsA b d = s0 :: tl ∧ s0.blankBefore = b := by
  cases hattr : declAttrTexts d with
  | nil => exact ⟨⟨b && true, declHead d, declKidsA d⟩, [], by simp [declSpecsA, hattr, attrSpecs], by simp⟩
  | cons t ts =>
    exact ⟨⟨b, t, []⟩, attrSpecs false ts ++ [⟨b && (t :: ts).isEmpty, declHead d, declKidsA d⟩],
      by simp only [declSpecsA, hattr, attrSpecs, List.cons_append], rfl⟩

/-- Blank lines between declarations are trivia: whether or not an empty line precedes each declaration (the
    printer puts one, here the choice is free for every declaration but the first), the text parses to the same
    declarations. -/
theorem parse_layout_with_blanks (d : Decl) (rest : List (Bool × Decl)) (hd : WFDeclA d) (hrest : ∀ bd ∈ rest, WFDeclA bd.2) :
    parse (unlinesC ((specPLines (docSpecsWith ((false, d) :: rest))).map PLine.chars)) = .ok (d :: rest.map (·.2)) := by
  have hall : ∀ bd ∈ (false, d) :: rest, WFDeclA bd.2 := by
    intro bd hbd
    simp only [List.mem_cons] at hbd
    rcases hbd with rfl | hbd
    · exact hd
    · exact hrest bd hbd
  obtain ⟨s0, tl, hs0, h0⟩ := declSpecsA_head' false d
  have hspecs : docSpecsWith ((false, d) :: rest) = s0 :: (tl ++ docSpecsWith rest) := by
    simp only [docSpecsWith, List.flatMap_cons, hs0, List.cons_append]
  have hclean : ∀ s ∈ docSpecsWith ((false, d) :: rest), s.Clean := by
    intro s hs
    simp only [docSpecsWith, List.mem_flatMap] at hs
    obtain ⟨bd, hbd, hs⟩ := hs
    exact clean_declSpecsA bd.1 bd.2 (hall bd hbd) s hs
  have htop := topLoop_docWith ((false, d) :: rest) 1 [] hall
  rw [hspecs] at hclean htop ⊢
  have hblocks := blocks_of_layout s0 (tl ++ docSpecsWith rest) h0 hclean
  simp only [List.reverse_nil, List.nil_append, List.map_cons] at htop
  have hdecls : declsOf (Item.decl d :: rest.map fun bd => Item.decl bd.2) = d :: rest.map (·.2) := by
    have := declsOf_map_decl (d :: rest.map (·.2))
    simpa [List.map_map, Function.comp_def] using this
  simp only [parse, hblocks, htop, Except.map, hdecls]

end SymbolVerif.Cats.Parser

/-
The line structure of a printed document WITH documentation comments: a code line may be preceded by `#` lines at
the same indentation. `Lexer.logicalLines` merges these `#` lines into one comment line (one token
`MULTILINE_SH_COMMENT`), whose text is the first `#` line without its indentation followed by the other lines with
theirs (`Comment.deco`), and cuts the rest as in `CatsLines.lean`.
-/
import SymbolVerif.Proofs.CatsLines
import SymbolVerif.Proofs.CatsComment
namespace SymbolVerif.Cats.Lexer
open SymbolVerif.Cats
set_option linter.unusedSimpArgs false

/-- a printed line: empty, or a code line (optionally indented by one tab) preceded by the `#` lines of its
    documentation comment (`doc = []`: no comment) -/
inductive QLine where
  | blank
  | code (indented : Bool) (doc : List Chars) (text : Chars)

/-- the indentation the printer writes -/
def ipre : Bool → Chars
  | true => ['\t']
  | false => []

/-- the physical lines of a printed line -/
def QLine.phys : QLine → List Chars
  | .blank => [[]]
  | .code i doc t => doc.map (ipre i ++ ·) ++ [ipre i ++ t]

/-- a `#` line: starts with `#`, has no line end inside and does not end in a carriage return -/
def CommentLine (l : Chars) : Prop := '\n' ∉ l ∧ (∃ r, l = '#' :: r) ∧ l.getLast? ≠ some '\r'

def QLine.Clean : QLine → Prop
  | .blank => True
  | .code _ doc t => CleanText t ∧ ∀ l ∈ doc, CommentLine l

/-- the comment line for the `#` lines `doc` that start at physical line `k` -/
def docLine (k : Nat) (i : Bool) : List Chars → List LLine
  | [] => []
  | l :: more => [⟨k, k + more.length, if i then 4 else 0, .comment, Comment.joinNL (Comment.deco (ipre i) (l :: more))⟩]

/-- the logical lines expected from a list of printed lines, numbered from `k` -/
def expQ : Nat → List QLine → List LLine
  | _, [] => []
  | k, .blank :: rest => expQ (k + 1) rest
  | k, .code i doc t :: rest =>
    docLine k i doc ++ ⟨k + doc.length, k + doc.length, if i then 4 else 0, .code, t⟩ :: expQ (k + doc.length + 1) rest

/-! ### physical lines -/

theorem physLines_line' (l rest : Chars) (h : '\n' ∉ l) : physLines (l ++ '\n' :: rest) = l :: physLines rest := by
  induction l with
  | nil =>
    simp only [List.nil_append, physLines]
    cases hp : physLines rest with
    | nil => exact absurd hp (physLines_ne_nil rest)
    | cons a as => simp
  | cons c cs ih =>
    have hc : (c == '\n') = false := by
      have : c ≠ '\n' := fun he => h (he ▸ List.mem_cons_self)
      simp [this]
    have hcs : '\n' ∉ cs := fun hm => h (List.mem_cons_of_mem _ hm)
    simp only [List.cons_append, physLines, ih hcs, hc, Bool.false_eq_true, if_false]

theorem physLines_unlines' (ls : List Chars) (h : ∀ l ∈ ls, '\n' ∉ l) : physLines (unlinesC ls) = ls ++ [[]] := by
  induction ls with
  | nil => rfl
  | cons l rest ih =>
    have : unlinesC (l :: rest) = l ++ '\n' :: unlinesC rest := by
      simp [unlinesC, List.flatMap_cons]
    rw [this, physLines_line' l _ (h l List.mem_cons_self), ih (fun x hx => h x (List.mem_cons_of_mem _ hx))]
    rfl

/-! ### one `#` line -/

theorem dropWhile_ipre (i : Bool) (c : Char) (r : Chars) (h : isWs c = false) : (ipre i ++ c :: r).dropWhile isWs = c :: r := by
  cases i
  · exact dropWhile_isWs_of_not c r h
  · exact dropWhile_isWs_tab c r h

theorem takeWhile_ipre (i : Bool) (c : Char) (r : Chars) (h : isWs c = false) : (ipre i ++ c :: r).takeWhile isWs = ipre i := by
  cases i
  · exact takeWhile_isWs_of_not c r h
  · exact takeWhile_isWs_tab c r h

theorem indentOf_ipre (i : Bool) : indentOf (ipre i) = if i then 4 else 0 := by
  cases i <;> decide

theorem stripCR_of_last (cs : Chars) (h : cs.getLast? ≠ some '\r') : stripCR cs = cs := by
  unfold stripCR
  split
  · rename_i heq; exact absurd heq h
  · rfl

theorem getLast_ipre (i : Bool) (c : Char) (r : Chars) : (ipre i ++ c :: r).getLast? = (c :: r).getLast? := by
  cases i
  · rfl
  · simp [ipre]

theorem groupStep_comment_first (acc : List LLine) (n : Nat) (i : Bool) (l : Chars) (h : CommentLine l) :
    groupStep (acc, false) (n, ipre i ++ l) = (⟨n, n, if i then 4 else 0, .comment, l⟩ :: acc, true) := by
  obtain ⟨_, ⟨r, rfl⟩, hlast⟩ := h
  have hws : isWs '#' = false := by decide
  have h1 := dropWhile_ipre i '#' r hws
  have h2 := takeWhile_ipre i '#' r hws
  have hcomment : isCommentLine (ipre i ++ '#' :: r) = true := by simp [isCommentLine, h1]
  simp only [groupStep, hcomment, if_true, h1, h2, stripCR_of_last _ hlast, indentOf_ipre]

theorem groupStep_comment_next (last : LLine) (acc : List LLine) (n : Nat) (i : Bool) (l : Chars) (h : CommentLine l) :
    groupStep (last :: acc, true) (n, ipre i ++ l) =
      (⟨last.lineNo, n, last.indent, last.kind, last.text ++ '\n' :: (ipre i ++ l)⟩ :: acc, true) := by
  obtain ⟨_, ⟨r, rfl⟩, hlast⟩ := h
  have hws : isWs '#' = false := by decide
  have h1 := dropWhile_ipre i '#' r hws
  have hcomment : isCommentLine (ipre i ++ '#' :: r) = true := by simp [isCommentLine, h1]
  have hl : (ipre i ++ '#' :: r).getLast? ≠ some '\r' := by rw [getLast_ipre]; exact hlast
  simp only [groupStep, hcomment, if_true, stripCR_of_last _ hl]

/-- the continuation lines of a comment -/
theorem foldl_comment_more (i : Bool) : ∀ (more : List Chars) (n : Nat) (last : LLine) (acc : List LLine),
    (∀ l ∈ more, CommentLine l) → n = last.endLineNo + 1 →
    (enumFrom n (more.map (ipre i ++ ·))).foldl groupStep (last :: acc, true) =
      (⟨last.lineNo, last.endLineNo + more.length, last.indent, last.kind,
        last.text ++ more.flatMap (fun l => '\n' :: (ipre i ++ l))⟩ :: acc, true) := by
  intro more
  induction more with
  | nil => intro n last acc _ _; simp [enumFrom]
  | cons l rest ih =>
    intro n last acc hall hn
    simp only [List.map_cons, enumFrom, List.foldl_cons, groupStep_comment_next last acc n i l (hall l List.mem_cons_self)]
    rw [ih (n + 1) _ acc (fun x hx => hall x (List.mem_cons_of_mem _ hx)) rfl]
    subst hn
    simp only [List.length_cons, List.flatMap_cons, List.append_assoc, List.cons_append]
    congr 3
    omega

theorem joinNL_cons_flat : ∀ (ms : List Chars) (l : Chars), Comment.joinNL (l :: ms) = l ++ ms.flatMap ('\n' :: ·) := by
  intro ms
  induction ms with
  | nil => intro l; simp [Comment.joinNL]
  | cons m rest ih => intro l; simp only [Comment.joinNL, ih m, List.flatMap_cons, List.cons_append]

theorem joinNL_deco (pre l : Chars) (more : List Chars) :
    Comment.joinNL (Comment.deco pre (l :: more)) = l ++ more.flatMap (fun x => '\n' :: (pre ++ x)) := by
  simp only [Comment.deco, joinNL_cons_flat, List.flatMap_map]

theorem enumFrom_append {α : Type} : ∀ (a b : List α) (k : Nat), enumFrom k (a ++ b) = enumFrom k a ++ enumFrom (k + a.length) b := by
  intro a
  induction a with
  | nil => intro b k; simp [enumFrom]
  | cons x rest ih =>
    intro b k
    simp only [List.cons_append, enumFrom, ih, List.length_cons]
    congr 3
    omega

/-- one printed line: its `#` lines become one comment line, the code line follows -/
theorem foldl_qline (p : QLine) (hp : p.Clean) (k : Nat) (acc : List LLine) :
    (enumFrom k p.phys).foldl groupStep (acc, false) = ((expQ k [p]).reverse ++ acc, false) := by
  cases p with
  | blank => simp [QLine.phys, enumFrom, expQ, groupStep_blank]
  | code i doc t =>
    obtain ⟨ht, hdoc⟩ := hp
    have hcode : ∀ (a : List LLine) (b : Bool) (n : Nat),
        groupStep (a, b) (n, ipre i ++ t) = (⟨n, n, if i then 4 else 0, .code, t⟩ :: a, false) := by
      intro a b n
      have := groupStep_code a b n i t ht
      cases i <;> exact this
    cases doc with
    | nil => simp [QLine.phys, enumFrom, expQ, docLine, hcode]
    | cons l more =>
      have hl := hdoc l List.mem_cons_self
      have hmore : ∀ x ∈ more, CommentLine x := fun x hx => hdoc x (List.mem_cons_of_mem _ hx)
      simp only [QLine.phys, List.map_cons, List.cons_append, enumFrom, List.foldl_cons, enumFrom_append, List.foldl_append,
        groupStep_comment_first acc k i l hl, List.length_map, List.foldl_nil]
      rw [foldl_comment_more i more (k + 1) _ acc hmore rfl]
      simp only [hcode, expQ, docLine, joinNL_deco, List.length_cons, List.reverse_append, List.reverse_cons, List.reverse_nil,
        List.nil_append, List.cons_append, List.append_assoc]
      have : k + 1 + more.length = k + (more.length + 1) := by omega
      rw [this]

def QLine.height : QLine → Nat
  | .blank => 1
  | .code _ doc _ => doc.length + 1

def qheight (ps : List QLine) : Nat := (ps.map QLine.height).sum

theorem phys_length (p : QLine) : p.phys.length = p.height := by
  cases p <;> simp [QLine.phys, QLine.height]

theorem expQ_cons (p : QLine) (rest : List QLine) (k : Nat) : expQ k (p :: rest) = expQ k [p] ++ expQ (k + p.height) rest := by
  cases p with
  | blank => simp [expQ, QLine.height]
  | code i doc t => simp [expQ, QLine.height, Nat.add_assoc]

theorem expQ_append : ∀ (a b : List QLine) (k : Nat), expQ k (a ++ b) = expQ k a ++ expQ (k + qheight a) b := by
  intro a
  induction a with
  | nil => intro b k; simp [expQ, qheight]
  | cons p rest ih =>
    intro b k
    rw [List.cons_append, expQ_cons, ih, expQ_cons p rest, List.append_assoc]
    simp only [qheight, List.map_cons, List.sum_cons, Nat.add_assoc]

theorem foldl_groupStep_expQ : ∀ (ps : List QLine) (k : Nat) (acc : List LLine), (∀ p ∈ ps, p.Clean) →
    (enumFrom k (ps.flatMap QLine.phys)).foldl groupStep (acc, false) = ((expQ k ps).reverse ++ acc, false) := by
  intro ps
  induction ps with
  | nil => intro k acc _; simp [enumFrom, expQ]
  | cons p rest ih =>
    intro k acc hclean
    simp only [List.flatMap_cons, enumFrom_append, List.foldl_append, foldl_qline p (hclean p List.mem_cons_self), phys_length]
    rw [ih _ _ (fun q hq => hclean q (List.mem_cons_of_mem _ hq)), expQ_cons p rest]
    simp

theorem no_nl_phys (p : QLine) (h : p.Clean) : ∀ l ∈ p.phys, '\n' ∉ l := by
  intro l hl
  have hpre : ∀ i, '\n' ∉ ipre i := by intro i; cases i <;> decide
  cases p with
  | blank => simp only [QLine.phys, List.mem_singleton] at hl; subst hl; simp
  | code i doc t =>
    obtain ⟨ht, hdoc⟩ := h
    simp only [QLine.phys, List.mem_append, List.mem_map, List.mem_singleton] at hl
    rcases hl with ⟨x, hx, rfl⟩ | rfl
    · intro hm
      rcases List.mem_append.1 hm with hm | hm
      · exact hpre i hm
      · exact (hdoc x hx).1 hm
    · intro hm
      rcases List.mem_append.1 hm with hm | hm
      · exact hpre i hm
      · have := (List.all_eq_true.1 ht.1) _ hm
        simp [isLineChar] at this

/-- A text made of clean printed lines (with their `#` lines), the first of which is a code line, is cut into exactly
    the expected logical lines. -/
theorem logicalLines_unlinesQ (i : Bool) (doc : List Chars) (t : Chars) (rest : List QLine)
    (hclean : ∀ p ∈ QLine.code i doc t :: rest, p.Clean) :
    logicalLines (unlinesC ((QLine.code i doc t :: rest).flatMap QLine.phys)) =
      .ok (expQ 1 (QLine.code i doc t :: rest), 0) := by
  have hphys := physLines_unlines' ((QLine.code i doc t :: rest).flatMap QLine.phys) (by
    intro l hl
    obtain ⟨p, hp, hl⟩ := List.mem_flatMap.1 hl
    exact no_nl_phys p (hclean p hp) l hl)
  have hfold := foldl_groupStep_expQ (QLine.code i doc t :: rest) 1 [] hclean
  obtain ⟨ht, hdoc⟩ := hclean _ List.mem_cons_self
  have hfirst : ∃ c r tl, isWs c = false ∧ c ≠ '\r' ∧
      (QLine.code i doc t :: rest).flatMap QLine.phys = (ipre i ++ c :: r) :: tl := by
    cases doc with
    | nil =>
      obtain ⟨hall, c, r, rfl, hws, _⟩ := ht
      have hcr : c ≠ '\r' := by
        simp only [List.all_cons, Bool.and_eq_true, isLineChar, bne_iff_ne, ne_eq] at hall
        exact hall.1.2
      exact ⟨c, r, rest.flatMap QLine.phys, hws, hcr, by simp [QLine.phys]⟩
    | cons l more =>
      obtain ⟨_, ⟨r, rfl⟩, _⟩ := hdoc l List.mem_cons_self
      exact ⟨'#', r, more.map (ipre i ++ ·) ++ (ipre i ++ t) :: rest.flatMap QLine.phys, by decide, by decide, by simp [QLine.phys]⟩
  obtain ⟨c, r, tl, hws, hcr, hlines⟩ := hfirst
  have hblank : isBlankLine (ipre i ++ c :: r) = false := by simp [isBlankLine, dropWhile_ipre i c r hws, hcr]
  unfold logicalLines
  rw [hphys]
  rw [hlines] at hfold ⊢
  simp only [List.cons_append, List.dropLast_concat, List.getLast?_concat, Option.getD_some, hblank, List.all_nil,
    Bool.false_eq_true, if_false, Bool.not_true, indentOf, List.foldl_nil]
  have hdl : ((ipre i ++ c :: r) :: (tl ++ [[]])).dropLast = (ipre i ++ c :: r) :: tl := by
    rw [← List.cons_append, List.dropLast_concat]
  have hgl : ((ipre i ++ c :: r) :: (tl ++ [[]])).getLast? = some [] := by
    rw [← List.cons_append, List.getLast?_concat]
  simp only [hdl, hgl, Option.getD_some, hblank, List.all_nil, Bool.false_eq_true, if_false, Bool.not_true, hfold,
    List.append_nil, List.reverse_reverse, indentOf, List.foldl_nil]

end SymbolVerif.Cats.Lexer

/-
Helper lemmas for C19 about `Model/Lint/LineRules.lean`: how the reports of a file decompose into the
reports of its lines, and the invariant that makes the "empty line after `#pragma once`" rule dead.
-/
import SymbolVerif.Model.Lint.LineRules
namespace SymbolVerif.Lint.Rules
open SymbolVerif.Lint.Regex (isSpace)

/-! ### the per-file driver -/

/-- state of a validator after a list of lines -/
def stateAfter (v : Validator σ) : σ → Nat → List Str → σ
  | s, _, [] => s
  | s, n, l :: ls => stateAfter v (v.check s n l).1 (n + 1) ls

/-- the reports produced while checking the lines (without `finalize`) -/
def checkReports (v : Validator σ) : σ → Nat → List Str → List Report
  | _, _, [] => []
  | s, n, l :: ls => (v.check s n l).2 ++ checkReports v (v.check s n l).1 (n + 1) ls

theorem runFrom_eq (v : Validator σ) : ∀ (ls : List Str) (s : σ) (n : Nat),
    runFrom v s n ls = checkReports v s n ls ++ v.finalize (stateAfter v s n ls)
  | [], s, n => by simp [runFrom, checkReports, stateAfter]
  | l :: ls, s, n => by simp [runFrom, checkReports, stateAfter, runFrom_eq v ls, List.append_assoc]

theorem checkReports_append (v : Validator σ) : ∀ (xs ys : List Str) (s : σ) (n : Nat),
    checkReports v s n (xs ++ ys) = checkReports v s n xs ++ checkReports v (stateAfter v s n xs) (n + xs.length) ys
  | [], ys, s, n => by simp [checkReports, stateAfter]
  | x :: xs, ys, s, n => by
    simp only [List.cons_append, checkReports, stateAfter, checkReports_append v xs ys, List.append_assoc,
      List.length_cons]
    congr 3
    omega

/-- a report made while checking line `i` is a report of the file -/
theorem mem_run_of_line (v : Validator σ) (g : Nat → Str → List Report)
    (hg : ∀ s n l, (v.check s n l).2 = g n l) :
    ∀ (ls : List Str) (s : σ) (n i : Nat) (l : Str) (rep : Report),
      ls[i]? = some l → rep ∈ g (n + i) l → rep ∈ runFrom v s n ls
  | [], _, _, i, _, _, h, _ => by simp at h
  | x :: xs, s, n, 0, l, rep, h, hr => by
    simp only [List.getElem?_cons_zero, Option.some.injEq] at h
    subst h
    simp only [runFrom, List.mem_append]
    exact Or.inl (by rw [hg]; simpa using hr)
  | x :: xs, s, n, i + 1, l, rep, h, hr => by
    simp only [List.getElem?_cons_succ] at h
    simp only [runFrom, List.mem_append]
    refine Or.inr (mem_run_of_line v g hg xs _ (n + 1) i l rep h ?_)
    have : n + 1 + i = n + (i + 1) := by omega
    rw [this]; exact hr

/-- for a validator without state and without `finalize` reports, the reports of the file are exactly
    the reports of its lines -/
theorem mem_run_perLine (f : Nat → Str → List Report) : ∀ (ls : List Str) (n : Nat) (rep : Report),
    rep ∈ runFrom (perLine f) () n ls ↔ ∃ i l, ls[i]? = some l ∧ rep ∈ f (n + i) l
  | [], n, rep => by simp [runFrom, perLine]
  | x :: xs, n, rep => by
    simp only [runFrom, List.mem_append, mem_run_perLine f xs (n + 1) rep]
    constructor
    · rintro (h | ⟨i, l, hl, hr⟩)
      · exact ⟨0, x, by simp, by simpa [perLine] using h⟩
      · refine ⟨i + 1, l, by simpa using hl, ?_⟩
        have : n + (i + 1) = n + 1 + i := by omega
        rw [this]; exact hr
    · rintro ⟨i, l, hl, hr⟩
      cases i with
      | zero =>
        simp only [List.getElem?_cons_zero, Option.some.injEq] at hl
        subst hl
        exact Or.inl (by simpa [perLine] using hr)
      | succ i =>
        refine Or.inr ⟨i, l, by simpa using hl, ?_⟩
        have : n + 1 + i = n + (i + 1) := by omega
        rw [this]; exact hr

theorem set_get (lines : List Str) (i : Nat) (l l' : Str) (h : lines[i]? = some l) :
    (lines.set i l')[i]? = some l' := by
  have := (List.getElem?_eq_some_iff.mp h).1
  simp [this]

/-! ### whitespace facts -/

theorem all_of_dropWhile_nil {p : Char → Bool} : ∀ {s : Str}, s.dropWhile p = [] → ∀ c ∈ s, p c = true
  | [], _, c, hc => by simp at hc
  | d :: t, h, c, hc => by
    rw [List.dropWhile_cons] at h
    split at h
    · next hd =>
      rcases List.mem_cons.mp hc with rfl | h'
      · exact hd
      · exact all_of_dropWhile_nil h c h'
    · simp at h

theorem wsLineEnding_append_space (l : Str) (c : Char) (hc : isSpace c = true)
    (h : ∃ d ∈ l, isSpace d = false) : wsLineEnding (l ++ [c]) = true := by
  obtain ⟨d, hd, hds⟩ := h
  unfold wsLineEnding
  simp only [List.reverse_append, List.reverse_cons, List.reverse_nil, List.nil_append, List.singleton_append]
  have h1 : (List.takeWhile isSpace (c :: l.reverse)).isEmpty = false := by
    simp [List.takeWhile_cons, hc]
  have h2 : (List.dropWhile isSpace (c :: l.reverse)).isEmpty = false := by
    cases hdw : List.dropWhile isSpace (c :: l.reverse) with
    | cons _ _ => rfl
    | nil =>
      exfalso
      have hall : ∀ x ∈ c :: l.reverse, isSpace x = true := all_of_dropWhile_nil hdw
      have := hall d (List.mem_cons_of_mem _ (List.mem_reverse.mpr hd))
      rw [hds] at this; cases this
  simp [h1, h2]

theorem wsSpacesStart_tabs_space (k : Nat) (rest : Str) :
    wsSpacesStart (List.replicate k '\t' ++ ' ' :: rest) = true := by
  unfold wsSpacesStart
  induction k with
  | zero => simp
  | succ k ih => simpa [List.replicate_succ] using ih

theorem wsTabsEmpty_replicate (k : Nat) (hk : 0 < k) : wsTabsEmpty (List.replicate k '\t') = true := by
  unfold wsTabsEmpty
  cases k with
  | zero => omega
  | succ k => simp [List.replicate_succ]

theorem wsTabInside_insert (a b : Str) (c : Char) (hc : isSpace c = false) :
    wsTabInside (a ++ c :: '\t' :: b) = true := by
  induction a with
  | nil => simp [wsTabInside, hc]
  | cons x xs ih =>
    cases xs with
    | nil =>
      simp only [List.nil_append] at ih
      simp [wsTabInside, hc]
    | cons y ys =>
      simp only [List.cons_append] at ih ⊢
      simp only [wsTabInside, Bool.or_eq_true]
      exact Or.inr ih

theorem width_append (a b : Str) : width (a ++ b) = width a + width b := by
  simp [width, List.map_append, List.sum_append]

theorem width_replicate (k : Nat) (c : Char) (hc : c ≠ '\t') : width (List.replicate k c) = k := by
  have hb : (c == '\t') = false := by simpa using hc
  induction k with
  | zero => rfl
  | succ k ih =>
    simp only [width, List.replicate_succ, List.map_cons, List.sum_cons, hb] at ih ⊢
    simp only [Bool.false_eq_true, if_false]
    omega

/-! ### the `#pragma once` state machine -/

theorem stateAfter_append (v : Validator σ) : ∀ (xs ys : List Str) (s : σ) (n : Nat),
    stateAfter v s n (xs ++ ys) = stateAfter v (stateAfter v s n xs) (n + xs.length) ys
  | [], ys, s, n => by simp [stateAfter]
  | x :: xs, ys, s, n => by
    simp only [List.cons_append, stateAfter, stateAfter_append v xs ys, List.length_cons]
    congr 1
    omega

theorem pragmaOrdinary_report (s : PragmaState) (n : Nat) (l : Str) :
    (pragmaOrdinary s n l).reportEmptyLine =
      if s.reportEmptyLine = none then
        (if startsWith l "#include" = true then some (decide (0 < s.emptyLineNumber))
         else if startsWith l "#" = true ∧ s.gotPragmaOnce ≠ none then some false else none)
      else s.reportEmptyLine := by
  unfold pragmaOrdinary
  by_cases hr : s.reportEmptyLine = none <;> by_cases hi : startsWith l "#include" = true <;>
    by_cases hh : startsWith l "#" = true <;> by_cases hg : s.gotPragmaOnce = none <;>
    simp only [hr, hi, hh, hg, ne_eq, not_true_eq_false, not_false_eq_true, and_self, and_true, and_false, false_and,
      true_and, if_true, if_false, reduceCtorEq, Bool.false_eq_true] <;>
    ((repeat' split) <;> simp_all)

theorem pragmaOrdinary_empty (s : PragmaState) (n : Nat) (l : Str) :
    (pragmaOrdinary s n l).emptyLineNumber =
      if s.gotPragmaOnce = some true ∧ l.isEmpty = true then n else s.emptyLineNumber := by
  unfold pragmaOrdinary
  by_cases hg : s.gotPragmaOnce = some true ∧ l.isEmpty = true
  · simp only [hg, and_self, if_true]
    (repeat' split) <;> simp_all
  · simp only [hg, if_false]
    (repeat' split) <;> simp_all

theorem pragmaOrdinary_got (s : PragmaState) (n : Nat) (l : Str) :
    (pragmaOrdinary s n l).gotPragmaOnce =
      if s.gotPragmaOnce = none then some (decide (l = "#pragma once".toList)) else s.gotPragmaOnce := by
  unfold pragmaOrdinary
  by_cases hg : s.gotPragmaOnce = none
  · simp only [hg, if_true]
    (repeat' split) <;> simp_all
  · simp only [hg, if_false]
    (repeat' split) <;> simp_all

theorem pragmaOrdinary_inside (s : PragmaState) (n : Nat) (l : Str) :
    (pragmaOrdinary s n l).insideComment = s.insideComment := by
  unfold pragmaOrdinary
  simp only
  (repeat' split) <;> rfl

/-- once the notice is over, a line that does not open a comment goes through the ordinary part -/
theorem pragmaCheck_ordinary (s : PragmaState) (n : Nat) (l : Str) (hl : startsWith l "/**" = false)
    (hs : s.insideComment = 3) : pragmaCheck s n l = pragmaOrdinary s n l := by
  unfold pragmaCheck
  simp [hl, hs]

/-- the decision about the empty-line rule is taken once -/
theorem pragmaCheck_report_some (s : PragmaState) (n : Nat) (l : Str) (b : Bool) (h : s.reportEmptyLine = some b) :
    (pragmaCheck s n l).reportEmptyLine = some b := by
  have hstart : (if startsWith l "/**" = true then { s with insideComment := 1, gotLicense := true } else s).reportEmptyLine = some b := by
    split <;> exact h
  unfold pragmaCheck
  simp only
  generalize (if startsWith l "/**" = true then { s with insideComment := 1, gotLicense := true } else s) = s' at hstart
  split
  · split <;> exact hstart
  · split
    · exact hstart
    · rw [pragmaOrdinary_report, hstart]; simp

theorem pragma_stateAfter_report_some (isHeader : Bool) (b : Bool) : ∀ (ls : List Str) (s : PragmaState) (n : Nat),
    s.reportEmptyLine = some b → (stateAfter (pragmaOnce isHeader) s n ls).reportEmptyLine = some b
  | [], _, _, h => h
  | l :: ls, s, n, h => pragma_stateAfter_report_some isHeader b ls _ (n + 1) (pragmaCheck_report_some s n l b h)

theorem not_comment_of_include (l : Str) (h : startsWith l "#include" = true) : startsWith l "/**" = false := by
  unfold startsWith at *
  cases l with
  | nil => simp at h
  | cons c t =>
    have hc : c = '#' := by
      have := List.isPrefixOf_iff_prefix.mp h
      obtain ⟨r, hr⟩ := this
      simp at hr
      exact hr.1.symm
    subst hc
    rfl

theorem pragma_checkReports_nil (isHeader : Bool) : ∀ (ls : List Str) (s : PragmaState) (n : Nat),
    checkReports (pragmaOnce isHeader) s n ls = []
  | [], _, _ => rfl
  | l :: ls, s, n => by
    have ih := pragma_checkReports_nil isHeader ls (pragmaCheck s n l) (n + 1)
    simp only [checkReports, pragmaOnce, List.nil_append] at ih ⊢
    exact ih

end SymbolVerif.Lint.Rules

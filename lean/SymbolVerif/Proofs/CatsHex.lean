/-
Numerals in general (C04): an upper-case hexadecimal printer `hexDigits` and the theorems that the numeral scanner
reads `0x` + zeros + `hexDigits n` as `n`, a decimal numeral with leading zeros as its value, and that lower-case
hexadecimal digits are not part of `HEX_NUMBER`.
-/
import SymbolVerif.Proofs.CatsScanLemmas
namespace SymbolVerif.Cats.Lexer
set_option linter.unusedSimpArgs false

/-- the digit `d < 16` in upper case -/
def hexDigit (d : Nat) : Char := if d < 10 then Char.ofNat ('0'.toNat + d) else Char.ofNat ('A'.toNat + (d - 10))

/-- `'%X' % n`: the upper-case hexadecimal digits of `n`, most significant first, no leading zero (but `0` for `0`) -/
def hexDigits (n : Nat) : Chars :=
  if n < 16 then [hexDigit n] else hexDigits (n / 16) ++ [hexDigit (n % 16)]
termination_by n
decreasing_by omega

theorem hexDigit_facts : ∀ d, d < 16 → hexVal (hexDigit d) = d ∧ isHexDigit (hexDigit d) = true := by decide

theorem hexValue_snoc (ds : Chars) (c : Char) : hexValue (ds ++ [c]) = 16 * hexValue ds + hexVal c := by
  simp [hexValue, List.foldl_append]

theorem hexValue_hexDigits (n : Nat) : hexValue (hexDigits n) = n := by
  induction n using Nat.strongRecOn with
  | _ n ih =>
    rw [hexDigits]
    split
    · rename_i h
      simp [hexValue, (hexDigit_facts n h).1]
    · rename_i h
      rw [hexValue_snoc, ih (n / 16) (by omega), (hexDigit_facts (n % 16) (by omega)).1]
      omega

theorem all_hex_hexDigits (n : Nat) : (hexDigits n).all isHexDigit = true := by
  induction n using Nat.strongRecOn with
  | _ n ih =>
    rw [hexDigits]
    split
    · rename_i h
      simp [(hexDigit_facts n h).2]
    · rename_i h
      simp [List.all_append, ih (n / 16) (by omega), (hexDigit_facts (n % 16) (by omega)).2]

theorem hexDigits_ne_nil (n : Nat) : hexDigits n ≠ [] := by
  rw [hexDigits]
  split <;> simp

theorem hexValue_zeros (k : Nat) (ds : Chars) : hexValue (List.replicate k '0' ++ ds) = hexValue ds := by
  induction k with
  | zero => rfl
  | succ k ih =>
    have h0 : hexVal '0' = 0 := by decide
    simp only [hexValue, List.replicate_succ, List.cons_append, List.foldl_cons, Nat.mul_zero, h0, Nat.add_zero] at ih ⊢
    exact ih

theorem all_hex_zeros (k : Nat) : (List.replicate k '0').all isHexDigit = true := by
  induction k with
  | zero => rfl
  | succ k ih => simp only [List.replicate_succ, List.all_cons, ih, Bool.and_true]; decide

/-- **hexadecimal numerals**: `0x`, any number of leading zeros, the upper-case digits of `n` — the numeral scanner
    (`_dec_or_hex_number`, `int(string, 16)`) reads `n`, whatever follows as long as that is not a further
    hexadecimal digit. -/
theorem number_hexDigits (k n : Nat) (r : Chars) (hr : ∀ c, r.head? = some c → isHexDigit c = false) :
    number ('0' :: 'x' :: (List.replicate k '0' ++ hexDigits n ++ r)) = some (n, r) := by
  have hall : (List.replicate k '0' ++ hexDigits n).all isHexDigit = true := by
    rw [List.all_append, all_hex_zeros, all_hex_hexDigits]; rfl
  obtain ⟨h1, h2⟩ := takeWhile_append_stop isHexDigit (List.replicate k '0' ++ hexDigits n) r hall hr
  have hne : (List.replicate k '0' ++ hexDigits n).isEmpty = false := by
    cases hd : hexDigits n with
    | nil => exact absurd hd (hexDigits_ne_nil n)
    | cons a t => cases k <;> simp [List.replicate_succ]
  have h0 : isWs '0' = false := by decide
  simp only [number, hexNumber, skipWs_cons_of_not_ws '0' _ h0, h1, h2, hne, Bool.false_eq_true, if_false,
    hexValue_zeros, hexValue_hexDigits]

/-! ### decimal numerals with leading zeros -/

theorem decNumber_digits (ds : Chars) (hall : ds.all isDigit = true) (hne : ds ≠ []) (r : Chars)
    (hr : ∀ c, r.head? = some c → isDigit c = false) : decNumber (ds ++ r) = some (decValue ds, r) := by
  obtain ⟨h1, h2⟩ := takeWhile_append_stop isDigit ds r hall hr
  cases ds with
  | nil => exact absurd rfl hne
  | cons a t =>
    have ha : isDigit a = true := by
      simp only [List.all_cons, Bool.and_eq_true] at hall
      exact hall.1
    unfold decNumber
    rw [List.cons_append, skipWs_cons_of_not_ws a _ (not_ws_of_digit ha)]
    rw [List.cons_append] at h1 h2
    simp only [h1, h2, List.isEmpty_cons, Bool.false_eq_true, if_false]

theorem hexNumber_digits_none (ds : Chars) (hall : ds.all isDigit = true) (hne : ds ≠ []) (r : Chars)
    (hr : ∀ c, r.head? = some c → c ≠ 'x') : hexNumber (ds ++ r) = none := by
  cases ds with
  | nil => exact absurd rfl hne
  | cons a t =>
    simp only [List.all_cons, Bool.and_eq_true] at hall
    unfold hexNumber
    rw [List.cons_append, skipWs_cons_of_not_ws a _ (not_ws_of_digit hall.1)]
    cases t with
    | nil =>
      cases r with
      | nil => simp only [List.nil_append]
      | cons d r' =>
        have hdx : d ≠ 'x' := hr d rfl
        simp only [List.nil_append]
        split
        · rename_i heq
          simp only [List.cons.injEq] at heq
          exact absurd heq.2.1 hdx
        · rfl
    | cons d t' =>
      have hd' : isDigit d = true := by
        simp only [List.all_cons, Bool.and_eq_true] at hall
        exact hall.2.1
      have hdx : d ≠ 'x' := by
        intro h; subst h; revert hd'; decide
      simp only [List.cons_append]
      split
      · rename_i heq
        simp only [List.cons.injEq] at heq
        exact absurd heq.2.1 hdx
      · rfl

theorem decValue_zeros (k : Nat) (ds : Chars) : decValue (List.replicate k '0' ++ ds) = decValue ds := by
  induction k with
  | zero => rfl
  | succ k ih =>
    have h0 : digitVal '0' = 0 := by decide
    simp only [decValue, List.replicate_succ, List.cons_append, List.foldl_cons, Nat.mul_zero, h0, Nat.add_zero] at ih ⊢
    exact ih

theorem all_digit_zeros (k : Nat) : (List.replicate k '0').all isDigit = true := by
  induction k with
  | zero => rfl
  | succ k ih => simp only [List.replicate_succ, List.all_cons, ih, Bool.and_true]; decide

/-- **decimal numerals with leading zeros**: any number of zeros followed by the decimal digits of `n` is read as `n`
    (`int(string, 10)`), whatever follows as long as that is neither a digit nor an `x`. -/
theorem number_zeros_repr (k n : Nat) (r : Chars) (hr : ∀ c, r.head? = some c → isDigit c = false ∧ c ≠ 'x') :
    number (List.replicate k '0' ++ (toString n).toList ++ r) = some (n, r) := by
  rw [toString_toList]
  have hall : (List.replicate k '0' ++ Nat.toDigits 10 n).all isDigit = true := by
    rw [List.all_append, all_digit_zeros, all_isDigit_toDigits]; rfl
  have hne : List.replicate k '0' ++ Nat.toDigits 10 n ≠ [] := by
    intro h
    exact Nat.toDigits_ne_nil (List.append_eq_nil_iff.1 h).2
  unfold number
  rw [hexNumber_digits_none _ hall hne r (fun c hc => (hr c hc).2), decNumber_digits _ hall hne r (fun c hc => (hr c hc).1),
    decValue_zeros, decValue_toDigits]

/-- lower-case hexadecimal digits are not part of `HEX_NUMBER`: after `0x` a lower-case letter ends the numeral at
    the `0` (the `x…` that is left makes every line of the grammar fail) -/
theorem number_lowercase_hex (c : Char) (hc : isHexDigit c = false) (r : Chars) :
    number ('0' :: 'x' :: c :: r) = some (0, 'x' :: c :: r) := by
  have h0 : isWs '0' = false := by decide
  have hx : isDigit 'x' = false := by decide
  have hd0 : isDigit '0' = true := by decide
  simp [number, hexNumber, decNumber, skipWs_cons_of_not_ws '0' _ h0, List.takeWhile, List.dropWhile, hc, hx, hd0, decValue,
    digitVal]

end SymbolVerif.Cats.Lexer

/-
What the parser can produce (C04 / C11): whenever a scanner, a line parser or the whole parser succeeds, its result is
well-formed — names in their lexical classes (at least two characters), integer types among the eight supported
ones, known condition operators, known attributes with the right number of arguments. Comments are unconstrained.
-/
import SymbolVerif.Proofs.CatsWF
import SymbolVerif.Proofs.CatsConsume
import SymbolVerif.Model.Cats.Parser
namespace SymbolVerif.Cats.Parser
open SymbolVerif.Cats SymbolVerif.Cats.Lexer
set_option linter.unusedSimpArgs false

/-! ### scanners -/

theorem all_takeWhile (p : Char → Bool) (l : Chars) : (l.takeWhile p).all p = true := by
  induction l with
  | nil => rfl
  | cons a rest ih =>
    simp only [List.takeWhile]
    cases h : p a
    · rfl
    · simp [h, ih]

theorem userTypeName_out (cs : Chars) (n : String) (r : Chars) (h : userTypeName cs = some (n, r)) : IsTypeName n := by
  unfold userTypeName at h
  split at h
  · rename_i a b rest _
    split at h
    · rename_i hab
      simp only [Bool.and_eq_true] at hab
      cases h
      exact ⟨a, b, rest.takeWhile isTypeChar, by simp only [String.toList_ofList]; rfl, hab.1, hab.2, all_takeWhile isTypeChar rest⟩
    · cases h
  · cases h

theorem propertyName_out (cs : Chars) (n : String) (r : Chars) (h : propertyName cs = some (n, r)) : IsPropName n := by
  unfold propertyName at h
  split at h
  · rename_i a rest _
    simp only [] at h
    split at h
    · rename_i hab
      simp only [Bool.and_eq_true, Bool.not_eq_true', List.isEmpty_eq_false_iff_exists_mem] at hab
      cases h
      cases htw : rest.takeWhile (fun c => isLower c || isDigit c || c == '_') with
      | nil => rw [htw] at hab; obtain ⟨_, x, hx⟩ := hab; cases hx
      | cons b bs =>
        have hall := all_takeWhile (fun c => isLower c || isDigit c || c == '_') rest
        rw [htw] at hall
        simp only [List.all_cons, Bool.and_eq_true] at hall
        exact ⟨a, b, bs, by simp [String.toList_ofList], hab.1, hall.1, hall.2⟩
    · cases h
  · cases h

theorem constName_out (cs : Chars) (n : String) (r : Chars) (h : constName cs = some (n, r)) : IsConstantName n := by
  unfold constName at h
  split at h
  · rename_i a rest _
    simp only [] at h
    split at h
    · rename_i hab
      simp only [Bool.and_eq_true, Bool.not_eq_true', List.isEmpty_eq_false_iff_exists_mem] at hab
      cases h
      cases htw : rest.takeWhile (fun c => isUpper c || isDigit c || c == '_') with
      | nil => rw [htw] at hab; obtain ⟨_, x, hx⟩ := hab; cases hx
      | cons b bs =>
        have hall := all_takeWhile (fun c => isUpper c || isDigit c || c == '_') rest
        rw [htw] at hall
        simp only [List.all_cons, Bool.and_eq_true] at hall
        exact ⟨a, b, bs, by simp [String.toList_ofList], hab.1, hall.1, hall.2⟩
    · cases h
  · cases h

/-- only the eight integer types: 1, 2, 4 or 8 bytes -/
theorem fixedSizeInteger_out (cs : Chars) (t : Bool × Nat) (r : Chars) (h : fixedSizeInteger cs = some (t, r)) :
    WFInt (mkInt t) := by
  unfold fixedSizeInteger at h
  simp only [] at h
  split at h
  · cases h
  · split at h
    · cases h; exact ⟨Or.inr (Or.inl rfl), rfl⟩
    · split at h
      · cases h; exact ⟨Or.inr (Or.inr (Or.inl rfl)), rfl⟩
      · split at h
        · cases h; exact ⟨Or.inr (Or.inr (Or.inr rfl)), rfl⟩
        · split at h
          · cases h; exact ⟨Or.inl rfl, rfl⟩
          · cases h

theorem conditionalOperation_out (cs : Chars) (op : String) (r : Chars) (h : conditionalOperation cs = some (op, r)) :
    op ∈ conditionOperations := by
  unfold conditionalOperation at h
  simp only [] at h
  split at h
  · cases h; simp [conditionOperations]
  · split at h
    · cases h; simp [conditionOperations]
    · split at h
      · cases h; simp [conditionOperations]
      · split at h
        · cases h; simp [conditionOperations]
        · cases h

/-! ### types, conditions, constants -/

theorem scanElem_out (cs : Chars) (e : ElemType) (r : Chars) (h : scanElem cs = some (e, r)) : WFElem e := by
  unfold scanElem at h
  split at h
  next t r' hf =>
    cases h
    exact .int _ (fixedSizeInteger_out cs t _ hf)
  next =>
    simp only [Option.map_eq_some_iff] at h
    obtain ⟨⟨n, r'⟩, hu, heq⟩ := h
    cases heq
    exact .named n (userTypeName_out cs n r' hu)

/-- what stands as the size of an array -/
inductive OutSize : Scalar → Prop
  | num (n : Nat) : OutSize (.int n)
  | prop (p : String) : IsPropName p → OutSize (.str p)
  | fill : OutSize (.str fillPlaceholder)

theorem scanSize_out (cs : Chars) (s : Scalar) (r : Chars) (h : scanSize cs = some (s, r)) : OutSize s := by
  unfold scanSize at h
  split at h
  next p r' hp => cases h; exact .prop p (propertyName_out cs p _ hp)
  next =>
    split at h
    next n r' hn => cases h; exact .num n
    next =>
      simp only [Option.map_eq_some_iff] at h
      obtain ⟨r', _, heq⟩ := h
      cases heq
      exact .fill

theorem arrayArguments_out (cs : Chars) (a : ArrayType) (r : Chars) (h : arrayArguments cs = some (a, r)) : WFArray a := by
  simp only [arrayArguments, bind, Option.bind_eq_some_iff] at h
  obtain ⟨r1, _, ⟨e, r2⟩, he, r3, _, ⟨s, r4⟩, hs, r5, _, heq⟩ := h
  cases heq
  have hwe := scanElem_out _ e r2 he
  cases scanSize_out _ s r4 hs with
  | num n => exact .counted e n hwe
  | prop p hp => exact .sized e p hwe hp
  | fill => exact .fill e hwe

theorem plainFieldType_out (cs : Chars) (t : FieldType) (r : Chars) (h : plainFieldType cs = some (t, r)) : WFType t := by
  unfold plainFieldType at h
  split at h
  next it r' hf => cases h; exact .int _ (fixedSizeInteger_out cs it _ hf)
  next =>
    split at h
    next n r' hu => cases h; exact .named n (userTypeName_out cs n _ hu)
    next =>
      simp only [bind, Option.bind_eq_some_iff] at h
      obtain ⟨r1, _, ⟨a, r2⟩, ha, heq⟩ := h
      cases heq
      exact .array a (arrayArguments_out _ a r2 ha)

theorem conditionalExpression_out (cs : Chars) (c : Conditional) (r : Chars) (h : conditionalExpression cs = some (c, r)) :
    WFCond c := by
  simp only [conditionalExpression, bind, Option.bind_eq_some_iff] at h
  obtain ⟨r1, _, ⟨v, r2⟩, hv, ⟨op, r3⟩, hop, ⟨p, r4⟩, hp, heq⟩ := h
  cases heq
  have hop' := conditionalOperation_out _ op r3 hop
  have hp' := propertyName_out _ p r4 hp
  unfold conditionValue at hv
  split at hv
  next cn r' hc => cases hv; exact .const cn op p (constName_out _ cn _ hc) hop' hp'
  next =>
    simp only [Option.map_eq_some_iff] at hv
    obtain ⟨⟨n, r'⟩, _, heq⟩ := hv
    cases heq
    exact .num n op p hop' hp'

theorem optConditionalEol_out (cs : Chars) (v : FieldValue) (h : optConditionalEol cs = some v) : WFValue v := by
  unfold optConditionalEol at h
  split at h
  · cases h; exact .none
  · split at h
    next c r hc =>
      split at h
      · cases h; exact .cond c (conditionalExpression_out cs c r hc)
      · cases h
    next => cases h

theorem plainFieldRest_out (name : String) (cs : Chars) (f : StructField) (h : plainFieldRest name cs = some f) :
    ∃ t v, f = { name := name, fieldType := t, value := v } ∧ WFType t ∧ WFValue v := by
  simp only [plainFieldRest, bind, Option.bind_eq_some_iff] at h
  obtain ⟨⟨t, r⟩, ht, v, hv, heq⟩ := h
  cases heq
  exact ⟨t, v, rfl, plainFieldType_out cs t r ht, optConditionalEol_out r v hv⟩

theorem integerOrEnumConst_out (cs : Chars) (t : FieldType) (v : Scalar) (r : Chars)
    (h : integerOrEnumConst cs = some ((t, v), r)) : WFConstArg t v := by
  unfold integerOrEnumConst at h
  split at h
  next it r' hf =>
    simp only [bind, Option.bind_eq_some_iff] at h
    obtain ⟨r1, _, ⟨n, r2⟩, _, heq⟩ := h
    cases heq
    exact .int _ n (fixedSizeInteger_out cs it r' hf)
  next =>
    simp only [bind, Option.bind_eq_some_iff] at h
    obtain ⟨⟨ty, r1⟩, hty, r2, _, ⟨c, r3⟩, hc, heq⟩ := h
    cases heq
    exact .enum ty c (userTypeName_out cs ty r1 hty) (constName_out _ c r3 hc)

/-! ### attributes -/

theorem moreProperties_out : ∀ (fuel : Nat) (cs : Chars) (vals : List Scalar) (r : Chars),
    moreProperties fuel cs = some (vals, r) → ∃ ps : List String, vals = ps.map Scalar.str ∧ ∀ q ∈ ps, IsPropName q := by
  intro fuel
  induction fuel with
  | zero => intro cs vals r h; simp [moreProperties] at h
  | succ k ih =>
    intro cs vals r h
    unfold moreProperties at h
    split at h
    next => cases h; exact ⟨[], rfl, by intro q hq; cases hq⟩
    next =>
      simp only [bind, Option.bind_eq_some_iff] at h
      obtain ⟨r1, _, ⟨p, r2⟩, hp, ⟨ps, r3⟩, hps, heq⟩ := h
      cases heq
      obtain ⟨qs, rfl, hqs⟩ := ih _ _ _ hps
      refine ⟨p :: qs, rfl, ?_⟩
      intro q hq
      rcases List.mem_cons.1 hq with rfl | hq
      · exact propertyName_out _ _ r2 hp
      · exact hqs q hq

theorem comparerEntry_out (cs : Chars) (vals : List Scalar) (r : Chars) (h : comparerEntry cs = some (vals, r)) :
    ∃ e : String × Bool, vals = comparerValues [e] ∧ IsPropName e.1 := by
  simp only [comparerEntry, bind, Option.bind_eq_some_iff] at h
  obtain ⟨⟨p, r1⟩, hp, h⟩ := h
  have hp' := propertyName_out cs p r1 hp
  split at h
  next =>
    simp only [bind, Option.bind_eq_some_iff] at h
    obtain ⟨r3, _, heq⟩ := h
    cases heq
    exact ⟨(p, true), rfl, hp'⟩
  next => cases h; exact ⟨(p, false), rfl, hp'⟩

theorem comparerValues_append (a b : List (String × Bool)) : comparerValues (a ++ b) = comparerValues a ++ comparerValues b := by
  induction a with
  | nil => rfl
  | cons e rest ih =>
    obtain ⟨p, f⟩ := e
    cases f <;> simp [comparerValues, ih]

theorem moreComparerEntries_out : ∀ (fuel : Nat) (cs : Chars) (vals : List Scalar) (r : Chars),
    moreComparerEntries fuel cs = some (vals, r) →
    ∃ es : List (String × Bool), vals = comparerValues es ∧ ∀ x ∈ es, IsPropName x.1 := by
  intro fuel
  induction fuel with
  | zero => intro cs vals r h; simp [moreComparerEntries] at h
  | succ k ih =>
    intro cs vals r h
    unfold moreComparerEntries at h
    split at h
    next => cases h; exact ⟨[], rfl, by intro q hq; cases hq⟩
    next =>
      simp only [bind, Option.bind_eq_some_iff] at h
      obtain ⟨r1, _, ⟨e, r2⟩, he, ⟨es, r3⟩, hes, heq⟩ := h
      cases heq
      obtain ⟨x, rfl, hx⟩ := comparerEntry_out _ _ _ he
      obtain ⟨xs, rfl, hxs⟩ := ih _ _ _ hes
      refine ⟨x :: xs, by rw [← comparerValues_append]; rfl, ?_⟩
      intro y hy
      rcases List.mem_cons.1 hy with rfl | hy
      · exact hx
      · exact hxs y hy

theorem enumAttribute_out (cs : Chars) (a : Attribute) (h : enumAttribute cs = some a) : WFEnumAttr a := by
  simp only [enumAttribute, bind, Option.bind_eq_some_iff] at h
  obtain ⟨r, _, h⟩ := h
  split at h
  · cases h; exact .bitwise
  · cases h

theorem structAttribute_out (cs : Chars) (a : Attribute) (h : structAttribute cs = some a) : WFStructAttr a := by
  unfold structAttribute at h
  simp only [] at h
  split at h
  next => split at h <;> cases h; exact .sizeImplicit
  next =>
    split at h
    next => split at h <;> cases h; exact .aligned
    next =>
      split at h
      next =>
        simp only [bind, Option.bind_eq_some_iff] at h
        obtain ⟨r1, _, ⟨p, r2⟩, hp, ⟨ps, r3⟩, hps, h⟩ := h
        split at h <;> cases h
        obtain ⟨qs, rfl, hqs⟩ := moreProperties_out _ _ _ _ hps
        exact .discriminator p qs (propertyName_out _ p r2 hp) hqs
      next =>
        split at h
        next =>
          simp only [bind, Option.bind_eq_some_iff] at h
          obtain ⟨r1, _, ⟨p, r2⟩, hp, r3, _, ⟨c, r4⟩, hc, r5, _, h⟩ := h
          split at h <;> cases h
          exact .initializes p c (propertyName_out _ p r2 hp) (constName_out _ c r4 hc)
        next =>
          split at h
          next =>
            simp only [bind, Option.bind_eq_some_iff] at h
            obtain ⟨r1, _, ⟨e, r2⟩, he, ⟨es, r3⟩, hes, h⟩ := h
            split at h <;> cases h
            obtain ⟨x, rfl, hx⟩ := comparerEntry_out _ _ _ he
            obtain ⟨xs, rfl, hxs⟩ := moreComparerEntries_out _ _ _ _ hes
            have : comparerValues [x] ++ comparerValues xs = comparerValues (x :: xs) := by
              rw [← comparerValues_append]; rfl
            rw [this]
            exact .comparer x xs hx hxs
          next =>
            split at h
            next =>
              simp only [bind, Option.bind_eq_some_iff] at h
              obtain ⟨r1, _, ⟨p, r2⟩, hp, r3, _, h⟩ := h
              split at h <;> cases h
              exact .size p (propertyName_out _ p r2 hp)
            next => cases h

theorem fieldAttribute_out (cs : Chars) (a : Attribute) (h : fieldAttribute cs = some a) : WFFieldAttr a := by
  unfold fieldAttribute at h
  simp only [] at h
  split at h
  next => split at h <;> cases h; exact .byteConstrained
  next =>
    split at h
    next =>
      simp only [bind, Option.bind_eq_some_iff] at h
      obtain ⟨r1, _, ⟨n, r2⟩, _, h⟩ := h
      split at h
      next =>
        split at h
        next =>
          simp only [bind, Option.bind_eq_some_iff] at h
          obtain ⟨r4, _, h⟩ := h
          split at h <;> cases h
          exact .alignmentPadLast n
        next =>
          simp only [bind, Option.bind_eq_some_iff] at h
          obtain ⟨r4, _, r5, _, r6, _, h⟩ := h
          split at h <;> cases h
          exact .alignmentNotPadLast n
      next =>
        simp only [bind, Option.bind_eq_some_iff] at h
        obtain ⟨r4, _, h⟩ := h
        split at h <;> cases h
        exact .alignment n
    next =>
      split at h
      next =>
        simp only [bind, Option.bind_eq_some_iff] at h
        obtain ⟨r1, _, ⟨p, r2⟩, hp, r3, _, h⟩ := h
        split at h <;> cases h
        exact .sortKey p (propertyName_out _ p r2 hp)
      next =>
        split at h
        next =>
          simp only [bind, Option.bind_eq_some_iff] at h
          obtain ⟨r1, _, ⟨p, r2⟩, hp, h⟩ := h
          have hp' := propertyName_out _ p r2 hp
          split at h
          next =>
            simp only [bind, Option.bind_eq_some_iff] at h
            obtain ⟨⟨n, r4⟩, _, r5, _, h⟩ := h
            split at h <;> cases h
            exact .sizerefDelta p n hp'
          next =>
            simp only [bind, Option.bind_eq_some_iff] at h
            obtain ⟨r4, _, h⟩ := h
            split at h <;> cases h
            exact .sizeref p hp'
        next => cases h

/-! ### line parsers -/

theorem parseEnumLine_out (cs : Chars) (v : EnumValue) (h : parseEnumLine cs = some v) : WFEnumValue v := by
  simp only [parseEnumLine, bind, Option.bind_eq_some_iff] at h
  obtain ⟨⟨n, r1⟩, hn, r2, _, ⟨x, r3⟩, _, h⟩ := h
  split at h <;> cases h
  exact .mk n x (constName_out cs n r1 hn)

/-- what a line of a struct body can be read as -/
inductive OutStructLine : Bool → StructLine → Prop
  | attr (b : Bool) (a : Attribute) : WFFieldAttr a → OutStructLine b (.attr a)
  | member (m : Member) : WFMember m → OutStructLine false (.member m)
  | plainAfter (name : String) (t : FieldType) (v : FieldValue) : IsPropName name → WFType t → WFValue v →
      OutStructLine true (.member (.field { name := name, fieldType := t, value := v }))
  | valueAfter (t : FieldType) (v : FieldValue) : WFType t → WFValue v →
      OutStructLine true (.member (.field { name := "__value__", fieldType := t, value := v }))

theorem plainMemberRest_out (name : String) (cs : Chars) (sl : StructLine) (h : plainMemberRest name cs = some sl) :
    ∃ t v, sl = .member (.field { name := name, fieldType := t, value := v }) ∧ WFType t ∧ WFValue v := by
  simp only [plainMemberRest, bind, Option.bind_eq_some_iff, Option.map_eq_some_iff] at h
  obtain ⟨r1, _, f, hf, heq⟩ := h
  cases heq
  obtain ⟨t, v, rfl, ht, hv⟩ := plainFieldRest_out name r1 f hf
  exact ⟨t, v, rfl, ht, hv⟩

theorem memberAfterEquals_out (name : String) (hn : IsMemberName name) (cs : Chars) (sl : StructLine)
    (h : memberAfterEquals name cs = some sl) : ∃ m, sl = .member m ∧ WFMember m := by
  unfold memberAfterEquals at h
  split at h
  next =>
    simp only [bind, Option.bind_eq_some_iff] at h
    obtain ⟨r1, _, ⟨⟨t, v⟩, r2⟩, hc, r3, _, h⟩ := h
    split at h <;> cases h
    exact ⟨_, rfl, .reserved name t v hn (integerOrEnumConst_out _ t v r2 hc)⟩
  next =>
    split at h
    next =>
      simp only [bind, Option.bind_eq_some_iff] at h
      obtain ⟨r1, _, ⟨t, r2⟩, ht, r3, _, ⟨p, r4⟩, hp, r5, _, h⟩ := h
      split at h <;> cases h
      exact ⟨_, rfl, .sizeof name _ p hn (fixedSizeInteger_out _ t r2 ht) (propertyName_out _ p r4 hp)⟩
    next =>
      split at h
      next =>
        simp only [bind, Option.bind_eq_some_iff] at h
        obtain ⟨⟨t, r2⟩, ht, h⟩ := h
        split at h <;> cases h
        exact ⟨_, rfl, .namedInline name t hn (userTypeName_out _ t r2 ht)⟩
      next =>
        simp only [Option.map_eq_some_iff] at h
        obtain ⟨f, hf, heq⟩ := h
        cases heq
        obtain ⟨t, v, rfl, ht, hv⟩ := plainFieldRest_out name _ f hf
        exact ⟨_, rfl, .plain name t v hn ht hv⟩

theorem parseStructLine_out (b : Bool) (cs : Chars) (sl : StructLine) (h : parseStructLine b cs = some sl) :
    OutStructLine b sl := by
  unfold parseStructLine at h
  cases b
  · simp only [Bool.false_eq_true, if_false] at h
    split at h
    next n r hn =>
      simp only [constMemberRest, bind, Option.bind_eq_some_iff] at h
      obtain ⟨r1, _, r2, _, r3, _, ⟨⟨t, v⟩, r4⟩, hc, r5, _, h⟩ := h
      split at h <;> cases h
      exact .member _ (.const n t v (constName_out cs n r hn) (integerOrEnumConst_out _ t v r4 hc))
    next =>
      split at h
      next n r hn =>
        have hprop := propertyName_out cs n r hn
        split at h
        next hinl =>
          simp only [unnamedInlineRest, bind, Option.bind_eq_some_iff] at h
          obtain ⟨⟨t, r2⟩, ht, h⟩ := h
          split at h <;> cases h
          exact .member _ (.unnamedInline t (userTypeName_out _ t r2 ht))
        next hinl =>
          simp only [bind, Option.bind_eq_some_iff] at h
          obtain ⟨r1, _, h⟩ := h
          obtain ⟨m, rfl, hm⟩ := memberAfterEquals_out n ⟨hprop, hinl⟩ r1 sl h
          exact .member m hm
      next =>
        split at h
        next r hr =>
          obtain ⟨t, v, rfl, ht, hv⟩ := plainMemberRest_out "__value__" r sl h
          exact .member _ (.valuePlaceholder t v ht hv)
        next =>
          simp only [bind, Option.bind_eq_some_iff, Option.map_eq_some_iff] at h
          obtain ⟨r1, _, a, ha, heq⟩ := h
          cases heq
          exact .attr false a (fieldAttribute_out r1 a ha)
  · simp only [if_true] at h
    split at h
    next n r hn =>
      obtain ⟨t, v, rfl, ht, hv⟩ := plainMemberRest_out n r sl h
      exact .plainAfter n t v (propertyName_out cs n r hn) ht hv
    next =>
      split at h
      next r hr =>
        obtain ⟨t, v, rfl, ht, hv⟩ := plainMemberRest_out "__value__" r sl h
        exact .valueAfter t v ht hv
      next =>
        simp only [bind, Option.bind_eq_some_iff, Option.map_eq_some_iff] at h
        obtain ⟨r1, _, a, ha, heq⟩ := h
        cases heq
        exact .attr true a (fieldAttribute_out r1 a ha)

theorem structModifier_out (cs : Chars) (m : String) (r : Chars) (h : structModifier cs = some (m, r)) :
    some m ∈ structDispositions := by
  unfold structModifier at h
  simp only [] at h
  split at h
  · cases h; simp [structDispositions]
  · split at h
    · cases h; simp [structDispositions]
    · cases h

/-- what a top-level line can be read as, given the attribute lines before it -/
inductive OutTopLine : TopMode → TopLine → Prop
  | import (p : String) : OutTopLine .start (.import p)
  | alias (n : String) (lt : LinkedType) : WFAlias ⟨n, lt, none⟩ → OutTopLine .start (.alias n lt)
  | enumAttr (m : TopMode) (a : Attribute) : m ≠ .afterStructAttrs → WFEnumAttr a → OutTopLine m (.enumAttr a)
  | structAttr (m : TopMode) (a : Attribute) : m ≠ .afterEnumAttrs → WFStructAttr a → OutTopLine m (.structAttr a)
  | enumHeader (m : TopMode) (n : String) (b : IntType) : m ≠ .afterStructAttrs → IsTypeName n → WFInt b →
      OutTopLine m (.enumHeader n b)
  | structHeader (m : TopMode) (d : Option String) (n : String) : m ≠ .afterEnumAttrs → d ∈ structDispositions →
      IsTypeName n → OutTopLine m (.structHeader d n)

theorem structHeaderRest_out (d : Option String) (cs : Chars) (l : TopLine) (h : structHeaderRest d cs = some l) :
    ∃ n, l = .structHeader d n ∧ IsTypeName n := by
  simp only [structHeaderRest, bind, Option.bind_eq_some_iff] at h
  obtain ⟨r1, _, ⟨n, r2⟩, hn, h⟩ := h
  split at h <;> cases h
  exact ⟨n, rfl, userTypeName_out _ n r2 hn⟩

theorem enumHeaderRest_out (cs : Chars) (l : TopLine) (h : enumHeaderRest cs = some l) :
    ∃ n b, l = .enumHeader n b ∧ IsTypeName n ∧ WFInt b := by
  simp only [enumHeaderRest, bind, Option.bind_eq_some_iff] at h
  obtain ⟨⟨n, r1⟩, hn, r2, _, ⟨t, r3⟩, ht, h⟩ := h
  split at h <;> cases h
  exact ⟨n, _, rfl, userTypeName_out _ n r1 hn, fixedSizeInteger_out _ t r3 ht⟩

theorem aliasRest_out (cs : Chars) (l : TopLine) (h : aliasRest cs = some l) :
    ∃ n lt, l = .alias n lt ∧ WFAlias ⟨n, lt, none⟩ := by
  simp only [aliasRest, bind, Option.bind_eq_some_iff] at h
  obtain ⟨⟨n, r1⟩, hn, r2, _, h⟩ := h
  have hn' := userTypeName_out _ n r1 hn
  split at h
  next t r3 ht =>
    split at h <;> cases h
    exact ⟨n, _, rfl, hn', fixedSizeInteger_out _ t r3 ht⟩
  next =>
    simp only [bind, Option.bind_eq_some_iff] at h
    obtain ⟨r3, _, r4, _, ⟨size, r5⟩, _, r6, _, h⟩ := h
    split at h <;> cases h
    exact ⟨n, _, rfl, hn', trivial⟩

theorem parseTopLine_out (mode : TopMode) (cs : Chars) (l : TopLine) (h : parseTopLine mode cs = some l) : OutTopLine mode l := by
  unfold parseTopLine at h
  cases mode with
  | start =>
    simp only at h
    split at h
    next m r hm =>
      obtain ⟨n, rfl, hn⟩ := structHeaderRest_out _ r l h
      exact .structHeader _ _ n (by simp) (structModifier_out cs m r hm) hn
    next =>
      split at h
      next r hr =>
        simp only [bind, Option.bind_eq_some_iff] at h
        obtain ⟨⟨s, r2⟩, _, h⟩ := h
        split at h <;> cases h
        exact .import s
      next =>
        split at h
        next r hr =>
          obtain ⟨n, rfl, hn⟩ := structHeaderRest_out _ cs l h
          exact .structHeader _ _ n (by simp) (by simp [structDispositions]) hn
        next =>
          split at h
          next r hr =>
            obtain ⟨n, lt, rfl, hw⟩ := aliasRest_out r l h
            exact .alias n lt hw
          next =>
            split at h
            next r hr =>
              obtain ⟨n, b, rfl, hn, hb⟩ := enumHeaderRest_out r l h
              exact .enumHeader _ n b (by simp) hn hb
            next =>
              simp only [bind, Option.bind_eq_some_iff] at h
              obtain ⟨r1, _, h⟩ := h
              split at h
              next a ha => cases h; exact .structAttr _ a (by simp) (structAttribute_out r1 a ha)
              next =>
                simp only [Option.map_eq_some_iff] at h
                obtain ⟨a, ha, heq⟩ := h
                cases heq
                exact .enumAttr _ a (by simp) (enumAttribute_out r1 a ha)
  | afterEnumAttrs =>
    simp only at h
    split at h
    next r hr =>
      obtain ⟨n, b, rfl, hn, hb⟩ := enumHeaderRest_out r l h
      exact .enumHeader _ n b (by simp) hn hb
    next =>
      simp only [bind, Option.bind_eq_some_iff, Option.map_eq_some_iff] at h
      obtain ⟨r1, _, a, ha, heq⟩ := h
      cases heq
      exact .enumAttr _ a (by simp) (enumAttribute_out r1 a ha)
  | afterStructAttrs =>
    simp only at h
    split at h
    next m r hm =>
      obtain ⟨n, rfl, hn⟩ := structHeaderRest_out _ r l h
      exact .structHeader _ _ n (by simp) (structModifier_out cs m r hm) hn
    next =>
      split at h
      next r hr =>
        obtain ⟨n, rfl, hn⟩ := structHeaderRest_out _ cs l h
        exact .structHeader _ _ n (by simp) (by simp [structDispositions]) hn
      next =>
        simp only [bind, Option.bind_eq_some_iff, Option.map_eq_some_iff] at h
        obtain ⟨r1, _, a, ha, heq⟩ := h
        cases heq
        exact .structAttr _ a (by simp) (structAttribute_out r1 a ha)

/-! ### what the loops produce -/

theorem wfComment_commentOf (l : LLine) : WFComment (some (commentOf l)) := by
  intro x hx
  cases hx
  exact Comment.normalComment_ofString _

theorem enumLoop_out : ∀ (lines : List LLine) (pending : Option Comment) (acc vs : List EnumValue),
    enumLoop lines pending acc = .ok vs → WFComment pending → (∀ v ∈ acc, WFEnumValueC v) → ∀ v ∈ vs, WFEnumValueC v := by
  intro lines
  induction lines with
  | nil =>
    intro pending acc vs h _ hacc v hv
    simp only [enumLoop] at h
    cases h
    exact hacc v (List.mem_reverse.1 hv)
  | cons l rest ih =>
    intro pending acc vs h hpend hacc
    unfold enumLoop at h
    cases hk : l.kind with
    | comment => simp only [hk] at h; exact ih _ _ _ h (wfComment_commentOf l) hacc
    | code =>
      simp only [hk] at h
      cases hp : parseEnumLine l.text with
      | none => simp [hp] at h
      | some v =>
        simp only [hp] at h
        refine ih _ _ _ h wfComment_none ?_
        intro x hx
        rcases List.mem_cons.1 hx with rfl | hx
        · exact .mk v pending (parseEnumLine_out _ v hp) hpend
        · exact hacc x hx

/-- the attribute lines read for the next member: none, or a non-empty list of member attributes -/
def PendingFieldAttrs (attrs : Option (List Attribute)) : Prop := WFAttrs WFFieldAttr attrs

theorem wfAttrs_snoc {P : Attribute → Prop} (attrs : Option (List Attribute)) (a : Attribute) (h : WFAttrs P attrs) (ha : P a) :
    WFAttrs P (some (attrs.getD [] ++ [a])) := by
  cases h with
  | none => exact .some a [] (by intro x hx; simp only [List.mem_singleton] at hx; subst hx; exact ha)
  | some b bs hall =>
    simp only [Option.getD_some, List.cons_append]
    refine .some b (bs ++ [a]) ?_
    intro x hx
    simp only [List.mem_cons, List.mem_append, List.mem_singleton, List.not_mem_nil, or_false] at hx
    rcases hx with rfl | hx | rfl
    · exact hall _ List.mem_cons_self
    · exact hall x (List.mem_cons_of_mem _ hx)
    · exact ha

theorem structLoop_out : ∀ (lines : List LLine) (pending : Option Comment) (attrs : Option (List Attribute))
    (acc ms : List Member), structLoop lines pending attrs acc = .ok ms → PendingFieldAttrs attrs → WFComment pending →
    (∀ m ∈ acc, WFMemberC m) → ∀ m ∈ ms, WFMemberC m := by
  intro lines
  induction lines with
  | nil =>
    intro pending attrs acc ms h _ _ hacc m hm
    cases attrs with
    | none => simp only [structLoop] at h; cases h; exact hacc m (List.mem_reverse.1 hm)
    | some l => simp [structLoop] at h
  | cons l rest ih =>
    intro pending attrs acc ms h hattrs hpend hacc
    unfold structLoop at h
    cases hk : l.kind with
    | comment =>
      simp only [hk] at h
      cases attrs with
      | none => exact ih _ _ _ _ h .none (wfComment_commentOf l) hacc
      | some x => simp at h
    | code =>
      simp only [hk] at h
      cases hp : parseStructLine attrs.isSome l.text with
      | none => simp [hp] at h
      | some sl =>
        simp only [hp] at h
        have hout := parseStructLine_out _ _ sl hp
        have hstep : ∀ m, WFMemberC m → ∀ x ∈ m :: acc, WFMemberC x := by
          intro m hm x hx
          rcases List.mem_cons.1 hx with rfl | hx
          · exact hm
          · exact hacc x hx
        cases hattrs with
        | none =>
          simp only [Option.isSome_none] at hout
          cases hout with
          | attr b a ha => exact ih _ _ _ _ h (wfAttrs_snoc none a .none ha) hpend hacc
          | member m hm =>
            cases hm with
            | unnamedInline ty hty =>
              exact ih _ _ _ _ h .none wfComment_none (hstep _ (.mk (.inlinePlaceholder ty none) pending (.bare _ (.unnamedInline ty hty)) hpend))
            | plain name t v hn ht hv =>
              exact ih _ _ _ _ h .none wfComment_none (hstep _ (.mk (.field { name := name, fieldType := t, value := v }) pending
                (.bare _ (.plain name t v hn ht hv)) hpend))
            | valuePlaceholder t v ht hv =>
              exact ih _ _ _ _ h .none wfComment_none (hstep _ (.mk (.field { name := "__value__", fieldType := t, value := v }) pending
                (.bare _ (.valuePlaceholder t v ht hv)) hpend))
            | const name t v hn ha =>
              exact ih _ _ _ _ h .none wfComment_none (hstep _ (.mk
                (.field { name := name, fieldType := t, value := .scalar v, disposition := some "const" }) pending
                (.bare _ (.const name t v hn ha)) hpend))
            | reserved name t v hn ha =>
              exact ih _ _ _ _ h .none wfComment_none (hstep _ (.mk
                (.field { name := name, fieldType := t, value := .scalar v, disposition := some "reserved" }) pending
                (.bare _ (.reserved name t v hn ha)) hpend))
            | sizeof name t p hn ht hp' =>
              exact ih _ _ _ _ h .none wfComment_none (hstep _ (.mk
                (.field { name := name, fieldType := .int t, value := .scalar (.str p), disposition := some "sizeof" }) pending
                (.bare _ (.sizeof name t p hn ht hp')) hpend))
            | namedInline name ty hn hty =>
              exact ih _ _ _ _ h .none wfComment_none (hstep _ (.mk
                (.field { name := name, fieldType := .named ty, disposition := some "inline" }) pending
                (.bare _ (.namedInline name ty hn hty)) hpend))
        | some a as hall =>
          simp only [Option.isSome_some] at hout
          cases hout with
          | attr b a' ha => exact ih _ _ _ _ h (wfAttrs_snoc (some (a :: as)) a' (.some a as hall) ha) hpend hacc
          | plainAfter name t v hn ht hv =>
            exact ih _ _ _ _ h .none wfComment_none (hstep _ (.mk
              (.field { name := name, fieldType := t, value := v, attributes := some (a :: as) }) pending
              (.plain name t v a as hn ht hv hall) hpend))
          | valueAfter t v ht hv =>
            exact ih _ _ _ _ h .none wfComment_none (hstep _ (.mk
              (.field { name := "__value__", fieldType := t, value := v, attributes := some (a :: as) }) pending
              (.valuePlaceholder t v a as ht hv hall) hpend))

/-! ### what the statement loop produces -/

/-- a declaration as the parser produces it (a struct may be member-less; every comment is in normal form) -/
inductive OutDecl : Decl → Prop
  | alias (a : Alias) : WFAlias a → WFComment a.comment → OutDecl (.alias a)
  | enum (name : String) (base : IntType) (values : List EnumValue) (attrs : Option (List Attribute)) (c : Option Comment) :
      IsTypeName name → WFInt base → (∀ v ∈ values, WFEnumValueC v) → WFAttrs WFEnumAttr attrs → WFComment c →
      OutDecl (.enum { name := name, base := base, values := values, attributes := attrs, comment := c })
  | struct (d : Option String) (name : String) (fields : List Member) (attrs : Option (List Attribute)) (c : Option Comment) :
      d ∈ structDispositions → IsTypeName name → (∀ m ∈ fields, WFMemberC m) → WFAttrs WFStructAttr attrs → WFComment c →
      OutDecl (.struct { disposition := d, name := name, fields := fields, attributes := attrs, comment := c })

def OutItem : Item → Prop
  | .decl d => OutDecl d
  | _ => True

/-- the attribute lines read so far are of the kind the flag says -/
def TopInv (st : TopState) : Prop :=
  WFComment st.pending ∧ match st.attrs with
  | none => True
  | some (true, l) => WFAttrs WFEnumAttr (some l)
  | some (false, l) => WFAttrs WFStructAttr (some l)

theorem topInv_fresh : TopInv {} := ⟨wfComment_none, trivial⟩

theorem topInv_enum_attrs (st : TopState) (h : TopInv st) (hm : st.mode ≠ .afterStructAttrs) :
    WFAttrs WFEnumAttr (st.attrs.map (·.2)) := by
  replace h := h.2
  unfold TopState.mode at hm
  cases hs : st.attrs with
  | none => exact .none
  | some x =>
    obtain ⟨b, l⟩ := x
    rw [hs] at h hm
    cases b
    · simp at hm
    · exact h

theorem topInv_struct_attrs (st : TopState) (h : TopInv st) (hm : st.mode ≠ .afterEnumAttrs) :
    WFAttrs WFStructAttr (st.attrs.map (·.2)) := by
  replace h := h.2
  unfold TopState.mode at hm
  cases hs : st.attrs with
  | none => exact .none
  | some x =>
    obtain ⟨b, l⟩ := x
    rw [hs] at h hm
    cases b
    · exact h
    · simp at hm

theorem flushComment_out (pending : Option Comment) (acc : List Item) (h : ∀ i ∈ acc, OutItem i) :
    ∀ i ∈ flushComment pending acc, OutItem i := by
  intro i hi
  cases pending with
  | none => exact h i hi
  | some c =>
    simp only [flushComment, List.mem_cons] at hi
    rcases hi with rfl | hi
    · trivial
    · exact h i hi

theorem cons_out (x : Item) (acc : List Item) (hx : OutItem x) (h : ∀ i ∈ acc, OutItem i) : ∀ i ∈ x :: acc, OutItem i := by
  intro i hi
  rcases List.mem_cons.1 hi with rfl | hi
  · exact hx
  · exact h i hi

theorem topLoop_out : ∀ (bs : List Block) (st : TopState) (acc items : List Item), topLoop bs st acc = .ok items →
    TopInv st → (∀ i ∈ acc, OutItem i) → ∀ i ∈ items, OutItem i := by
  intro bs
  induction bs with
  | nil =>
    intro st acc items h _ hacc i hi
    unfold topLoop at h
    cases hs : st.attrs with
    | some x => simp [hs] at h
    | none =>
      simp only [hs] at h
      cases h
      exact flushComment_out _ _ hacc i (List.mem_reverse.1 hi)
  | cons b rest ih =>
    intro st acc items h hinv hacc
    unfold topLoop at h
    simp only at h
    cases hk : b.head.kind with
    | comment =>
      simp only [hk] at h
      cases hs : st.attrs with
      | some x => simp [hs] at h
      | none =>
        cases hb : b.body with
        | some x => simp [hs, hb] at h
        | none =>
          simp only [hs, hb] at h
          exact ih _ _ _ h ⟨wfComment_commentOf _, trivial⟩ (flushComment_out _ _ hacc)
    | code =>
      simp only [hk] at h
      cases hp : parseTopLine st.mode b.head.text with
      | none => simp [hp] at h
      | some line =>
        simp only [hp] at h
        have hout := parseTopLine_out _ _ line hp
        generalize hmode : st.mode = mode at hout
        cases line with
        | «import» p =>
          cases hb : b.body with
          | some x => simp [hb] at h
          | none =>
            simp only [hb] at h
            exact ih _ _ _ h topInv_fresh (cons_out _ _ trivial (flushComment_out _ _ hacc))
        | alias n lt =>
          cases hb : b.body with
          | some x => simp [hb] at h
          | none =>
            simp only [hb] at h
            refine ih _ _ _ h topInv_fresh (cons_out _ _ ?_ hacc)
            cases hout with
            | alias _ _ hw => exact .alias _ hw hinv.1
        | enumAttr a =>
          cases hb : b.body with
          | some x => simp [hb] at h
          | none =>
            simp only [hb] at h
            refine ih _ _ _ h ?_ hacc
            cases hout with
            | enumAttr _ _ hm ha =>
              have := wfAttrs_snoc _ a (topInv_enum_attrs st hinv (hmode ▸ hm)) ha
              exact ⟨hinv.1, this⟩
        | structAttr a =>
          cases hb : b.body with
          | some x => simp [hb] at h
          | none =>
            simp only [hb] at h
            refine ih _ _ _ h ?_ hacc
            cases hout with
            | structAttr _ _ hm ha =>
              have := wfAttrs_snoc _ a (topInv_struct_attrs st hinv (hmode ▸ hm)) ha
              exact ⟨hinv.1, this⟩
        | enumHeader n base =>
          simp only at h
          cases he : enumLoop (b.body.getD []) none [] with
          | error e => simp [he] at h
          | ok values =>
            simp only [he] at h
            refine ih _ _ _ h topInv_fresh (cons_out _ _ ?_ hacc)
            cases hout with
            | enumHeader _ _ _ hm hn hb' =>
              exact .enum n base values _ _ hn hb' (enumLoop_out _ _ _ _ he wfComment_none (by intro v hv; cases hv))
                (topInv_enum_attrs st hinv (hmode ▸ hm)) hinv.1
        | structHeader d n =>
          cases hb : b.body with
          | none => simp [hb] at h
          | some body =>
            simp only [hb] at h
            cases hs : structLoop body none none [] with
            | error e => simp [hs] at h
            | ok members =>
              simp only [hs] at h
              refine ih _ _ _ h topInv_fresh (cons_out _ _ ?_ hacc)
              cases hout with
              | structHeader _ _ _ hm hd hn =>
                exact .struct d n members _ _ hd hn (structLoop_out _ _ _ _ _ hs .none wfComment_none (by intro m hm'; cases hm'))
                  (topInv_struct_attrs st hinv (hmode ▸ hm)) hinv.1

/-- Everything the parser returns is well-formed: for EVERY document, each declaration of a successful parse has
    its names in their lexical classes, supported integer types, known operators, known attributes of the right
    arity. -/
theorem parse_out (doc : Chars) (ds : Schema) (h : parse doc = .ok ds) : ∀ d ∈ ds, OutDecl d := by
  unfold parse at h
  cases hi : parseItems doc with
  | error e => rw [hi] at h; cases h
  | ok items =>
    rw [hi] at h
    simp only [Except.map] at h
    cases h
    unfold parseItems at hi
    simp only [bind, Except.bind] at hi
    cases hl : liftLex (logicalLines doc) with
    | error e => simp [hl] at hi
    | ok r =>
      obtain ⟨ls, eof⟩ := r
      simp only [hl] at hi
      cases hev : liftLex (events ls eof) with
      | error e => simp [hev] at hi
      | ok evs =>
        simp only [hev] at hi
        cases hb : groupBlocks evs (.top []) with
        | error e => simp [hb] at hi
        | ok blocks =>
          simp only [hb] at hi
          cases ht : topLoop blocks {} [] with
          | error e => simp [ht] at hi
          | ok items' =>
            simp only [ht] at hi
            cases hi
            have hall := topLoop_out blocks {} [] _ ht topInv_fresh (by intro i hi; cases hi)
            intro d hd
            simp only [declsOf, List.mem_filterMap] at hd
            obtain ⟨i, hi, hd⟩ := hd
            cases i with
            | decl d' => simp only [Option.some.injEq] at hd; subst hd; exact hall _ hi
            | «import» p => cases hd
            | comment c => cases hd

/-! ### from the parser's output back to the printable declarations -/

/-- no comment anywhere in the declaration -/
def NoComments : Decl → Prop
  | .alias a => a.comment = none
  | .enum e => e.comment = none ∧ ∀ v ∈ e.values, v.comment = none
  | .struct s => s.comment = none ∧ ∀ m ∈ s.fields, memberComment m = none

/-- a struct has at least one member -/
def HasMembers : Decl → Prop
  | .struct s => s.fields ≠ []
  | _ => True

theorem wfMemberA_of_out (m : Member) (h : WFMemberC m) (hc : memberComment m = none) : WFMemberA m := by
  cases h with
  | mk m0 c hw =>
    rw [memberComment_set] at hc
    subst hc
    rw [setMemberComment_none m0 (wfMemberA_comment m0 hw)]
    exact hw

theorem wfEnumValue_of_out (v : EnumValue) (h : WFEnumValueC v) (hc : v.comment = none) : WFEnumValue v := by
  cases h with
  | mk v0 c hw =>
    simp only at hc
    subst hc
    cases hw
    exact .mk _ _ (by assumption)

/-- a parsed declaration without comments (and, for a struct, with at least one member) is printable -/
theorem wfDeclA_of_out (d : Decl) (h : OutDecl d) (hc : NoComments d) (hm : HasMembers d) : WFDeclA d := by
  cases h with
  | alias a ha => exact .alias a ha hc
  | «enum» name base values attrs c hn hb hv hattrs =>
    obtain ⟨hc1, hc2⟩ := hc
    simp only at hc1
    subst hc1
    exact .enum _ (.mk name base values attrs hn hb (fun v hv' => wfEnumValue_of_out v (hv v hv') (hc2 v hv')) hattrs)
  | struct dsp name fields attrs c hd hn hf hattrs =>
    obtain ⟨hc1, hc2⟩ := hc
    simp only at hc1
    subst hc1
    exact .struct _ (.mk dsp name fields attrs hd hn hm (fun m hm' => wfMemberA_of_out m (hf m hm') (hc2 m hm')) hattrs)

/-- a parsed declaration (for a struct: with at least one member) is printable, comments included -/
theorem wfDeclC_of_out (d : Decl) (h : OutDecl d) (hm : HasMembers d) : WFDeclC d := by
  cases h with
  | alias a ha hc => exact .alias a ha hc
  | «enum» name base values attrs c hn hb hv hattrs hc => exact .enum name base values attrs c hn hb hv hattrs hc
  | struct dsp name fields attrs c hd hn hf hattrs hc => exact .struct dsp name fields attrs c hd hn hm hf hattrs hc

end SymbolVerif.Cats.Parser

/-
What the parser can produce (C04 / C11): whenever a scanner, a line parser or the whole parser succeeds, its result is
well-formed — names in their lexical classes (at least two characters), integer types among the eight supported
ones, known condition operators, known attributes with the right number of arguments. Comments are unconstrained.
-/
import SymbolVerif.Proofs.CatsWF
import SymbolVerif.Proofs.CatsConsume
import SymbolVerif.Model.Cats.Parser
namespace SymbolVerif.Cats.Parser
open SymbolVerif.Cats SymbolVerif.Cats.Lexer
set_option linter.unusedSimpArgs false

/-! ### scanners -/

theorem all_takeWhile (p : Char → Bool) (l : Chars) : (l.takeWhile p).all p = true := by
  induction l with
  | nil => rfl
  | cons a rest ih =>
    simp only [List.takeWhile]
    cases h : p a
    · rfl
    · simp [h, ih]

theorem userTypeName_out (cs : Chars) (n : String) (r : Chars) (h : userTypeName cs = some (n, r)) : IsTypeName n := by
  unfold userTypeName at h
  split at h
  · rename_i a b rest _
    split at h
    · rename_i hab
      simp only [Bool.and_eq_true] at hab
      cases h
      exact ⟨a, b, rest.takeWhile isTypeChar, by simp only [String.toList_ofList]; rfl, hab.1, hab.2, all_takeWhile isTypeChar rest⟩
    · cases h
  · cases h

theorem propertyName_out (cs : Chars) (n : String) (r : Chars) (h : propertyName cs = some (n, r)) : IsPropName n := by
  unfold propertyName at h
  split at h
  · rename_i a rest _
    simp only [] at h
    split at h
    · rename_i hab
      simp only [Bool.and_eq_true, Bool.not_eq_true', List.isEmpty_eq_false_iff_exists_mem] at hab
      cases h
      cases htw : rest.takeWhile (fun c => isLower c || isDigit c || c == '_') with
      | nil => rw [htw] at hab; obtain ⟨_, x, hx⟩ := hab; cases hx
      | cons b bs =>
        have hall := all_takeWhile (fun c => isLower c || isDigit c || c == '_') rest
        rw [htw] at hall
        simp only [List.all_cons, Bool.and_eq_true] at hall
        exact ⟨a, b, bs, by simp [String.toList_ofList], hab.1, hall.1, hall.2⟩
    · cases h
  · cases h

theorem constName_out (cs : Chars) (n : String) (r : Chars) (h : constName cs = some (n, r)) : IsConstantName n := by
  unfold constName at h
  split at h
  · rename_i a rest _
    simp only [] at h
    split at h
    · rename_i hab
      simp only [Bool.and_eq_true, Bool.not_eq_true', List.isEmpty_eq_false_iff_exists_mem] at hab
      cases h
      cases htw : rest.takeWhile (fun c => isUpper c || isDigit c || c == '_') with
      | nil => rw [htw] at hab; obtain ⟨_, x, hx⟩ := hab; cases hx
      | cons b bs =>
        have hall := all_takeWhile (fun c => isUpper c || isDigit c || c == '_') rest
        rw [htw] at hall
        simp only [List.all_cons, Bool.and_eq_true] at hall
        exact ⟨a, b, bs, by simp [String.toList_ofList], hab.1, hall.1, hall.2⟩
    · cases h
  · cases h

/-- only the eight integer types: 1, 2, 4 or 8 bytes -/
theorem fixedSizeInteger_out (cs : Chars) (t : Bool × Nat) (r : Chars) (h : fixedSizeInteger cs = some (t, r)) :
    WFInt (mkInt t) := by
  unfold fixedSizeInteger at h
  simp only [] at h
  split at h
  · cases h
  · split at h
    · cases h; exact ⟨Or.inr (Or.inl rfl), rfl⟩
    · split at h
      · cases h; exact ⟨Or.inr (Or.inr (Or.inl rfl)), rfl⟩
      · split at h
        · cases h; exact ⟨Or.inr (Or.inr (Or.inr rfl)), rfl⟩
        · split at h
          · cases h; exact ⟨Or.inl rfl, rfl⟩
          · cases h

theorem conditionalOperation_out (cs : Chars) (op : String) (r : Chars) (h : conditionalOperation cs = some (op, r)) :
    op ∈ conditionOperations := by
  unfold conditionalOperation at h
  simp only [] at h
  split at h
  · cases h; simp [conditionOperations]
  · split at h
    · cases h; simp [conditionOperations]
    · split at h
      · cases h; simp [conditionOperations]
      · split at h
        · cases h; simp [conditionOperations]
        · cases h

/-! ### types, conditions, constants -/

theorem scanElem_out (cs : Chars) (e : ElemType) (r : Chars) (h : scanElem cs = some (e, r)) : WFElem e := by
  unfold scanElem at h
  split at h
  next t r' hf =>
    cases h
    exact .int _ (fixedSizeInteger_out cs t _ hf)
  next =>
    simp only [Option.map_eq_some_iff] at h
    obtain ⟨⟨n, r'⟩, hu, heq⟩ := h
    cases heq
    exact .named n (userTypeName_out cs n r' hu)

/-- what stands as the size of an array -/
inductive OutSize : Scalar → Prop
  | num (n : Nat) : OutSize (.int n)
  | prop (p : String) : IsPropName p → OutSize (.str p)
  | fill : OutSize (.str fillPlaceholder)

theorem scanSize_out (cs : Chars) (s : Scalar) (r : Chars) (h : scanSize cs = some (s, r)) : OutSize s := by
  unfold scanSize at h
  split at h
  next p r' hp => cases h; exact .prop p (propertyName_out cs p _ hp)
  next =>
    split at h
    next n r' hn => cases h; exact .num n
    next =>
      simp only [Option.map_eq_some_iff] at h
      obtain ⟨r', _, heq⟩ := h
      cases heq
      exact .fill

theorem arrayArguments_out (cs : Chars) (a : ArrayType) (r : Chars) (h : arrayArguments cs = some (a, r)) : WFArray a := by
  simp only [arrayArguments, bind, Option.bind_eq_some_iff] at h
  obtain ⟨r1, _, ⟨e, r2⟩, he, r3, _, ⟨s, r4⟩, hs, r5, _, heq⟩ := h
  cases heq
  have hwe := scanElem_out _ e r2 he
  cases scanSize_out _ s r4 hs with
  | num n => exact .counted e n hwe
  | prop p hp => exact .sized e p hwe hp
  | fill => exact .fill e hwe

theorem plainFieldType_out (cs : Chars) (t : FieldType) (r : Chars) (h : plainFieldType cs = some (t, r)) : WFType t := by
  unfold plainFieldType at h
  split at h
  next it r' hf => cases h; exact .int _ (fixedSizeInteger_out cs it _ hf)
  next =>
    split at h
    next n r' hu => cases h; exact .named n (userTypeName_out cs n _ hu)
    next =>
      simp only [bind, Option.bind_eq_some_iff] at h
      obtain ⟨r1, _, ⟨a, r2⟩, ha, heq⟩ := h
      cases heq
      exact .array a (arrayArguments_out _ a r2 ha)

theorem conditionalExpression_out (cs : Chars) (c : Conditional) (r : Chars) (h : conditionalExpression cs = some (c, r)) :
    WFCond c := by
  simp only [conditionalExpression, bind, Option.bind_eq_some_iff] at h
  obtain ⟨r1, _, ⟨v, r2⟩, hv, ⟨op, r3⟩, hop, ⟨p, r4⟩, hp, heq⟩ := h
  cases heq
  have hop' := conditionalOperation_out _ op r3 hop
  have hp' := propertyName_out _ p r4 hp
  unfold conditionValue at hv
  split at hv
  next cn r' hc => cases hv; exact .const cn op p (constName_out _ cn _ hc) hop' hp'
  next =>
    simp only [Option.map_eq_some_iff] at hv
    obtain ⟨⟨n, r'⟩, _, heq⟩ := hv
    cases heq
    exact .num n op p hop' hp'

theorem optConditionalEol_out (cs : Chars) (v : FieldValue) (h : optConditionalEol cs = some v) : WFValue v := by
  unfold optConditionalEol at h
  split at h
  · cases h; exact .none
  · split at h
    next c r hc =>
      split at h
      · cases h; exact .cond c (conditionalExpression_out cs c r hc)
      · cases h
    next => cases h

theorem plainFieldRest_out (name : String) (cs : Chars) (f : StructField) (h : plainFieldRest name cs = some f) :
    ∃ t v, f = { name := name, fieldType := t, value := v } ∧ WFType t ∧ WFValue v := by
  simp only [plainFieldRest, bind, Option.bind_eq_some_iff] at h
  obtain ⟨⟨t, r⟩, ht, v, hv, heq⟩ := h
  cases heq
  exact ⟨t, v, rfl, plainFieldType_out cs t r ht, optConditionalEol_out r v hv⟩

theorem integerOrEnumConst_out (cs : Chars) (t : FieldType) (v : Scalar) (r : Chars)
    (h : integerOrEnumConst cs = some ((t, v), r)) : WFConstArg t v := by
  unfold integerOrEnumConst at h
  split at h
  next it r' hf =>
    simp only [bind, Option.bind_eq_some_iff] at h
    obtain ⟨r1, _, ⟨n, r2⟩, _, heq⟩ := h
    cases heq
    exact .int _ n (fixedSizeInteger_out cs it r' hf)
  next =>
    simp only [bind, Option.bind_eq_some_iff] at h
    obtain ⟨⟨ty, r1⟩, hty, r2, _, ⟨c, r3⟩, hc, heq⟩ := h
    cases heq
    exact .enum ty c (userTypeName_out cs ty r1 hty) (constName_out _ c r3 hc)

/-! ### attributes -/

theorem moreProperties_out : ∀ (fuel : Nat) (cs : Chars) (vals : List Scalar) (r : Chars),
    moreProperties fuel cs = some (vals, r) → ∃ ps : List String, vals = ps.map Scalar.str ∧ ∀ q ∈ ps, IsPropName q := by
  intro fuel
  induction fuel with
  | zero => intro cs vals r h; simp [moreProperties] at h
  | succ k ih =>
    intro cs vals r h
    unfold moreProperties at h
    split at h
    next => cases h; exact ⟨[], rfl, by intro q hq; cases hq⟩
    next =>
      simp only [bind, Option.bind_eq_some_iff] at h
      obtain ⟨r1, _, ⟨p, r2⟩, hp, ⟨ps, r3⟩, hps, heq⟩ := h
      cases heq
      obtain ⟨qs, rfl, hqs⟩ := ih _ _ _ hps
      refine ⟨p :: qs, rfl, ?_⟩
      intro q hq
      rcases List.mem_cons.1 hq with rfl | hq
      · exact propertyName_out _ _ r2 hp
      · exact hqs q hq

theorem comparerEntry_out (cs : Chars) (vals : List Scalar) (r : Chars) (h : comparerEntry cs = some (vals, r)) :
    ∃ e : String × Bool, vals = comparerValues [e] ∧ IsPropName e.1 := by
  simp only [comparerEntry, bind, Option.bind_eq_some_iff] at h
  obtain ⟨⟨p, r1⟩, hp, h⟩ := h
  have hp' := propertyName_out cs p r1 hp
  split at h
  next =>
    simp only [bind, Option.bind_eq_some_iff] at h
    obtain ⟨r3, _, heq⟩ := h
    cases heq
    exact ⟨(p, true), rfl, hp'⟩
  next => cases h; exact ⟨(p, false), rfl, hp'⟩

theorem comparerValues_append (a b : List (String × Bool)) : comparerValues (a ++ b) = comparerValues a ++ comparerValues b := by
  induction a with
  | nil => rfl
  | cons e rest ih =>
    obtain ⟨p, f⟩ := e
    cases f <;> simp [comparerValues, ih]

theorem moreComparerEntries_out : ∀ (fuel : Nat) (cs : Chars) (vals : List Scalar) (r : Chars),
    moreComparerEntries fuel cs = some (vals, r) →
    ∃ es : List (String × Bool), vals = comparerValues es ∧ ∀ x ∈ es, IsPropName x.1 := by
  intro fuel
  induction fuel with
  | zero => intro cs vals r h; simp [moreComparerEntries] at h
  | succ k ih =>
    intro cs vals r h
    unfold moreComparerEntries at h
    split at h
    next => cases h; exact ⟨[], rfl, by intro q hq; cases hq⟩
    next =>
      simp only [bind, Option.bind_eq_some_iff] at h
      obtain ⟨r1, _, ⟨e, r2⟩, he, ⟨es, r3⟩, hes, heq⟩ := h
      cases heq
      obtain ⟨x, rfl, hx⟩ := comparerEntry_out _ _ _ he
      obtain ⟨xs, rfl, hxs⟩ := ih _ _ _ hes
      refine ⟨x :: xs, by rw [← comparerValues_append]; rfl, ?_⟩
      intro y hy
      rcases List.mem_cons.1 hy with rfl | hy
      · exact hx
      · exact hxs y hy

theorem enumAttribute_out (cs : Chars) (a : Attribute) (h : enumAttribute cs = some a) : WFEnumAttr a := by
  simp only [enumAttribute, bind, Option.bind_eq_some_iff] at h
  obtain ⟨r, _, h⟩ := h
  split at h
  · cases h; exact .bitwise
  · cases h

theorem structAttribute_out (cs : Chars) (a : Attribute) (h : structAttribute cs = some a) : WFStructAttr a := by
  unfold structAttribute at h
  simp only [] at h
  split at h
  next => split at h <;> cases h; exact .sizeImplicit
  next =>
    split at h
    next => split at h <;> cases h; exact .aligned
    next =>
      split at h
      next =>
        simp only [bind, Option.bind_eq_some_iff] at h
        obtain ⟨r1, _, ⟨p, r2⟩, hp, ⟨ps, r3⟩, hps, h⟩ := h
        split at h <;> cases h
        obtain ⟨qs, rfl, hqs⟩ := moreProperties_out _ _ _ _ hps
        exact .discriminator p qs (propertyName_out _ p r2 hp) hqs
      next =>
        split at h
        next =>
          simp only [bind, Option.bind_eq_some_iff] at h
          obtain ⟨r1, _, ⟨p, r2⟩, hp, r3, _, ⟨c, r4⟩, hc, r5, _, h⟩ := h
          split at h <;> cases h
          exact .initializes p c (propertyName_out _ p r2 hp) (constName_out _ c r4 hc)
        next =>
          split at h
          next =>
            simp only [bind, Option.bind_eq_some_iff] at h
            obtain ⟨r1, _, ⟨e, r2⟩, he, ⟨es, r3⟩, hes, h⟩ := h
            split at h <;> cases h
            obtain ⟨x, rfl, hx⟩ := comparerEntry_out _ _ _ he
            obtain ⟨xs, rfl, hxs⟩ := moreComparerEntries_out _ _ _ _ hes
            have : comparerValues [x] ++ comparerValues xs = comparerValues (x :: xs) := by
              rw [← comparerValues_append]; rfl
            rw [this]
            exact .comparer x xs hx hxs
          next =>
            split at h
            next =>
              simp only [bind, Option.bind_eq_some_iff] at h
              obtain ⟨r1, _, ⟨p, r2⟩, hp, r3, _, h⟩ := h
              split at h <;> cases h
              exact .size p (propertyName_out _ p r2 hp)
            next => cases h

theorem fieldAttribute_out (cs : Chars) (a : Attribute) (h : fieldAttribute cs = some a) : WFFieldAttr a := by
  unfold fieldAttribute at h
  simp only [] at h
  split at h
  next => split at h <;> cases h; exact .byteConstrained
  next =>
    split at h
    next =>
      simp only [bind, Option.bind_eq_some_iff] at h
      obtain ⟨r1, _, ⟨n, r2⟩, _, h⟩ := h
      split at h
      next =>
        split at h
        next =>
          simp only [bind, Option.bind_eq_some_iff] at h
          obtain ⟨r4, _, h⟩ := h
          split at h <;> cases h
          exact .alignmentPadLast n
        next =>
          simp only [bind, Option.bind_eq_some_iff] at h
          obtain ⟨r4, _, r5, _, r6, _, h⟩ := h
          split at h <;> cases h
          exact .alignmentNotPadLast n
      next =>
        simp only [bind, Option.bind_eq_some_iff] at h
        obtain ⟨r4, _, h⟩ := h
        split at h <;> cases h
        exact .alignment n
    next =>
      split at h
      next =>
        simp only [bind, Option.bind_eq_some_iff] at h
        obtain ⟨r1, _, ⟨p, r2⟩, hp, r3, _, h⟩ := h
        split at h <;> cases h
        exact .sortKey p (propertyName_out _ p r2 hp)
      next =>
        split at h
        next =>
          simp only [bind, Option.bind_eq_some_iff] at h
          obtain ⟨r1, _, ⟨p, r2⟩, hp, h⟩ := h
          have hp' := propertyName_out _ p r2 hp
          split at h
          next =>
            simp only [bind, Option.bind_eq_some_iff] at h
            obtain ⟨⟨n, r4⟩, _, r5, _, h⟩ := h
            split at h <;> cases h
            exact .sizerefDelta p n hp'
          next =>
            simp only [bind, Option.bind_eq_some_iff] at h
            obtain ⟨r4, _, h⟩ := h
            split at h <;> cases h
            exact .sizeref p hp'
        next => cases h

end SymbolVerif.Cats.Parser

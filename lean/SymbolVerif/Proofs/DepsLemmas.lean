/-
Helper lemmas for C19 about `Model/Lint/Deps.lean`: the loop of `process_rules` keeps "every finished
name has exactly what it can reach", and patterns without metacharacters match exactly their string.
-/
import SymbolVerif.Model.Lint.Deps
import SymbolVerif.Proofs.RegexLemmas
namespace SymbolVerif.Lint.Deps
open SymbolVerif.Lint.Regex

/-! ### process_rules -/

theorem mem_depsOf {edges : List Edge} {a b : Str} : b ∈ depsOf edges a ↔ (a, b) ∈ edges := by
  unfold depsOf
  simp only [List.mem_map, List.mem_filter, beq_iff_eq]
  constructor
  · rintro ⟨⟨x, y⟩, ⟨hm, hx⟩, hy⟩
    simp only at hx hy
    subst hx; subst hy
    exact hm
  · intro h
    exact ⟨(a, b), ⟨h, rfl⟩, rfl⟩

theorem mem_keysOf {edges : List Edge} {a b : Str} (h : (a, b) ∈ edges) : a ∈ keysOf edges := by
  unfold keysOf
  rw [List.mem_eraseDups]
  exact List.mem_map.mpr ⟨(a, b), h, rfl⟩

theorem reach_has_edge {edges : List Edge} {a d : Str} (h : Reach edges a d) : ∃ y, (a, y) ∈ edges := by
  cases h with
  | edge h => exact ⟨_, h⟩
  | step h _ => exact ⟨_, h⟩

theorem lookup_mem {k : Str} {R : List Str} : ∀ {done : List (Str × List Str)}, done.lookup k = some R → (k, R) ∈ done
  | [], h => by simp [List.lookup] at h
  | (j, S) :: rest, h => by
    simp only [List.lookup_cons] at h
    split at h
    · next hb =>
      have : k = j := by simpa using hb
      subst this
      cases h
      exact List.mem_cons_self
    · exact List.mem_cons_of_mem _ (lookup_mem h)

theorem lookup_of_key {k : Str} : ∀ {done : List (Str × List Str)}, k ∈ done.map (·.1) → ∃ R, done.lookup k = some R
  | [], h => by simp at h
  | (j, S) :: rest, h => by
    simp only [List.lookup_cons]
    by_cases hb : (k == j) = true
    · simp [hb]
    · have hne : k ≠ j := by simpa using hb
      simp only [List.map_cons, List.mem_cons] at h
      rcases h with h | h
      · exact absurd h hne
      · obtain ⟨R, hR⟩ := lookup_of_key h
        refine ⟨R, ?_⟩
        have : (k == j) = false := by simpa using hne
        simp [this, hR]

/-- what the loop maintains -/
def Inv (edges : List Edge) (remaining : List Str) (done : List (Str × List Str)) : Prop :=
  (∀ k, k ∈ keysOf edges → k ∈ remaining ∨ k ∈ done.map (·.1)) ∧
  (∀ k R, (k, R) ∈ done → ∀ d, d ∈ R ↔ Reach edges k d)

theorem inv_step (edges : List Edge) (remaining : List Str) (done : List (Str × List Str)) (k : Str)
    (hinv : Inv edges remaining done)
    (hk : remaining.find? (fun k => (depsOf edges k).all fun d => !remaining.contains d) = some k) :
    Inv edges (remaining.erase k) (done ++ [(k, addRules done (depsOf edges k))]) := by
  obtain ⟨h1, h2⟩ := hinv
  have hself : ∀ d ∈ depsOf edges k, d ∉ remaining := by
    have := List.find?_some hk
    simp only [List.all_eq_true, Bool.not_eq_true', List.contains_eq_mem, decide_eq_false_iff_not] at this
    exact this
  constructor
  · intro j hj
    rcases h1 j hj with h | h
    · by_cases hjk : j = k
      · right; simp [hjk]
      · left; exact (List.mem_erase_of_ne hjk).mpr h
    · right; simp only [List.map_append, List.mem_append]; exact Or.inl h
  · intro j R hmem d
    rcases List.mem_append.mp hmem with hmem | hmem
    · exact h2 j R hmem d
    · simp only [List.mem_singleton, Prod.mk.injEq] at hmem
      obtain ⟨rfl, rfl⟩ := hmem
      unfold addRules
      simp only [List.mem_flatMap, List.mem_append, List.mem_singleton]
      constructor
      · rintro ⟨x, hx, hd | hd⟩
        · cases hl : done.lookup x with
          | none => rw [hl] at hd; simp at hd
          | some S =>
            rw [hl] at hd
            exact Reach.step (mem_depsOf.mp hx) ((h2 x S (lookup_mem hl) d).mp (by simpa using hd))
        · subst hd; exact Reach.edge (mem_depsOf.mp hx)
      · intro hr
        cases hr with
        | edge he => exact ⟨d, mem_depsOf.mpr he, Or.inr rfl⟩
        | @step _ x _ he hrest =>
          have hx : x ∈ depsOf edges j := mem_depsOf.mpr he
          refine ⟨x, hx, Or.inl ?_⟩
          obtain ⟨y, hy⟩ := reach_has_edge hrest
          rcases h1 x (mem_keysOf hy) with hrem | hdone
          · exact absurd hrem (hself x hx)
          · obtain ⟨S, hS⟩ := lookup_of_key hdone
            rw [hS]
            exact (h2 x S (lookup_mem hS) d).mpr hrest

theorem processGo_inv (edges : List Edge) : ∀ (fuel : Nat) (remaining : List Str) (done final : List (Str × List Str)),
    Inv edges remaining done → processGo edges fuel remaining done = some final → Inv edges [] final
  | _, [], done, final, hinv, h => by
    have : done = final := by
      cases ‹Nat› <;> simpa [processGo] using h
    subst this; exact hinv
  | 0, _ :: _, _, _, _, h => by simp [processGo] at h
  | fuel + 1, r :: rs, done, final, hinv, h => by
    simp only [processGo] at h
    split at h
    · cases h
    · next k hk => exact processGo_inv edges fuel _ _ final (inv_step edges (r :: rs) done k hinv hk) h

/-! ### literal patterns -/

theorem matches_literal : ∀ (r : RE) (p : Str), literalOf r = some p →
    ∀ pre w post, Matches r pre w post ↔ w = p
  | .eps, p, h, pre, w, post => by
    simp only [literalOf, Option.some.injEq] at h
    subst h
    constructor
    · intro hm; cases hm; rfl
    · rintro rfl; exact Matches.eps _ _
  | .lit c, p, h, pre, w, post => by
    simp only [literalOf, Option.some.injEq] at h
    subst h
    constructor
    · intro hm; cases hm; rfl
    · rintro rfl; exact Matches.lit _ _ _
  | .seq a b, p, h, pre, w, post => by
    simp only [literalOf] at h
    cases ha : literalOf a with
    | none => rw [ha] at h; simp at h
    | some x =>
      cases hb : literalOf b with
      | none => rw [ha, hb] at h; simp at h
      | some y =>
        rw [ha, hb] at h
        simp only [Option.some.injEq] at h
        subst h
        constructor
        · intro hm
          cases hm with
          | seq h1 h2 =>
            rw [(matches_literal a x ha _ _ _).mp h1, (matches_literal b y hb _ _ _).mp h2]
        · rintro rfl
          exact Matches.seq ((matches_literal a x ha _ _ _).mpr rfl) ((matches_literal b y hb _ _ _).mpr rfl)
  | .any, _, h, _, _, _ | .cls _ _, _, h, _, _, _ | .alt _ _, _, h, _, _, _ | .star _, _, h, _, _, _
  | .bol, _, h, _, _, _ | .eol, _, h, _, _, _ | .wordb, _, h, _, _, _ | .group _, _, h, _, _, _
  | .backref, _, h, _, _, _ => by simp [literalOf] at h

theorem literal_noCapture : ∀ (r : RE) (p : Str), literalOf r = some p → noCapture r = true
  | .eps, _, _ | .lit _, _, _ => rfl
  | .seq a b, p, h => by
    simp only [literalOf] at h
    cases ha : literalOf a with
    | none => rw [ha] at h; simp at h
    | some x =>
      cases hb : literalOf b with
      | none => rw [ha, hb] at h; simp at h
      | some y => simp [noCapture, literal_noCapture a x ha, literal_noCapture b y hb]
  | .any, _, h | .cls _ _, _, h | .alt _ _, _, h | .star _, _, h | .bol, _, h | .eol, _, h | .wordb, _, h
  | .group _, _, h | .backref, _, h => by simp [literalOf] at h

end SymbolVerif.Lint.Deps

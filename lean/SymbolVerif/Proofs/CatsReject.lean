/-
Rejection lemmas for C11: member lines are no top-level statements; lines that begin with an unknown word; the
structural errors (a struct without body, a member outside its declaration).
-/
import SymbolVerif.Proofs.CatsDocument
import SymbolVerif.Proofs.CatsParserLemmas
namespace SymbolVerif.Cats.Parser
open SymbolVerif.Cats SymbolVerif.Cats.Lexer
set_option linter.unusedSimpArgs false

/-! ### a keyword matched inside a word leaves the rest of the word -/

/-- `w` followed by ` = rest`, where `w` consists of name characters -/
def assignTail (w rest : Chars) : Chars := w ++ ' ' :: '=' :: rest

theorem prefix_in_word : ∀ (p w : Chars) (t : Chars), p.all isPropChar = true → w.all isPropChar = true →
    p.isPrefixOf (w ++ ' ' :: t) = true →
    ∃ w2, w2.all isPropChar = true ∧ (w ++ ' ' :: t).drop p.length = w2 ++ ' ' :: t := by
  intro p
  induction p with
  | nil => intro w t _ hw _; exact ⟨w, hw, rfl⟩
  | cons c cs ih =>
    intro w t hp hw hpre
    simp only [List.all_cons, Bool.and_eq_true] at hp
    cases w with
    | nil =>
      simp only [List.nil_append, List.isPrefixOf, Bool.and_eq_true, beq_iff_eq] at hpre
      have : isPropChar ' ' = true := by rw [← hpre.1]; exact hp.1
      exact absurd this (by decide)
    | cons a w' =>
      simp only [List.all_cons, Bool.and_eq_true] at hw
      simp only [List.cons_append, List.isPrefixOf, Bool.and_eq_true] at hpre
      obtain ⟨w2, h1, h2⟩ := ih w' t hp.2 hw.2 hpre.2
      exact ⟨w2, h1, by simpa using h2⟩

theorem skipWs_word (a : Char) (w t : Chars) (ha : isLower a = true) : skipWs (a :: w ++ t) = a :: w ++ t :=
  skipWs_cons_of_not_ws a _ (not_ws_of_lower ha)

/-- a keyword (made of name characters) matched at the start of `word = …` leaves `rest-of-word = …` -/
theorem lit_in_word (s : String) (hs : s.toList.all isPropChar = true) (a : Char) (w t : Chars) (ha : isLower a = true)
    (hw : (a :: w).all isPropChar = true) (r : Chars) (h : lit s (a :: w ++ ' ' :: t) = some r) :
    ∃ w2, w2.all isPropChar = true ∧ r = w2 ++ ' ' :: t := by
  unfold lit at h
  rw [show (a :: w ++ ' ' :: t) = (a :: w) ++ ' ' :: t from rfl, skipWs_word a w _ ha] at h
  simp only at h
  split at h
  · rename_i hpre
    cases h
    exact prefix_in_word s.toList (a :: w) t hs hw hpre
  · cases h

theorem not_upper_of_propChar {c : Char} (h : isPropChar c = true) : isUpper c = false := by
  simp only [isPropChar, Bool.or_eq_true, beq_iff_eq] at h
  rcases h with (h | h) | h
  · exact not_upper_of_lower h
  · exact not_upper_of_digit h
  · subst h; decide

theorem not_ws_of_propChar {c : Char} (h : isPropChar c = true) : isWs c = false := by
  simp only [isPropChar, Bool.or_eq_true, beq_iff_eq] at h
  rcases h with (h | h) | h
  · exact not_ws_of_lower h
  · exact not_ws_of_digit h
  · subst h; decide

/-- what is left of `word = …` after a keyword is neither a type name nor a string -/
theorem userTypeName_word_tail (w2 t : Chars) (h : w2.all isPropChar = true) : userTypeName (w2 ++ ' ' :: '=' :: t) = none := by
  cases w2 with
  | nil =>
    rw [List.nil_append, userTypeName_skip_blank]
    exact userTypeName_none_of_head '=' t (by decide) (by decide)
  | cons c cs =>
    simp only [List.all_cons, Bool.and_eq_true] at h
    exact userTypeName_none_of_head c _ (not_ws_of_propChar h.1) (not_upper_of_propChar h.1)

theorem escapedString_word_tail (w2 t : Chars) (h : w2.all isPropChar = true) : escapedString (w2 ++ ' ' :: '=' :: t) = none := by
  cases w2 with
  | nil => simp [escapedString, skipWs, isWs, List.dropWhile]
  | cons c cs =>
    simp only [List.all_cons, Bool.and_eq_true] at h
    have hq : c ≠ '"' := by intro hc; subst hc; exact absurd h.1 (by decide)
    unfold escapedString
    rw [List.cons_append, skipWs_cons_of_not_ws c _ (not_ws_of_propChar h.1)]
    split
    · rename_i heq; simp only [List.cons.injEq] at heq; exact absurd heq.1 hq
    · rfl

theorem structModifier_in_word (a : Char) (w t : Chars) (ha : isLower a = true) (hw : (a :: w).all isPropChar = true)
    (m : String) (r : Chars) (h : structModifier (a :: w ++ ' ' :: t) = some (m, r)) :
    ∃ w2, w2.all isPropChar = true ∧ r = w2 ++ ' ' :: t := by
  unfold structModifier at h
  rw [show (a :: w ++ ' ' :: t) = (a :: w) ++ ' ' :: t from rfl, skipWs_word a w _ ha] at h
  simp only [litHere] at h
  split at h
  · rename_i r1 h1
    cases h
    split at h1
    · rename_i hpre; cases h1; exact prefix_in_word "abstract".toList (a :: w) t (by decide) hw hpre
    · cases h1
  · split at h
    · rename_i r2 h2
      cases h
      split at h2
      · rename_i hpre; cases h2; exact prefix_in_word "inline".toList (a :: w) t (by decide) hw hpre
      · cases h2
    · cases h

theorem structHeaderRest_word_tail (d : Option String) (w2 t : Chars) (h : w2.all isPropChar = true) :
    structHeaderRest d (w2 ++ ' ' :: '=' :: t) = none := by
  unfold structHeaderRest
  cases hl : lit "struct" (w2 ++ ' ' :: '=' :: t) with
  | none => rfl
  | some r =>
    cases w2 with
    | nil =>
      rw [List.nil_append, lit_skip_blank, lit_none_of_head "struct" 's' _ rfl '=' _ (by decide) (by decide)] at hl
      cases hl
    | cons c cs =>
      simp only [List.all_cons, Bool.and_eq_true] at h
      by_cases hc : isLower c = true
      · obtain ⟨w3, h3, rfl⟩ := lit_in_word "struct" (by decide) c cs ('=' :: t) hc (by simp [h.1, h.2]) r hl
        simp only [bind, Option.bind, userTypeName_word_tail w3 t h3]
      · -- the rest of the word starts with a digit or `_`: `struct` does not match
        have hne : ('s' == c) = false := by
          simp only [beq_eq_false_iff_ne, ne_eq]; intro hs; subst hs; exact hc (by decide)
        rw [List.cons_append, lit_none_of_head "struct" 's' _ rfl c _ (not_ws_of_propChar h.1) hne] at hl
        cases hl

/-- A member line `name = …` is not a top-level statement, in no mode. -/
theorem parseTopLine_assignment_none (mode : TopMode) (a : Char) (w t : Chars) (ha : isLower a = true)
    (hw : (a :: w).all isPropChar = true) : parseTopLine mode (a :: w ++ ' ' :: '=' :: t) = none := by
  have hws := not_ws_of_lower ha
  have hat : lit "@" (a :: w ++ ' ' :: '=' :: t) = none :=
    lit_none_of_head "@" '@' _ rfl a _ hws (by simp only [beq_eq_false_iff_ne, ne_eq]; intro h; subst h; revert ha; decide)
  have hmod : ∀ m r, structModifier (a :: w ++ ' ' :: '=' :: t) = some (m, r) → structHeaderRest (some m) r = none := by
    intro m r h
    obtain ⟨w2, h2, rfl⟩ := structModifier_in_word a w ('=' :: t) ha hw m r h
    exact structHeaderRest_word_tail _ w2 t h2
  have hstruct : structHeaderRest none (a :: w ++ ' ' :: '=' :: t) = none :=
    structHeaderRest_word_tail none (a :: w) t hw
  have hlit : ∀ (s : String), s.toList.all isPropChar = true → ∀ r, lit s (a :: w ++ ' ' :: '=' :: t) = some r →
      ∃ w2, w2.all isPropChar = true ∧ r = w2 ++ ' ' :: '=' :: t :=
    fun s hs r h => lit_in_word s hs a w ('=' :: t) ha hw r h
  cases mode with
  | start =>
    simp only [parseTopLine]
    cases h1 : structModifier (a :: w ++ ' ' :: '=' :: t) with
    | some mr => obtain ⟨m, r⟩ := mr; simp only [hmod m r h1]
    | none =>
      simp only
      cases h2 : lit "import" (a :: w ++ ' ' :: '=' :: t) with
      | some r =>
        obtain ⟨w2, hw2, rfl⟩ := hlit "import" (by decide) r h2
        simp only [bind, Option.bind, escapedString_word_tail w2 t hw2]
      | none =>
        simp only
        cases h3 : lit "struct" (a :: w ++ ' ' :: '=' :: t) with
        | some r => simp only [hstruct]
        | none =>
          simp only
          cases h4 : lit "using" (a :: w ++ ' ' :: '=' :: t) with
          | some r =>
            obtain ⟨w2, hw2, rfl⟩ := hlit "using" (by decide) r h4
            simp only [aliasRest, bind, Option.bind, userTypeName_word_tail w2 t hw2]
          | none =>
            simp only
            cases h5 : lit "enum" (a :: w ++ ' ' :: '=' :: t) with
            | some r =>
              obtain ⟨w2, hw2, rfl⟩ := hlit "enum" (by decide) r h5
              simp only [enumHeaderRest, bind, Option.bind, userTypeName_word_tail w2 t hw2]
            | none => simp only [hat, bind, Option.bind]
  | afterEnumAttrs =>
    simp only [parseTopLine]
    cases h5 : lit "enum" (a :: w ++ ' ' :: '=' :: t) with
    | some r =>
      obtain ⟨w2, hw2, rfl⟩ := hlit "enum" (by decide) r h5
      simp only [enumHeaderRest, bind, Option.bind, userTypeName_word_tail w2 t hw2]
    | none => simp only [hat, bind, Option.bind]
  | afterStructAttrs =>
    simp only [parseTopLine]
    cases h1 : structModifier (a :: w ++ ' ' :: '=' :: t) with
    | some mr => obtain ⟨m, r⟩ := mr; simp only [hmod m r h1]
    | none =>
      simp only
      cases h3 : lit "struct" (a :: w ++ ' ' :: '=' :: t) with
      | some r => simp only [hstruct]
      | none => simp only [hat, bind, Option.bind]

/-- a line that starts with a character no top-level statement starts with -/
theorem parseTopLine_none_of_head (mode : TopMode) (c : Char) (r : Chars) (hws : isWs c = false)
    (ha : ('a' == c) = false) (hi : ('i' == c) = false) (hs : ('s' == c) = false) (hu : ('u' == c) = false)
    (he : ('e' == c) = false) (hat : ('@' == c) = false) : parseTopLine mode (c :: r) = none := by
  have e1 := structModifier_none_of_head c r hws ha hi
  have e2 := lit_none_of_head "import" 'i' _ rfl c r hws hi
  have e3 := lit_none_of_head "struct" 's' _ rfl c r hws hs
  have e4 := lit_none_of_head "using" 'u' _ rfl c r hws hu
  have e5 := lit_none_of_head "enum" 'e' _ rfl c r hws he
  have e6 := lit_none_of_head "@" '@' _ rfl c r hws hat
  cases mode <;> simp only [parseTopLine, e1, e2, e3, e4, e5, e6, bind, Option.bind]

theorem beq_false_of_upper (x : Char) (hx : isUpper x = false) (a : Char) (ha : isUpper a = true) : (x == a) = false := by
  simp only [beq_eq_false_iff_ne, ne_eq]
  intro h; subst h; rw [ha] at hx; cases hx

theorem propChars_of_propName (w : Chars) (h : IsPropertyName w) : ∃ a w', w = a :: w' ∧ isLower a = true ∧ (a :: w').all isPropChar = true := by
  obtain ⟨a, b, rest, rfl, ha, hb, hrest⟩ := h
  have h1 : isPropChar a = true := by simp [isPropChar, ha]
  exact ⟨a, b :: rest, rfl, ha, by simp only [List.all_cons, h1, hb, hrest, Bool.and_self]⟩

/-- A member line is not a top-level statement: a member moved out of its struct is rejected where it stands. -/
theorem parseTopLine_member_none (mode : TopMode) (m : Member) (h : WFMember m) : parseTopLine mode m.render.toList = none := by
  have hname : ∀ (name : String) (t : Chars), IsPropName name →
      parseTopLine mode (name.toList ++ ' ' :: '=' :: t) = none := by
    intro name t hn
    obtain ⟨a, w', heq, ha, hall⟩ := propChars_of_propName _ hn
    rw [heq]
    exact parseTopLine_assignment_none mode a w' t ha hall
  cases h with
  | plain name t v hn ht hv =>
    simp only [Member.render]; rw [plain_render_toList name t v hv]; exact hname name _ hn.1
  | valuePlaceholder t v ht hv =>
    simp only [Member.render]
    rw [plain_render_toList "__value__" t v hv]
    have hv' : "__value__".toList = '_' :: '_' :: 'v' :: 'a' :: 'l' :: 'u' :: 'e' :: '_' :: '_' :: [] := by decide
    rw [hv']
    exact parseTopLine_none_of_head mode '_' _ (by decide) (by decide) (by decide) (by decide) (by decide) (by decide) (by decide)
  | const name t v hn ha =>
    simp only [Member.render]
    rw [const_render_toList]
    obtain ⟨a, b, rest, heq, hup, _, _⟩ := hn
    rw [heq]
    exact parseTopLine_none_of_head mode a _ (not_ws_of_upper hup) (beq_false_of_upper _ (by decide) a hup)
      (beq_false_of_upper _ (by decide) a hup) (beq_false_of_upper _ (by decide) a hup) (beq_false_of_upper _ (by decide) a hup)
      (beq_false_of_upper _ (by decide) a hup) (beq_false_of_upper _ (by decide) a hup)
  | reserved name t v hn ha => simp only [Member.render]; rw [reserved_render_toList]; exact hname name _ hn.1
  | sizeof name t p hn ht hp => simp only [Member.render]; rw [sizeof_render_toList]; exact hname name _ hn.1
  | namedInline name ty hn hty => simp only [Member.render]; rw [namedInline_render_toList]; exact hname name _ hn.1
  | unnamedInline ty hty =>
    have ht : (Member.render (.inlinePlaceholder ty none)).toList = 'i' :: 'n' :: 'l' :: 'i' :: 'n' :: 'e' :: ' ' :: ty.toList := by
      simp [Member.render, String.toList_append]
    rw [ht]
    obtain ⟨a, b, rest, heq, hup, _, _⟩ := hty
    rw [heq]
    have e1 : ∀ r, structModifier ('i' :: 'n' :: 'l' :: 'i' :: 'n' :: 'e' :: r) = some ("inline", r) := by
      intro r; simp [structModifier, skipWs, isWs, litHere, List.isPrefixOf]
    have e2 : lit "struct" (' ' :: a :: b :: rest) = none := by
      rw [lit_skip_blank]; exact lit_none_of_upper "struct" 's' _ rfl (by decide) a _ hup
    have hi : isWs 'i' = false := by decide
    have e3 : ∀ r, lit "enum" ('i' :: r) = none := fun r => lit_none_of_head "enum" 'e' _ rfl 'i' r hi (by decide)
    have e4 : ∀ r, lit "@" ('i' :: r) = none := fun r => lit_none_of_head "@" '@' _ rfl 'i' r hi (by decide)
    cases mode <;> simp only [parseTopLine, e1, structHeaderRest, e2, e3, e4, bind, Option.bind]

/-! ### structural errors in a layout -/

theorem topLoop_decls_prefix : ∀ (bs : List Block) (ds : List Decl) (rest : List Block) (acc : List Item),
    Forall2 DeclBlock bs ds → topLoop (bs ++ rest) {} acc = topLoop rest {} ((ds.map Item.decl).reverse ++ acc) := by
  intro bs ds rest acc hf
  induction hf generalizing acc with
  | nil => rfl
  | @cons b d bs' ds' hbd _ ih =>
    have hstep : topLoop (b :: (bs' ++ rest)) {} acc = topLoop (bs' ++ rest) {} (.decl d :: acc) := by
      have := topLoop_decls [b] [d] acc (.cons hbd .nil)
      cases hbd with
      | alias a hkind hbody hparse hc =>
        obtain ⟨n, lt, c⟩ := a
        simp only at hc hparse
        subst hc
        simp only [topLoop, hkind, TopState.mode, hparse, hbody]
      | «enum» name base values hkind hparse hloop =>
        simp only [topLoop, hkind, TopState.mode, hparse, hloop, Option.map_none]
      | struct d name kids fields hkind hbody hparse hloop =>
        simp only [topLoop, hkind, TopState.mode, hparse, hbody, hloop, Option.map_none]
    rw [List.cons_append, hstep, ih]
    simp

/-- the statement loop stops at a struct header that has no indented body -/
theorem topLoop_struct_without_body (b : Block) (rest : List Block) (acc : List Item) (d : Option String) (name : String)
    (hkind : b.head.kind = .code) (hparse : parseTopLine .start b.head.text = some (.structHeader d name))
    (hbody : b.body = none) : ∃ e, topLoop (b :: rest) {} acc = .error e := by
  have : topLoop (b :: rest) {} acc = .error ⟨b.head.lineNo, "a struct needs an indented body"⟩ := by
    simp only [topLoop, hkind, TopState.mode, hparse, hbody]
  exact ⟨_, this⟩

/-- the statement loop stops at a block whose head is no top-level statement -/
theorem topLoop_bad_head (b : Block) (rest : List Block) (acc : List Item)
    (hkind : b.head.kind = .code) (hparse : parseTopLine .start b.head.text = none) :
    ∃ e, topLoop (b :: rest) {} acc = .error e := by
  have : topLoop (b :: rest) {} acc = .error ⟨b.head.lineNo, "statement expected"⟩ := by
    simp only [topLoop, hkind, TopState.mode, hparse]
  exact ⟨_, this⟩

theorem docSpecs_append : ∀ (pre l : List Decl) (first : Bool), ∃ f, docSpecs first (pre ++ l) = docSpecs first pre ++ docSpecs f l := by
  intro pre
  induction pre with
  | nil => intro l first; exact ⟨first, rfl⟩
  | cons d rest ih =>
    intro l first
    obtain ⟨f, h⟩ := ih l false
    exact ⟨f, by simp only [List.cons_append, docSpecs, h]⟩

/-- a parse error of the statement loop is a parse error of the document -/
theorem parse_error_of_topLoop (s0 : SegSpec) (rest : List SegSpec) (h0 : s0.blankBefore = false)
    (hclean : ∀ s ∈ s0 :: rest, s.Clean) (e : ParseError)
    (h : topLoop ((specSegs 1 (s0 :: rest)).map segBlock) {} [] = .error e) :
    ∃ e', parse (unlinesC ((specPLines (s0 :: rest)).map PLine.chars)) = .error e' := by
  have := blocks_of_layout s0 rest h0 hclean
  rw [h] at this
  simp only [parse, this, Except.map]
  exact ⟨_, rfl⟩

theorem docSpecs_append_exact : ∀ (pre l : List Decl) (first : Bool),
    docSpecs first (pre ++ l) = docSpecs first pre ++ docSpecs (first && pre.isEmpty) l := by
  intro pre
  induction pre with
  | nil => intro l first; simp [docSpecs]
  | cons d rest ih =>
    intro l first
    simp only [List.cons_append, docSpecs, ih, List.isEmpty_cons, Bool.and_false, Bool.false_and]

/-- the layout of a printed document around one of its structs -/
theorem docSpecs_struct (pre post : List Decl) (s : Struct) :
    docSpecs true (pre ++ .struct s :: post) =
      docSpecs true pre ++ ⟨!pre.isEmpty, (structHeaderText s.disposition s.name).toList, s.fields.map fun m => m.render.toList⟩ ::
        docSpecs false post := by
  rw [docSpecs_append_exact]
  simp [docSpecs, declHead, declKids]

/-- a layout that starts with printed declarations followed by one more header starts without an empty line -/
theorem layout_head (pre : List Decl) (x : SegSpec) (tail : List SegSpec) (hx : pre = [] → x.blankBefore = false) :
    ∃ s0 rest, docSpecs true pre ++ x :: tail = s0 :: rest ∧ s0.blankBefore = false := by
  cases pre with
  | nil => exact ⟨x, tail, rfl, hx rfl⟩
  | cons d r => exact ⟨_, _, rfl, rfl⟩

theorem clean_struct_header (d : Option String) (name : String) (hd : d ∈ structDispositions) (hn : IsTypeName name) :
    CleanText (structHeaderText d name).toList :=
  clean_head_printable _ (.emptyStruct d name hd hn)

/-- Operator `empty-struct` on a printed document: a struct header without member lines. Whatever well-formed
    declarations stand before and after it, the document is rejected. -/
theorem empty_struct_rejected (pre post : List Decl) (d : Option String) (name : String) (hpre : WFDecls pre)
    (hpost : WFDecls post) (hd : d ∈ structDispositions) (hn : IsTypeName name) :
    ∃ e, parse (Printer.print (pre ++ .struct { disposition := d, name := name, fields := [] } :: post)).toList = .error e := by
  have hprintable : ∀ x ∈ pre ++ Decl.struct { disposition := d, name := name, fields := [] } :: post, PrintableDecl x := by
    intro x hx
    simp only [List.mem_append, List.mem_cons] at hx
    rcases hx with hx | rfl | hx
    · exact .wf x (hpre x hx)
    · exact .emptyStruct d name hd hn
    · exact .wf x (hpost x hx)
  rw [print_toList _ hprintable, docSpecs_struct]
  obtain ⟨s0, rest, heq, h0⟩ := layout_head pre ⟨!pre.isEmpty, (structHeaderText d name).toList, []⟩ (docSpecs false post)
    (by intro h; subst h; rfl)
  have hclean : ∀ s ∈ s0 :: rest, s.Clean := by
    rw [← heq]
    intro s hs
    simp only [List.mem_append, List.mem_cons] at hs
    rcases hs with hs | rfl | hs
    · exact clean_docSpecs pre true (printable_of_wf pre hpre) s hs
    · exact ⟨clean_struct_header d name hd hn, by intro t ht; cases ht⟩
    · exact clean_docSpecs post false (printable_of_wf post hpost) s hs
  simp only [List.map_nil] at heq ⊢
  rw [heq]
  obtain ⟨k', hsegs⟩ := specSegs_append (docSpecs true pre)
    (⟨!pre.isEmpty, (structHeaderText d name).toList, []⟩ :: docSpecs false post) 1
  have hblocks : (specSegs 1 (s0 :: rest)).map segBlock =
      (specSegs 1 (docSpecs true pre)).map segBlock ++
        segBlock ((⟨!pre.isEmpty, (structHeaderText d name).toList, []⟩ : SegSpec).seg k') ::
          (specSegs (k' + (⟨!pre.isEmpty, (structHeaderText d name).toList, []⟩ : SegSpec).size) (docSpecs false post)).map segBlock := by
    rw [← heq, hsegs]
    simp [specSegs]
  obtain ⟨e, he⟩ := topLoop_struct_without_body
    (segBlock ((⟨!pre.isEmpty, (structHeaderText d name).toList, []⟩ : SegSpec).seg k')) _ ((pre.map Item.decl).reverse ++ [])
    d name rfl (parseTopLine_structHeader d name hd hn) rfl
  refine parse_error_of_topLoop s0 rest h0 hclean e ?_
  rw [hblocks, topLoop_decls_prefix _ pre _ [] (docBlocks_forall2 pre true 1 hpre)]
  exact he

/-- the layout of a printed document in which the line of one member of a struct has lost its indentation -/
def dedentedLayout (pre post : List Decl) (d : Option String) (name : String) (before : List Member) (m : Member)
    (after : List Member) : List SegSpec :=
  docSpecs true pre ++ ⟨!pre.isEmpty, (structHeaderText d name).toList, before.map fun x => x.render.toList⟩ ::
    ⟨false, m.render.toList, after.map fun x => x.render.toList⟩ :: docSpecs false post

/-- the dedented text differs from the printed document exactly in the missing tab of that member's line -/
theorem dedentedLayout_lines (pre post : List Decl) (d : Option String) (name : String) (before : List Member) (m : Member)
    (after : List Member) :
    ∃ A B, specPLines (docSpecs true (pre ++ .struct { disposition := d, name := name, fields := before ++ m :: after } :: post)) =
        A ++ PLine.code true m.render.toList :: B ∧
      specPLines (dedentedLayout pre post d name before m after) = A ++ PLine.code false m.render.toList :: B := by
  refine ⟨specPLines (docSpecs true pre) ++ (if (!pre.isEmpty) = true then [PLine.blank] else []) ++
      PLine.code false (structHeaderText d name).toList :: before.map (fun x => PLine.code true x.render.toList),
    after.map (fun x => PLine.code true x.render.toList) ++ specPLines (docSpecs false post), ?_, ?_⟩
  · rw [docSpecs_struct]
    simp [specPLines, SegSpec.plines, List.map_append, List.map_map, Function.comp_def]
  · simp [dedentedLayout, specPLines, SegSpec.plines, List.map_append, List.map_map, Function.comp_def]

/-- Operator `dedented-member` on a printed document: the line of one member moved out to the outer level. The
    document is rejected (the struct loses its body, or the member line is met where a statement is expected). -/
theorem dedented_member_rejected (pre post : List Decl) (d : Option String) (name : String) (before : List Member)
    (m : Member) (after : List Member) (hpre : WFDecls pre) (hpost : WFDecls post) (hd : d ∈ structDispositions)
    (hn : IsTypeName name) (hb : ∀ x ∈ before, WFMember x) (hm : WFMember m) (ha : ∀ x ∈ after, WFMember x) :
    ∃ e, parse (unlinesC ((specPLines (dedentedLayout pre post d name before m after)).map PLine.chars)) = .error e := by
  let headSpec : SegSpec := ⟨!pre.isEmpty, (structHeaderText d name).toList, before.map fun x => x.render.toList⟩
  let memberSpec : SegSpec := ⟨false, m.render.toList, after.map fun x => x.render.toList⟩
  obtain ⟨s0, rest, heq, h0⟩ := layout_head pre headSpec (memberSpec :: docSpecs false post) (by intro h; subst h; rfl)
  have hclean : ∀ s ∈ s0 :: rest, s.Clean := by
    rw [← heq]
    intro s hs
    simp only [List.mem_append, List.mem_cons] at hs
    rcases hs with hs | rfl | rfl | hs
    · exact clean_docSpecs pre true (printable_of_wf pre hpre) s hs
    · refine ⟨clean_struct_header d name hd hn, ?_⟩
      intro t ht
      simp only [headSpec, List.mem_map] at ht
      obtain ⟨x, hx, rfl⟩ := ht
      exact clean_member x (hb x hx)
    · refine ⟨clean_member m hm, ?_⟩
      intro t ht
      simp only [memberSpec, List.mem_map] at ht
      obtain ⟨x, hx, rfl⟩ := ht
      exact clean_member x (ha x hx)
    · exact clean_docSpecs post false (printable_of_wf post hpost) s hs
  have hlayout : dedentedLayout pre post d name before m after = s0 :: rest := heq
  rw [hlayout]
  obtain ⟨k', hsegs⟩ := specSegs_append (docSpecs true pre) (headSpec :: memberSpec :: docSpecs false post) 1
  have hblocks : (specSegs 1 (s0 :: rest)).map segBlock =
      (specSegs 1 (docSpecs true pre)).map segBlock ++
        segBlock (headSpec.seg k') :: segBlock (memberSpec.seg (k' + headSpec.size)) ::
          (specSegs (k' + headSpec.size + memberSpec.size) (docSpecs false post)).map segBlock := by
    rw [← heq, hsegs]
    simp [specSegs]
  have hmember : ∀ acc tail, ∃ e, topLoop (segBlock (memberSpec.seg (k' + headSpec.size)) :: tail) {} acc = .error e :=
    fun acc tail => topLoop_bad_head _ tail acc rfl (parseTopLine_member_none .start m hm)
  have hfinal : ∃ e, topLoop (segBlock (headSpec.seg k') :: segBlock (memberSpec.seg (k' + headSpec.size)) ::
      (specSegs (k' + headSpec.size + memberSpec.size) (docSpecs false post)).map segBlock) {}
      ((pre.map Item.decl).reverse ++ []) = .error e := by
    cases hbefore : before with
    | nil =>
      -- the struct has lost its body
      refine topLoop_struct_without_body _ _ _ d name rfl (parseTopLine_structHeader d name hd hn) ?_
      simp [segBlock, SegSpec.seg, headSpec, hbefore, kidLines]
    | cons b0 bs =>
      -- the struct is read with the members before the dedented one, then the member line is met at the outer level
      have hwf : WFDecl (.struct { disposition := d, name := name, fields := before }) :=
        .struct _ (.mk d name before hd hn (by rw [hbefore]; simp) hb)
      have hblock := declBlock_of_wf (!pre.isEmpty) k' _ hwf
      have hstep := topLoop_decls_prefix [segBlock (headSpec.seg k')] [.struct { disposition := d, name := name, fields := before }]
        (segBlock (memberSpec.seg (k' + headSpec.size)) ::
          (specSegs (k' + headSpec.size + memberSpec.size) (docSpecs false post)).map segBlock)
        ((pre.map Item.decl).reverse ++ []) (.cons hblock .nil)
      simp only [List.singleton_append] at hstep
      rw [hstep]
      exact hmember _ _
  obtain ⟨e, he⟩ := hfinal
  refine parse_error_of_topLoop s0 rest h0 hclean e ?_
  rw [hblocks, topLoop_decls_prefix _ pre _ [] (docBlocks_forall2 pre true 1 hpre)]
  exact he

end SymbolVerif.Cats.Parser

/-
Line-level round trips for C04: the text a node prints for itself (`render` = `__str__`) is read back by the line
parser of its context as that node. Character level, for all well-formed names, numbers and types.
-/
import SymbolVerif.Proofs.CatsConsume
import SymbolVerif.Proofs.CatsWF
import SymbolVerif.Model.Cats.Parser
namespace SymbolVerif.Cats.Parser
open SymbolVerif.Cats SymbolVerif.Cats.Lexer

theorem int_repr_nat (n : Nat) : (n : Int).repr = n.repr := by cases n <;> rfl

theorem pyStr_nat (n : Nat) : (Scalar.int (n : Int)).pyStr = toString n := by
  simp [Scalar.pyStr, int_repr_nat]

/-- followers of tokens, as simp facts -/
theorem follows_blank_const (r : Chars) : Follows isConstChar (' ' :: r) := follows_cons _ _ _ (by decide)
theorem follows_blank_prop (r : Chars) : Follows isPropChar (' ' :: r) := follows_cons _ _ _ (by decide)
theorem follows_blank_type (r : Chars) : Follows isTypeChar (' ' :: r) := follows_cons _ _ _ (by decide)
theorem follows_comma_type (r : Chars) : Follows isTypeChar (',' :: r) := follows_cons _ _ _ (by decide)
theorem follows_rpar_prop (r : Chars) : Follows isPropChar (')' :: r) := follows_cons _ _ _ (by decide)
theorem follows_rpar_const (r : Chars) : Follows isConstChar (')' :: r) := follows_cons _ _ _ (by decide)

theorem number_repr_nil (n : Nat) : number (toString n).toList = some (n, []) := by
  have := number_repr n [] (by intro c h; cases h)
  rwa [List.append_nil] at this

theorem number_repr_rpar (n : Nat) (r : Chars) : number ((toString n).toList ++ ')' :: r) = some (n, ')' :: r) :=
  number_repr n _ (by intro c h; cases h; exact ⟨by decide, by decide⟩)

theorem number_repr_blank (n : Nat) (r : Chars) : number ((toString n).toList ++ ' ' :: r) = some (n, ' ' :: r) :=
  number_repr n _ (by intro c h; cases h; exact ⟨by decide, by decide⟩)

/-! ### enum value lines -/

theorem enumValue_render_toList (name : String) (n : Nat) :
    (EnumValue.render { name := name, value := .int n }).toList = name.toList ++ ' ' :: '=' :: ' ' :: (toString n).toList := by
  simp [EnumValue.render, String.toList_append, toString, Scalar.pyStr, int_repr_nat]

theorem parseEnumLine_render (v : EnumValue) (h : WFEnumValue v) : parseEnumLine v.render.toList = some v := by
  obtain ⟨name, n, hn⟩ := h
  rw [enumValue_render_toList]
  have h1 := constName_append name.toList (' ' :: '=' :: ' ' :: (toString n).toList) hn (follows_blank_const _)
  simp only [parseEnumLine, h1, bind, Option.bind, lit_skip_blank, lit_eq, number_skip_blank, number_repr_nil, atEol_nil,
    if_true, String.ofList_toList]

/-! ### enum and struct headers -/

theorem enumHeader_toList (name : String) (base : IntType) :
    (s!"enum {name} : {base.render}").toList =
      'e' :: 'n' :: 'u' :: 'm' :: ' ' :: (name.toList ++ ' ' :: ':' :: ' ' :: base.shortName.toList) := by
  simp [String.toList_append, toString, IntType.render]

theorem parseTopLine_enumHeader (name : String) (base : IntType) (hn : IsTypeName name) (hb : WFInt base) :
    parseTopLine .start (s!"enum {name} : {base.render}").toList = some (.enumHeader name base) := by
  rw [enumHeader_toList]
  obtain ⟨u, sz, sr⟩ := base
  obtain ⟨hsz, hsr⟩ := hb
  simp only at hsz hsr
  subst hsr
  have he : isWs 'e' = false := by decide
  have e1 : ∀ r, structModifier ('e' :: r) = none := fun r => structModifier_none_of_head _ _ he (by decide) (by decide)
  have e2 : ∀ r, lit "import" ('e' :: r) = none := fun r => lit_none_of_head "import" 'i' _ rfl _ _ he (by decide)
  have e3 : ∀ r, lit "struct" ('e' :: r) = none := fun r => lit_none_of_head "struct" 's' _ rfl _ _ he (by decide)
  have e4 : ∀ r, lit "using" ('e' :: r) = none := fun r => lit_none_of_head "using" 'u' _ rfl _ _ he (by decide)
  have h1 := userTypeName_with_blank name.toList (' ' :: ':' :: ' ' :: (IntType.shortName ⟨u, sz, none⟩).toList) hn
    (follows_blank_type _)
  have h2 := fixedSizeInteger_shortName u sz hsz []
  rw [List.append_nil] at h2
  simp only [parseTopLine, e1, e2, e3, e4, lit_enum, enumHeaderRest, h1, bind, Option.bind, lit_skip_blank, lit_colon,
    fixedSizeInteger_skip_blank, h2, atEol_nil, if_true, mkInt, String.ofList_toList]

/-- the header line of a struct: `[abstract |inline ]struct Name` -/
def structHeaderText (d : Option String) (name : String) : String :=
  (match d with | some d => if d = "" then "" else d ++ " " | none => "") ++ s!"struct {name}"

theorem structHeaderRest_render (d : Option String) (name : String) (hn : IsTypeName name) :
    structHeaderRest d (' ' :: 's' :: 't' :: 'r' :: 'u' :: 'c' :: 't' :: ' ' :: name.toList) = some (.structHeader d name) := by
  have h1 := userTypeName_with_blank name.toList [] hn (follows_nil _)
  rw [List.append_nil] at h1
  simp only [structHeaderRest, lit_skip_blank, lit_struct, h1, bind, Option.bind, atEol_nil, if_true, String.ofList_toList]

theorem parseTopLine_structHeader (d : Option String) (name : String) (hd : d ∈ structDispositions) (hn : IsTypeName name) :
    parseTopLine .start (structHeaderText d name).toList = some (.structHeader d name) := by
  simp only [structDispositions, List.mem_cons, List.not_mem_nil, or_false] at hd
  have h1 := userTypeName_with_blank name.toList [] hn (follows_nil _)
  rw [List.append_nil] at h1
  rcases hd with rfl | rfl | rfl
  · have ht : (structHeaderText none name).toList = 's' :: 't' :: 'r' :: 'u' :: 'c' :: 't' :: ' ' :: name.toList := by
      simp [structHeaderText, String.toList_append, toString]
    rw [ht]
    have hs : isWs 's' = false := by decide
    have e1 : ∀ r, structModifier ('s' :: r) = none := fun r => structModifier_none_of_head _ _ hs (by decide) (by decide)
    have e2 : ∀ r, lit "import" ('s' :: r) = none := fun r => lit_none_of_head "import" 'i' _ rfl _ _ hs (by decide)
    simp only [parseTopLine, e1, e2, lit_struct, structHeaderRest, h1, bind, Option.bind, atEol_nil, if_true,
      String.ofList_toList]
  · have ht : (structHeaderText (some "abstract") name).toList =
        'a' :: 'b' :: 's' :: 't' :: 'r' :: 'a' :: 'c' :: 't' :: ' ' :: 's' :: 't' :: 'r' :: 'u' :: 'c' :: 't' :: ' ' :: name.toList := by
      simp [structHeaderText, String.toList_append, toString]
    rw [ht]
    have e1 : ∀ r, structModifier ('a' :: 'b' :: 's' :: 't' :: 'r' :: 'a' :: 'c' :: 't' :: r) = some ("abstract", r) := by
      intro r; simp [structModifier, skipWs, isWs, litHere, List.isPrefixOf]
    simp only [parseTopLine, e1, structHeaderRest_render _ name hn]
  · have ht : (structHeaderText (some "inline") name).toList =
        'i' :: 'n' :: 'l' :: 'i' :: 'n' :: 'e' :: ' ' :: 's' :: 't' :: 'r' :: 'u' :: 'c' :: 't' :: ' ' :: name.toList := by
      simp [structHeaderText, String.toList_append, toString]
    rw [ht]
    have e1 : ∀ r, structModifier ('i' :: 'n' :: 'l' :: 'i' :: 'n' :: 'e' :: r) = some ("inline", r) := by
      intro r; simp [structModifier, skipWs, isWs, litHere, List.isPrefixOf]
    simp only [parseTopLine, e1, structHeaderRest_render _ name hn]

end SymbolVerif.Cats.Parser

/-
Line-level round trips for C04: the text a node prints for itself (`render` = `__str__`) is read back by the line
parser of its context as that node. Character level, for all well-formed names, numbers and types.
-/
import SymbolVerif.Proofs.CatsConsume
import SymbolVerif.Proofs.CatsWF
import SymbolVerif.Model.Cats.Parser
namespace SymbolVerif.Cats.Parser
open SymbolVerif.Cats SymbolVerif.Cats.Lexer
set_option linter.unusedSimpArgs false

theorem int_repr_nat (n : Nat) : (n : Int).repr = n.repr := by cases n <;> rfl

theorem pyStr_nat (n : Nat) : (Scalar.int (n : Int)).pyStr = toString n := by
  simp [Scalar.pyStr, int_repr_nat]

/-- followers of tokens, as simp facts -/
theorem follows_blank_const (r : Chars) : Follows isConstChar (' ' :: r) := follows_cons _ _ _ (by decide)
theorem follows_blank_prop (r : Chars) : Follows isPropChar (' ' :: r) := follows_cons _ _ _ (by decide)
theorem follows_blank_type (r : Chars) : Follows isTypeChar (' ' :: r) := follows_cons _ _ _ (by decide)
theorem follows_comma_type (r : Chars) : Follows isTypeChar (',' :: r) := follows_cons _ _ _ (by decide)
theorem follows_rpar_prop (r : Chars) : Follows isPropChar (')' :: r) := follows_cons _ _ _ (by decide)
theorem follows_rpar_const (r : Chars) : Follows isConstChar (')' :: r) := follows_cons _ _ _ (by decide)

theorem number_repr_nil (n : Nat) : number (toString n).toList = some (n, []) := by
  have := number_repr n [] (by intro c h; cases h)
  rwa [List.append_nil] at this

theorem number_repr_rpar (n : Nat) (r : Chars) : number ((toString n).toList ++ ')' :: r) = some (n, ')' :: r) :=
  number_repr n _ (by intro c h; cases h; exact ⟨by decide, by decide⟩)

theorem number_repr_blank (n : Nat) (r : Chars) : number ((toString n).toList ++ ' ' :: r) = some (n, ' ' :: r) :=
  number_repr n _ (by intro c h; cases h; exact ⟨by decide, by decide⟩)

/-! ### enum value lines -/

theorem enumValue_render_toList (name : String) (n : Nat) :
    (EnumValue.render { name := name, value := .int n }).toList = name.toList ++ ' ' :: '=' :: ' ' :: (toString n).toList := by
  simp [EnumValue.render, String.toList_append, toString, Scalar.pyStr, int_repr_nat]

theorem parseEnumLine_render (v : EnumValue) (h : WFEnumValue v) : parseEnumLine v.render.toList = some v := by
  obtain ⟨name, n, hn⟩ := h
  rw [enumValue_render_toList]
  have h1 := constName_append name.toList (' ' :: '=' :: ' ' :: (toString n).toList) hn (follows_blank_const _)
  simp only [parseEnumLine, h1, bind, Option.bind, lit_skip_blank, lit_eq, number_skip_blank, number_repr_nil, atEol_nil,
    if_true, String.ofList_toList]

/-! ### enum and struct headers -/

theorem enumHeader_toList (name : String) (base : IntType) :
    (s!"enum {name} : {base.render}").toList =
      'e' :: 'n' :: 'u' :: 'm' :: ' ' :: (name.toList ++ ' ' :: ':' :: ' ' :: base.shortName.toList) := by
  simp [String.toList_append, toString, IntType.render]

theorem parseTopLine_enumHeader (name : String) (base : IntType) (hn : IsTypeName name) (hb : WFInt base) :
    parseTopLine .start (s!"enum {name} : {base.render}").toList = some (.enumHeader name base) := by
  rw [enumHeader_toList]
  obtain ⟨u, sz, sr⟩ := base
  obtain ⟨hsz, hsr⟩ := hb
  simp only at hsz hsr
  subst hsr
  have he : isWs 'e' = false := by decide
  have e1 : ∀ r, structModifier ('e' :: r) = none := fun r => structModifier_none_of_head _ _ he (by decide) (by decide)
  have e2 : ∀ r, lit "import" ('e' :: r) = none := fun r => lit_none_of_head "import" 'i' _ rfl _ _ he (by decide)
  have e3 : ∀ r, lit "struct" ('e' :: r) = none := fun r => lit_none_of_head "struct" 's' _ rfl _ _ he (by decide)
  have e4 : ∀ r, lit "using" ('e' :: r) = none := fun r => lit_none_of_head "using" 'u' _ rfl _ _ he (by decide)
  have h1 := userTypeName_with_blank name.toList (' ' :: ':' :: ' ' :: (IntType.shortName ⟨u, sz, none⟩).toList) hn
    (follows_blank_type _)
  have h2 := fixedSizeInteger_shortName u sz hsz []
  rw [List.append_nil] at h2
  simp only [parseTopLine, e1, e2, e3, e4, lit_enum, enumHeaderRest, h1, bind, Option.bind, lit_skip_blank, lit_colon,
    fixedSizeInteger_skip_blank, h2, atEol_nil, if_true, mkInt, String.ofList_toList]

/-- the header line of a struct: `[abstract |inline ]struct Name` -/
def structHeaderText (d : Option String) (name : String) : String :=
  (match d with | some d => if d = "" then "" else d ++ " " | none => "") ++ s!"struct {name}"

theorem structHeaderRest_render (d : Option String) (name : String) (hn : IsTypeName name) :
    structHeaderRest d (' ' :: 's' :: 't' :: 'r' :: 'u' :: 'c' :: 't' :: ' ' :: name.toList) = some (.structHeader d name) := by
  have h1 := userTypeName_with_blank name.toList [] hn (follows_nil _)
  rw [List.append_nil] at h1
  simp only [structHeaderRest, lit_skip_blank, lit_struct, h1, bind, Option.bind, atEol_nil, if_true, String.ofList_toList]

theorem parseTopLine_structHeader (d : Option String) (name : String) (hd : d ∈ structDispositions) (hn : IsTypeName name) :
    parseTopLine .start (structHeaderText d name).toList = some (.structHeader d name) := by
  simp only [structDispositions, List.mem_cons, List.not_mem_nil, or_false] at hd
  have h1 := userTypeName_with_blank name.toList [] hn (follows_nil _)
  rw [List.append_nil] at h1
  rcases hd with rfl | rfl | rfl
  · have ht : (structHeaderText none name).toList = 's' :: 't' :: 'r' :: 'u' :: 'c' :: 't' :: ' ' :: name.toList := by
      simp [structHeaderText, String.toList_append, toString]
    rw [ht]
    have hs : isWs 's' = false := by decide
    have e1 : ∀ r, structModifier ('s' :: r) = none := fun r => structModifier_none_of_head _ _ hs (by decide) (by decide)
    have e2 : ∀ r, lit "import" ('s' :: r) = none := fun r => lit_none_of_head "import" 'i' _ rfl _ _ hs (by decide)
    simp only [parseTopLine, e1, e2, lit_struct, structHeaderRest, h1, bind, Option.bind, atEol_nil, if_true,
      String.ofList_toList]
  · have ht : (structHeaderText (some "abstract") name).toList =
        'a' :: 'b' :: 's' :: 't' :: 'r' :: 'a' :: 'c' :: 't' :: ' ' :: 's' :: 't' :: 'r' :: 'u' :: 'c' :: 't' :: ' ' :: name.toList := by
      simp [structHeaderText, String.toList_append, toString]
    rw [ht]
    have e1 : ∀ r, structModifier ('a' :: 'b' :: 's' :: 't' :: 'r' :: 'a' :: 'c' :: 't' :: r) = some ("abstract", r) := by
      intro r; simp [structModifier, skipWs, isWs, litHere, List.isPrefixOf]
    simp only [parseTopLine, e1, structHeaderRest_render _ name hn]
  · have ht : (structHeaderText (some "inline") name).toList =
        'i' :: 'n' :: 'l' :: 'i' :: 'n' :: 'e' :: ' ' :: 's' :: 't' :: 'r' :: 'u' :: 'c' :: 't' :: ' ' :: name.toList := by
      simp [structHeaderText, String.toList_append, toString]
    rw [ht]
    have e1 : ∀ r, structModifier ('i' :: 'n' :: 'l' :: 'i' :: 'n' :: 'e' :: r) = some ("inline", r) := by
      intro r; simp [structModifier, skipWs, isWs, litHere, List.isPrefixOf]
    simp only [parseTopLine, e1, structHeaderRest_render _ name hn]

/-! ### arrays -/

theorem propName_ne_fill (p : String) (h : IsPropName p) : p ≠ fillPlaceholder := by
  intro he
  subst he
  obtain ⟨a, b, rest, heq, ha, _, _⟩ := h
  have : fillPlaceholder.toList = '_' :: '_' :: 'F' :: 'I' :: 'L' :: 'L' :: '_' :: '_' :: [] := by decide
  rw [this] at heq
  simp only [List.cons.injEq] at heq
  obtain ⟨rfl, _⟩ := heq
  revert ha; decide

theorem array_counted_toList (e : ElemType) (n : Nat) :
    (ArrayType.render { elementType := e, rawSize := .int n }).toList =
      'a' :: 'r' :: 'r' :: 'a' :: 'y' :: '(' :: (e.render.toList ++ ',' :: ' ' :: ((toString n).toList ++ [')'])) := by
  simp [ArrayType.render, ArrayType.disposition, ArrayType.isExpandable, ArrayType.isByteConstrained, ArrayType.size,
    String.toList_append, toString, Scalar.pyStr, int_repr_nat, fillPlaceholder]

theorem array_sized_toList (e : ElemType) (p : String) (hp : IsPropName p) :
    (ArrayType.render { elementType := e, rawSize := .str p }).toList =
      'a' :: 'r' :: 'r' :: 'a' :: 'y' :: '(' :: (e.render.toList ++ ',' :: ' ' :: (p.toList ++ [')'])) := by
  have hne : p ≠ "__FILL__" := propName_ne_fill p hp
  simp [ArrayType.render, ArrayType.disposition, ArrayType.isExpandable, ArrayType.isByteConstrained, ArrayType.size,
    String.toList_append, toString, Scalar.pyStr, fillPlaceholder, hne]

theorem array_fill_toList (e : ElemType) :
    (ArrayType.render { elementType := e, rawSize := .str fillPlaceholder }).toList =
      'a' :: 'r' :: 'r' :: 'a' :: 'y' :: '(' :: (e.render.toList ++ ',' :: ' ' :: '_' :: '_' :: 'F' :: 'I' :: 'L' :: 'L' :: '_' :: '_' :: [')']) := by
  simp [ArrayType.render, ArrayType.disposition, ArrayType.isExpandable, ArrayType.isByteConstrained, ArrayType.size,
    String.toList_append, toString, Scalar.pyStr, fillPlaceholder]

theorem scanElem_render (e : ElemType) (he : WFElem e) (r : Chars) :
    scanElem (e.render.toList ++ ',' :: r) = some (e, ',' :: r) := by
  cases he with
  | named n hn =>
    obtain ⟨a, b, rest, heq, ha, hb, hrest⟩ := id hn
    have h1 : fixedSizeInteger (n.toList ++ ',' :: r) = none := by
      rw [heq]; exact fixedSizeInteger_none_of_upper a _ ha
    have h2 := userTypeName_append n.toList (',' :: r) hn (follows_comma_type r)
    simp only [scanElem, ElemType.render, h1, h2, Option.map, String.ofList_toList]
  | int t ht =>
    obtain ⟨u, sz, sr⟩ := t
    obtain ⟨hsz, hsr⟩ := ht
    simp only at hsz hsr
    subst hsr
    have h1 := fixedSizeInteger_shortName u sz hsz (',' :: r)
    simp only [scanElem, ElemType.render, IntType.render, h1, mkInt]

/-- the text of an array type followed by `rest` is scanned as that array type -/
theorem arrayArguments_render (a : ArrayType) (ha : WFArray a) (rest : Chars) :
    ∃ body, a.render.toList = 'a' :: 'r' :: 'r' :: 'a' :: 'y' :: body ∧
      arrayArguments (body ++ rest) = some (a, rest) := by
  cases ha with
  | counted e n he =>
    refine ⟨_, array_counted_toList e n, ?_⟩
    have h1 := scanElem_render e he (' ' :: ((toString n).toList ++ ')' :: rest))
    have h2 : propertyName ((toString n).toList ++ ')' :: rest) = none := propertyName_toString_none n _
    have h3 := number_repr_rpar n rest
    simp only [arrayArguments, List.cons_append, List.append_assoc, List.nil_append, lit_lpar, h1, bind, Option.bind, lit_comma,
      scanSize, propertyName_skip_blank, number_skip_blank, h2, h3, lit_rpar]
  | sized e p he hp =>
    refine ⟨_, array_sized_toList e p hp, ?_⟩
    have h1 := scanElem_render e he (' ' :: (p.toList ++ ')' :: rest))
    have h2 := propertyName_append p.toList (')' :: rest) hp (follows_rpar_prop rest)
    simp only [arrayArguments, List.cons_append, List.append_assoc, List.nil_append, lit_lpar, h1, bind, Option.bind, lit_comma,
      scanSize, propertyName_skip_blank, h2, lit_rpar, String.ofList_toList]
  | fill e he =>
    refine ⟨_, array_fill_toList e, ?_⟩
    have h1 := scanElem_render e he (' ' :: '_' :: '_' :: 'F' :: 'I' :: 'L' :: 'L' :: '_' :: '_' :: ')' :: rest)
    have h2 : ∀ r, propertyName ('_' :: r) = none := fun r => propertyName_none_of_head '_' r (by decide) (by decide)
    have h3 : (fillPlaceholder : String) = "__FILL__" := rfl
    simp only [arrayArguments, List.cons_append, List.append_assoc, List.nil_append, lit_lpar, h1, bind, Option.bind, lit_comma,
      scanSize, propertyName_skip_blank, number_skip_blank, h2, number_underscore_none, h3, lit_skip_blank, lit_fill, Option.map,
      lit_rpar]

/-! ### conditions -/

/-- the text of an optional condition: nothing, or ` if VALUE OP member` -/
def valueText : FieldValue → Chars
  | .cond c => ' ' :: c.render.toList
  | .scalar _ => []

theorem cond_num_toList (n : Nat) (op p : String) :
    (Conditional.render ⟨.int n, op, p⟩).toList = 'i' :: 'f' :: ' ' :: ((toString n).toList ++ ' ' :: (op.toList ++ ' ' :: p.toList)) := by
  simp [Conditional.render, String.toList_append, toString, Scalar.pyStr, int_repr_nat]

theorem cond_const_toList (c op p : String) :
    (Conditional.render ⟨.str c, op, p⟩).toList = 'i' :: 'f' :: ' ' :: (c.toList ++ ' ' :: (op.toList ++ ' ' :: p.toList)) := by
  simp [Conditional.render, String.toList_append, toString, Scalar.pyStr]

theorem conditionalOperation_render (op : String) (hop : op ∈ conditionOperations) (r : Chars) :
    conditionalOperation (op.toList ++ r) = some (op, r) := by
  simp only [conditionOperations, List.mem_cons, List.not_mem_nil, or_false] at hop
  rcases hop with rfl | rfl | rfl | rfl
  · exact condOp_equals r
  · exact condOp_not_equals r
  · exact condOp_in r
  · exact condOp_not_in r

theorem conditionalExpression_render (c : Conditional) (hc : WFCond c) :
    conditionalExpression (' ' :: c.render.toList) = some (c, []) := by
  cases hc with
  | num n op p hop hp =>
    rw [cond_num_toList]
    have h1 : constName ((toString n).toList ++ ' ' :: (op.toList ++ ' ' :: p.toList)) = none := constName_toString_none n _
    have h2 := number_repr_blank n (op.toList ++ ' ' :: p.toList)
    have h3 := conditionalOperation_render op hop (' ' :: p.toList)
    have h4 := propertyName_append p.toList [] hp (follows_nil _)
    rw [List.append_nil] at h4
    simp only [conditionalExpression, lit_skip_blank, lit_if, bind, Option.bind, conditionValue, constName_skip_blank, h1,
      number_skip_blank, h2, Option.map, conditionalOperation_skip_blank, h3, propertyName_skip_blank, h4, String.ofList_toList]
  | const cn op p hcn hop hp =>
    rw [cond_const_toList]
    have h1 := constName_append cn.toList (' ' :: (op.toList ++ ' ' :: p.toList)) hcn (follows_blank_const _)
    have h3 := conditionalOperation_render op hop (' ' :: p.toList)
    have h4 := propertyName_append p.toList [] hp (follows_nil _)
    rw [List.append_nil] at h4
    simp only [conditionalExpression, lit_skip_blank, lit_if, bind, Option.bind, conditionValue, constName_skip_blank, h1,
      conditionalOperation_skip_blank, h3, propertyName_skip_blank, h4, String.ofList_toList]

theorem optConditionalEol_render (v : FieldValue) (hv : WFValue v) : optConditionalEol (valueText v) = some v := by
  cases hv with
  | none => simp only [valueText, optConditionalEol, atEol_nil, if_true]
  | cond c hc =>
    have h1 := conditionalExpression_render c hc
    have h2 : atEol (' ' :: c.render.toList) = false := by
      cases hc with
      | num n op p _ _ => rw [cond_num_toList, atEol_skip_blank]; exact atEol_cons _ _ (by decide)
      | const cn op p _ _ _ => rw [cond_const_toList, atEol_skip_blank]; exact atEol_cons _ _ (by decide)
    simp only [valueText, optConditionalEol, h2, h1, atEol_nil, if_true, Bool.false_eq_true, if_false]

theorem follows_type_valueText (v : FieldValue) : Follows isTypeChar (valueText v) := by
  cases v with
  | cond c => exact follows_cons _ _ _ (by decide)
  | scalar s => exact follows_nil _

/-! ### plain fields: type, optional condition, end of line -/

theorem plainFieldRest_render (name : String) (t : FieldType) (v : FieldValue) (ht : WFType t) (hv : WFValue v) :
    plainFieldRest name (' ' :: (t.render.toList ++ valueText v)) = some { name := name, fieldType := t, value := v } := by
  have hv' := optConditionalEol_render v hv
  cases ht with
  | named n hn =>
    obtain ⟨a, b, rest, heq, ha, hb, hrest⟩ := id hn
    have h1 : fixedSizeInteger (n.toList ++ valueText v) = none := by
      rw [heq]; exact fixedSizeInteger_none_of_upper a _ ha
    have h2 := userTypeName_append n.toList (valueText v) hn (follows_type_valueText v)
    simp only [plainFieldRest, plainFieldType, FieldType.render, fixedSizeInteger_skip_blank, h1, userTypeName_skip_blank, h2,
      bind, Option.bind, hv', String.ofList_toList]
  | int it hit =>
    obtain ⟨u, sz, sr⟩ := it
    obtain ⟨hsz, hsr⟩ := hit
    simp only at hsz hsr
    subst hsr
    have h1 := fixedSizeInteger_shortName u sz hsz (valueText v)
    simp only [plainFieldRest, plainFieldType, FieldType.render, IntType.render, fixedSizeInteger_skip_blank, h1, bind,
      Option.bind, hv', mkInt]
  | array a ha =>
    obtain ⟨body, hbody, harr⟩ := arrayArguments_render a ha (valueText v)
    have h1 : ∀ r, fixedSizeInteger ('a' :: r) = none := fun r =>
      fixedSizeInteger_none_of_head 'a' r (by decide) (by decide) (by decide)
    have h2 : ∀ r, userTypeName ('a' :: r) = none := fun r => userTypeName_none_of_head 'a' r (by decide) (by decide)
    simp only [plainFieldRest, plainFieldType, FieldType.render, hbody, List.cons_append, fixedSizeInteger_skip_blank, h1,
      userTypeName_skip_blank, h2, lit_skip_blank, lit_array, harr, bind, Option.bind, hv']

/-! ### member lines -/

theorem plain_render_toList (name : String) (t : FieldType) (v : FieldValue) (hv : WFValue v) :
    (StructField.render { name := name, fieldType := t, value := v }).toList =
      name.toList ++ ' ' :: '=' :: ' ' :: (t.render.toList ++ valueText v) := by
  cases hv with
  | none => simp [StructField.render, formatAttributes, attrList, String.toList_append, valueText, Scalar.truthy]
  | cond c _ => simp [StructField.render, formatAttributes, attrList, String.toList_append, valueText]

/-- the argument text of `make_const` / `make_reserved` -/
theorem constArg_parse (t : FieldType) (v : Scalar) (h : WFConstArg t v) (rest : Chars) :
    integerOrEnumConst (t.render.toList ++ ',' :: ' ' :: (v.pyStr.toList ++ ')' :: rest)) = some ((t, v), ')' :: rest) := by
  cases h with
  | int it n hit =>
    obtain ⟨u, sz, sr⟩ := it
    obtain ⟨hsz, hsr⟩ := hit
    simp only at hsz hsr
    subst hsr
    have h1 := fixedSizeInteger_shortName u sz hsz (',' :: ' ' :: ((toString n).toList ++ ')' :: rest))
    have h2 := number_repr_rpar n rest
    simp only [integerOrEnumConst, FieldType.render, IntType.render, pyStr_nat, h1, bind, Option.bind, lit_comma,
      number_skip_blank, h2, mkInt]
  | «enum» ty c hty hc =>
    obtain ⟨a, b, rs, heq, ha, hb, hrest⟩ := id hty
    have h1 : fixedSizeInteger (ty.toList ++ ',' :: ' ' :: (c.toList ++ ')' :: rest)) = none := by
      rw [heq]; exact fixedSizeInteger_none_of_upper a _ ha
    have h2 := userTypeName_append ty.toList (',' :: ' ' :: (c.toList ++ ')' :: rest)) hty (follows_comma_type _)
    have h3 := constName_append c.toList (')' :: rest) hc (follows_rpar_const rest)
    simp only [integerOrEnumConst, FieldType.render, Scalar.pyStr, h1, h2, bind, Option.bind, lit_comma, constName_skip_blank,
      h3, String.ofList_toList]

theorem const_render_toList (name : String) (t : FieldType) (v : Scalar) :
    (StructField.render { name := name, fieldType := t, value := .scalar v, disposition := some "const" }).toList =
      name.toList ++ ' ' :: '=' :: ' ' :: 'm' :: 'a' :: 'k' :: 'e' :: '_' :: 'c' :: 'o' :: 'n' :: 's' :: 't' :: '(' ::
        (t.render.toList ++ ',' :: ' ' :: (v.pyStr.toList ++ [')'])) := by
  simp [StructField.render, formatAttributes, attrList, String.toList_append, toString]

theorem reserved_render_toList (name : String) (t : FieldType) (v : Scalar) :
    (StructField.render { name := name, fieldType := t, value := .scalar v, disposition := some "reserved" }).toList =
      name.toList ++ ' ' :: '=' :: ' ' :: 'm' :: 'a' :: 'k' :: 'e' :: '_' :: 'r' :: 'e' :: 's' :: 'e' :: 'r' :: 'v' :: 'e' :: 'd' :: '(' ::
        (t.render.toList ++ ',' :: ' ' :: (v.pyStr.toList ++ [')'])) := by
  simp [StructField.render, formatAttributes, attrList, String.toList_append, toString]

theorem sizeof_render_toList (name : String) (t : IntType) (p : String) :
    (StructField.render { name := name, fieldType := .int t, value := .scalar (.str p), disposition := some "sizeof" }).toList =
      name.toList ++ ' ' :: '=' :: ' ' :: 's' :: 'i' :: 'z' :: 'e' :: 'o' :: 'f' :: '(' ::
        (t.shortName.toList ++ ',' :: ' ' :: (p.toList ++ [')'])) := by
  simp [StructField.render, formatAttributes, attrList, String.toList_append, toString, FieldType.render, IntType.render,
    Scalar.pyStr]

theorem namedInline_render_toList (name ty : String) :
    (StructField.render { name := name, fieldType := .named ty, disposition := some "inline" }).toList =
      name.toList ++ ' ' :: '=' :: ' ' :: 'i' :: 'n' :: 'l' :: 'i' :: 'n' :: 'e' :: ' ' :: ty.toList := by
  simp [StructField.render, formatAttributes, attrList, String.toList_append, toString, FieldType.render]

/-- the start of a member line `name = …` (no attribute lines before it) -/
theorem parseStructLine_memberName (name : String) (hn : IsMemberName name) (body : Chars) :
    parseStructLine false (name.toList ++ ' ' :: '=' :: ' ' :: body) = memberAfterEquals name (' ' :: body) := by
  obtain ⟨hp, hne⟩ := hn
  have h1 : constName (name.toList ++ ' ' :: '=' :: ' ' :: body) = none := constName_none_of_property _ _ hp
  have h2 := propertyName_append name.toList (' ' :: '=' :: ' ' :: body) hp (follows_blank_prop _)
  simp only [parseStructLine, Bool.false_eq_true, if_false, h1, h2, String.ofList_toList, hne, lit_skip_blank, lit_eq, bind,
    Option.bind]

/-- what follows `name =` in a plain field is none of the keywords `make_reserved`, `sizeof`, `inline` -/
theorem memberAfterEquals_plain (name : String) (t : FieldType) (ht : WFType t) (rest : Chars) :
    memberAfterEquals name (' ' :: (t.render.toList ++ rest)) =
      (plainFieldRest name (' ' :: (t.render.toList ++ rest))).map fun f => .member (.field f) := by
  have key : ∀ (c : Char) (r : Chars), isWs c = false → ('m' == c) = false → ('s' == c) = false →
      (lit "inline" (c :: r) = none) →
      memberAfterEquals name (' ' :: c :: r) = (plainFieldRest name (' ' :: c :: r)).map fun f => .member (.field f) := by
    intro c r hws hm hs hi
    have e1 : lit "make_reserved" (c :: r) = none := lit_none_of_head "make_reserved" 'm' _ rfl c r hws hm
    have e2 : lit "sizeof" (c :: r) = none := lit_none_of_head "sizeof" 's' _ rfl c r hws hs
    simp only [memberAfterEquals, lit_skip_blank, e1, e2, hi]
  cases ht with
  | named n hn =>
    obtain ⟨a, b, rs, heq, ha, hb, hrest⟩ := id hn
    simp only [FieldType.render, heq, List.cons_append]
    have hne : ∀ (x : Char), isUpper x = false → (x == a) = false := by
      intro x hx
      simp only [beq_eq_false_iff_ne, ne_eq]
      intro h; subst h; rw [ha] at hx; cases hx
    exact key a _ (not_ws_of_upper ha) (hne 'm' (by decide)) (hne 's' (by decide))
      (lit_none_of_upper "inline" 'i' _ rfl (by decide) a _ ha)
  | int it hit =>
    obtain ⟨u, sz, sr⟩ := it
    obtain ⟨hsz, hsr⟩ := hit
    simp only at hsz hsr
    subst hsr
    simp only [FieldType.render, IntType.render, shortName_cases u sz hsz]
    cases u
    · simp only [Bool.false_eq_true, if_false, List.nil_append, List.cons_append]
      exact key 'i' _ (by decide) (by decide) (by decide) (lit_inline_int _)
    · simp only [if_true, List.cons_append, List.nil_append]
      exact key 'u' _ (by decide) (by decide) (by decide) (lit_none_of_head "inline" 'i' _ rfl 'u' _ (by decide) (by decide))
  | array a ha =>
    obtain ⟨body, hbody, _⟩ := arrayArguments_render a ha []
    simp only [FieldType.render, hbody, List.cons_append]
    exact key 'a' _ (by decide) (by decide) (by decide) (lit_none_of_head "inline" 'i' _ rfl 'a' _ (by decide) (by decide))

/-- Round trip of every member form without attributes and comments: the line a member prints for itself is read
    back, in a struct body, as that member. -/
theorem parseStructLine_render (m : Member) (h : WFMember m) :
    parseStructLine false m.render.toList = some (.member m) := by
  cases h with
  | plain name t v hn ht hv =>
    simp only [Member.render]
    rw [plain_render_toList name t v hv, parseStructLine_memberName name hn, memberAfterEquals_plain name t ht,
      plainFieldRest_render name t v ht hv]
    rfl
  | valuePlaceholder t v ht hv =>
    simp only [Member.render]
    rw [plain_render_toList "__value__" t v hv]
    have hv' : "__value__".toList = '_' :: '_' :: 'v' :: 'a' :: 'l' :: 'u' :: 'e' :: '_' :: '_' :: [] := by decide
    rw [hv']
    have h1 : ∀ r, constName ('_' :: r) = none := fun r => constName_none_of_head '_' r (by decide) (by decide)
    have h2 : ∀ r, propertyName ('_' :: r) = none := fun r => propertyName_none_of_head '_' r (by decide) (by decide)
    have h3 : ∀ r, lit "__value__" ('_' :: '_' :: 'v' :: 'a' :: 'l' :: 'u' :: 'e' :: '_' :: '_' :: r) = some r := by
      intro r; simp [lit, skipWs, isWs, List.isPrefixOf]
    simp only [parseStructLine, Bool.false_eq_true, if_false, List.cons_append, List.nil_append, h1, h2, h3, plainMemberRest,
      lit_skip_blank, lit_eq, bind, Option.bind, plainFieldRest_render "__value__" t v ht hv, Option.map]
  | const name t v hn ha =>
    simp only [Member.render]
    rw [const_render_toList]
    have h1 := constName_append name.toList
      (' ' :: '=' :: ' ' :: 'm' :: 'a' :: 'k' :: 'e' :: '_' :: 'c' :: 'o' :: 'n' :: 's' :: 't' :: '(' ::
        (t.render.toList ++ ',' :: ' ' :: (v.pyStr.toList ++ [')']))) hn (follows_blank_const _)
    have h2 := constArg_parse t v ha []
    simp only [parseStructLine, Bool.false_eq_true, if_false, h1, constMemberRest, lit_skip_blank, lit_eq, lit_make_const,
      lit_lpar, h2, lit_rpar, atEol_nil, if_true, bind, Option.bind, String.ofList_toList]
  | reserved name t v hn ha =>
    simp only [Member.render]
    rw [reserved_render_toList, parseStructLine_memberName name hn]
    have h2 := constArg_parse t v ha []
    simp only [memberAfterEquals, lit_skip_blank, lit_make_reserved, lit_lpar, h2, lit_rpar, atEol_nil, if_true, bind, Option.bind]
  | sizeof name t p hn ht hp =>
    simp only [Member.render]
    rw [sizeof_render_toList, parseStructLine_memberName name hn]
    obtain ⟨u, sz, sr⟩ := t
    obtain ⟨hsz, hsr⟩ := ht
    simp only at hsz hsr
    subst hsr
    have e1 : ∀ r, lit "make_reserved" ('s' :: r) = none := fun r =>
      lit_none_of_head "make_reserved" 'm' _ rfl 's' r (by decide) (by decide)
    have h1 := fixedSizeInteger_shortName u sz hsz (',' :: ' ' :: (p.toList ++ [')']))
    have h2 := propertyName_append p.toList [')'] hp (follows_rpar_prop [])
    simp only [memberAfterEquals, lit_skip_blank, e1, lit_sizeof, lit_lpar, h1, lit_comma, propertyName_skip_blank, h2, lit_rpar,
      atEol_nil, if_true, bind, Option.bind, mkInt, String.ofList_toList]
  | namedInline name ty hn hty =>
    simp only [Member.render]
    rw [namedInline_render_toList, parseStructLine_memberName name hn]
    have e1 : ∀ r, lit "make_reserved" ('i' :: r) = none := fun r =>
      lit_none_of_head "make_reserved" 'm' _ rfl 'i' r (by decide) (by decide)
    have e2 : ∀ r, lit "sizeof" ('i' :: r) = none := fun r =>
      lit_none_of_head "sizeof" 's' _ rfl 'i' r (by decide) (by decide)
    have h1 := userTypeName_with_blank ty.toList [] hty (follows_nil _)
    rw [List.append_nil] at h1
    simp only [memberAfterEquals, lit_skip_blank, e1, e2, lit_inline, h1, atEol_nil, if_true, bind, Option.bind,
      String.ofList_toList]
  | unnamedInline ty hty =>
    have ht : (Member.render (.inlinePlaceholder ty none)).toList = 'i' :: 'n' :: 'l' :: 'i' :: 'n' :: 'e' :: ' ' :: ty.toList := by
      simp [Member.render, String.toList_append]
    rw [ht]
    have h1 : ∀ r, constName ('i' :: r) = none := fun r => constName_none_of_head 'i' r (by decide) (by decide)
    have h2 := userTypeName_with_blank ty.toList [] hty (follows_nil _)
    rw [List.append_nil] at h2
    simp only [parseStructLine, Bool.false_eq_true, if_false, h1, propertyName_inline_blank, if_true, unnamedInlineRest, h2,
      atEol_nil, bind, Option.bind, String.ofList_toList]

/-! ### the alias line -/

theorem alias_render_toList (a : Alias) :
    a.render.toList = 'u' :: 's' :: 'i' :: 'n' :: 'g' :: ' ' :: (a.name.toList ++ ' ' :: '=' :: ' ' :: a.linkedType.render.toList) := by
  simp [Alias.render, String.toList_append, toString]

theorem fixed_shortName (u : Bool) (sz : Nat) (h : sz = 1 ∨ sz = 2 ∨ sz = 4 ∨ sz = 8) :
    fixedSizeInteger (' ' :: (IntType.shortName ⟨u, sz, none⟩).toList) = some ((u, sz), []) := by
  rcases h with rfl | rfl | rfl | rfl <;> cases u <;> decide

theorem tail_head_not_type (t : Chars) (c : Char) (h : (' ' :: t).head? = some c) : isTypeChar c = false := by
  simp at h; subst h; decide

theorem buffer_render_toList (n : Nat) :
    (LinkedType.render (.buffer n)).toList = "binary_fixed(".toList ++ ((toString n).toList ++ [')']) := by
  simp [LinkedType.render, String.toList_append, toString]

/-- Character-level round trip of an alias declaration: the text `Alias.__str__` prints for a well-formed alias is
    read back by the top-level line parser as exactly that alias (name, signedness, width / buffer length). -/
theorem parseTopLine_alias (a : Alias) (h : WFAlias a) :
    parseTopLine .start a.render.toList = some (.alias a.name a.linkedType) := by
  obtain ⟨name, lt, c⟩ := a
  obtain ⟨hn, hlt⟩ := h
  simp only at hn hlt
  have hu : isWs 'u' = false := by decide
  rw [alias_render_toList]
  simp only
  have hscan := userTypeName_with_blank name.toList (' ' :: '=' :: ' ' :: lt.render.toList) hn (tail_head_not_type _)
  have e1 : structModifier ('u' :: 's' :: 'i' :: 'n' :: 'g' :: ' ' :: (name.toList ++ ' ' :: '=' :: ' ' :: lt.render.toList)) = none :=
    structModifier_none_of_head _ _ hu (by decide) (by decide)
  have e2 : lit "import" ('u' :: 's' :: 'i' :: 'n' :: 'g' :: ' ' :: (name.toList ++ ' ' :: '=' :: ' ' :: lt.render.toList)) = none :=
    lit_none_of_head "import" 'i' _ rfl _ _ hu (by decide)
  have e3 : lit "struct" ('u' :: 's' :: 'i' :: 'n' :: 'g' :: ' ' :: (name.toList ++ ' ' :: '=' :: ' ' :: lt.render.toList)) = none :=
    lit_none_of_head "struct" 's' _ rfl _ _ hu (by decide)
  have e4 := lit_using (' ' :: (name.toList ++ ' ' :: '=' :: ' ' :: lt.render.toList))
  have hA : lit "=" (' ' :: '=' :: ' ' :: lt.render.toList) = some (' ' :: lt.render.toList) := by
    simp [lit, skipWs, List.dropWhile, isWs, List.isPrefixOf]
  have hC : atEol ([] : Chars) = true := by decide
  cases lt with
  | int t =>
    obtain ⟨u, sz, sr⟩ := t
    obtain ⟨hsz, hsr⟩ := hlt
    simp only at hsz hsr
    subst hsr
    have hB := fixed_shortName u sz hsz
    simp only [LinkedType.render, IntType.render] at hscan hA e1 e2 e3 e4 ⊢
    simp only [parseTopLine, e1, e2, e3, e4, aliasRest, hscan, bind, Option.bind, hA, hB, hC, if_true, mkInt,
      String.ofList_toList]
  | buffer n =>
    rw [buffer_render_toList] at hscan hA e1 e2 e3 e4 ⊢
    have hB : fixedSizeInteger (' ' :: ("binary_fixed(".toList ++ ((toString n).toList ++ [')']))) = none := by
      simp [fixedSizeInteger, skipWs, List.dropWhile, isWs, litHere, List.isPrefixOf]
    have hD : lit "binary_fixed" (' ' :: ("binary_fixed(".toList ++ ((toString n).toList ++ [')']))) =
        some ('(' :: ((toString n).toList ++ [')'])) := by
      simp [lit, skipWs, List.dropWhile, isWs, List.isPrefixOf]
    have hE : lit "(" ('(' :: ((toString n).toList ++ [')'])) = some ((toString n).toList ++ [')']) := by
      simp [lit, skipWs, List.dropWhile, isWs, List.isPrefixOf]
    have hF : number ((toString n).toList ++ [')']) = some (n, [')']) :=
      number_repr n [')'] (by intro c hc; simp at hc; subst hc; exact ⟨by decide, by decide⟩)
    have hG : lit ")" [')'] = some [] := by decide
    simp only [parseTopLine, e1, e2, e3, e4, aliasRest, hscan, bind, Option.bind, hA, hB, hC, hD, hE, hF, hG, if_true,
      String.ofList_toList]


end SymbolVerif.Cats.Parser

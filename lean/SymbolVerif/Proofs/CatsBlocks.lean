/-
From logical lines to declarations: the indentation events, the blocks and the statement loops of
`Model/Cats/Parser.lean` on the line structure of a printed document (a header line at the outer level followed by
its children one level in).
-/
import SymbolVerif.Proofs.CatsRoundTrip
namespace SymbolVerif.Cats.Parser
open SymbolVerif.Cats SymbolVerif.Cats.Lexer
set_option linter.unusedSimpArgs false

/-- two lists related element by element -/
inductive Forall2 {α β : Type} (R : α → β → Prop) : List α → List β → Prop
  | nil : Forall2 R [] []
  | cons {a : α} {b : β} {as : List α} {bs : List β} : R a b → Forall2 R as bs → Forall2 R (a :: as) (b :: bs)

theorem forall2_append_right {α β : Type} {R : α → β → Prop} : ∀ {l : List α} {b1 b2 : List β}, Forall2 R l (b1 ++ b2) →
    ∃ l1 l2, l = l1 ++ l2 ∧ Forall2 R l1 b1 ∧ Forall2 R l2 b2 := by
  intro l b1
  induction b1 generalizing l with
  | nil => intro b2 h; exact ⟨[], l, rfl, .nil, h⟩
  | cons b bs ih =>
    intro b2 h
    cases h with
    | cons hab htail =>
      obtain ⟨l1, l2, rfl, h1, h2⟩ := ih htail
      exact ⟨_ :: l1, l2, rfl, .cons hab h1, h2⟩

theorem forall2_map_right {α β γ : Type} {R : α → γ → Prop} {f : β → γ} : ∀ {l : List α} {bs : List β},
    Forall2 R l (bs.map f) → Forall2 (fun a b => R a (f b)) l bs := by
  intro l bs
  induction bs generalizing l with
  | nil => intro h; cases h; exact .nil
  | cons b rest ih =>
    intro h
    cases h with
    | cons hab htail => exact .cons hab (ih htail)

/-- the lines of one declaration: a header at the outer level and its children one level in -/
structure Seg where
  head : LLine
  kids : List LLine

def Seg.lines (s : Seg) : List LLine := s.head :: s.kids

/-- indentation as the printer produces it -/
def Seg.Ok (s : Seg) : Prop := s.head.indent = 0 ∧ ∀ k ∈ s.kids, k.indent = 4

def nextIndent : List LLine → Nat
  | n :: _ => n.indent
  | [] => 0

theorem eventsFrom_cons (stack : List Nat) (l : LLine) (rest : List LLine) :
    eventsFrom 0 stack (l :: rest) =
      (match adjust stack (nextIndent rest) l.endLineNo with
       | none => .error ⟨l.endLineNo + 1, "inconsistent dedent"⟩
       | some (stack', evs) =>
         match eventsFrom 0 stack' rest with
         | .error e => .error e
         | .ok more => .ok (.line l :: evs ++ more)) := by
  cases rest <;> rfl

def lastNo : List LLine → Nat
  | [] => 0
  | [k] => k.endLineNo
  | _ :: rest => lastNo rest

theorem adjust_4_4 (n : Nat) : adjust [4] 4 n = some ([4], []) := by
  simp [adjust, popTo]
theorem adjust_4_0 (n : Nat) : adjust [4] 0 n = some ([], [.dedent n]) := by
  simp [adjust, popTo]
theorem adjust_0_4 (n : Nat) : adjust [] 4 n = some ([4], [.indent n]) := by
  simp [adjust]
theorem adjust_0_0 (n : Nat) : adjust [] 0 n = some ([], []) := by
  simp [adjust, popTo]

theorem eventsFrom_kids : ∀ (kids rest : List LLine) (more : List Ev), (∀ k ∈ kids, k.indent = 4) → kids ≠ [] →
    nextIndent rest = 0 → eventsFrom 0 [] rest = .ok more →
    eventsFrom 0 [4] (kids ++ rest) = .ok (kids.map Ev.line ++ Ev.dedent (lastNo kids) :: more) := by
  intro kids
  induction kids with
  | nil => intro _ _ _ h; exact absurd rfl h
  | cons k ks ih =>
    intro rest more hk _ hnext hrest
    cases ks with
    | nil =>
      simp only [List.cons_append, List.nil_append, eventsFrom_cons, hnext, adjust_4_0, hrest, List.map_cons, List.map_nil,
        lastNo, List.cons_append, List.nil_append]
    | cons k' ks' =>
      have hk' : k'.indent = 4 := hk k' (by simp)
      have := ih rest more (fun x hx => hk x (List.mem_cons_of_mem _ hx)) (by simp) hnext hrest
      simp only [List.cons_append] at this
      simp only [List.cons_append, eventsFrom_cons, nextIndent, hk', adjust_4_4, this, List.map_cons, lastNo, List.nil_append]

/-- the events of one segment -/
def segEvents (s : Seg) : List Ev :=
  match s.kids with
  | [] => [.line s.head]
  | kids => .line s.head :: .indent s.head.endLineNo :: (kids.map Ev.line ++ [.dedent (lastNo kids)])

theorem nextIndent_segs (segs : List Seg) (h : ∀ s ∈ segs, s.Ok) : nextIndent (segs.flatMap Seg.lines) = 0 := by
  cases segs with
  | nil => rfl
  | cons s rest => simp only [List.flatMap_cons, Seg.lines, List.cons_append, nextIndent]; exact (h s List.mem_cons_self).1

theorem events_segs : ∀ (segs : List Seg), (∀ s ∈ segs, s.Ok) →
    eventsFrom 0 [] (segs.flatMap Seg.lines) = .ok (segs.flatMap segEvents) := by
  intro segs
  induction segs with
  | nil => intro _; rfl
  | cons s rest ih =>
    intro hok
    have hrest := ih (fun x hx => hok x (List.mem_cons_of_mem _ hx))
    have hnext := nextIndent_segs rest (fun x hx => hok x (List.mem_cons_of_mem _ hx))
    obtain ⟨head, kids⟩ := s
    have hk : ∀ k ∈ kids, k.indent = 4 := (hok _ List.mem_cons_self).2
    cases kids with
    | nil =>
      simp only [List.flatMap_cons, Seg.lines, List.cons_append, List.nil_append, eventsFrom_cons, hnext, adjust_0_0, hrest,
        segEvents]
    | cons k ks =>
      have hkids := eventsFrom_kids (k :: ks) _ _ hk (by simp) hnext hrest
      have hk4 : k.indent = 4 := hk k List.mem_cons_self
      simp only [List.cons_append] at hkids
      simp only [List.flatMap_cons, Seg.lines, List.cons_append, eventsFrom_cons, nextIndent, hk4, adjust_0_4, hkids, segEvents,
        List.map_cons, List.append_assoc, List.nil_append]

/-! ### blocks -/

def segBlock (s : Seg) : Block := ⟨s.head, if s.kids.isEmpty then none else some s.kids⟩

theorem groupBlocks_body : ∀ (kids : List LLine) (h : LLine) (ls : List LLine) (acc : List Block) (m : Nat) (evs : List Ev),
    groupBlocks (kids.map Ev.line ++ Ev.dedent m :: evs) (.inBody h ls acc) =
      groupBlocks evs (.top (⟨h, some (ls.reverse ++ kids)⟩ :: acc)) := by
  intro kids
  induction kids with
  | nil => intro h ls acc m evs; simp [groupBlocks]
  | cons k ks ih =>
    intro h ls acc m evs
    simp only [List.map_cons, List.cons_append, groupBlocks, ih, List.reverse_cons, List.append_assoc, List.cons_append,
      List.nil_append]

theorem groupBlocks_segs : ∀ (segs : List Seg) (acc : List Block),
    groupBlocks (segs.flatMap segEvents) (.top acc) = .ok (acc.reverse ++ segs.map segBlock) := by
  intro segs
  induction segs with
  | nil => intro acc; simp [groupBlocks]
  | cons s rest ih =>
    intro acc
    obtain ⟨head, kids⟩ := s
    cases kids with
    | nil =>
      simp only [List.flatMap_cons, segEvents, List.cons_append, List.nil_append, groupBlocks, ih, List.reverse_cons,
        List.map_cons, segBlock, List.isEmpty_nil, if_true, List.append_assoc]
    | cons k ks =>
      have := groupBlocks_body ks head [k] acc (lastNo (k :: ks)) (rest.flatMap segEvents)
      simp only [List.reverse_cons, List.reverse_nil, List.nil_append, List.cons_append] at this
      simp only [List.flatMap_cons, segEvents, List.cons_append, List.append_assoc, List.nil_append, groupBlocks, List.map_cons,
        this, ih, List.reverse_cons, segBlock, List.isEmpty_cons, Bool.false_eq_true, if_false]

/-! ### the loops over the body lines -/

/-- a logical line that holds the given text as code -/
def IsCodeLine (l : LLine) (t : Chars) : Prop := l.kind = .code ∧ l.text = t

theorem enumLoop_render : ∀ (kids : List LLine) (vs : List EnumValue) (acc : List EnumValue),
    Forall2 (fun k v => IsCodeLine k (EnumValue.render v).toList) kids vs → (∀ v ∈ vs, WFEnumValue v) →
    enumLoop kids none acc = .ok (acc.reverse ++ vs) := by
  intro kids vs acc hf
  induction hf generalizing acc with
  | nil => intro _; simp [enumLoop]
  | @cons k v ks vs' hkv _ ih =>
    intro hwf
    obtain ⟨hkind, htext⟩ := hkv
    have hv := hwf v List.mem_cons_self
    have hp := parseEnumLine_render v hv
    have hc : ({ v with comment := none } : EnumValue) = v := by cases hv; rfl
    simp only [enumLoop, hkind, htext, hp, hc]
    rw [ih (v :: acc) (fun x hx => hwf x (List.mem_cons_of_mem _ hx))]
    simp

theorem structLoop_render : ∀ (kids : List LLine) (ms : List Member) (acc : List Member),
    Forall2 (fun k m => IsCodeLine k (Member.render m).toList) kids ms → (∀ m ∈ ms, WFMember m) →
    structLoop kids none none acc = .ok (acc.reverse ++ ms) := by
  intro kids ms acc hf
  induction hf generalizing acc with
  | nil => intro _; simp [structLoop]
  | @cons k m ks ms' hkm _ ih =>
    intro hwf
    obtain ⟨hkind, htext⟩ := hkm
    have hm := hwf m List.mem_cons_self
    have hp := parseStructLine_render m hm
    have hrest := ih (m :: acc) (fun x hx => hwf x (List.mem_cons_of_mem _ hx))
    have hfin : (acc.reverse ++ m :: ms') = ((m :: acc).reverse ++ ms') := by simp
    rw [hfin, ← hrest]
    cases hm <;> simp only [structLoop, hkind, htext, hp, Option.isSome_none]

/-! ### the statement loop -/

/-- a block that prints a declaration -/
inductive DeclBlock : Block → Decl → Prop
  | alias (b : Block) (a : Alias) : b.head.kind = .code → b.body = none →
      parseTopLine .start b.head.text = some (.alias a.name a.linkedType) → a.comment = none → DeclBlock b (.alias a)
  | enum (b : Block) (name : String) (base : IntType) (values : List EnumValue) : b.head.kind = .code →
      parseTopLine .start b.head.text = some (.enumHeader name base) → enumLoop (b.body.getD []) none [] = .ok values →
      DeclBlock b (.enum { name := name, base := base, values := values })
  | struct (b : Block) (d : Option String) (name : String) (kids : List LLine) (fields : List Member) :
      b.head.kind = .code → b.body = some kids →
      parseTopLine .start b.head.text = some (.structHeader d name) → structLoop kids none none [] = .ok fields →
      DeclBlock b (.struct { disposition := d, name := name, fields := fields })

theorem topLoop_decls : ∀ (bs : List Block) (ds : List Decl) (acc : List Item), Forall2 DeclBlock bs ds →
    topLoop bs {} acc = .ok (acc.reverse ++ ds.map Item.decl) := by
  intro bs ds acc hf
  induction hf generalizing acc with
  | nil => simp [topLoop, flushComment]
  | @cons b d bs' ds' hbd _ ih =>
    have hfin : ∀ x : Item, (acc.reverse ++ x :: ds'.map Item.decl) = ((x :: acc).reverse ++ ds'.map Item.decl) := by
      intro x; simp
    cases hbd with
    | alias a hkind hbody hparse hc =>
      obtain ⟨n, lt, c⟩ := a
      simp only at hc hparse
      subst hc
      simp only [List.map_cons, hfin, ← ih]
      simp only [topLoop, hkind, TopState.mode, hparse, hbody]
    | «enum» name base values hkind hparse hloop =>
      simp only [List.map_cons, hfin, ← ih]
      simp only [topLoop, hkind, TopState.mode, hparse, hloop, Option.map_none]
    | struct d name kids fields hkind hbody hparse hloop =>
      simp only [List.map_cons, hfin, ← ih]
      simp only [topLoop, hkind, TopState.mode, hparse, hbody, hloop, Option.map_none]

end SymbolVerif.Cats.Parser

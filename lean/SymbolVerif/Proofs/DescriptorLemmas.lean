/-
Helper lemmas for C10 over `Model/Sdk/Descriptor.lean`: member lists (`Val.get` / `assign`), one iteration of
`copy_to` (`stepEntry`) and the loop as a whole, `Codec.sort` on the top level of an object.
Core Lean only.
-/
import SymbolVerif.Model.Sdk.Descriptor
namespace SymbolVerif.Sdk.Descriptor
open SymbolVerif SymbolVerif.Bytes SymbolVerif.Codec SymbolVerif.Sdk

/-! ### member lists -/

theorem get_nil (n : String) : Val.get [] n = none := rfl

theorem get_cons (a : String × Val) (vs : List (String × Val)) (n : String) :
    Val.get (a :: vs) n = if a.1 == n then some a.2 else Val.get vs n := by
  unfold Val.get
  by_cases h : (a.1 == n) = true
  · simp [List.find?, h]
  · simp [List.find?, h]

theorem names_assign (vs : List (String × Val)) (n : String) (v : Val) :
    (assign vs n v).map (·.1) = vs.map (·.1) := by
  unfold assign
  rw [List.map_map]
  apply List.map_congr_left
  intro a _
  simp only [Function.comp]
  split <;> rfl

theorem get_assign_ne (vs : List (String × Val)) (n m : String) (v : Val) (h : m ≠ n) :
    Val.get (assign vs n v) m = Val.get vs m := by
  induction vs with
  | nil => rfl
  | cons a rest ih =>
    have hcons : assign (a :: rest) n v = (if a.1 == n then (a.1, v) else a) :: assign rest n v := rfl
    rw [hcons, get_cons, get_cons, ih]
    by_cases ha : (a.1 == n) = true
    · have han : a.1 = n := by simpa using ha
      have : (a.1 == m) = false := by
        simp only [beq_eq_false_iff_ne, ne_eq]
        intro hm; exact h (hm ▸ han)
      simp [ha, this]
    · simp [ha]

theorem get_assign_eq (vs : List (String × Val)) (n : String) (v : Val) (h : n ∈ vs.map (·.1)) :
    Val.get (assign vs n v) n = some v := by
  induction vs with
  | nil => simp at h
  | cons a rest ih =>
    have hcons : assign (a :: rest) n v = (if a.1 == n then (a.1, v) else a) :: assign rest n v := rfl
    rw [hcons, get_cons]
    by_cases ha : (a.1 == n) = true
    · simp [ha]
    · have hne : a.1 ≠ n := by simpa using ha
      simp only [ha, Bool.false_eq_true, if_false]
      apply ih
      simp only [List.map_cons, List.mem_cons] at h
      rcases h with h | h
      · exact absurd h.symm hne
      · exact h

theorem get_isSome_of_mem (vs : List (String × Val)) (n : String) (h : n ∈ vs.map (·.1)) :
    ∃ v, Val.get vs n = some v := by
  induction vs with
  | nil => simp at h
  | cons a rest ih =>
    rw [get_cons]
    by_cases ha : (a.1 == n) = true
    · exact ⟨a.2, by simp [ha]⟩
    · have hne : a.1 ≠ n := by simpa using ha
      simp only [ha, Bool.false_eq_true, if_false]
      simp only [List.map_cons, List.mem_cons] at h
      rcases h with h | h
      · exact absurd h.symm hne
      · exact ih h

theorem mem_names_of_get (vs : List (String × Val)) (n : String) (v : Val) (h : Val.get vs n = some v) :
    n ∈ vs.map (·.1) := by
  induction vs with
  | nil => simp [get_nil] at h
  | cons a rest ih =>
    rw [get_cons] at h
    by_cases ha : (a.1 == n) = true
    · have : a.1 = n := by simpa using ha
      simp [this]
    · simp only [ha, Bool.false_eq_true, if_false] at h
      simp [ih h]

/-- two member lists with the same names agree on `Val.get` when they agree pointwise -/
theorem get_congr_names (vs ws : List (String × Val)) (hn : vs.map (·.1) = ws.map (·.1)) (n : String) :
    (Val.get vs n).isSome = (Val.get ws n).isSome := by
  induction vs generalizing ws with
  | nil => cases ws with
    | nil => rfl
    | cons b _ => simp at hn
  | cons a rest ih =>
    cases ws with
    | nil => simp at hn
    | cons b rest' =>
      simp only [List.map_cons, List.cons.injEq] at hn
      rw [get_cons, get_cons, hn.1]
      by_cases hb : (b.1 == n) = true
      · simp [hb]
      · simp only [hb, Bool.false_eq_true, if_false]
        exact ih rest' hn.2

/-! ### one iteration of `copy_to` -/

/-- one iteration of the loop of `copy_to` -/
def stepEntry (cfg : Config) (d : StructDef) (top : Bool) (key : String) (dv : DVal) (st : St) : Except E St :=
  if top && key == "type" then .ok st
  else if endsWith key "_computed" then .error (.computedKey key)
  else
    match classify d key with
    | .unknown => .error (.unknownKey key)
    | .readOnly => .error (.readOnlyKey key)
    | .member f =>
      match coerce cfg top true (slotOf f.kind) dv with
      | .error e => .error e
      | .ok cv => storeMember st f key cv

theorem copyEntries_nil (cfg : Config) (ty : String) (d : StructDef) (top : Bool) (st : St) :
    copyEntries cfg ty d top [] st = .ok st := by
  simp [copyEntries]

/-- `copy_to` is the left fold of `stepEntry` over the descriptor's entries -/
theorem copyEntries_cons (cfg : Config) (ty : String) (d : StructDef) (top : Bool) (key : String) (dv : DVal)
    (rest : List (String × DVal)) (st : St) :
    copyEntries cfg ty d top ((key, dv) :: rest) st =
      match stepEntry cfg d top key dv st with
      | .error e => .error e
      | .ok st' => copyEntries cfg ty d top rest st' := by
  unfold stepEntry
  by_cases h1 : (top && key == "type") = true
  · cases dv <;> simp [copyEntries, h1]
  · by_cases h2 : endsWith key "_computed" = true
    · cases dv <;> simp [copyEntries, h1, h2]
    · cases hc : classify d key with
      | unknown => cases dv <;> simp [copyEntries, h1, h2, hc]
      | readOnly => cases dv <;> simp [copyEntries, h1, h2, hc]
      | member f =>
        cases hco : coerce cfg top true (slotOf f.kind) dv with
        | error e => cases dv <;> simp [copyEntries, h1, h2, hc, hco]
        | ok cv =>
          cases hs : storeMember st f key cv <;> cases dv <;> simp [copyEntries, h1, h2, hc, hco, hs]

/-- the member a descriptor key writes to (`none`: the key is skipped or refused) -/
def targetOf (d : StructDef) (top : Bool) (key : String) : Option String :=
  if top && key == "type" then none
  else match classify d key with
    | .member f => some f.name
    | _ => none

/-- what a member holds after `setattr` / `extend` with the coerced value `cv` -/
def stored (old : Option Val) (cv : Val) : Val :=
  match cv, old with
  | .arr l, some (.arr o) => .arr (o ++ l)
  | v, _ => v

theorem storeMember_ok {st st1 : St} {f : Field} {key : String} {cv : Val} (h : storeMember st f key cv = .ok st1) :
    st1.vs = assign st.vs f.name (stored (Val.get st.vs f.name) cv) := by
  unfold storeMember at h
  cases cv with
  | arr l =>
    simp only at h
    cases hg : Val.get st.vs f.name with
    | none => simp [hg] at h
    | some old =>
      cases old <;> simp [hg] at h
      subst h
      simp [stored]
  | int i => simp only [Except.ok.injEq] at h; subst h; simp [stored]
  | bytes b => simp only [Except.ok.injEq] at h; subst h; simp [stored]
  | struct t fs => simp only [Except.ok.injEq] at h; subst h; simp [stored]
  | none => simp only [Except.ok.injEq] at h; subst h; simp [stored]

theorem stepEntry_untargeted {cfg : Config} {d : StructDef} {top : Bool} {key : String} {dv : DVal}
    {st st1 : St} (h : stepEntry cfg d top key dv st = .ok st1) (ht : targetOf d top key = none) :
    st1.vs = st.vs := by
  unfold stepEntry at h
  unfold targetOf at ht
  by_cases h1 : (top && key == "type") = true
  · simp only [h1, if_true, Except.ok.injEq] at h; subst h; rfl
  · simp only [h1, Bool.false_eq_true, if_false] at h ht
    by_cases h2 : endsWith key "_computed" = true
    · simp [h2] at h
    · simp only [h2, Bool.false_eq_true, if_false] at h
      cases hc : classify d key with
      | unknown => simp [hc] at h
      | readOnly => simp [hc] at h
      | member f => simp [hc] at ht

theorem stepEntry_targeted {cfg : Config} {d : StructDef} {top : Bool} {key : String} {dv : DVal}
    {st st1 : St} {f : Field} (h : stepEntry cfg d top key dv st = .ok st1)
    (hk : (top && key == "type") = false) (hc : classify d key = .member f) :
    ∃ cv, coerce cfg top true (slotOf f.kind) dv = .ok cv ∧
      st1.vs = assign st.vs f.name (stored (Val.get st.vs f.name) cv) := by
  unfold stepEntry at h
  simp only [hk, Bool.false_eq_true, if_false] at h
  by_cases h2 : endsWith key "_computed" = true
  · simp [h2] at h
  · simp only [h2, Bool.false_eq_true, if_false, hc] at h
    cases hco : coerce cfg top true (slotOf f.kind) dv with
    | error e => simp [hco] at h
    | ok cv =>
      simp only [hco] at h
      exact ⟨cv, rfl, storeMember_ok h⟩

theorem targetOf_of_member {d : StructDef} {top : Bool} {key : String} {f : Field}
    (hk : (top && key == "type") = false) (hc : classify d key = .member f) :
    targetOf d top key = some f.name := by
  simp [targetOf, hk, hc]

theorem stepEntry_names {cfg : Config} {d : StructDef} {top : Bool} {key : String} {dv : DVal}
    {st st1 : St} (h : stepEntry cfg d top key dv st = .ok st1) : st1.vs.map (·.1) = st.vs.map (·.1) := by
  cases ht : targetOf d top key with
  | none => rw [stepEntry_untargeted h ht]
  | some n =>
    unfold targetOf at ht
    by_cases h1 : (top && key == "type") = true
    · simp [h1] at ht
    · have hk : (top && key == "type") = false := by simpa using h1
      simp only [hk, Bool.false_eq_true, if_false] at ht
      cases hc : classify d key with
      | member f =>
        obtain ⟨cv, -, hvs⟩ := stepEntry_targeted h hk hc
        rw [hvs, names_assign]
      | unknown => simp [hc] at ht
      | readOnly => simp [hc] at ht

theorem stepEntry_other {cfg : Config} {d : StructDef} {top : Bool} {key : String} {dv : DVal}
    {st st1 : St} (h : stepEntry cfg d top key dv st = .ok st1) (n : String)
    (hn : targetOf d top key ≠ some n) : Val.get st1.vs n = Val.get st.vs n := by
  cases ht : targetOf d top key with
  | none => rw [stepEntry_untargeted h ht]
  | some m =>
    have hmn : n ≠ m := by
      intro e; subst e; exact hn ht
    unfold targetOf at ht
    by_cases h1 : (top && key == "type") = true
    · simp [h1] at ht
    · have hk : (top && key == "type") = false := by simpa using h1
      simp only [hk, Bool.false_eq_true, if_false] at ht
      cases hc : classify d key with
      | member f =>
        obtain ⟨cv, -, hvs⟩ := stepEntry_targeted h hk hc
        simp only [hc, Option.some.injEq] at ht
        rw [hvs, get_assign_ne _ _ _ _ (ht ▸ hmn)]
      | unknown => simp [hc] at ht
      | readOnly => simp [hc] at ht

/-! ### the loop -/

theorem copyEntries_names {cfg : Config} {ty : String} {d : StructDef} {top : Bool} (kvs : List (String × DVal))
    {st st' : St} (h : copyEntries cfg ty d top kvs st = .ok st') : st'.vs.map (·.1) = st.vs.map (·.1) := by
  induction kvs generalizing st with
  | nil => rw [copyEntries_nil] at h; cases h; rfl
  | cons kv rest ih =>
    obtain ⟨key, dv⟩ := kv
    rw [copyEntries_cons] at h
    cases hs : stepEntry cfg d top key dv st with
    | error e => simp [hs] at h
    | ok st1 =>
      simp only [hs] at h
      rw [ih h, stepEntry_names hs]

/-- a member no key of the descriptor writes to keeps its value -/
theorem copyEntries_untouched {cfg : Config} {ty : String} {d : StructDef} {top : Bool} (kvs : List (String × DVal))
    {st st' : St} (h : copyEntries cfg ty d top kvs st = .ok st') (n : String)
    (hn : ∀ kv ∈ kvs, targetOf d top kv.1 ≠ some n) : Val.get st'.vs n = Val.get st.vs n := by
  induction kvs generalizing st with
  | nil => rw [copyEntries_nil] at h; cases h; rfl
  | cons kv rest ih =>
    obtain ⟨key, dv⟩ := kv
    rw [copyEntries_cons] at h
    cases hs : stepEntry cfg d top key dv st with
    | error e => simp [hs] at h
    | ok st1 =>
      simp only [hs] at h
      rw [ih h (fun kv hkv => hn kv (List.mem_cons_of_mem _ hkv)), stepEntry_other hs n (hn (key, dv) List.mem_cons_self)]

/-- a member exactly one key of the descriptor writes to holds the coerced value of that entry -/
theorem copyEntries_described {cfg : Config} {ty : String} {d : StructDef} {top : Bool}
    (pre post : List (String × DVal)) (key : String) (dv : DVal) {st st' : St} {f : Field}
    (h : copyEntries cfg ty d top (pre ++ (key, dv) :: post) st = .ok st')
    (hk : (top && key == "type") = false) (hc : classify d key = .member f)
    (hpre : ∀ kv ∈ pre, targetOf d top kv.1 ≠ some f.name)
    (hpost : ∀ kv ∈ post, targetOf d top kv.1 ≠ some f.name)
    (hmem : f.name ∈ st.vs.map (·.1)) :
    ∃ cv, coerce cfg top true (slotOf f.kind) dv = .ok cv ∧
      Val.get st'.vs f.name = some (stored (Val.get st.vs f.name) cv) := by
  induction pre generalizing st with
  | nil =>
    simp only [List.nil_append] at h
    rw [copyEntries_cons] at h
    cases hs : stepEntry cfg d top key dv st with
    | error e => simp [hs] at h
    | ok st1 =>
      simp only [hs] at h
      obtain ⟨cv, hco, hvs⟩ := stepEntry_targeted hs hk hc
      refine ⟨cv, hco, ?_⟩
      rw [copyEntries_untouched post h f.name hpost, hvs, get_assign_eq _ _ _ hmem]
  | cons kv rest ih =>
    obtain ⟨k0, dv0⟩ := kv
    simp only [List.cons_append] at h
    rw [copyEntries_cons] at h
    cases hs : stepEntry cfg d top k0 dv0 st with
    | error e => simp [hs] at h
    | ok st1 =>
      simp only [hs] at h
      have hsame : Val.get st1.vs f.name = Val.get st.vs f.name :=
        stepEntry_other hs f.name (hpre (k0, dv0) List.mem_cons_self)
      have hmem1 : f.name ∈ st1.vs.map (·.1) := by rw [stepEntry_names hs]; exact hmem
      obtain ⟨cv, hco, hv⟩ := ih h (fun kv hkv => hpre kv (List.mem_cons_of_mem _ hkv)) hmem1
      exact ⟨cv, hco, by rw [hv, hsame]⟩

/-- an entry that `copy_to` refuses in every state makes the whole descriptor fail -/
theorem copyEntries_error_of_bad {cfg : Config} {ty : String} {d : StructDef} {top : Bool} (kvs : List (String × DVal))
    (key : String) (dv : DVal) (hmem : (key, dv) ∈ kvs)
    (hbad : ∀ st, ∃ e, stepEntry cfg d top key dv st = .error e) :
    ∀ st, ∃ e, copyEntries cfg ty d top kvs st = .error e := by
  induction kvs with
  | nil => cases hmem
  | cons kv rest ih =>
    intro st
    obtain ⟨k0, dv0⟩ := kv
    rw [copyEntries_cons]
    cases hs : stepEntry cfg d top k0 dv0 st with
    | error e => exact ⟨e, rfl⟩
    | ok st1 =>
      simp only
      rcases List.mem_cons.1 hmem with heq | hin
      · cases heq
        obtain ⟨e, he⟩ := hbad st
        rw [he] at hs; cases hs
      · exact ih hin st1

/-! ### `Codec.sort` on the top level of an object -/

/-- a successful `mapM` of a name-preserving function, seen through `Val.get` -/
theorem mapM_get {g : String × Val → R (String × Val)} (hname : ∀ a b, g a = .ok b → a.1 = b.1)
    {vs vs' : List (String × Val)} (h : vs.mapM g = .ok vs') (n : String) :
    (Val.get vs n = none ∧ Val.get vs' n = none) ∨
      ∃ v v', Val.get vs n = some v ∧ Val.get vs' n = some v' ∧ g (n, v) = .ok (n, v') := by
  induction vs generalizing vs' with
  | nil =>
    simp only [List.mapM_nil, pure, Except.pure, Except.ok.injEq] at h
    subst h; left; exact ⟨rfl, rfl⟩
  | cons a rest ih =>
    rw [List.mapM_cons] at h
    cases ha : g a with
    | error e => simp [ha, bind, Except.bind] at h
    | ok b =>
      cases hr : rest.mapM g with
      | error e => simp [ha, hr, bind, Except.bind] at h
      | ok bs =>
        simp only [ha, hr, bind, Except.bind, pure, Except.pure, Except.ok.injEq] at h
        subst h
        rw [get_cons, get_cons, ← hname a b ha]
        by_cases han : (a.1 == n) = true
        · right
          have e1 : a.1 = n := by simpa using han
          have e2 : b.1 = n := by rw [← hname a b ha]; exact e1
          refine ⟨a.2, b.2, by simp [han], by simp [han], ?_⟩
          have ea : a = (n, a.2) := by rw [← e1]
          have eb : b = (n, b.2) := by rw [← e2]
          rw [← ea, ← eb]; exact ha
        · simp only [han, Bool.false_eq_true, if_false]
          exact ih hr

theorem mapM_names {g : String × Val → R (String × Val)} (hname : ∀ a b, g a = .ok b → a.1 = b.1)
    {vs vs' : List (String × Val)} (h : vs.mapM g = .ok vs') : vs'.map (·.1) = vs.map (·.1) := by
  induction vs generalizing vs' with
  | nil =>
    simp only [List.mapM_nil, pure, Except.pure, Except.ok.injEq] at h
    subst h; rfl
  | cons a rest ih =>
    rw [List.mapM_cons] at h
    cases ha : g a with
    | error e => simp [ha, bind, Except.bind] at h
    | ok b =>
      cases hr : rest.mapM g with
      | error e => simp [ha, hr, bind, Except.bind] at h
      | ok bs =>
        simp only [ha, hr, bind, Except.bind, pure, Except.pure, Except.ok.injEq] at h
        subst h
        simp [ih hr, hname a b ha]

def isAtom : Val → Bool
  | .int _ => true
  | .bytes _ => true
  | .none => true
  | _ => false

/-- the function `sortStructStep` maps over the members -/
def sortMember (S : Schema) (T : String → Bytes → Bytes) (rec : Rec) (recSort : String → Val → R Val)
    (d : StructDef) (vs : List (String × Val)) : String × Val → R (String × Val) := fun (n, v) =>
    match lookupField d.fields n with
    | none => .error .missing
    | some f => do
      let present ← condOnObject rec d.fields vs f
      if !present then pure (n, v) else
      match f.kind, v with
      | .ref ty _, .struct .. =>
        match S.find ty with
        | some (.struct _) => do let v' ← recSort ty v; pure (n, v')
        | _ => pure (n, v)
      | .array elem _ _ _ (some key), .arr l => do
        let keys ← l.mapM (sortKeyOf S T elem key)
        pure (n, .arr (sortByKey (keys.zip l)))
      | _, _ => pure (n, v)

theorem sortStructStep_eq (S : Schema) (T : String → Bytes → Bytes) (rec : Rec) (recSort : String → Val → R Val)
    (d : StructDef) (vs : List (String × Val)) :
    sortStructStep S T rec recSort d vs = vs.mapM (sortMember S T rec recSort d vs) := rfl

/-- what `sort()` does to one member: the name stays; a value that is neither an object nor a list stays;
    an unconditional keyed array is replaced by `sorted(array, key=…)` -/
theorem sortMember_ok {S : Schema} {T : String → Bytes → Bytes} {rec : Rec} {recSort : String → Val → R Val}
    {d : StructDef} {vs : List (String × Val)} {n : String} {v : Val} {b : String × Val}
    (h : sortMember S T rec recSort d vs (n, v) = .ok b) :
    b.1 = n ∧ (isAtom v = true → b.2 = v) ∧
    (∀ f elem m al pl key l, lookupField d.fields n = some f → f.kind = .array elem m al pl (some key) →
      f.cond = none → v = .arr l →
      ∃ keys, l.mapM (sortKeyOf S T elem key) = .ok keys ∧ b.2 = .arr (sortByKey (keys.zip l))) := by
  unfold sortMember at h
  simp only at h
  cases hl : lookupField d.fields n with
  | none => simp [hl] at h
  | some f =>
    simp only [hl] at h
    cases hc : condOnObject rec d.fields vs f with
    | error e => simp [hc, bind, Except.bind] at h
    | ok present =>
      simp only [hc, bind, Except.bind] at h
      cases present with
      | false =>
        simp only [Bool.not_false, if_true, pure, Except.pure, Except.ok.injEq] at h
        subst h
        refine ⟨rfl, fun _ => rfl, ?_⟩
        intro f' elem m al pl key l hf' _ hcond _
        simp only [Option.some.injEq] at hf'; subst hf'
        simp [condOnObject, hcond] at hc
      | true =>
        simp only [Bool.not_true, Bool.false_eq_true, if_false] at h
        cases hk : f.kind with
        | ref rty lim =>
          cases v with
          | struct vty fs =>
            simp only [hk] at h
            cases hfind : S.find rty with
            | none => simp [hfind, pure, Except.pure] at h; subst h; exact ⟨rfl, by simp [isAtom], by intro f' _ _ _ _ _ _ hf' hk'; simp at hf'; subst hf'; simp [hk] at hk'⟩
            | some td =>
              cases td with
              | struct sd =>
                simp only [hfind] at h
                cases hr : recSort rty (.struct vty fs) with
                | error e => simp [hr] at h
                | ok v' =>
                  simp only [hr, pure, Except.pure, Except.ok.injEq] at h
                  subst h
                  exact ⟨rfl, by simp [isAtom], by intro f' _ _ _ _ _ _ hf' hk'; simp at hf'; subst hf'; simp [hk] at hk'⟩
              | int w sg => simp [hfind, pure, Except.pure] at h; subst h; exact ⟨rfl, by simp [isAtom], by intro f' _ _ _ _ _ _ hf' hk'; simp at hf'; subst hf'; simp [hk] at hk'⟩
              | bytes w => simp [hfind, pure, Except.pure] at h; subst h; exact ⟨rfl, by simp [isAtom], by intro f' _ _ _ _ _ _ hf' hk'; simp at hf'; subst hf'; simp [hk] at hk'⟩
              | enum w sg bw ms => simp [hfind, pure, Except.pure] at h; subst h; exact ⟨rfl, by simp [isAtom], by intro f' _ _ _ _ _ _ hf' hk'; simp at hf'; subst hf'; simp [hk] at hk'⟩
          | int i => simp [hk, pure, Except.pure] at h; subst h; exact ⟨rfl, fun _ => rfl, by intro f' _ _ _ _ _ _ hf' hk'; simp at hf'; subst hf'; simp [hk] at hk'⟩
          | bytes bb => simp [hk, pure, Except.pure] at h; subst h; exact ⟨rfl, fun _ => rfl, by intro f' _ _ _ _ _ _ hf' hk'; simp at hf'; subst hf'; simp [hk] at hk'⟩
          | arr l => simp [hk, pure, Except.pure] at h; subst h; exact ⟨rfl, fun _ => rfl, by intro f' _ _ _ _ _ _ hf' hk'; simp at hf'; subst hf'; simp [hk] at hk'⟩
          | none => simp [hk, pure, Except.pure] at h; subst h; exact ⟨rfl, fun _ => rfl, by intro f' _ _ _ _ _ _ hf' hk'; simp at hf'; subst hf'; simp [hk] at hk'⟩
        | array elem m al pl sk =>
          cases sk with
          | none =>
            have : b = (n, v) := by cases v <;> simp [hk, pure, Except.pure] at h <;> exact h.symm
            subst this
            exact ⟨rfl, fun _ => rfl, by intro f' _ _ _ _ _ _ hf' hk'; simp at hf'; subst hf'; simp [hk] at hk'⟩
          | some key =>
            cases v with
            | arr l =>
              simp only [hk] at h
              cases hkeys : l.mapM (sortKeyOf S T elem key) with
              | error e => simp [hkeys] at h
              | ok keys =>
                simp only [hkeys, pure, Except.pure, Except.ok.injEq] at h
                subst h
                refine ⟨rfl, by simp [isAtom], ?_⟩
                intro f' elem' m' al' pl' key' l' hf' hk' _ hv
                simp only [Option.some.injEq] at hf'; subst hf'
                rw [hk] at hk'
                simp only [FK.array.injEq, Option.some.injEq] at hk'
                obtain ⟨rfl, -, -, -, rfl⟩ := hk'
                simp only [Val.arr.injEq] at hv; subst hv
                exact ⟨keys, hkeys, rfl⟩
            | int i => simp [hk, pure, Except.pure] at h; subst h; exact ⟨rfl, fun _ => rfl, by intro _ _ _ _ _ _ _ _ _ _ hv; cases hv⟩
            | bytes bb => simp [hk, pure, Except.pure] at h; subst h; exact ⟨rfl, fun _ => rfl, by intro _ _ _ _ _ _ _ _ _ _ hv; cases hv⟩
            | struct t fs => simp [hk, pure, Except.pure] at h; subst h; exact ⟨rfl, fun _ => rfl, by intro _ _ _ _ _ _ _ _ _ _ hv; cases hv⟩
            | none => simp [hk, pure, Except.pure] at h; subst h; exact ⟨rfl, fun _ => rfl, by intro _ _ _ _ _ _ _ _ _ _ hv; cases hv⟩
        | int w sg => have : b = (n, v) := by cases v <;> simp [hk, pure, Except.pure] at h <;> exact h.symm
                      subst this; exact ⟨rfl, fun _ => rfl, by intro f' _ _ _ _ _ _ hf' hk'; simp at hf'; subst hf'; simp [hk] at hk'⟩
        | reserved w sg val => have : b = (n, v) := by cases v <;> simp [hk, pure, Except.pure] at h <;> exact h.symm
                               subst this; exact ⟨rfl, fun _ => rfl, by intro f' _ _ _ _ _ _ hf' hk'; simp at hf'; subst hf'; simp [hk] at hk'⟩
        | sizeF w => have : b = (n, v) := by cases v <;> simp [hk, pure, Except.pure] at h <;> exact h.symm
                     subst this; exact ⟨rfl, fun _ => rfl, by intro f' _ _ _ _ _ _ hf' hk'; simp at hf'; subst hf'; simp [hk] at hk'⟩
        | count w sg tg ab => have : b = (n, v) := by cases v <;> simp [hk, pure, Except.pure] at h <;> exact h.symm
                              subst this; exact ⟨rfl, fun _ => rfl, by intro f' _ _ _ _ _ _ hf' hk'; simp at hf'; subst hf'; simp [hk] at hk'⟩
        | byteSize w sg tg => have : b = (n, v) := by cases v <;> simp [hk, pure, Except.pure] at h <;> exact h.symm
                              subst this; exact ⟨rfl, fun _ => rfl, by intro f' _ _ _ _ _ _ hf' hk'; simp at hf'; subst hf'; simp [hk] at hk'⟩
        | sizeOf w sg tg => have : b = (n, v) := by cases v <;> simp [hk, pure, Except.pure] at h <;> exact h.symm
                            subst this; exact ⟨rfl, fun _ => rfl, by intro f' _ _ _ _ _ _ hf' hk'; simp at hf'; subst hf'; simp [hk] at hk'⟩
        | sizeRef w sg tg dl => have : b = (n, v) := by cases v <;> simp [hk, pure, Except.pure] at h <;> exact h.symm
                                subst this; exact ⟨rfl, fun _ => rfl, by intro f' _ _ _ _ _ _ hf' hk'; simp at hf'; subst hf'; simp [hk] at hk'⟩
        | barray sf => have : b = (n, v) := by cases v <;> simp [hk, pure, Except.pure] at h <;> exact h.symm
                       subst this; exact ⟨rfl, fun _ => rfl, by intro f' _ _ _ _ _ _ hf' hk'; simp at hf'; subst hf'; simp [hk] at hk'⟩

theorem sortMember_name {S : Schema} {T : String → Bytes → Bytes} {rec : Rec} {recSort : String → Val → R Val}
    {d : StructDef} {vs : List (String × Val)} (a b : String × Val) (h : sortMember S T rec recSort d vs a = .ok b) :
    a.1 = b.1 := by
  obtain ⟨n, v⟩ := a
  exact (sortMember_ok h).1.symm

/-- `sort()` of a concrete object is `sortMember` applied to every member -/
theorem sort_top {S : Schema} {T : String → Bytes → Bytes} {ty : String} {d : StructDef} {vs : List (String × Val)} {v' : Val}
    (hfind : S.find ty = some (.struct d)) (habs : d.abstract = false)
    (h : Codec.sort S T ty (.struct ty vs) = .ok v') :
    ∃ vs', v' = .struct ty vs' ∧
      vs.mapM (sortMember S T (recN S T (defaultFuel S)) (sortN S T (S.length + 1)) d vs) = .ok vs' := by
  have e : Codec.sort S T ty (.struct ty vs) =
      sortTypeStep S T (recN S T (defaultFuel S)) (sortN S T (S.length + 1)) ty (.struct ty vs) := rfl
  rw [e] at h
  simp only [sortTypeStep, hfind, habs, Bool.false_eq_true, if_false, beq_self_eq_true, if_true] at h
  rw [sortStructStep_eq] at h
  cases hm : vs.mapM (sortMember S T (recN S T (defaultFuel S)) (sortN S T (S.length + 1)) d vs) with
  | error e => simp [hm, bind, Except.bind] at h
  | ok vs' =>
    simp only [hm, bind, Except.bind, pure, Except.pure, Except.ok.injEq] at h
    exact ⟨vs', h.symm, rfl⟩

/-- `sort()` leaves every member that holds an integer, a byte string or nothing as it is, keeps the member
    names, and replaces an unconditional keyed array by `sorted(array)` -/
theorem sort_effect {S : Schema} {T : String → Bytes → Bytes} {ty : String} {d : StructDef} {vs : List (String × Val)} {v' : Val}
    (hfind : S.find ty = some (.struct d)) (habs : d.abstract = false)
    (h : Codec.sort S T ty (.struct ty vs) = .ok v') :
    ∃ vs', v' = .struct ty vs' ∧ vs'.map (·.1) = vs.map (·.1) ∧
      (∀ n v, Val.get vs n = some v → isAtom v = true → Val.get vs' n = some v) ∧
      (∀ n l f elem m al pl key, Val.get vs n = some (.arr l) → lookupField d.fields n = some f →
        f.kind = .array elem m al pl (some key) → f.cond = none →
        ∃ keys, l.mapM (sortKeyOf S T elem key) = .ok keys ∧ Val.get vs' n = some (.arr (sortByKey (keys.zip l)))) := by
  obtain ⟨vs', hv', hm⟩ := sort_top hfind habs h
  refine ⟨vs', hv', mapM_names sortMember_name hm, ?_, ?_⟩
  · intro n v hg ha
    rcases mapM_get sortMember_name hm n with ⟨h0, -⟩ | ⟨w, w', hw, hw', hs⟩
    · rw [hg] at h0; cases h0
    · rw [hg] at hw; cases hw
      have := (sortMember_ok hs).2.1 ha
      simp only at this
      rw [hw', this]
  · intro n l f elem m al pl key hg hl hk hc
    rcases mapM_get sortMember_name hm n with ⟨h0, -⟩ | ⟨w, w', hw, hw', hs⟩
    · rw [hg] at h0; cases h0
    · rw [hg] at hw; cases hw
      obtain ⟨keys, hkeys, hb⟩ := (sortMember_ok hs).2.2 f elem m al pl key l hl hk hc rfl
      simp only at hb
      exact ⟨keys, hkeys, by rw [hw', hb]⟩

/-! ### after `create_from_factory` -/

theorem messageHack_effect {cfg : Config} {vs vs0 : List (String × Val)} (h : messageHack cfg vs = .ok vs0) :
    vs0 = vs ∨ ∃ mv, vs0 = assign vs "message" mv := by
  unfold messageHack at h
  split at h
  · split at h
    · split at h
      · cases h
      · split at h
        · cases h
        · split at h
          · split at h
            · cases h; right; exact ⟨_, rfl⟩
            · cases h; left; rfl
          · cases h; left; rfl
      · cases h; left; rfl
    · cases h; left; rfl
  · cases h; left; rfl

theorem autofillIds_effect {p : Prims} {cfg : Config} {vs vs2 : List (String × Val)} (h : autofillIds p cfg vs = .ok vs2) :
    vs2 = vs ∨ ∃ i, vs2 = assign vs "id" (.int (i : Nat)) := by
  unfold autofillIds at h
  split at h
  · split at h
    · split at h
      · cases h; right; exact ⟨_, rfl⟩
      · cases h
    · split at h
      · split at h
        · cases h; right; exact ⟨_, rfl⟩
        · cases h
      · cases h; left; rfl
  · cases h; left; rfl

theorem finish_ok {p : Prims} {cfg : Config} {autosort : Bool} {ty : String} {d : StructDef} {st : St} {v : Val}
    (h : finish p cfg autosort ty d st = .ok v) :
    ∃ vs0 vs1 vs2,
      (if cfg.messageHack then messageHack cfg st.vs else .ok st.vs) = .ok vs0 ∧
      ((autosort = false ∧ vs1 = vs0) ∨
        (autosort = true ∧ sortable cfg.schema d vs0 = true ∧
          ∃ t, Codec.sort cfg.schema p.transform ty (.struct ty vs0) = .ok (.struct t vs1))) ∧
      (if cfg.idAutofill then autofillIds p cfg vs1 else .ok vs1) = .ok vs2 ∧
      v = .struct ty vs2 := by
  unfold finish at h
  · cases h0 : (if cfg.messageHack then messageHack cfg st.vs else .ok st.vs) with
    | error e => simp [h0] at h
    | ok vs0 =>
      simp only [h0] at h
      cases hs : autosort with
      | false =>
        simp only [hs, Bool.false_eq_true, if_false] at h
        cases h2 : (if cfg.idAutofill then autofillIds p cfg vs0 else .ok vs0) with
        | error e => simp [h2] at h
        | ok vs2 =>
          simp only [h2, Except.ok.injEq] at h
          exact ⟨vs0, vs0, vs2, rfl, Or.inl ⟨rfl, rfl⟩, h2, h.symm⟩
      | true =>
        simp only [hs, if_true] at h
        split at h
        · cases h
        · rename_i vs1 hsorted
          split at hsorted
          · cases hsorted
          · rename_i hsortable
            split at hsorted
            · rename_i t vs1' hso
              cases hsorted
              cases h2 : (if cfg.idAutofill then autofillIds p cfg vs1 else .ok vs1) with
              | error e => simp [h2] at h
              | ok vs2 =>
                simp only [h2, Except.ok.injEq] at h
                exact ⟨vs0, vs1, vs2, rfl, Or.inr ⟨rfl, by simpa using hsortable, t, hso⟩, h2, h.symm⟩
            · cases hsorted
            · cases hsorted

/-! ### schemas -/

theorem find?_of_mem_nodup {β : Type} {l : List (String × β)} {a : String × β} (hmem : a ∈ l)
    (hnd : (l.map (·.1)).Nodup) : l.find? (·.1 == a.1) = some a := by
  induction l with
  | nil => cases hmem
  | cons b rest ih =>
    simp only [List.map_cons, List.nodup_cons] at hnd
    rw [List.find?_cons]
    rcases List.mem_cons.1 hmem with heq | hin
    · subst heq; simp
    · have hne : (b.1 == a.1) = false := by
        simp only [beq_eq_false_iff_ne, ne_eq]
        intro e
        exact hnd.1 (e ▸ List.mem_map_of_mem hin)
      simp only [hne]
      exact ih hin hnd.2

/-- a child listed for a factory type is the declaration `Schema.find` returns under that name -/
theorem children_find {S : Schema} {b n : String} {d : StructDef} (hnd : (S.map (·.1)).Nodup)
    (h : (n, d) ∈ S.children b) : S.find n = some (.struct d) := by
  unfold Schema.children at h
  rw [List.mem_filterMap] at h
  obtain ⟨⟨n', t⟩, hin, hf⟩ := h
  cases t with
  | struct d' =>
    simp only at hf
    split at hf
    · simp only [Option.some.injEq, Prod.mk.injEq] at hf
      obtain ⟨rfl, rfl⟩ := hf
      unfold Schema.find
      rw [find?_of_mem_nodup (a := (n', TypeDef.struct d')) hin hnd]
      rfl
    · cases hf
  | int w s => simp at hf
  | bytes k => simp at hf
  | enum w s bw ms => simp at hf

theorem createByName_mem {S : Schema} {base name : String} {r : String × StructDef}
    (h : createByName S base name = some r) : r ∈ S.children base := by
  unfold createByName at h
  exact (List.mem_filter.1 (List.mem_of_getLast? h)).1

theorem resolve_ok {cfg : Config} {embedded : Bool} {desc : List (String × DVal)} {ty : String} {d : StructDef}
    (h : resolve cfg embedded desc = .ok (ty, d)) :
    ∃ base name, (if embedded then cfg.embBase else some cfg.txBase) = some base ∧
      lookupKey desc "type" = some (.str name) ∧ createByName cfg.schema base name = some (ty, d) := by
  unfold resolve at h
  split at h
  · cases h
  · rename_i base hb
    split at h
    · cases h
    · rename_i name hl
      split at h
      · rename_i r hr
        cases h
        exact ⟨base, name, hb, hl, hr⟩
      · cases h
    · cases h

theorem names_assignAll (vs : List (String × Val)) (inits : List (String × Val)) :
    (assignAll vs inits).map (·.1) = vs.map (·.1) := by
  induction inits generalizing vs with
  | nil => rfl
  | cons a rest ih =>
    obtain ⟨n, v⟩ := a
    simp only [assignAll]
    rw [ih, names_assign]

/-- the members of a fresh instance are the value-carrying members of the type, in layout order -/
theorem freshMembers_names {S : Schema} {ty : String} {d : StructDef} {fresh : List (String × Val)}
    (hfind : S.find ty = some (.struct d)) (h : freshMembers S ty = .ok fresh) :
    fresh.map (·.1) = (carrying d).map (·.name) := by
  unfold freshMembers defaultOf defaultFuel at h
  have e : defaultN S (S.length + 2) ty = defaultTypeStep S (defaultN S (S.length + 1)) ty := rfl
  rw [e] at h
  simp only [defaultTypeStep, hfind, Except.ok.injEq] at h
  subst h
  rw [names_assignAll]
  simp [List.map_map, Function.comp]

theorem classify_member_mem {d : StructDef} {key : String} {f : Field}
    (h : classify d key = .member f) : f ∈ carrying d := by
  unfold classify at h
  split at h
  · cases h
  · split at h
    · rename_i g hg
      cases h
      exact List.mem_of_find?_eq_some hg
    · split at h <;> cases h

theorem create_ok {p : Prims} {cfg : Config} {autosort embedded : Bool} {desc : List (String × DVal)} {v : Val}
    (h : create p cfg autosort embedded desc = .ok v) :
    ∃ ty d fresh st,
      resolve cfg embedded (withNetwork cfg desc) = .ok (ty, d) ∧
      freshMembers cfg.schema ty = .ok fresh ∧
      copyEntries cfg ty d true (withNetwork cfg desc) { vs := fresh } = .ok st ∧
      finish p cfg autosort ty d st = .ok v := by
  unfold create build at h
  cases hr : resolve cfg embedded (withNetwork cfg desc) with
  | error e => simp [hr] at h
  | ok r =>
    obtain ⟨ty, d⟩ := r
    simp only [hr] at h
    cases hf : freshMembers cfg.schema ty with
    | error e => simp [hf] at h
    | ok fresh =>
      simp only [hf] at h
      cases hc : copyEntries cfg ty d true (withNetwork cfg desc) { vs := fresh } with
      | error e => simp [hc] at h
      | ok st =>
        simp only [hc] at h
        exact ⟨ty, d, fresh, st, rfl, hf, hc, h⟩

/-! ### which keys write to a member -/

/-- the only key that writes to a member is the member's (printer) name -/
theorem classify_member_key {d : StructDef} {key : String} {f : Field}
    (h : classify d key = .member f) : key = fixName f.name ∧ startsWithUnderscore key = false := by
  unfold classify at h
  split at h
  · cases h
  · rename_i hu
    split at h
    · rename_i g hg
      cases h
      have := List.find?_some hg
      exact ⟨(by simpa using this : fixName f.name = key).symm, by simpa using hu⟩
    · split at h <;> cases h

theorem targetOf_keys {d : StructDef} {top : Bool} {key n : String}
    (h : targetOf d top key = some n) : key = fixName n := by
  unfold targetOf at h
  split at h
  · cases h
  · cases hc : classify d key with
    | member f =>
      simp only [hc, Option.some.injEq] at h
      subst h
      exact (classify_member_key hc).1
    | unknown => simp [hc] at h
    | readOnly => simp [hc] at h

/-! ### the processed descriptor -/

theorem mem_withNetwork {cfg : Config} {desc : List (String × DVal)} {key : String} {dv : DVal}
    (hmem : (key, dv) ∈ desc) (hk : key ≠ "network") : (key, dv) ∈ withNetwork cfg desc := by
  unfold withNetwork setKey
  split
  · rw [List.mem_map]
    refine ⟨(key, dv), hmem, ?_⟩
    have : ((key, dv).1 == "network") = false := by simpa using hk
    simp [this]
  · exact List.mem_append_left _ hmem

theorem withNetwork_has {cfg : Config} {desc : List (String × DVal)} :
    ("network", DVal.int cfg.networkId) ∈ withNetwork cfg desc := by
  unfold withNetwork setKey
  split
  · rename_i hany
    rw [List.any_eq_true] at hany
    obtain ⟨kv, hkv, hk⟩ := hany
    rw [List.mem_map]
    exact ⟨kv, hkv, by simp [hk]⟩
  · simp

theorem withNetwork_keys {cfg : Config} {desc : List (String × DVal)} :
    (withNetwork cfg desc).map (·.1) = if desc.any (·.1 == "network") then desc.map (·.1) else desc.map (·.1) ++ ["network"] := by
  unfold withNetwork setKey
  split
  · rw [List.map_map]
    apply List.map_congr_left
    intro kv _
    simp only [Function.comp]
    split
    · rename_i hk; exact (by simpa using hk : kv.1 = "network").symm
    · rfl
  · simp

/-- the processed descriptor is again a dict -/
theorem withNetwork_nodup {cfg : Config} {desc : List (String × DVal)} (h : (desc.map (·.1)).Nodup) :
    ((withNetwork cfg desc).map (·.1)).Nodup := by
  rw [withNetwork_keys]
  split
  · exact h
  · rename_i hany
    rw [List.nodup_append]
    refine ⟨h, by simp, ?_⟩
    intro a ha b hb
    simp only [List.mem_singleton] at hb
    subst hb
    intro e; subst e
    apply hany
    rw [List.any_eq_true]
    rw [List.mem_map] at ha
    obtain ⟨kv, hkv, hk⟩ := ha
    exact ⟨kv, hkv, by simp [hk]⟩

theorem find_setNetwork (l : List (String × DVal)) (v : DVal) {k : String} (hk : k ≠ "network") :
    ((l.map fun kv => if kv.1 == "network" then ("network", v) else kv).find? (·.1 == k)).map (·.2) =
      (l.find? (·.1 == k)).map (·.2) := by
  induction l with
  | nil => rfl
  | cons a rest ih =>
    simp only [List.map_cons, List.find?_cons]
    by_cases ha : (a.1 == "network") = true
    · have : a.1 = "network" := by simpa using ha
      have h1 : (("network", v).1 == k) = false := by
        simp only [beq_eq_false_iff_ne, ne_eq]; exact fun e => hk e.symm
      have h2 : (a.1 == k) = false := by
        rw [this]; simp only [beq_eq_false_iff_ne, ne_eq]; exact fun e => hk e.symm
      simp only [ha, if_true, h1, h2]
      exact ih
    · simp only [ha, Bool.false_eq_true, if_false]
      cases hak : a.1 == k
      · simp only []; exact ih
      · rfl

theorem lookupKey_withNetwork {cfg : Config} {desc : List (String × DVal)} {k : String} (hk : k ≠ "network") :
    lookupKey (withNetwork cfg desc) k = lookupKey desc k := by
  unfold withNetwork setKey lookupKey
  split
  · exact find_setNetwork desc _ hk
  · rw [List.find?_append]
    have : List.find? (fun x => x.1 == k) [("network", DVal.int cfg.networkId)] = none := by
      simp only [List.find?_cons, List.find?_nil]
      have : ("network" == k) = false := by simp only [beq_eq_false_iff_ne, ne_eq]; exact fun e => hk e.symm
      simp [this]
    rw [this]
    simp

/-- splitting a dict at one of its entries: no other entry has that key -/
theorem nodup_split_keys {β : Type} {l pre post : List (String × β)} {k : String} {x : β}
    (hnd : (l.map (·.1)).Nodup) (hs : l = pre ++ (k, x) :: post) : ∀ kv ∈ pre ++ post, kv.1 ≠ k := by
  subst hs
  simp only [List.map_append, List.map_cons] at hnd
  rw [List.nodup_append] at hnd
  obtain ⟨-, h2, h3⟩ := hnd
  simp only [List.nodup_cons] at h2
  intro kv hkv
  rcases List.mem_append.1 hkv with h | h
  · intro e
    exact h3 kv.1 (List.mem_map_of_mem h) k (by simp) e
  · intro e
    exact h2.1 (e ▸ List.mem_map_of_mem h)

/-! ### constructor constants -/

theorem get_assignAll_not_mem (vs inits : List (String × Val)) (n : String) (h : n ∉ inits.map (·.1)) :
    Val.get (assignAll vs inits) n = Val.get vs n := by
  induction inits generalizing vs with
  | nil => rfl
  | cons a rest ih =>
    obtain ⟨m, v⟩ := a
    simp only [List.map_cons, List.mem_cons, not_or] at h
    simp only [assignAll]
    rw [ih _ h.2, get_assign_ne _ _ _ _ h.1]

theorem get_assignAll_mem (vs inits : List (String × Val)) (n : String) (v : Val) (hnd : (inits.map (·.1)).Nodup)
    (hin : (n, v) ∈ inits) (hmem : n ∈ vs.map (·.1)) : Val.get (assignAll vs inits) n = some v := by
  induction inits generalizing vs with
  | nil => cases hin
  | cons a rest ih =>
    obtain ⟨m, w⟩ := a
    simp only [List.map_cons, List.nodup_cons] at hnd
    simp only [assignAll]
    rcases List.mem_cons.1 hin with heq | hin'
    · cases heq
      rw [get_assignAll_not_mem _ _ _ hnd.1, get_assign_eq _ _ _ hmem]
    · exact ih _ hnd.2 hin' (by rw [names_assign]; exact hmem)

/-- a fresh instance of a concrete type holds the constants of its type in the discriminator members -/
theorem freshMembers_constants {S : Schema} {ty : String} {d : StructDef} {fresh : List (String × Val)}
    (hfind : S.find ty = some (.struct d)) (h : freshMembers S ty = .ok fresh)
    (hnd : ((initializers S d).map (·.1)).Nodup) {n : String} {v : Val} (hin : (n, v) ∈ initializers S d)
    (hmem : n ∈ (carrying d).map (·.name)) : Val.get fresh n = some v := by
  unfold freshMembers defaultOf defaultFuel at h
  have e : defaultN S (S.length + 2) ty = defaultTypeStep S (defaultN S (S.length + 1)) ty := rfl
  rw [e] at h
  simp only [defaultTypeStep, hfind, Except.ok.injEq] at h
  subst h
  apply get_assignAll_mem _ _ _ _ hnd hin
  simpa [List.map_map, Function.comp] using hmem

/-! ### coercions that the rejection theorems need -/

theorem coerce_int_eq (cfg : Config) (top hinted : Bool) (slot : Slot) (i : Int) :
    coerce cfg top hinted slot (.int i) = coerceAtom cfg top hinted slot (.int i) := by
  simp [coerce]

theorem coerce_str_eq (cfg : Config) (top hinted : Bool) (slot : Slot) (s : String) :
    coerce cfg top hinted slot (.str s) = coerceAtom cfg top hinted slot (.str s) := by
  simp [coerce]

theorem coerce_bytes_eq (cfg : Config) (top hinted : Bool) (slot : Slot) (b : Bytes) :
    coerce cfg top hinted slot (.bytes b) = coerceAtom cfg top hinted slot (.bytes b) := by
  simp [coerce]

theorem canonicalEnum_subset (seen ms : List (String × Int)) : ∀ e ∈ canonicalEnum seen ms, e ∈ ms := by
  induction ms generalizing seen with
  | nil => intro e he; simp [canonicalEnum] at he
  | cons m rest ih =>
    obtain ⟨n, v⟩ := m
    intro e he
    simp only [canonicalEnum] at he
    split at he
    · exact List.mem_cons_of_mem _ (ih _ e he)
    · rcases List.mem_cons.1 he with rfl | he'
      · exact List.mem_cons_self
      · exact List.mem_cons_of_mem _ (ih _ e he')

theorem lookupLast_none {table : List (String × Int)} {s : String} (h : ∀ e ∈ table, e.1 ≠ s) :
    lookupLast table s = none := by
  unfold lookupLast
  rw [Option.map_eq_none_iff, List.find?_eq_none]
  intro e he
  have := h e (List.mem_reverse.1 he)
  simpa using this

/-- no member is called `s` in lower case: the enum parser has no entry for `s` -/
theorem nameTable_enum_none {ms : List (String × Int)} {s : String} (h : ∀ m ∈ ms, m.1.toLower ≠ s) :
    lookupLast (nameTable false ms) s = none := by
  apply lookupLast_none
  intro e he
  simp only [nameTable, Bool.false_eq_true, if_false, List.mem_map] at he
  obtain ⟨m, hm, rfl⟩ := he
  exact h m (canonicalEnum_subset [] ms m hm)

theorem nameTable_flags_none {ms : List (String × Int)} {s : String} (h : ∀ m ∈ ms, m.1.toLower ≠ s) (hnone : s ≠ "none") :
    lookupLast (nameTable true ms) s = none := by
  apply lookupLast_none
  intro e he
  simp only [nameTable, if_true, List.mem_append, List.mem_map, List.mem_filter, List.mem_singleton] at he
  rcases he with ⟨m, ⟨hm, -⟩, rfl⟩ | rfl
  · exact h m hm
  · exact fun e => hnone e.symm

theorem flagsByName_error {ty : String} {table : List (String × Int)} {parts : List String}
    (h : ∃ part ∈ parts, lookupLast table part = none) : ∃ e, flagsByName ty table parts = .error e := by
  induction parts with
  | nil => obtain ⟨_, hp, _⟩ := h; cases hp
  | cons q rest ih =>
    simp only [flagsByName]
    cases hq : lookupLast table q with
    | none => exact ⟨_, rfl⟩
    | some v =>
      obtain ⟨part, hp, hl⟩ := h
      rcases List.mem_cons.1 hp with rfl | hp'
      · rw [hq] at hl; cases hl
      · obtain ⟨e, he⟩ := ih ⟨part, hp', hl⟩
        simp only [he]
        exact ⟨e, rfl⟩

/-! ### side conditions on a schema (decided for the shipped schemas at the end of this file) -/

/-- declaration names are pairwise distinct, and a type that registers with a factory is concrete -/
def schemaOk (S : Schema) : Bool :=
  decide (S.map (·.1)).Nodup &&
  S.all fun e => match e.2 with
    | .struct d => !d.base.isSome || !d.abstract
    | _ => true

theorem schemaOk_names {S : Schema} (h : schemaOk S = true) : (S.map (·.1)).Nodup := by
  simp only [schemaOk, Bool.and_eq_true, decide_eq_true_eq] at h
  exact h.1

theorem schemaOk_child {S : Schema} (h : schemaOk S = true) {b n : String} {d : StructDef}
    (hc : (n, d) ∈ S.children b) : S.find n = some (.struct d) ∧ d.abstract = false := by
  refine ⟨children_find (schemaOk_names h) hc, ?_⟩
  simp only [schemaOk, Bool.and_eq_true, List.all_eq_true] at h
  unfold Schema.children at hc
  rw [List.mem_filterMap] at hc
  obtain ⟨⟨n', t⟩, hin, hf⟩ := hc
  cases t with
  | struct d' =>
    simp only at hf
    split at hf
    · rename_i hb
      simp only [Option.some.injEq, Prod.mk.injEq] at hf
      obtain ⟨rfl, rfl⟩ := hf
      have := h.2 _ hin
      simp only [Bool.or_eq_true, Bool.not_eq_true'] at this
      rcases this with h1 | h2
      · have : d'.base = some b := by simpa using hb
        simp [this] at h1
      · exact h2
    · cases hf
  | int w s => simp at hf
  | bytes k => simp at hf
  | enum w s bw ms => simp at hf

/-- the resolved type of a successful `resolve` is a concrete struct of the schema -/
theorem resolve_struct {cfg : Config} (hS : schemaOk cfg.schema = true) {embedded : Bool} {desc : List (String × DVal)}
    {ty : String} {d : StructDef} (h : resolve cfg embedded desc = .ok (ty, d)) :
    cfg.schema.find ty = some (.struct d) ∧ d.abstract = false := by
  obtain ⟨base, name, -, -, hc⟩ := resolve_ok h
  exact schemaOk_child hS (createByName_mem hc)

/-! ### what `create` does after copying the descriptor -/

/-- members that `create` computes itself after `create_from_factory` -/
def computedAfter (cfg : Config) (n : String) : Bool :=
  (cfg.idAutofill && n == "id") || (cfg.messageHack && n == "message")

/-- after copying, `create` changes nothing but: the order of keyed arrays and nested objects (autosort), the `id`
    (symbol) and the transfer `message` (nem) -/
theorem finish_get {p : Prims} {cfg : Config} {autosort : Bool} {ty : String} {d : StructDef} {st : St} {v : Val}
    (hfind : cfg.schema.find ty = some (.struct d)) (habs : d.abstract = false)
    (h : finish p cfg autosort ty d st = .ok v) :
    ∃ vs, v = .struct ty vs ∧ vs.map (·.1) = st.vs.map (·.1) ∧
      ∀ n w, computedAfter cfg n = false → Val.get st.vs n = some w →
        (autosort = false ∨ isAtom w = true) → Val.get vs n = some w := by
  obtain ⟨vs0, vs1, vs2, h0, h1, h2, hv⟩ := finish_ok h
  -- step 0: the message hack
  have names0 : vs0.map (·.1) = st.vs.map (·.1) ∧
      ∀ n, (cfg.messageHack = true → n ≠ "message") → Val.get vs0 n = Val.get st.vs n := by
    cases hm : cfg.messageHack with
    | false =>
      simp only [hm, Bool.false_eq_true, if_false, Except.ok.injEq] at h0
      subst h0; exact ⟨rfl, fun _ _ => rfl⟩
    | true =>
      simp only [hm, if_true] at h0
      rcases messageHack_effect h0 with rfl | ⟨mv, rfl⟩
      · exact ⟨rfl, fun _ _ => rfl⟩
      · exact ⟨names_assign _ _ _, fun n hn => get_assign_ne _ _ _ _ (hn rfl)⟩
  -- step 1: autosort
  have names1 : vs1.map (·.1) = vs0.map (·.1) ∧
      ∀ n w, Val.get vs0 n = some w → (autosort = false ∨ isAtom w = true) → Val.get vs1 n = some w := by
    rcases h1 with ⟨_, rfl⟩ | ⟨hs, -, t, hsort⟩
    · exact ⟨rfl, fun _ _ hg _ => hg⟩
    · obtain ⟨vs', hv', hn', hatoms, -⟩ := sort_effect hfind habs hsort
      simp only [Val.struct.injEq] at hv'
      obtain ⟨-, rfl⟩ := hv'
      refine ⟨hn', fun n w hg hor => ?_⟩
      rcases hor with hf | ha
      · rw [hs] at hf; cases hf
      · exact hatoms n w hg ha
  -- step 2: id autofill
  have names2 : vs2.map (·.1) = vs1.map (·.1) ∧
      ∀ n, (cfg.idAutofill = true → n ≠ "id") → Val.get vs2 n = Val.get vs1 n := by
    cases hi : cfg.idAutofill with
    | false =>
      simp only [hi, Bool.false_eq_true, if_false, Except.ok.injEq] at h2
      subst h2; exact ⟨rfl, fun _ _ => rfl⟩
    | true =>
      simp only [hi, if_true] at h2
      rcases autofillIds_effect h2 with rfl | ⟨i, rfl⟩
      · exact ⟨rfl, fun _ _ => rfl⟩
      · exact ⟨names_assign _ _ _, fun n hn => get_assign_ne _ _ _ _ (hn rfl)⟩
  refine ⟨vs2, hv, by rw [names2.1, names1.1, names0.1], ?_⟩
  intro n w hc hg hor
  simp only [computedAfter, Bool.or_eq_false_iff, Bool.and_eq_false_iff] at hc
  have hid : cfg.idAutofill = true → n ≠ "id" := by
    intro hi; rcases hc.1 with h | h
    · rw [hi] at h; cases h
    · simpa using h
  have hmsg : cfg.messageHack = true → n ≠ "message" := by
    intro hi; rcases hc.2 with h | h
    · rw [hi] at h; cases h
    · simpa using h
  rw [names2.2 n hid]
  apply names1.2 n w _ hor
  rw [names0.2 n hmsg]; exact hg


theorem coerce_enum_int_ok {cfg : Config} {top : Bool} {ety : String} {w : Nat} {sg : Bool} {ms : List (String × Int)}
    {i : Int} {cv : Val} (hfind : cfg.schema.find ety = some (.enum w sg false ms))
    (h : coerce cfg top true (.ty ety) (.int i) = .ok cv) : cv = .int i ∧ enumAdmits false ms i = true := by
  rw [coerce_int_eq] at h
  by_cases hadm : enumAdmits false ms i = true
  · simp [coerceAtom, ruleOf, hfind, hadm] at h
    exact ⟨h.symm, hadm⟩
  · simp [coerceAtom, ruleOf, hfind, hadm] at h


/-- if some entry of the processed descriptor is refused by `copy_to` whatever the state, `create` raises -/
theorem create_error_of_bad_entry {p : Prims} {cfg : Config} {autosort embedded : Bool} {desc : List (String × DVal)}
    (key : String) (dv : DVal) (hmem : (key, dv) ∈ withNetwork cfg desc)
    (hbad : ∀ ty d, resolve cfg embedded (withNetwork cfg desc) = .ok (ty, d) →
      ∀ st, ∃ e, stepEntry cfg d true key dv st = .error e) :
    ∃ e, create p cfg autosort embedded desc = .error e := by
  unfold create build
  cases hr : resolve cfg embedded (withNetwork cfg desc) with
  | error e => exact ⟨e, rfl⟩
  | ok r =>
    obtain ⟨ty, d⟩ := r
    simp only
    cases hf : freshMembers cfg.schema ty with
    | error e => exact ⟨e, rfl⟩
    | ok fresh =>
      simp only
      obtain ⟨e, he⟩ := copyEntries_error_of_bad (withNetwork cfg desc) key dv hmem (hbad ty d hr) { vs := fresh }
      rw [he]
      exact ⟨e, rfl⟩

theorem stepEntry_unknown {cfg : Config} {d : StructDef} {key : String} {dv : DVal}
    (hk : key ≠ "type") (hu : classify d key = .unknown) :
    ∀ st, ∃ e, stepEntry cfg d true key dv st = .error e := by
  intro st
  unfold stepEntry
  have : (true && key == "type") = false := by simpa using hk
  simp only [this, Bool.false_eq_true, if_false, hu]
  split <;> exact ⟨_, rfl⟩

theorem stepEntry_coerce_error {cfg : Config} {d : StructDef} {key : String} {dv : DVal} {f : Field}
    {e0 : E} (hk : key ≠ "type") (hc : classify d key = .member f)
    (he : coerce cfg true true (slotOf f.kind) dv = .error e0) :
    ∀ st, ∃ e, stepEntry cfg d true key dv st = .error e := by
  intro st
  unfold stepEntry
  have : (true && key == "type") = false := by simpa using hk
  simp only [this, Bool.false_eq_true, if_false, hc, he]
  split <;> exact ⟨_, rfl⟩

/-- a key that is not the name of a property of the class -/
theorem classify_unknown_of_not_property {d : StructDef} {key : String}
    (h : key ∉ propertyNames d) : classify d key = .unknown := by
  unfold propertyNames at h
  simp only [List.mem_append, not_or] at h
  obtain ⟨⟨h1, h2⟩, h3⟩ := h
  unfold classify
  split
  · rfl
  · split
    · rename_i f hf
      exfalso; apply h1
      rw [List.mem_map]
      exact ⟨f, List.mem_of_find?_eq_some hf, by simpa using List.find?_some hf⟩
    · split
      · rename_i hsz
        exfalso
        simp only [Bool.or_eq_true, beq_iff_eq, List.contains_eq_mem, decide_eq_true_eq] at hsz
        rcases hsz with hs | hs
        · apply h2; simp [hs]
        · exact h3 hs
      · rfl

/-- a key that starts with an underscore (private attributes, dunder names) -/
theorem classify_unknown_of_underscore {d : StructDef} {key : String}
    (h : startsWithUnderscore key = true) : classify d key = .unknown := by
  unfold classify
  simp [h]

theorem inRange_unsigned_iff (w : Nat) (i : Int) : inRange w false i = true ↔ 0 ≤ i ∧ i < ((256 ^ w : Nat) : Int) := by
  simp [inRange]


theorem sortable_keyed {S : Schema} {d : StructDef} {vs : List (String × Val)} (h : sortable S d vs = true)
    {f : Field} {elem : String} {m : ArrMode} {al : Nat} {pl : Bool} {key : String}
    (hf : f ∈ d.fields) (hk : f.kind = .array elem m al pl (some key)) (hc : f.cond = none) :
    ∃ l, Val.get vs f.name = some (.arr l) := by
  unfold sortable at h
  rw [List.all_eq_true] at h
  have hcar : f ∈ carrying d := by
    unfold carrying
    rw [List.mem_filter]
    exact ⟨hf, by rw [hk]; rfl⟩
  have := h f hcar
  rw [hk, hc] at this
  cases hg : Val.get vs f.name with
  | none => simp [hg] at this
  | some v =>
    cases v with
    | arr l => exact ⟨l, rfl⟩
    | int i => simp [hg] at this
    | bytes b => simp [hg] at this
    | struct t fs => simp [hg] at this
    | none => simp [hg] at this


theorem namespaceIdFor_assign_id (p : Prims) (S : Schema) (vs : List (String × Val)) (x : Val) :
    namespaceIdFor p S (assign vs "id" x) = namespaceIdFor p S vs := by
  unfold namespaceIdFor
  rw [get_assign_ne _ _ _ _ (by decide : "registration_type" ≠ "id"),
    get_assign_ne _ _ _ _ (by decide : "parent_id" ≠ "id"), get_assign_ne _ _ _ _ (by decide : "name" ≠ "id")]


theorem mosaicIdFor_assign_id (p : Prims) (cfg : Config) (vs : List (String × Val)) (x : Val) :
    mosaicIdFor p cfg (assign vs "id" x) = mosaicIdFor p cfg vs := by
  unfold mosaicIdFor
  rw [get_assign_ne _ _ _ _ (by decide : "signer_public_key" ≠ "id"), get_assign_ne _ _ _ _ (by decide : "nonce" ≠ "id")]


theorem resolve_child {cfg : Config} {embedded : Bool} {desc : List (String × DVal)} {ty : String} {d : StructDef}
    (h : resolve cfg embedded desc = .ok (ty, d)) :
    (ty, d) ∈ cfg.schema.children cfg.txBase ∨ ∃ b, cfg.embBase = some b ∧ (ty, d) ∈ cfg.schema.children b := by
  obtain ⟨base, name, hb, -, hc⟩ := resolve_ok h
  cases embedded with
  | false =>
    simp only [Bool.false_eq_true, if_false, Option.some.injEq] at hb
    subst hb; left; exact createByName_mem hc
  | true =>
    simp only [if_true] at hb
    right; exact ⟨base, hb, createByName_mem hc⟩


/-- `create_by_name` knows a name exactly when some child of the factory type is called so in snake case -/
theorem createByName_none_iff (S : Schema) (base name : String) :
    createByName S base name = none ↔ ∀ c ∈ S.children base, skipEmbedded (snake c.1) ≠ name := by
  unfold createByName
  rw [List.getLast?_eq_none_iff, List.filter_eq_nil_iff]
  constructor
  · intro h c hc; simpa using h c hc
  · intro h c hc; simpa using h c hc


/-! ### type-rule overrides -/

/-- the same factory configuration with another `type_rule_overrides` table -/
def withOverrides (cfg : Config) (ov : ClassRef → Option Conv) : Config := { cfg with overrides := ov }

/-- the class whose override, if there is one, replaces the parsing rule of a slot -/
def overrideClass (cfg : Config) : Slot → Option ClassRef
  | .ty ty =>
    match cfg.schema.find ty with
    | some (.int ..) => some (.module ty)
    | some (.bytes _) => (cfg.sdkMapping.find? (·.1 == ty)).map fun nk => ClassRef.sdk nk.2
    | _ => none
  | _ => none

theorem ruleOf_withOverrides {cfg : Config} {ov : ClassRef → Option Conv} {slot : Slot}
    (h : ∀ c, overrideClass cfg slot = some c → ov c = cfg.overrides c) :
    ruleOf (withOverrides cfg ov) slot = ruleOf cfg slot := by
  cases slot with
  | int w s => rfl
  | barray => rfl
  | array elem => rfl
  | ty ty =>
    simp only [ruleOf, withOverrides, overrideClass] at h ⊢
    cases hf : cfg.schema.find ty with
    | none => rfl
    | some td =>
      cases td with
      | int w sg =>
        simp only [hf] at h ⊢
        rw [h _ rfl]
      | bytes n =>
        simp only [hf] at h ⊢
        cases hm : cfg.sdkMapping.find? (·.1 == ty) with
        | none => rfl
        | some nk =>
          obtain ⟨n', k⟩ := nk
          simp only [hm, Option.map_some] at h ⊢
          rw [h _ rfl]
      | enum w sg bw ms => rfl
      | struct d => rfl

theorem ruleOf_override_of {cfg : Config} {slot : Slot} {c : ClassRef} {f : Conv}
    (hc : overrideClass cfg slot = some c) (hov : cfg.overrides c = some f) : ∃ g, ruleOf cfg slot = .override g ∧ g = f := by
  cases slot with
  | int w s => simp [overrideClass] at hc
  | barray => simp [overrideClass] at hc
  | array elem => simp [overrideClass] at hc
  | ty ty =>
    simp only [overrideClass] at hc
    simp only [ruleOf]
    cases hf : cfg.schema.find ty with
    | none => simp [hf] at hc
    | some td =>
      cases td with
      | int w sg =>
        simp only [hf, Option.some.injEq] at hc
        subst hc
        simp [hov]
      | bytes n =>
        simp only [hf] at hc
        cases hm : cfg.sdkMapping.find? (·.1 == ty) with
        | none => simp [hm] at hc
        | some nk =>
          obtain ⟨n', k⟩ := nk
          simp only [hm, Option.map_some, Option.some.injEq] at hc
          subst hc
          simp [hov]
      | enum w sg bw ms => simp [hf] at hc
      | struct d => simp [hf] at hc

/-- **an override is the rule**: whatever the descriptor value (a list or a dict included), the converted value is
    the override's result, passed through the type converter -/
theorem coerce_of_override {cfg : Config} {top : Bool} {slot : Slot} {f : Conv} (h : ruleOf cfg slot = .override f)
    (dv : DVal) : coerce cfg top true slot dv = applyOverride cfg top slot f dv := by
  cases dv <;> simp [coerce, coerceAtom, h]


mutual
/-- does converting `dv` for a member of slot `slot` consult the override of class `c` anywhere (the member itself, the
    elements of an array, the members of a nested dictionary)? -/
def touches (cfg : Config) (c : ClassRef) (hinted : Bool) (slot : Slot) : DVal → Bool
  | .list l =>
    (hinted && overrideClass cfg slot == some c) ||
    (match slot with
     | .array elem => touchesItems cfg c (hinted && cfg.arrayRules.contains elem) (.ty elem) l
     | _ => false)
  | .dict kvs =>
    (hinted && overrideClass cfg slot == some c) ||
    (match (if hinted then ruleOf cfg slot else .noRule) with
     | .struct _ d => touchesEntries cfg c d false kvs
     | _ => false)
  | _ => hinted && overrideClass cfg slot == some c

def touchesItems (cfg : Config) (c : ClassRef) (hinted : Bool) (slot : Slot) : List DVal → Bool
  | [] => false
  | dv :: rest => touches cfg c hinted slot dv || touchesItems cfg c hinted slot rest

def touchesEntries (cfg : Config) (c : ClassRef) (d : StructDef) (top : Bool) : List (String × DVal) → Bool
  | [] => false
  | (key, dv) :: rest =>
    (if top && key == "type" then false
     else match classify d key with
       | .member f => touches cfg c true (slotOf f.kind) dv
       | _ => false) || touchesEntries cfg c d top rest
end

theorem convertPlace_withOverrides (cfg : Config) (ov : ClassRef → Option Conv) :
    convertPlace (withOverrides cfg ov) = convertPlace cfg := rfl

theorem settle_withOverrides (cfg : Config) (ov : ClassRef → Option Conv) (top : Bool) (slot : Slot) (r : DVal) :
    settle (withOverrides cfg ov) top slot r = settle cfg top slot r := by
  cases r <;> rfl

theorem coerceAtom_withOverrides {cfg : Config} {ov : ClassRef → Option Conv} {top hinted : Bool} {slot : Slot} {dv : DVal}
    (h : hinted = true → ruleOf (withOverrides cfg ov) slot = ruleOf cfg slot) :
    coerceAtom (withOverrides cfg ov) top hinted slot dv = coerceAtom cfg top hinted slot dv := by
  unfold coerceAtom
  cases hinted with
  | false => rfl
  | true =>
    simp only [if_true, h rfl]
    cases ruleOf cfg slot <;> first | rfl | (simp only [applyOverride, settle_withOverrides])


theorem rule_agree {cfg : Config} {ov : ClassRef → Option Conv} {c : ClassRef}
    (hag : ∀ c', c' ≠ c → ov c' = cfg.overrides c') {hinted : Bool} {slot : Slot}
    (h : (hinted && overrideClass cfg slot == some c) = false) :
    (if hinted then ruleOf (withOverrides cfg ov) slot else Rule.noRule) = (if hinted then ruleOf cfg slot else Rule.noRule) := by
  cases hinted with
  | false => rfl
  | true =>
    simp only [if_true]
    apply ruleOf_withOverrides
    intro c' hc'
    apply hag
    intro e; subst e
    simp [hc'] at h

theorem stepEntry_congr {cfg cfg' : Config} {d : StructDef} {top : Bool} {key : String} {dv : DVal}
    (h : ∀ f, classify d key = .member f → (top && key == "type") = false →
      coerce cfg' top true (slotOf f.kind) dv = coerce cfg top true (slotOf f.kind) dv) (st : St) :
    stepEntry cfg' d top key dv st = stepEntry cfg d top key dv st := by
  unfold stepEntry
  by_cases h1 : (top && key == "type") = true
  · simp [h1]
  · have h1' : (top && key == "type") = false := by simpa using h1
    simp only [h1', Bool.false_eq_true, if_false]
    split
    · rfl
    · cases hc : classify d key with
      | unknown => rfl
      | readOnly => rfl
      | member f => simp only [h f hc h1']

mutual
theorem coerce_agree {cfg : Config} {ov : ClassRef → Option Conv} {c : ClassRef}
    (hag : ∀ c', c' ≠ c → ov c' = cfg.overrides c') :
    ∀ (dv : DVal) (top hinted : Bool) (slot : Slot), touches cfg c hinted slot dv = false →
      coerce (withOverrides cfg ov) top hinted slot dv = coerce cfg top hinted slot dv
  | .list l, top, hinted, slot, h => by
    simp only [touches, Bool.or_eq_false_iff] at h
    simp only [coerce, rule_agree hag h.1]
    cases hr : (if hinted then ruleOf cfg slot else Rule.noRule) with
    | override f => simp only [applyOverride, settle_withOverrides]
    | noRule | podInt | sdkBytes | enum | struct | array =>
      cases slot with
      | array elem =>
        simp only at h ⊢
        have := coerceItems_agree hag l (hinted && cfg.arrayRules.contains elem) (.ty elem) h.2
        simp only [withOverrides] at this ⊢
        rw [this]
      | int w s => rfl
      | barray => rfl
      | ty t => rfl
  | .dict kvs, top, hinted, slot, h => by
    simp only [touches, Bool.or_eq_false_iff] at h
    simp only [coerce, rule_agree hag h.1]
    cases hr : (if hinted then ruleOf cfg slot else Rule.noRule) with
    | override f => simp only [applyOverride, settle_withOverrides]
    | struct ty d =>
      simp only [hr] at h
      have e : (withOverrides cfg ov).schema = cfg.schema := rfl
      simp only [e]
      cases hf : freshMembers cfg.schema ty with
      | error e => rfl
      | ok fresh =>
        simp only
        rw [copyEntries_agree hag kvs ty d false { vs := fresh } h.2]
    | noRule => rfl
    | podInt => rfl
    | sdkBytes => rfl
    | enum => rfl
    | array => rfl
  | .int i, top, hinted, slot, h => by
    simp only [touches] at h
    simp only [coerce]
    exact coerceAtom_withOverrides (fun hh => by have := rule_agree hag h; simpa [hh] using this)
  | .str s, top, hinted, slot, h => by
    simp only [touches] at h
    simp only [coerce]
    exact coerceAtom_withOverrides (fun hh => by have := rule_agree hag h; simpa [hh] using this)
  | .bytes b, top, hinted, slot, h => by
    simp only [touches] at h
    simp only [coerce]
    exact coerceAtom_withOverrides (fun hh => by have := rule_agree hag h; simpa [hh] using this)
  | .sdk k b, top, hinted, slot, h => by
    simp only [touches] at h
    simp only [coerce]
    exact coerceAtom_withOverrides (fun hh => by have := rule_agree hag h; simpa [hh] using this)
  | .codec k v, top, hinted, slot, h => by
    simp only [touches] at h
    simp only [coerce]
    exact coerceAtom_withOverrides (fun hh => by have := rule_agree hag h; simpa [hh] using this)
  | .none, top, hinted, slot, h => by
    simp only [touches] at h
    simp only [coerce]
    exact coerceAtom_withOverrides (fun hh => by have := rule_agree hag h; simpa [hh] using this)

theorem coerceItems_agree {cfg : Config} {ov : ClassRef → Option Conv} {c : ClassRef}
    (hag : ∀ c', c' ≠ c → ov c' = cfg.overrides c') :
    ∀ (l : List DVal) (hinted : Bool) (slot : Slot), touchesItems cfg c hinted slot l = false →
      coerceItems (withOverrides cfg ov) hinted slot l = coerceItems cfg hinted slot l
  | [], _, _, _ => by simp [coerceItems]
  | dv :: rest, hinted, slot, h => by
    simp only [touchesItems, Bool.or_eq_false_iff] at h
    simp only [coerceItems]
    rw [coerce_agree hag dv false hinted slot h.1, coerceItems_agree hag rest hinted slot h.2]

theorem copyEntries_agree {cfg : Config} {ov : ClassRef → Option Conv} {c : ClassRef}
    (hag : ∀ c', c' ≠ c → ov c' = cfg.overrides c') :
    ∀ (kvs : List (String × DVal)) (ty : String) (d : StructDef) (top : Bool) (st : St),
      touchesEntries cfg c d top kvs = false →
      copyEntries (withOverrides cfg ov) ty d top kvs st = copyEntries cfg ty d top kvs st
  | [], _, _, _, _, _ => by simp [copyEntries]
  | (key, dv) :: rest, ty, d, top, st, h => by
    simp only [touchesEntries, Bool.or_eq_false_iff] at h
    rw [copyEntries_cons, copyEntries_cons]
    have hstep : stepEntry (withOverrides cfg ov) d top key dv st = stepEntry cfg d top key dv st := by
      apply stepEntry_congr
      intro f hf hk
      have h1 := h.1
      simp only [hk, Bool.false_eq_true, if_false, hf] at h1
      exact coerce_agree hag dv top true (slotOf f.kind) h1
    rw [hstep]
    cases stepEntry cfg d top key dv st with
    | error e => rfl
    | ok st' => exact copyEntries_agree hag rest ty d top st' h.2
end


theorem finish_withOverrides (p : Prims) (cfg : Config) (ov : ClassRef → Option Conv) (autosort : Bool) (ty : String)
    (d : StructDef) (st : St) : finish p (withOverrides cfg ov) autosort ty d st = finish p cfg autosort ty d st := rfl

/-- two override tables that differ only at a class the descriptor never reaches give the same transaction -/
theorem create_agree {p : Prims} {cfg : Config} {ov : ClassRef → Option Conv} {c : ClassRef}
    (hag : ∀ c', c' ≠ c → ov c' = cfg.overrides c') {autosort embedded : Bool} {desc : List (String × DVal)}
    (h : ∀ ty d, resolve cfg embedded (withNetwork cfg desc) = .ok (ty, d) →
      touchesEntries cfg c d true (withNetwork cfg desc) = false) :
    create p (withOverrides cfg ov) autosort embedded desc = create p cfg autosort embedded desc := by
  unfold create build
  have e1 : withNetwork (withOverrides cfg ov) desc = withNetwork cfg desc := rfl
  have e2 : resolve (withOverrides cfg ov) embedded (withNetwork cfg desc) = resolve cfg embedded (withNetwork cfg desc) := rfl
  have e3 : (withOverrides cfg ov).schema = cfg.schema := rfl
  rw [e1, e2, e3]
  cases hr : resolve cfg embedded (withNetwork cfg desc) with
  | error e => rfl
  | ok r =>
    obtain ⟨ty, d⟩ := r
    simp only
    cases hf : freshMembers cfg.schema ty with
    | error e => rfl
    | ok fresh =>
      simp only
      rw [copyEntries_agree hag _ ty d true { vs := fresh } (h ty d hr)]
      cases copyEntries cfg ty d true (withNetwork cfg desc) { vs := fresh } with
      | error e => rfl
      | ok st => simp only [finish_withOverrides]

mutual
theorem touches_unconsulted {cfg : Config} {c : ClassRef} (hc : ∀ slot, overrideClass cfg slot ≠ some c) :
    ∀ (dv : DVal) (hinted : Bool) (slot : Slot), touches cfg c hinted slot dv = false
  | .list l, hinted, slot => by
    have h0 : (overrideClass cfg slot == some c) = false := by simpa using hc slot
    simp only [touches, h0, Bool.and_false, Bool.false_or]
    cases slot with
    | array elem => exact touchesItems_unconsulted hc l _ _
    | int w s => rfl
    | barray => rfl
    | ty t => rfl
  | .dict kvs, hinted, slot => by
    have h0 : (overrideClass cfg slot == some c) = false := by simpa using hc slot
    simp only [touches, h0, Bool.and_false, Bool.false_or]
    cases (if hinted then ruleOf cfg slot else Rule.noRule) with
    | struct ty d => exact touchesEntries_unconsulted hc kvs d false
    | noRule | podInt | sdkBytes | enum | array | override => rfl
  | .int _, hinted, slot => by simp [touches, hc slot]
  | .str _, hinted, slot => by simp [touches, hc slot]
  | .bytes _, hinted, slot => by simp [touches, hc slot]
  | .sdk _ _, hinted, slot => by simp [touches, hc slot]
  | .codec _ _, hinted, slot => by simp [touches, hc slot]
  | .none, hinted, slot => by simp [touches, hc slot]

theorem touchesItems_unconsulted {cfg : Config} {c : ClassRef} (hc : ∀ slot, overrideClass cfg slot ≠ some c) :
    ∀ (l : List DVal) (hinted : Bool) (slot : Slot), touchesItems cfg c hinted slot l = false
  | [], _, _ => rfl
  | dv :: rest, hinted, slot => by
    simp only [touchesItems, touches_unconsulted hc dv hinted slot, touchesItems_unconsulted hc rest hinted slot, Bool.or_self]

theorem touchesEntries_unconsulted {cfg : Config} {c : ClassRef} (hc : ∀ slot, overrideClass cfg slot ≠ some c) :
    ∀ (kvs : List (String × DVal)) (d : StructDef) (top : Bool), touchesEntries cfg c d top kvs = false
  | [], _, _ => rfl
  | (key, dv) :: rest, d, top => by
    simp only [touchesEntries, touchesEntries_unconsulted hc rest d top, Bool.or_false]
    split
    · rfl
    · cases classify d key with
      | member f => exact touches_unconsulted hc dv true _
      | unknown => rfl
      | readOnly => rfl
end

/-! ### the descriptor's own `network` entry -/

theorem setKey_setKey (kvs : List (String × DVal)) (k : String) (x y : DVal) :
    setKey (setKey kvs k x) k y = setKey kvs k y := by
  unfold setKey
  by_cases h : kvs.any (·.1 == k) = true
  · have h2 : (kvs.map fun kv => if kv.1 == k then (k, x) else kv).any (·.1 == k) = true := by
      rw [List.any_eq_true] at h ⊢
      obtain ⟨kv, hkv, hk⟩ := h
      exact ⟨(k, x), List.mem_map.2 ⟨kv, hkv, by simp [hk]⟩, by simp⟩
    simp only [h, if_true, h2, List.map_map]
    apply List.map_congr_left
    intro kv _
    simp only [Function.comp]
    by_cases hk : (kv.1 == k) = true
    · simp [hk]
    · simp [hk]
  · have hf : kvs.any (·.1 == k) = false := by
      cases hb : kvs.any (·.1 == k) with
      | false => rfl
      | true => exact absurd hb h
    have h2 : (kvs ++ [(k, x)]).any (·.1 == k) = true := by simp
    simp only [hf, Bool.false_eq_true, if_false, h2, if_true, List.map_append, List.map_cons, List.map_nil,
      beq_self_eq_true]
    congr 1
    rw [List.any_eq_false] at hf
    conv => rhs; rw [← List.map_id kvs]
    apply List.map_congr_left
    intro kv hkv
    have := hf kv hkv
    simp [this]

/-! ### a flags string names a set -/

/-- the value of a sequence of flag names: `none` as soon as one name is unknown, otherwise the bitwise or -/
def flagsValue (table : List (String × Int)) : List String → Option Nat
  | [] => some 0
  | p :: ps => (lookupLast table p).bind fun v => (flagsValue table ps).map (v.toNat ||| ·)

theorem flagsByName_toOption (ty : String) (table : List (String × Int)) (parts : List String) :
    (flagsByName ty table parts).toOption = flagsValue table parts := by
  induction parts with
  | nil => rfl
  | cons p ps ih =>
    simp only [flagsByName, flagsValue]
    cases hl : lookupLast table p with
    | none => rfl
    | some v =>
      rw [← ih]
      cases flagsByName ty table ps <;> rfl

theorem flagsValue_dup (table : List (String × Int)) (p : String) (ps : List String) :
    flagsValue table (p :: p :: ps) = flagsValue table (p :: ps) := by
  simp only [flagsValue]
  cases lookupLast table p with
  | none => rfl
  | some v =>
    cases flagsValue table ps with
    | none => rfl
    | some r => simp [← Nat.or_assoc]

theorem flagsValue_swap (table : List (String × Int)) (p q : String) (ps : List String) :
    flagsValue table (p :: q :: ps) = flagsValue table (q :: p :: ps) := by
  simp only [flagsValue]
  cases lookupLast table p with
  | none => cases lookupLast table q <;> rfl
  | some v =>
    cases lookupLast table q with
    | none => rfl
    | some w =>
      cases flagsValue table ps with
      | none => rfl
      | some r =>
        simp only [Option.bind_some, Option.map_some, Option.some.injEq]
        rw [← Nat.or_assoc, ← Nat.or_assoc, Nat.or_comm v.toNat]

theorem flagsValue_perm (table : List (String × Int)) {l l' : List String} (h : l.Perm l') :
    flagsValue table l = flagsValue table l' := by
  induction h with
  | nil => rfl
  | cons p _ ih => simp only [flagsValue, ih]
  | swap p q ps => exact flagsValue_swap table q p ps
  | trans _ _ ih1 ih2 => exact ih1.trans ih2

theorem flagsValue_mem (table : List (String × Int)) (p : String) (ps : List String) (h : p ∈ ps) :
    flagsValue table (p :: ps) = flagsValue table ps := by
  induction ps with
  | nil => cases h
  | cons q qs ih =>
    rcases List.mem_cons.1 h with rfl | h'
    · exact flagsValue_dup table p qs
    · rw [flagsValue_swap]
      simp only [flagsValue] at ih ⊢
      rw [ih h']

theorem flagsValue_none_name (table : List (String × Int)) (ps : List String) (h : lookupLast table "none" = some 0) :
    flagsValue table ("none" :: ps) = flagsValue table ps := by
  simp only [flagsValue, h, Option.bind_some]
  cases flagsValue table ps <;> simp


theorem flagsValue_none_iff (table : List (String × Int)) (l : List String) :
    flagsValue table l = none ↔ ∃ p ∈ l, lookupLast table p = none := by
  induction l with
  | nil => simp [flagsValue]
  | cons q qs ih =>
    simp only [flagsValue, List.mem_cons, exists_eq_or_imp]
    cases hl : lookupLast table q with
    | none => simp
    | some v =>
      simp only [Option.bind_some, Option.map_eq_none_iff, ih]
      simp

theorem flagsValue_bits (table : List (String × Int)) (l : List String) (r : Nat) (h : flagsValue table l = some r) (k : Nat) :
    r.testBit k = true ↔ ∃ p ∈ l, ∃ v, lookupLast table p = some v ∧ v.toNat.testBit k = true := by
  induction l generalizing r with
  | nil =>
    simp only [flagsValue, Option.some.injEq] at h
    subst h; simp
  | cons q qs ih =>
    simp only [flagsValue] at h
    cases hl : lookupLast table q with
    | none => simp [hl] at h
    | some v =>
      cases hr : flagsValue table qs with
      | none => simp [hl, hr] at h
      | some r' =>
        simp only [hl, hr, Option.bind_some, Option.map_some, Option.some.injEq] at h
        subst h
        simp only [Nat.testBit_or, Bool.or_eq_true, ih r' hr, List.mem_cons, exists_eq_or_imp, hl, Option.some.injEq,
          exists_eq_left']

/-- the value of a flags string depends on the *set* of names only -/
theorem flagsValue_set (table : List (String × Int)) {l l' : List String} (h : ∀ p, p ∈ l ↔ p ∈ l') :
    flagsValue table l = flagsValue table l' := by
  cases h1 : flagsValue table l with
  | none =>
    obtain ⟨p, hp, hn⟩ := (flagsValue_none_iff table l).1 h1
    exact ((flagsValue_none_iff table l').2 ⟨p, (h p).1 hp, hn⟩).symm
  | some r =>
    cases h2 : flagsValue table l' with
    | none =>
      obtain ⟨p, hp, hn⟩ := (flagsValue_none_iff table l').1 h2
      have := (flagsValue_none_iff table l).2 ⟨p, (h p).2 hp, hn⟩
      rw [h1] at this; cases this
    | some r' =>
      congr 1
      apply Nat.eq_of_testBit_eq
      intro k
      have e1 := flagsValue_bits table l r h1 k
      have e2 := flagsValue_bits table l' r' h2 k
      have : (r.testBit k = true) ↔ (r'.testBit k = true) := by
        rw [e1, e2]
        constructor
        · rintro ⟨p, hp, rest⟩; exact ⟨p, (h p).1 hp, rest⟩
        · rintro ⟨p, hp, rest⟩; exact ⟨p, (h p).2 hp, rest⟩
      cases hb : r.testBit k <;> cases hb' : r'.testBit k <;> simp_all

theorem enumByName_flags_toOption (ty : String) (ms : List (String × Int)) (s : String) :
    (enumByName ty true ms s).toOption = (flagsValue (nameTable true ms) (splitBlank s)).map fun n => Val.int (n : Int) := by
  unfold enumByName
  simp only [if_true]
  rw [← flagsByName_toOption ty]
  cases flagsByName ty (nameTable true ms) (splitBlank s) <;> rfl

end SymbolVerif.Sdk.Descriptor

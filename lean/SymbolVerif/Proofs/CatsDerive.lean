/-
Helper lemmas for `Properties/C18.lean`.
-/
import SymbolVerif.Model.Cats.Derive
namespace SymbolVerif.Cats

theorem dbind_eq_ok {ε α β : Type} {x : Except ε α} {f : α → Except ε β} {b : β} :
    (x >>= f) = .ok b ↔ ∃ a, x = .ok a ∧ f a = .ok b := by
  cases x with
  | ok a => simp [bind, Except.bind]
  | error e => simp [bind, Except.bind]

/-! ## factory map as a lookup -/

/-- `factory_map[k]` -/
def FactoryMap.get? (m : FactoryMap) (k : String) : Option FactoryDescriptor := (m.find? (fun e => decide (e.1 = k))).map (·.2)

/-- the structs that record `k` as their factory type, in declaration order -/
def childrenOf (l : Schema) (k : String) : List String :=
  (l.filter fun d => decide (d.factoryKey? = some k)).map Decl.name

/-- the first declaration that records `k` -/
def firstWithKey : Schema → String → Option Struct
  | [], _ => none
  | .struct M :: rest, k => if (Decl.struct M).factoryKey? = some k then some M else firstWithKey rest k
  | _ :: rest, k => firstWithKey rest k

def withChildren (fd : FactoryDescriptor) (cs : List String) : FactoryDescriptor := { fd with children := cs }

theorem hasKey_eq_isSome (m : FactoryMap) (k : String) : m.hasKey k = (m.get? k).isSome := by
  unfold FactoryMap.hasKey FactoryMap.get?
  induction m with
  | nil => rfl
  | cons e rest ih =>
    by_cases h : e.1 = k
    · simp [List.any_cons, List.find?_cons, h]
    · simp only [List.any_cons, List.find?_cons, h, decide_false, Bool.false_or]
      exact ih

theorem get?_addChild (m : FactoryMap) (k c k' : String) :
    (m.addChild k c).get? k' = (m.get? k').map fun fd => if k' = k then withChildren fd (fd.children ++ [c]) else fd := by
  unfold FactoryMap.addChild FactoryMap.get?
  induction m with
  | nil => rfl
  | cons e rest ih =>
    by_cases hk' : e.1 = k'
    · by_cases hk : e.1 = k
      · have hkk : k' = k := hk'.symm.trans hk
        simp [List.find?_cons, hk, hk', hkk, withChildren]
      · have hkk : ¬ k' = k := fun h => hk (hk'.trans h)
        simp [List.find?_cons, hk, hk', hkk]
    · have hkey : (if e.1 = k then (e.1, ({ e.2 with children := e.2.children ++ [c] } : FactoryDescriptor)) else e).1 = e.1 := by
        by_cases hk : e.1 = k <;> simp [hk]
      simp only [List.map_cons, List.find?_cons, hkey, hk', decide_false]
      exact ih

theorem get?_append_single (m : FactoryMap) (k : String) (fd : FactoryDescriptor) (k' : String) :
    (m ++ [(k, fd)]).get? k' = match m.get? k' with
      | some x => some x
      | none => if k = k' then some fd else none := by
  unfold FactoryMap.get?
  rw [List.find?_append]
  cases h : m.find? (fun e => decide (e.1 = k')) with
  | some x => simp
  | none =>
    by_cases hk : k = k'
    · simp [hk]
    · simp [hk]

theorem seedDescriptor_children {M : Struct} {fd : FactoryDescriptor} (h : seedDescriptor M = .ok fd) : fd.children = [] := by
  unfold seedDescriptor at h
  split at h
  · cases h
  · split at h
    · cases h; rfl
    · cases h
    · cases h

theorem childrenOf_cons_key {d : Decl} {rest : Schema} {k : String} (h : d.factoryKey? = some k) :
    childrenOf (d :: rest) k = d.name :: childrenOf rest k := by
  simp [childrenOf, List.filter_cons, h]

theorem childrenOf_cons_other {d : Decl} {rest : Schema} {k : String} (h : d.factoryKey? ≠ some k) :
    childrenOf (d :: rest) k = childrenOf rest k := by
  simp [childrenOf, List.filter_cons, h]

theorem firstWithKey_cons_other {d : Decl} {rest : Schema} {k : String} (h : d.factoryKey? ≠ some k) :
    firstWithKey (d :: rest) k = firstWithKey rest k := by
  cases d with
  | struct M => simp [firstWithKey, h]
  | alias a => rfl
  | enum e => rfl

/-- the specification of the fold: what `factory_map[k]` is after processing `l`, starting from `m` -/
def expectedEntry (m : FactoryMap) (l : Schema) (k : String) : Option FactoryDescriptor :=
  match m.get? k with
  | some fd0 => some (withChildren fd0 (fd0.children ++ childrenOf l k))
  | none =>
    match firstWithKey l k with
    | some M => (seedDescriptor M).toOption.map fun fd => withChildren fd (childrenOf l k)
    | none => none

theorem withChildren_self (fd : FactoryDescriptor) : withChildren fd (fd.children ++ []) = fd := by
  cases fd; simp [withChildren]

theorem withChildren_self' (fd : FactoryDescriptor) : withChildren fd fd.children = fd := by
  cases fd; rfl

theorem buildFrom_get? : ∀ (l : Schema) (m r : FactoryMap), buildFactoryMapFrom m l = .ok r → ∀ k, r.get? k = expectedEntry m l k := by
  intro l
  induction l with
  | nil =>
    intro m r h k
    simp [buildFactoryMapFrom, pure, Except.pure] at h
    subst h
    unfold expectedEntry
    cases hg : m.get? k with
    | none => simp [firstWithKey]
    | some fd0 => simp [childrenOf, withChildren_self']
  | cons d rest ih =>
    intro m r h k
    unfold buildFactoryMapFrom at h
    obtain ⟨m', hstep, hrest⟩ := dbind_eq_ok.mp h
    have ihk := ih m' r hrest k
    rw [ihk]
    -- what the step does to `get?`
    cases hkey : d.factoryKey? with
    | none =>
      have hm' : m' = m := by
        unfold factoryMapStep at hstep
        cases d <;> simp [hkey] at hstep <;> exact hstep.symm
      subst hm'
      have hne : d.factoryKey? ≠ some k := by rw [hkey]; simp
      unfold expectedEntry
      rw [childrenOf_cons_other hne, firstWithKey_cons_other hne]
    | some ft =>
      cases d with
      | alias a => simp [Decl.factoryKey?] at hkey
      | enum e => simp [Decl.factoryKey?] at hkey
      | struct M =>
        unfold factoryMapStep at hstep
        simp only [hkey] at hstep
        by_cases hhas : m.hasKey ft = true
        · simp only [hhas, if_true] at hstep
          cases hstep
          have hsome : (m.get? ft).isSome = true := by rw [← hasKey_eq_isSome]; exact hhas
          by_cases hk : k = ft
          · subst hk
            obtain ⟨fd0, hfd0⟩ := Option.isSome_iff_exists.mp hsome
            unfold expectedEntry
            rw [get?_addChild, hfd0, childrenOf_cons_key hkey]
            simp [withChildren, Decl.name, List.append_assoc]
          · have hne : (Decl.struct M).factoryKey? ≠ some k := by rw [hkey]; intro h; exact hk (Option.some.inj h).symm
            unfold expectedEntry
            rw [get?_addChild, childrenOf_cons_other hne, firstWithKey_cons_other hne]
            cases hg : m.get? k with
            | none => simp
            | some fd0 => simp [hk]
        · simp only [hhas] at hstep
          cases hfd : seedDescriptor M with
          | error e => simp [hfd] at hstep
          | ok fd =>
          simp only [hfd] at hstep
          cases hstep
          have hnone : m.get? ft = none := by
            have : (m.get? ft).isSome = false := by rw [← hasKey_eq_isSome]; simpa using hhas
            cases hg : m.get? ft with
            | none => rfl
            | some x => rw [hg] at this; cases this
          by_cases hk : k = ft
          · subst hk
            unfold expectedEntry
            rw [get?_addChild, get?_append_single, hnone, childrenOf_cons_key hkey]
            have hfirst : firstWithKey (Decl.struct M :: rest) k = some M := by simp [firstWithKey, hkey]
            simp [hfirst, hfd, Except.toOption, withChildren, seedDescriptor_children hfd, Decl.name]
          · have hne : (Decl.struct M).factoryKey? ≠ some k := by rw [hkey]; intro h; exact hk (Option.some.inj h).symm
            unfold expectedEntry
            rw [get?_addChild, get?_append_single, childrenOf_cons_other hne, firstWithKey_cons_other hne]
            cases hg : m.get? k with
            | none => simp [hk, Ne.symm hk]
            | some fd0 => simp [hk]

/-! ## requires_unaligned -/

theorem mem_addName {l : List String} {n x : String} : x ∈ addName l n ↔ x ∈ l ∨ x = n := by
  unfold addName
  by_cases h : n ∈ l
  · simp only [h, if_true]
    constructor
    · exact Or.inl
    · rintro (h1 | rfl)
      · exact h1
      · exact h
  · simp [h]

theorem addName_of_mem {l : List String} {n : String} (h : n ∈ l) : addName l n = l := by simp [addName, h]

theorem length_addName_le (l : List String) (n : String) : l.length ≤ (addName l n).length := by
  unfold addName; split <;> simp

theorem length_addName_of_not_mem {l : List String} {n : String} (h : n ∉ l) : (addName l n).length = l.length + 1 := by
  simp [addName, h]

theorem mem_foldl_addName {ts l : List String} {x : String} : x ∈ ts.foldl addName l ↔ x ∈ l ∨ x ∈ ts := by
  induction ts generalizing l with
  | nil => simp
  | cons t rest ih =>
    simp only [List.foldl_cons, ih, mem_addName, List.mem_cons]
    constructor
    · rintro ((h | h) | h)
      · exact Or.inl h
      · exact Or.inr (Or.inl h)
      · exact Or.inr (Or.inr h)
    · rintro (h | h | h)
      · exact Or.inl (Or.inl h)
      · exact Or.inl (Or.inr h)
      · exact Or.inr h

theorem length_foldl_addName_le (ts l : List String) : l.length ≤ (ts.foldl addName l).length := by
  induction ts generalizing l with
  | nil => simp
  | cons t rest ih => exact Nat.le_trans (length_addName_le l t) (ih _)

theorem length_foldl_addName_lt {ts l : List String} {x : String} (hx : x ∈ ts) (hn : x ∉ l) :
    l.length < (ts.foldl addName l).length := by
  induction ts generalizing l with
  | nil => cases hx
  | cons t rest ih =>
    simp only [List.foldl_cons]
    rcases List.mem_cons.mp hx with rfl | hr
    · have := length_addName_of_not_mem hn
      have := length_foldl_addName_le rest (addName l x)
      omega
    · by_cases ht : x ∈ addName l t
      · have hxt : x = t := by
          rcases mem_addName.mp ht with h | h
          · exact absurd h hn
          · exact h
        subst hxt
        have := length_addName_of_not_mem hn
        have := length_foldl_addName_le rest (addName l x)
        omega
      · have := ih hr ht
        have := length_addName_le l t
        omega

/-- the struct typed members of a struct (what `_propagate_unaligned` marks for a newly marked struct) -/
def memberTypesOf (S : Schema) (n : String) : List String :=
  match Schema.lookup S n with
  | some (.struct M) =>
    M.structFields.filterMap fun f =>
      match f.fieldType with
      | .named t => (match Schema.lookup S t with | some (.struct T) => some T.name | _ => none)
      | _ => none
  | _ => []

theorem structMemberTypes_eq {S : Schema} {n : String} {ts : List String} (h : structMemberTypes S n = .ok ts) :
    ts = memberTypesOf S n := by
  unfold structMemberTypes at h
  unfold memberTypesOf
  cases hl : Schema.lookup S n with
  | none => simp [hl, pure, Except.pure] at h; simp [h]
  | some d =>
    cases d with
    | alias a => simp [hl, pure, Except.pure] at h; simp [h]
    | enum e => simp [hl, pure, Except.pure] at h; simp [h]
    | struct M =>
      simp only [hl] at h ⊢
      have gen : ∀ (fs : List StructField) (acc r : List String),
          List.foldlM (fun acc (f : StructField) =>
            match f.fieldType with
            | .array _ => (throw s!"RuntimeError: array field not handled in {n}.{f.name}" : Except String (List String))
            | .named t => (match Schema.lookup S t with | some (.struct T) => pure (acc ++ [T.name]) | _ => pure acc)
            | .int _ => pure acc) acc fs = .ok r →
          r = acc ++ fs.filterMap fun f =>
            match f.fieldType with
            | .named t => (match Schema.lookup S t with | some (.struct T) => some T.name | _ => none)
            | _ => none := by
        intro fs
        induction fs with
        | nil => intro acc r h; simp [List.foldlM, pure, Except.pure] at h; simp [h]
        | cons f rest ih =>
          intro acc r h
          rw [List.foldlM_cons] at h
          obtain ⟨acc', hacc', hrest⟩ := dbind_eq_ok.mp h
          have := ih _ _ hrest
          rw [this]
          cases hft : f.fieldType with
          | array a => simp [hft, throw, throwThe, MonadExceptOf.throw] at hacc'
          | int t => simp [hft, pure, Except.pure] at hacc'; simp [hft, List.filterMap_cons, hacc']
          | named t =>
            simp only [hft] at hacc'
            cases hlt : Schema.lookup S t with
            | none => simp [hlt, pure, Except.pure] at hacc'; simp [hft, List.filterMap_cons, hlt, hacc']
            | some d =>
              cases d with
              | struct T => simp [hlt, pure, Except.pure] at hacc'; simp [hft, List.filterMap_cons, hlt, ← hacc']
              | alias a => simp [hlt, pure, Except.pure] at hacc'; simp [hft, List.filterMap_cons, hlt, hacc']
              | enum e => simp [hlt, pure, Except.pure] at hacc'; simp [hft, List.filterMap_cons, hlt, hacc']
      simpa using gen _ _ _ h

/-- the three rules of the property as a closure: seeds; descendants of demanded factories; struct typed members of those descendants -/
inductive Demanded (S : Schema) (seeds : List String) : String → Prop
  | seed {n : String} : n ∈ seeds → Demanded S seeds n
  | descendant {n ft : String} : factoryOf S n = some ft → Demanded S seeds ft → Demanded S seeds n
  | member {n ft t : String} : factoryOf S n = some ft → Demanded S seeds ft → t ∈ memberTypesOf S n → Demanded S seeds t

/-- "has a factory whose mark is demanded" -/
def IsDescendant (S : Schema) (seeds : List String) (n : String) : Prop := ∃ ft, factoryOf S n = some ft ∧ Demanded S seeds ft

theorem passA_sound {S : Schema} {seeds : List String} : ∀ (order req tr : List String),
    (∀ x ∈ req, Demanded S seeds x) → (∀ x ∈ tr, IsDescendant S seeds x) →
    (∀ x ∈ (passA S order req tr).1, Demanded S seeds x) ∧ (∀ x ∈ (passA S order req tr).2, IsDescendant S seeds x) := by
  intro order
  induction order with
  | nil => intro req tr h1 h2; exact ⟨h1, h2⟩
  | cons n rest ih =>
    intro req tr h1 h2
    unfold passA
    cases hf : factoryOf S n with
    | none => exact ih req tr h1 h2
    | some ft =>
      simp only
      by_cases hin : ft ∈ req
      · simp only [hin, if_true]
        apply ih
        · intro x hx
          rcases mem_addName.mp hx with h | rfl
          · exact h1 x h
          · exact .descendant hf (h1 ft hin)
        · intro x hx
          rcases mem_addName.mp hx with h | rfl
          · exact h2 x h
          · exact ⟨ft, hf, h1 ft hin⟩
      · simp only [hin, if_false]
        exact ih req tr h1 h2

theorem passA_mono {S : Schema} : ∀ (order req tr : List String),
    (∀ x ∈ req, x ∈ (passA S order req tr).1) ∧ (∀ x ∈ tr, x ∈ (passA S order req tr).2) := by
  intro order
  induction order with
  | nil => intro req tr; exact ⟨fun _ h => h, fun _ h => h⟩
  | cons n rest ih =>
    intro req tr
    unfold passA
    cases hf : factoryOf S n with
    | none => exact ih req tr
    | some ft =>
      simp only
      by_cases hin : ft ∈ req
      · simp only [hin, if_true]
        have := ih (addName req n) (addName tr n)
        exact ⟨fun x hx => this.1 x (mem_addName.mpr (Or.inl hx)), fun x hx => this.2 x (mem_addName.mpr (Or.inl hx))⟩
      · simp only [hin, if_false]; exact ih req tr

/-- every candidate of the order (its factory already marked at the start of the pass) ends up marked and tracked -/
theorem passA_complete {S : Schema} : ∀ (order req tr : List String) (n ft : String),
    n ∈ order → factoryOf S n = some ft → ft ∈ req → n ∈ (passA S order req tr).1 ∧ n ∈ (passA S order req tr).2 := by
  intro order
  induction order with
  | nil => intro _ _ _ _ h; cases h
  | cons m rest ih =>
    intro req tr n ft hn hf hin
    unfold passA
    rcases List.mem_cons.mp hn with rfl | hr
    · simp only [hf, hin, if_true]
      have := passA_mono (S := S) rest (addName req n) (addName tr n)
      exact ⟨this.1 n (mem_addName.mpr (Or.inr rfl)), this.2 n (mem_addName.mpr (Or.inr rfl))⟩
    · cases hfm : factoryOf S m with
      | none => exact ih req tr n ft hr hf hin
      | some ftm =>
        simp only
        by_cases hinm : ftm ∈ req
        · simp only [hinm, if_true]
          exact ih _ _ n ft hr hf (mem_addName.mpr (Or.inl hin))
        · simp only [hinm, if_false]
          exact ih req tr n ft hr hf hin

/-- when every candidate is already marked the pass changes nothing -/
theorem passA_stable {S : Schema} : ∀ (order req tr : List String),
    (∀ n ∈ order, ∀ ft, factoryOf S n = some ft → ft ∈ req → n ∈ req) → (passA S order req tr).1 = req := by
  intro order
  induction order with
  | nil => intro _ _ _; rfl
  | cons m rest ih =>
    intro req tr h
    unfold passA
    cases hfm : factoryOf S m with
    | none => exact ih req tr (fun n hn => h n (List.mem_cons_of_mem _ hn))
    | some ftm =>
      simp only
      by_cases hinm : ftm ∈ req
      · simp only [hinm, if_true]
        have hm : m ∈ req := h m List.mem_cons_self ftm hfm hinm
        rw [addName_of_mem hm]
        exact ih req _ (fun n hn => h n (List.mem_cons_of_mem _ hn))
      · simp only [hinm, if_false]
        exact ih req tr (fun n hn => h n (List.mem_cons_of_mem _ hn))

theorem passB_spec {S : Schema} : ∀ (newly : List String) (st st' : UState), passB S newly st = .ok st' →
    (∀ x, x ∈ st'.req ↔ x ∈ st.req ∨ ∃ n ∈ newly, x ∈ memberTypesOf S n) ∧ st'.marked = st.marked := by
  intro newly
  induction newly with
  | nil =>
    intro st st' h
    simp [passB, pure, Except.pure] at h
    subst h
    exact ⟨fun x => by simp, rfl⟩
  | cons n rest ih =>
    intro st st' h
    unfold passB at h
    obtain ⟨ts, hts, hrest⟩ := dbind_eq_ok.mp h
    have hts' := structMemberTypes_eq hts
    obtain ⟨h1, h2⟩ := ih _ _ hrest
    refine ⟨?_, h2⟩
    intro x
    rw [h1 x]
    simp only [mem_foldl_addName, hts', List.mem_cons, exists_eq_or_imp]
    constructor
    · rintro ((h | h) | h)
      · exact Or.inl h
      · exact Or.inr (Or.inl h)
      · exact Or.inr (Or.inr h)
    · rintro (h | h | h)
      · exact Or.inl (Or.inl h)
      · exact Or.inl (Or.inr h)
      · exact Or.inr h

theorem passA_tracked_sub {S : Schema} : ∀ (order req tr : List String),
    ∀ x ∈ (passA S order req tr).2, x ∈ tr ∨ x ∈ (passA S order req tr).1 := by
  intro order
  induction order with
  | nil => intro req tr x hx; exact Or.inl hx
  | cons n rest ih =>
    intro req tr x hx
    unfold passA at hx ⊢
    cases hf : factoryOf S n with
    | none => simp only [hf] at hx ⊢; exact ih req tr x hx
    | some ft =>
      simp only [hf] at hx ⊢
      by_cases hin : ft ∈ req
      · simp only [hin, if_true] at hx ⊢
        rcases ih _ _ x hx with h | h
        · rcases mem_addName.mp h with h' | rfl
          · exact Or.inl h'
          · exact Or.inr ((passA_mono (S := S) rest (addName req x) (addName tr x)).1 x (mem_addName.mpr (Or.inr rfl)))
        · exact Or.inr h
      · simp only [hin, if_false] at hx ⊢
        exact ih req tr x hx

/-- no member type of a struct that records a factory type records one itself (the side condition the theorems needed before
    `_propagate_unaligned` stopped putting member types into `already_marked`; no longer used) -/
def NoDerivedMemberTypes (S : Schema) : Prop :=
  ∀ n ft, factoryOf S n = some ft → ∀ t ∈ memberTypesOf S n, factoryOf S t = none

structure UInv (S : Schema) (seeds : List String) (st : UState) : Prop where
  sound_req : ∀ x ∈ st.req, Demanded S seeds x
  seeds_in : ∀ x ∈ seeds, x ∈ st.req
  marked_req : ∀ x ∈ st.marked, x ∈ st.req
  /-- `already_marked` holds exactly visited descendants: their struct typed members carry the mark -/
  members_done : ∀ n ∈ st.marked, ∀ t ∈ memberTypesOf S n, t ∈ st.req

/-- the marks are closed under the rules (for the structs the iteration visits) -/
structure UClosed (S : Schema) (order req : List String) : Prop where
  descendants : ∀ n ∈ order, ∀ ft, factoryOf S n = some ft → ft ∈ req → n ∈ req
  members : ∀ n ∈ order, ∀ ft, factoryOf S n = some ft → ft ∈ req → ∀ t ∈ memberTypesOf S n, t ∈ req

theorem unalignedPass_sound {S : Schema} {seeds order : List String} {st st' : UState}
    (h : unalignedPass S order st = .ok st') (hs : ∀ x ∈ st.req, Demanded S seeds x) : ∀ x ∈ st'.req, Demanded S seeds x := by
  unfold unalignedPass at h
  simp only [bind, Except.bind] at h
  have hA := passA_sound (S := S) (seeds := seeds) order st.req [] hs (fun _ h => by cases h)
  obtain ⟨h1, _⟩ := passB_spec _ _ _ h
  intro x hx
  rcases (h1 x).mp hx with hx | ⟨n, hn, hxn⟩
  · exact hA.1 x hx
  · obtain ⟨ft, hft, hd⟩ := hA.2 n (List.mem_filter.mp hn).1
    exact .member hft hd hxn

theorem unalignedPass_inv {S : Schema} {seeds order : List String} {st st' : UState}
    (h : unalignedPass S order st = .ok st') (hinv : UInv S seeds st) :
    UInv S seeds st' ∧ st.marked.length ≤ st'.marked.length := by
  have hsound := unalignedPass_sound h hinv.sound_req
  unfold unalignedPass at h
  simp only [bind, Except.bind] at h
  have hmono := passA_mono (S := S) order st.req []
  have htr := passA_tracked_sub (S := S) order st.req []
  obtain ⟨h1, h2⟩ := passB_spec _ _ _ h
  simp only at h2
  refine ⟨⟨hsound, ?_, ?_, ?_⟩, by rw [h2]; exact length_foldl_addName_le _ _⟩
  · intro x hx
    exact (h1 x).mpr (Or.inl (hmono.1 x (hinv.seeds_in x hx)))
  · intro x hx
    rw [h2] at hx
    rcases mem_foldl_addName.mp hx with hx | hx
    · exact (h1 x).mpr (Or.inl (hmono.1 x (hinv.marked_req x hx)))
    · rcases htr x (List.mem_filter.mp hx).1 with h | h
      · cases h
      · exact (h1 x).mpr (Or.inl h)
  · intro n hn t ht
    rw [h2] at hn
    rcases mem_foldl_addName.mp hn with hn | hn
    · exact (h1 t).mpr (Or.inl (hmono.1 t (hinv.members_done n hn t ht)))
    · exact (h1 t).mpr (Or.inr ⟨n, hn, ht⟩)

/-- a pass that does not grow `already_marked` leaves marks that are closed under the rules -/
theorem unalignedPass_exit {S : Schema} {seeds order : List String} {st st' : UState}
    (h : unalignedPass S order st = .ok st') (hinv : UInv S seeds st) (hlen : st'.marked.length = st.marked.length) :
    st'.req = st.req ∧ UClosed S order st.req := by
  unfold unalignedPass at h
  simp only [bind, Except.bind] at h
  obtain ⟨h1, h2⟩ := passB_spec _ _ _ h
  simp only at h2
  -- nothing was newly tracked
  have hnewly : (passA S order st.req []).2.filter (fun x => decide (x ∉ st.marked)) = [] := by
    cases hn : (passA S order st.req []).2.filter (fun x => decide (x ∉ st.marked)) with
    | nil => rfl
    | cons x rest =>
      exfalso
      have hx : x ∈ (passA S order st.req []).2.filter (fun x => decide (x ∉ st.marked)) := by rw [hn]; exact List.mem_cons_self
      have hxn : x ∉ st.marked := by simpa using (List.mem_filter.mp hx).2
      have hlt := length_foldl_addName_lt (ts := (passA S order st.req []).2.filter (fun x => decide (x ∉ st.marked))) hx hxn
      rw [h2] at hlen
      omega
  have htracked : ∀ x ∈ (passA S order st.req []).2, x ∈ st.marked := by
    intro x hx
    by_cases hm : x ∈ st.marked
    · exact hm
    · have : x ∈ (passA S order st.req []).2.filter (fun x => decide (x ∉ st.marked)) := List.mem_filter.mpr ⟨hx, by simpa using hm⟩
      rw [hnewly] at this; cases this
  have hcand : ∀ n ∈ order, ∀ ft, factoryOf S n = some ft → ft ∈ st.req → n ∈ st.marked := by
    intro n hn ft hft hin
    exact htracked n (passA_complete order st.req [] n ft hn hft hin).2
  have hstable : (passA S order st.req []).1 = st.req :=
    passA_stable order st.req [] (fun n hn ft hft hin => hinv.marked_req n (hcand n hn ft hft hin))
  rw [hnewly] at h
  simp [passB, pure, Except.pure] at h
  refine ⟨by rw [← h, hstable], ⟨fun n hn ft hft hin => hinv.marked_req n (hcand n hn ft hft hin), ?_⟩⟩
  intro n hn ft hft hin t ht
  exact hinv.members_done n (hcand n hn ft hft hin) t ht

theorem unalignedLoop_sound {S : Schema} {seeds order : List String} : ∀ (fuel : Nat) (st st' : UState),
    unalignedLoop S order fuel st = .ok st' → (∀ x ∈ st.req, Demanded S seeds x) → ∀ x ∈ st'.req, Demanded S seeds x := by
  intro fuel
  induction fuel with
  | zero => intro st st' h; simp [unalignedLoop, throw, throwThe, MonadExceptOf.throw] at h
  | succ k ih =>
    intro st st' h hs
    unfold unalignedLoop at h
    obtain ⟨st1, hst1, hrest⟩ := dbind_eq_ok.mp h
    have hs1 := unalignedPass_sound hst1 hs
    by_cases hlen : st1.marked.length = st.marked.length
    · simp [hlen, pure, Except.pure] at hrest
      subst hrest; exact hs1
    · simp only [hlen, if_false] at hrest
      exact ih _ _ hrest hs1

theorem unalignedLoop_closed {S : Schema} {seeds order : List String} : ∀ (fuel : Nat) (st st' : UState),
    unalignedLoop S order fuel st = .ok st' → UInv S seeds st → UInv S seeds st' ∧ UClosed S order st'.req := by
  intro fuel
  induction fuel with
  | zero => intro st st' h; simp [unalignedLoop, throw, throwThe, MonadExceptOf.throw] at h
  | succ k ih =>
    intro st st' h hinv
    unfold unalignedLoop at h
    obtain ⟨st1, hst1, hrest⟩ := dbind_eq_ok.mp h
    obtain ⟨hinv1, _⟩ := unalignedPass_inv hst1 hinv
    by_cases hlen : st1.marked.length = st.marked.length
    · simp [hlen, pure, Except.pure] at hrest
      subst hrest
      obtain ⟨hreq, hclosed⟩ := unalignedPass_exit hst1 hinv hlen
      exact ⟨hinv1, by rw [hreq]; exact hclosed⟩
    · simp only [hlen, if_false] at hrest
      exact ih _ _ hrest hinv1

theorem initial_inv (S : Schema) (seeds : List String) : UInv S seeds ⟨seeds.foldl addName [], []⟩ := by
  refine ⟨?_, ?_, ?_, ?_⟩
  · intro x hx
    rcases mem_foldl_addName.mp hx with h | h
    · cases h
    · exact .seed h
  · intro x hx; exact mem_foldl_addName.mpr (Or.inr hx)
  · intro x hx; cases hx
  · intro n hn; cases hn

theorem demanded_subset_closed {S : Schema} {seeds order req : List String} (hcover : ∀ n, factoryOf S n ≠ none → n ∈ order)
    (hseeds : ∀ x ∈ seeds, x ∈ req) (hclosed : UClosed S order req) : ∀ n, Demanded S seeds n → n ∈ req := by
  intro n hd
  induction hd with
  | seed h => exact hseeds _ h
  | @descendant n ft hft _ ih => exact hclosed.descendants n (hcover n (by rw [hft]; simp)) ft hft ih
  | @member n ft t hft _ ht ih => exact hclosed.members n (hcover n (by rw [hft]; simp)) ft hft ih t ht

theorem not_demanded_nil (S : Schema) : ∀ n, ¬ Demanded S [] n := by
  intro n h
  induction h with
  | seed h => cases h
  | descendant _ _ ih => exact ih
  | member _ _ _ ih => exact ih

/-! ## the fuel of the model loop is never the limit -/

theorem nodup_addName {l : List String} {n : String} (h : l.Nodup) : (addName l n).Nodup := by
  unfold addName
  by_cases hn : n ∈ l
  · simp [hn, h]
  · simp only [hn, if_false]
    rw [List.nodup_append]
    exact ⟨h, by simp, by intro a ha b hb; simp at hb; subst hb; intro hab; exact hn (hab ▸ ha)⟩

theorem nodup_foldl_addName {ts l : List String} (h : l.Nodup) : (ts.foldl addName l).Nodup := by
  induction ts generalizing l with
  | nil => exact h
  | cons t rest ih => exact ih (nodup_addName h)

theorem passA_tracked_in_order {S : Schema} : ∀ (order req tr : List String),
    ∀ x ∈ (passA S order req tr).2, x ∈ tr ∨ x ∈ order := by
  intro order
  induction order with
  | nil => intro req tr x hx; exact Or.inl hx
  | cons n rest ih =>
    intro req tr x hx
    unfold passA at hx
    cases hf : factoryOf S n with
    | none =>
      simp only [hf] at hx
      rcases ih req tr x hx with h | h
      · exact Or.inl h
      · exact Or.inr (List.mem_cons_of_mem _ h)
    | some ft =>
      simp only [hf] at hx
      by_cases hin : ft ∈ req
      · simp only [hin, if_true] at hx
        rcases ih _ _ x hx with h | h
        · rcases mem_addName.mp h with h' | rfl
          · exact Or.inl h'
          · exact Or.inr List.mem_cons_self
        · exact Or.inr (List.mem_cons_of_mem _ h)
      · simp only [hin, if_false] at hx
        rcases ih req tr x hx with h | h
        · exact Or.inl h
        · exact Or.inr (List.mem_cons_of_mem _ h)

/-- `already_marked` stays a duplicate-free list of names of the iteration order -/
theorem unalignedPass_marked {S : Schema} {order : List String} {st st' : UState} (h : unalignedPass S order st = .ok st')
    (hnd : st.marked.Nodup) (hsub : ∀ x ∈ st.marked, x ∈ order) :
    st'.marked.Nodup ∧ (∀ x ∈ st'.marked, x ∈ order) ∧ st.marked.length ≤ st'.marked.length := by
  unfold unalignedPass at h
  simp only [bind, Except.bind] at h
  obtain ⟨_, h2⟩ := passB_spec _ _ _ h
  simp only at h2
  rw [h2]
  refine ⟨nodup_foldl_addName hnd, ?_, length_foldl_addName_le _ _⟩
  intro x hx
  rcases mem_foldl_addName.mp hx with hx | hx
  · exact hsub x hx
  · rcases passA_tracked_in_order order st.req [] x (List.mem_filter.mp hx).1 with h | h
    · cases h
    · exact h

/-- an error of a pass is an error of its member phase (`RuntimeError: array field not handled`) -/
def MemberPhaseError (S : Schema) (e : String) : Prop := ∃ newly st, passB S newly st = .error e

theorem unalignedLoop_error {S : Schema} {order : List String} (hord : order.Nodup) : ∀ (fuel : Nat) (st : UState) (e : String),
    st.marked.Nodup → (∀ x ∈ st.marked, x ∈ order) → order.length < fuel + st.marked.length →
    unalignedLoop S order fuel st = .error e → MemberPhaseError S e := by
  intro fuel
  induction fuel with
  | zero =>
    intro st e hnd hsub hlen _
    have := List.Nodup.length_le_of_subset hnd (fun x hx => hsub x hx)
    omega
  | succ k ih =>
    intro st e hnd hsub hlen h
    unfold unalignedLoop at h
    cases hp : unalignedPass S order st with
    | error e' =>
      simp [hp, bind, Except.bind] at h
      subst h
      unfold unalignedPass at hp
      simp only [bind, Except.bind] at hp
      exact ⟨_, _, hp⟩
    | ok st' =>
      simp only [hp, bind, Except.bind] at h
      obtain ⟨hnd', hsub', hle⟩ := unalignedPass_marked hp hnd hsub
      by_cases heq : st'.marked.length = st.marked.length
      · simp [heq, pure, Except.pure] at h
      · simp only [heq, if_false] at h
        exact ih st' e hnd' hsub' (by omega) h

/-! ## monotonicity in the schema -/

/-- `S'` has everything `S` has: the same name resolves to the same declaration, and every struct of `S` is a struct of `S'` -/
structure Extends (S S' : Schema) : Prop where
  lookup : ∀ n d, Schema.lookup S n = some d → Schema.lookup S' n = some d
  structs : ∀ M, Decl.struct M ∈ S → Decl.struct M ∈ S'

theorem factoryOf_extends {S S' : Schema} (h : Extends S S') {n ft : String} (hf : factoryOf S n = some ft) : factoryOf S' n = some ft := by
  unfold factoryOf at *
  cases hl : Schema.lookup S n with
  | none => simp [hl] at hf
  | some d =>
    cases d with
    | struct M =>
      rw [h.lookup n _ hl]
      simp only [hl] at hf ⊢
      cases hft : M.factoryType with
      | none => simp [hft] at hf
      | some x =>
        simp only [hft] at hf ⊢
        by_cases hx : (Schema.lookup S x).isSome = true
        · simp only [hx, if_true] at hf
          obtain ⟨d', hd'⟩ := Option.isSome_iff_exists.mp hx
          simp [h.lookup x d' hd', hf]
        · simp [hx] at hf
    | alias a => simp [hl] at hf
    | enum e => simp [hl] at hf

theorem memberTypesOf_extends {S S' : Schema} (h : Extends S S') {n t : String} (ht : t ∈ memberTypesOf S n) : t ∈ memberTypesOf S' n := by
  unfold memberTypesOf at *
  cases hl : Schema.lookup S n with
  | none => simp [hl] at ht
  | some d =>
    cases d with
    | struct M =>
      rw [h.lookup n _ hl]
      simp only [hl, List.mem_filterMap] at ht ⊢
      obtain ⟨f, hf, hft⟩ := ht
      refine ⟨f, hf, ?_⟩
      cases hty : f.fieldType with
      | named x =>
        simp only [hty] at hft ⊢
        cases hlx : Schema.lookup S x with
        | none => simp [hlx] at hft
        | some dx =>
          rw [h.lookup x dx hlx]
          simpa [hlx] using hft
      | int i => simp [hty] at hft
      | array a => simp [hty] at hft
    | alias a => simp [hl] at ht
    | enum e => simp [hl] at ht

/-- the closure of the rules only grows when declarations and seeds are added -/
theorem demanded_extends {S S' : Schema} {seeds seeds' : List String} (h : Extends S S') (hs : ∀ x ∈ seeds, x ∈ seeds') {n : String}
    (hd : Demanded S seeds n) : Demanded S' seeds' n := by
  induction hd with
  | seed hx => exact .seed (hs _ hx)
  | descendant hf _ ih => exact .descendant (factoryOf_extends h hf) ih
  | member hf _ ht ih => exact .member (factoryOf_extends h hf) ih (memberTypesOf_extends h ht)

theorem mapM_ok_mem {α β : Type} {f : α → Except String β} : ∀ (l : List α) (l' : List β), l.mapM f = .ok l' →
    (∀ b ∈ l', ∃ a ∈ l, f a = .ok b) ∧ (∀ a ∈ l, ∃ b ∈ l', f a = .ok b) := by
  intro l
  induction l with
  | nil => intro l' h; simp [List.mapM_nil, pure, Except.pure] at h; subst h; exact ⟨fun _ h => (by cases h), fun _ h => (by cases h)⟩
  | cons x rest ih =>
    intro l' h
    rw [List.mapM_cons] at h
    obtain ⟨b, hb, h2⟩ := dbind_eq_ok.mp h
    obtain ⟨bs, hbs, h3⟩ := dbind_eq_ok.mp h2
    simp [pure, Except.pure] at h3
    subst h3
    obtain ⟨ih1, ih2⟩ := ih _ hbs
    refine ⟨?_, ?_⟩
    · intro y hy
      rcases List.mem_cons.mp hy with rfl | hy'
      · exact ⟨x, List.mem_cons_self, hb⟩
      · obtain ⟨a, ha, hfa⟩ := ih1 y hy'
        exact ⟨a, List.mem_cons_of_mem _ ha, hfa⟩
    · intro a ha
      rcases List.mem_cons.mp ha with rfl | ha'
      · exact ⟨b, List.mem_cons_self, hb⟩
      · obtain ⟨y, hy, hfa⟩ := ih2 a ha'
        exact ⟨y, List.mem_cons_of_mem _ hy, hfa⟩

/-- the marks one struct contributes while it is processed -/
theorem processStruct_marks {S : Schema} {M : Struct} {exts : List FieldExt} {marks : List String}
    (h : processStruct S M = .ok (exts, marks)) (x : String) :
    x ∈ marks ↔ ∃ f ∈ M.structFields, ∃ e, processField S M f = .ok (e, some x) := by
  unfold processStruct at h
  by_cases hph : M.fields.any Member.isPlaceholder = true
  · simp [hph, throw, throwThe, MonadExceptOf.throw, bind, Except.bind] at h
  · simp only [hph, Bool.false_eq_true, if_false] at h
    obtain ⟨results, hres, h2⟩ := dbind_eq_ok.mp h
    obtain ⟨exts', _, h3⟩ := dbind_eq_ok.mp h2
    simp [pure, Except.pure] at h3
    obtain ⟨_, rfl⟩ := h3
    obtain ⟨m1, m2⟩ := mapM_ok_mem _ _ hres
    simp only [List.mem_filterMap]
    constructor
    · rintro ⟨r, hr, hrx⟩
      obtain ⟨f, hf, hpf⟩ := m1 r hr
      exact ⟨f, hf, r.1, by rw [hpf]; cases r; simp at hrx; simp [hrx]⟩
    · rintro ⟨f, hf, e, hpf⟩
      obtain ⟨r, hr, hpr⟩ := m2 f hf
      rw [hpf] at hpr
      cases hpr
      exact ⟨_, hr, rfl⟩

theorem processField_mark_extends {S S' : Schema} (h : Extends S S') {M : Struct} {f : StructField} {e : FieldExt} {x : String}
    (hp : processField S M f = .ok (e, some x)) : processField S' M f = .ok (e, some x) := by
  unfold processField at *
  cases hft : f.fieldType with
  | named n =>
    simp only [hft] at hp
    cases hl : Schema.lookup S n <;> simp [hl, pure, Except.pure] at hp
  | int t => simp [hft, pure, Except.pure] at hp
  | array a =>
    simp only [hft] at hp ⊢
    by_cases hd : a.displayType = .typedArray
    · simp only [hd, if_true] at hp ⊢
      cases he : a.elementType with
      | int t => simp [he, throw, throwThe, MonadExceptOf.throw] at hp
      | named n =>
        simp only [he] at hp ⊢
        cases hl : Schema.lookup S n with
        | none => simp [hl, throw, throwThe, MonadExceptOf.throw] at hp
        | some d =>
          rw [h.lookup n d hl]
          simpa [hl] using hp
    · simp [hd, pure, Except.pure] at hp

theorem mem_structs_iff {S : Schema} {M : Struct} : M ∈ S.structs ↔ Decl.struct M ∈ S := by
  unfold Schema.structs
  simp only [List.mem_filterMap]
  constructor
  · rintro ⟨d, hd, hds⟩
    cases d with
    | struct M' => simp [Decl.struct?] at hds; subst hds; exact hd
    | alias a => simp [Decl.struct?] at hds
    | enum e => simp [Decl.struct?] at hds
  · intro h; exact ⟨_, h, rfl⟩

/-- the seeds: what some struct of the schema contributes -/
theorem mem_unalignedSeeds {S : Schema} {seeds : List String} (h : unalignedSeeds S = .ok seeds) (x : String) :
    (x ∈ seeds ↔ ∃ M, Decl.struct M ∈ S ∧ ∃ f ∈ M.structFields, ∃ e, processField S M f = .ok (e, some x)) ∧
    (∀ M, Decl.struct M ∈ S → ∃ exts marks, processStruct S M = .ok (exts, marks)) := by
  unfold unalignedSeeds at h
  obtain ⟨per, hper, hp⟩ := dbind_eq_ok.mp h
  simp [pure, Except.pure] at hp
  subst hp
  obtain ⟨m1, m2⟩ := mapM_ok_mem _ _ hper
  have hsucc : ∀ M, Decl.struct M ∈ S → ∃ exts marks, processStruct S M = .ok (exts, marks) := by
    intro M hM
    obtain ⟨marks, _, hpm⟩ := m2 M (mem_structs_iff.mpr hM)
    cases hps : processStruct S M with
    | error e => simp [hps, Functor.map, Except.map] at hpm
    | ok r => exact ⟨r.1, r.2, rfl⟩
  refine ⟨?_, hsucc⟩
  simp only [List.mem_flatten]
  constructor
  · rintro ⟨marks, hmarks, hx⟩
    obtain ⟨M, hM, hpm⟩ := m1 marks hmarks
    cases hps : processStruct S M with
    | error e => simp [hps, Functor.map, Except.map] at hpm
    | ok r =>
      obtain ⟨exts, mk⟩ := r
      simp [hps, Functor.map, Except.map] at hpm
      subst hpm
      exact ⟨M, mem_structs_iff.mp hM, (processStruct_marks hps x).mp hx⟩
  · rintro ⟨M, hM, hf⟩
    obtain ⟨marks, hmarks, hpm⟩ := m2 M (mem_structs_iff.mpr hM)
    cases hps : processStruct S M with
    | error e => simp [hps, Functor.map, Except.map] at hpm
    | ok r =>
      obtain ⟨exts, mk⟩ := r
      simp [hps, Functor.map, Except.map] at hpm
      subst hpm
      exact ⟨_, hmarks, (processStruct_marks hps x).mpr hf⟩

theorem unalignedSeeds_extends {S S' : Schema} (h : Extends S S') {seeds seeds' : List String}
    (hs : unalignedSeeds S = .ok seeds) (hs' : unalignedSeeds S' = .ok seeds') : ∀ x ∈ seeds, x ∈ seeds' := by
  intro x hx
  obtain ⟨M, hM, f, hf, e, hpf⟩ := ((mem_unalignedSeeds hs x).1).mp hx
  exact ((mem_unalignedSeeds hs' x).1).mpr ⟨M, h.structs M hM, f, hf, e, processField_mark_extends h hpf⟩

/-- appending a declaration with a fresh name extends the schema -/
theorem extends_append_fresh (S : Schema) (d : Decl) (hfresh : ∀ x ∈ S, x.name ≠ d.name) : Extends S (S ++ [d]) := by
  refine ⟨?_, fun M hM => List.mem_append_left _ hM⟩
  intro n x hx
  unfold Schema.lookup at *
  rw [List.reverse_append, List.find?_append]
  have hxn : x.name = n := by simpa using List.find?_some hx
  have hxm : x ∈ S := List.mem_reverse.mp (List.mem_of_find?_eq_some hx)
  have : d.name ≠ n := by rw [← hxn]; exact (hfresh x hxm).symm
  simp [this, hx]

end SymbolVerif.Cats

/-
Assembly of the document-level round trip for C04: the text `Printer.print ds` of well-formed declarations is cut
into the expected logical lines, these form one block per declaration, and the statement loop reads every block
back as its declaration.
-/
import SymbolVerif.Proofs.CatsBlocks
import SymbolVerif.Proofs.CatsClean
import SymbolVerif.Model.Cats.Printer
namespace SymbolVerif.Cats.Parser
open SymbolVerif.Cats SymbolVerif.Cats.Lexer
set_option linter.unusedSimpArgs false

/-- header text of a declaration -/
def declHead : Decl → Chars
  | .alias a => a.render.toList
  | .enum e => (s!"enum {e.name} : {e.base.render}").toList
  | .struct s => (structHeaderText s.disposition s.name).toList

/-- texts of the child lines of a declaration -/
def declKids : Decl → List Chars
  | .alias _ => []
  | .enum e => e.values.map fun v => v.render.toList
  | .struct s => s.fields.map fun m => m.render.toList

/-! ### layouts: header lines with their children, optionally preceded by an empty line -/

/-- one header line at the outer level with its child lines; `blankBefore` = an empty line precedes it -/
structure SegSpec where
  blankBefore : Bool
  head : Chars
  kids : List Chars

def SegSpec.plines (s : SegSpec) : List PLine :=
  (if s.blankBefore then [PLine.blank] else []) ++ PLine.code false s.head :: s.kids.map (PLine.code true)

def specPLines (specs : List SegSpec) : List PLine := specs.flatMap SegSpec.plines

def SegSpec.Clean (s : SegSpec) : Prop := CleanText s.head ∧ ∀ t ∈ s.kids, CleanText t

/-- child lines numbered from `k` -/
def kidLines : Nat → List Chars → List LLine
  | _, [] => []
  | k, t :: ts => ⟨k, k, 4, .code, t⟩ :: kidLines (k + 1) ts

def SegSpec.first (s : SegSpec) (k : Nat) : Nat := if s.blankBefore then k + 1 else k

def SegSpec.seg (s : SegSpec) (k : Nat) : Seg := ⟨⟨s.first k, s.first k, 0, .code, s.head⟩, kidLines (s.first k + 1) s.kids⟩

def SegSpec.size (s : SegSpec) : Nat := (if s.blankBefore then 1 else 0) + 1 + s.kids.length

/-- the segments of a layout whose first physical line has number `k` -/
def specSegs : Nat → List SegSpec → List Seg
  | _, [] => []
  | k, s :: rest => s.seg k :: specSegs (k + s.size) rest

theorem expLines_append : ∀ (a b : List PLine) (k : Nat), expLines k (a ++ b) = expLines k a ++ expLines (k + a.length) b := by
  intro a
  induction a with
  | nil => intro b k; simp [expLines]
  | cons p rest ih =>
    intro b k
    cases p with
    | blank => simp only [List.cons_append, expLines, ih, List.length_cons]; congr 2; omega
    | code i t => simp only [List.cons_append, expLines, ih, List.length_cons]; congr 3; omega

theorem expLines_kids : ∀ (ts : List Chars) (k : Nat), expLines k (ts.map (PLine.code true)) = kidLines k ts := by
  intro ts
  induction ts with
  | nil => intro k; rfl
  | cons t rest ih => intro k; simp [expLines, kidLines, ih]

theorem expLines_spec (s : SegSpec) (k : Nat) : expLines k s.plines = (s.seg k).lines := by
  obtain ⟨b, head, kids⟩ := s
  cases b <;> simp [SegSpec.plines, expLines, expLines_kids, SegSpec.seg, SegSpec.first, Seg.lines]

theorem plines_length (s : SegSpec) : s.plines.length = s.size := by
  obtain ⟨b, head, kids⟩ := s
  cases b <;> simp [SegSpec.plines, SegSpec.size] <;> omega

theorem expLines_specs : ∀ (specs : List SegSpec) (k : Nat),
    expLines k (specPLines specs) = (specSegs k specs).flatMap Seg.lines := by
  intro specs
  induction specs with
  | nil => intro k; rfl
  | cons s rest ih =>
    intro k
    simp only [specPLines, List.flatMap_cons, expLines_append, expLines_spec, plines_length, specSegs]
    rw [← specPLines, ih]

theorem kidLines_indent : ∀ (ts : List Chars) (k : Nat), ∀ l ∈ kidLines k ts, l.indent = 4 := by
  intro ts
  induction ts with
  | nil => intro k l hl; cases hl
  | cons t rest ih =>
    intro k l hl
    simp only [kidLines, List.mem_cons] at hl
    rcases hl with rfl | hl
    · rfl
    · exact ih _ l hl

theorem specSegs_ok : ∀ (specs : List SegSpec) (k : Nat), ∀ s ∈ specSegs k specs, s.Ok := by
  intro specs
  induction specs with
  | nil => intro k s hs; cases hs
  | cons sp rest ih =>
    intro k s hs
    simp only [specSegs, List.mem_cons] at hs
    rcases hs with rfl | hs
    · exact ⟨rfl, kidLines_indent _ _⟩
    · exact ih _ s hs

theorem specSegs_append : ∀ (a b : List SegSpec) (k : Nat), ∃ k', specSegs k (a ++ b) = specSegs k a ++ specSegs k' b := by
  intro a
  induction a with
  | nil => intro b k; exact ⟨k, rfl⟩
  | cons s rest ih =>
    intro b k
    obtain ⟨k', h⟩ := ih b (k + s.size)
    exact ⟨k', by simp only [List.cons_append, specSegs, h]⟩

theorem clean_specPLines (specs : List SegSpec) (h : ∀ s ∈ specs, s.Clean) : ∀ p ∈ specPLines specs, p.Clean := by
  intro p hp
  simp only [specPLines, List.mem_flatMap] at hp
  obtain ⟨s, hs, hp⟩ := hp
  obtain ⟨hhead, hkids⟩ := h s hs
  simp only [SegSpec.plines, List.mem_append, List.mem_cons, List.mem_map] at hp
  rcases hp with hp | rfl | ⟨t, ht, rfl⟩
  · split at hp
    · simp only [List.mem_singleton] at hp; subst hp; trivial
    · cases hp
  · exact hhead
  · exact hkids t ht

/-- The blocks of a layout: a text that consists of clean header lines with their indented children (the first
    header not preceded by an empty line) is cut into one block per header. -/
theorem blocks_of_layout (s0 : SegSpec) (rest : List SegSpec) (h0 : s0.blankBefore = false)
    (hclean : ∀ s ∈ s0 :: rest, s.Clean) :
    parseItems (unlinesC ((specPLines (s0 :: rest)).map PLine.chars)) =
      (match topLoop ((specSegs 1 (s0 :: rest)).map segBlock) {} [] with
       | .error e => .error ⟨if e.line == 0 then
            (((specSegs 1 (s0 :: rest)).flatMap Seg.lines).getLast?.map (·.endLineNo)).getD 1 else e.line, e.msg⟩
       | .ok items => .ok items) := by
  have hfirst : ∃ tl, specPLines (s0 :: rest) = PLine.code false s0.head :: tl := by
    obtain ⟨b, head, kids⟩ := s0
    simp only at h0
    subst h0
    exact ⟨_, rfl⟩
  obtain ⟨tl, htl⟩ := hfirst
  have hcl := clean_specPLines (s0 :: rest) hclean
  have hlex := logicalLines_unlines false s0.head tl (by rw [← htl]; exact hcl)
  rw [← htl, expLines_specs] at hlex
  have hev := events_segs (specSegs 1 (s0 :: rest)) (specSegs_ok _ _)
  have hgr := groupBlocks_segs (specSegs 1 (s0 :: rest)) []
  simp only [List.reverse_nil, List.nil_append] at hgr
  simp only [parseItems, hlex, liftLex, bind, Except.bind, events, hev, hgr]
  rfl

/-! ### the printer emits a layout -/

/-- the layout of printed declarations; `first` = no empty line before the first of them -/
def docSpecs : Bool → List Decl → List SegSpec
  | _, [] => []
  | first, d :: rest => ⟨!first, declHead d, declKids d⟩ :: docSpecs false rest

theorem unlines_toList (ls : List String) : (Printer.unlines ls).toList = unlinesC (ls.map String.toList) := by
  simp only [Printer.unlines, String.toList_join, unlinesC]
  induction ls with
  | nil => rfl
  | cons l rest ih => simp [List.flatMap_cons, ih, String.toList_append]

theorem flatMap_singleton {α β : Type} (f : α → β) (l : List α) (g : α → List β) (h : ∀ a ∈ l, g a = [f a]) :
    l.flatMap g = l.map f := by
  induction l with
  | nil => rfl
  | cons a rest ih =>
    simp only [List.flatMap_cons, List.map_cons, h a List.mem_cons_self, ih (fun x hx => h x (List.mem_cons_of_mem _ hx))]
    rfl

theorem memberLines_wf (m : Member) (h : WFMember m) : Printer.memberLines m = [m.render] := by
  cases h <;> simp [Printer.memberLines, Printer.commentLines, Printer.attributeLines, attrList, Member.render]

theorem enumValueLines_wf (v : EnumValue) (h : WFEnumValue v) : Printer.enumValueLines v = [v.render] := by
  cases h; simp [Printer.enumValueLines, Printer.commentLines]

/-- a declaration the printer handles as expected: well-formed, or a struct header without members (the latter is
    what the corruption operator `empty-struct` leaves) -/
inductive PrintableDecl : Decl → Prop
  | wf (d : Decl) : WFDecl d → PrintableDecl d
  | emptyStruct (d : Option String) (name : String) : d ∈ structDispositions → IsTypeName name →
      PrintableDecl (.struct { disposition := d, name := name, fields := [] })

theorem declLines_toList (d : Decl) (h : PrintableDecl d) :
    (Printer.declLines d).map String.toList =
      (PLine.code false (declHead d) :: (declKids d).map (PLine.code true)).map PLine.chars := by
  cases h with
  | emptyStruct d name hd hn =>
    simp [Printer.declLines, Printer.commentLines, Printer.attributeLines, attrList, declHead, declKids, PLine.chars,
      structHeaderText]
    cases d <;> rfl
  | wf d h =>
  cases h with
  | alias a ha hc =>
    simp [Printer.declLines, hc, Printer.commentLines, declHead, declKids, PLine.chars]
  | «enum» e he =>
    cases he with
    | mk name base values hn hb hv =>
      have := flatMap_singleton EnumValue.render values Printer.enumValueLines (fun v hv' => enumValueLines_wf v (hv v hv'))
      simp [Printer.declLines, Printer.commentLines, Printer.attributeLines, attrList, this, declHead, declKids,
        PLine.chars, Printer.indentLine, List.map_map, Function.comp_def, String.toList_append]
  | struct s hs =>
    cases hs with
    | mk d name fields hd hn hne hm =>
      have := flatMap_singleton Member.render fields Printer.memberLines (fun m hm' => memberLines_wf m (hm m hm'))
      simp [Printer.declLines, Printer.commentLines, Printer.attributeLines, attrList, this, declHead, declKids,
        PLine.chars, Printer.indentLine, List.map_map, Function.comp_def, String.toList_append, structHeaderText]
      cases d <;> rfl

/-- the characters of the lines of one declaration -/
def declChars (d : Decl) : List Chars := (PLine.code false (declHead d) :: (declKids d).map (PLine.code true)).map PLine.chars

theorem specChars_true_cons (d : Decl) (r : List Decl) :
    (specPLines (docSpecs true (d :: r))).map PLine.chars = declChars d ++ (specPLines (docSpecs false r)).map PLine.chars := by
  simp [docSpecs, specPLines, SegSpec.plines, declChars]

theorem specChars_false_cons (d : Decl) (r : List Decl) :
    (specPLines (docSpecs false (d :: r))).map PLine.chars =
      [] :: (declChars d ++ (specPLines (docSpecs false r)).map PLine.chars) := by
  simp [docSpecs, specPLines, SegSpec.plines, declChars, PLine.chars]

theorem printDecls_toList : ∀ (ds : List Decl), (∀ d ∈ ds, PrintableDecl d) →
    (Printer.printDecls ds).map String.toList = (specPLines (docSpecs true ds)).map PLine.chars ∧
    (ds ≠ [] → ("" :: Printer.printDecls ds).map String.toList = (specPLines (docSpecs false ds)).map PLine.chars) := by
  intro ds
  induction ds with
  | nil => intro _; exact ⟨rfl, fun h => absurd rfl h⟩
  | cons d rest ih =>
    intro h
    have hd : (Printer.declLines d).map String.toList = declChars d := declLines_toList d (h d List.mem_cons_self)
    obtain ⟨_, hrest⟩ := ih (fun x hx => h x (List.mem_cons_of_mem _ hx))
    have hfirst : (Printer.printDecls (d :: rest)).map String.toList = (specPLines (docSpecs true (d :: rest))).map PLine.chars := by
      rw [specChars_true_cons]
      cases rest with
      | nil => simp [Printer.printDecls, hd, docSpecs, specPLines]
      | cons d' rest' =>
        have hr := hrest (by simp)
        simp only [List.map_cons] at hr
        simp only [Printer.printDecls, List.map_append, List.map_cons, hd, hr]
    refine ⟨hfirst, fun _ => ?_⟩
    rw [specChars_false_cons, ← specChars_true_cons, ← hfirst]
    rfl

theorem print_toList (ds : List Decl) (h : ∀ d ∈ ds, PrintableDecl d) :
    (Printer.print ds).toList = unlinesC ((specPLines (docSpecs true ds)).map PLine.chars) := by
  rw [Printer.print, unlines_toList, (printDecls_toList ds h).1]

/-! ### the printed lines are clean -/

theorem clean_head (d : Decl) (h : WFDecl d) : CleanText (declHead d) := by
  cases h with
  | alias a ha hc =>
    obtain ⟨name, lt, c⟩ := a
    obtain ⟨hn, hlt⟩ := ha
    simp only [declHead]
    rw [alias_render_toList]
    apply clean_of_head 'u' _ (by decide) (by decide)
    have hname := all_line_typeName name hn
    cases lt with
    | int t =>
      have := all_line_shortName t hlt
      simp [List.all_append, List.all_cons, isLineChar, hname, LinkedType.render, IntType.render, this]
    | buffer n =>
      rw [buffer_render_toList]
      simp [List.all_append, List.all_cons, isLineChar, hname, all_line_nat n]
      exact all_line_nat' n
  | «enum» e he =>
    cases he with
    | mk name base values hn hb hv =>
      simp only [declHead]
      rw [enumHeader_toList]
      apply clean_of_head 'e' _ (by decide) (by decide)
      simp [List.all_append, List.all_cons, isLineChar, all_line_typeName name hn, all_line_shortName base hb]
  | struct s hs =>
    cases hs with
    | mk d name fields hd hn hne hm =>
      simp only [declHead]
      simp only [structDispositions, List.mem_cons, List.not_mem_nil, or_false] at hd
      have hname := all_line_typeName name hn
      rcases hd with rfl | rfl | rfl
      · have ht : (structHeaderText none name).toList = 's' :: 't' :: 'r' :: 'u' :: 'c' :: 't' :: ' ' :: name.toList := by
          simp [structHeaderText, String.toList_append, toString]
        rw [ht]
        apply clean_of_head 's' _ (by decide) (by decide)
        simp [List.all_cons, isLineChar, hname]
      · have ht : (structHeaderText (some "abstract") name).toList =
            'a' :: 'b' :: 's' :: 't' :: 'r' :: 'a' :: 'c' :: 't' :: ' ' :: 's' :: 't' :: 'r' :: 'u' :: 'c' :: 't' :: ' ' :: name.toList := by
          simp [structHeaderText, String.toList_append, toString]
        rw [ht]
        apply clean_of_head 'a' _ (by decide) (by decide)
        simp [List.all_cons, isLineChar, hname]
      · have ht : (structHeaderText (some "inline") name).toList =
            'i' :: 'n' :: 'l' :: 'i' :: 'n' :: 'e' :: ' ' :: 's' :: 't' :: 'r' :: 'u' :: 'c' :: 't' :: ' ' :: name.toList := by
          simp [structHeaderText, String.toList_append, toString]
        rw [ht]
        apply clean_of_head 'i' _ (by decide) (by decide)
        simp [List.all_cons, isLineChar, hname]

theorem clean_kids (d : Decl) (h : WFDecl d) : ∀ t ∈ declKids d, CleanText t := by
  intro t ht
  cases h with
  | alias a ha hc => simp [declKids] at ht
  | «enum» e he =>
    cases he with
    | mk name base values hn hb hv =>
      simp only [declKids, List.mem_map] at ht
      obtain ⟨v, hv', rfl⟩ := ht
      exact clean_enumValue v (hv v hv')
  | struct s hs =>
    cases hs with
    | mk d name fields hd hn hne hm =>
      simp only [declKids, List.mem_map] at ht
      obtain ⟨m, hm', rfl⟩ := ht
      exact clean_member m (hm m hm')

theorem clean_head_printable (d : Decl) (h : PrintableDecl d) : CleanText (declHead d) := by
  cases h with
  | wf d h => exact clean_head d h
  | emptyStruct d name hd hn =>
    -- same text as the header of a struct with members
    have := clean_head (.struct { disposition := d, name := name, fields := [.inlinePlaceholder name none] })
      (.struct _ (.mk d name _ hd hn (by simp) (by
        intro m hm; simp only [List.mem_singleton] at hm; subst hm; exact .unnamedInline name hn)))
    exact this

theorem clean_docSpecs : ∀ (ds : List Decl) (first : Bool), (∀ d ∈ ds, PrintableDecl d) →
    ∀ s ∈ docSpecs first ds, s.Clean := by
  intro ds
  induction ds with
  | nil => intro _ _ s hs; cases hs
  | cons d rest ih =>
    intro first h s hs
    simp only [docSpecs, List.mem_cons] at hs
    rcases hs with rfl | hs
    · refine ⟨clean_head_printable d (h d List.mem_cons_self), ?_⟩
      cases h d List.mem_cons_self with
      | wf _ hw => exact clean_kids d hw
      | emptyStruct d' name _ _ => intro t ht; simp [declKids] at ht
    · exact ih false (fun x hx => h x (List.mem_cons_of_mem _ hx)) s hs

theorem kidLines_forall2 {α : Type} (f : α → Chars) : ∀ (xs : List α) (k : Nat),
    Forall2 (fun l x => IsCodeLine l (f x)) (kidLines k (xs.map f)) xs := by
  intro xs
  induction xs with
  | nil => intro k; exact .nil
  | cons x rest ih => intro k; exact .cons ⟨rfl, rfl⟩ (ih (k + 1))

theorem kidLines_isEmpty (ts : List Chars) (k : Nat) : (kidLines k ts).isEmpty = ts.isEmpty := by
  cases ts <;> rfl

theorem segBlock_body_getD (s : Seg) : (segBlock s).body.getD [] = s.kids := by
  obtain ⟨h, kids⟩ := s
  cases kids <;> rfl

/-- the block of a well-formed declaration is read back as that declaration -/
theorem declBlock_of_wf (b : Bool) (k : Nat) (d : Decl) (h : WFDecl d) :
    DeclBlock (segBlock ((⟨b, declHead d, declKids d⟩ : SegSpec).seg k)) d := by
  cases h with
  | alias a ha hc =>
    exact .alias _ a rfl (by simp [segBlock, SegSpec.seg, declKids, kidLines]) (parseTopLine_alias a ha) hc
  | «enum» e he =>
    cases he with
    | mk name base values hn hb hv =>
      refine .enum _ name base values rfl (parseTopLine_enumHeader name base hn hb) ?_
      have hloop := enumLoop_render (kidLines _ (values.map fun v => v.render.toList)) values []
        (kidLines_forall2 (fun v : EnumValue => v.render.toList) values ((⟨b, declHead (.enum ⟨name, base, values, none, none⟩), []⟩ : SegSpec).first k + 1)) hv
      simp only [List.reverse_nil, List.nil_append] at hloop
      rw [segBlock_body_getD]
      exact hloop
  | struct s hs =>
    cases hs with
    | mk d name fields hd hn hne hm =>
      have hloop := structLoop_render (kidLines _ (fields.map fun m => m.render.toList)) fields []
        (kidLines_forall2 (fun m : Member => m.render.toList) fields ((⟨b, [], []⟩ : SegSpec).first k + 1)) hm
      simp only [List.reverse_nil, List.nil_append] at hloop
      refine .struct _ d name _ fields rfl ?_ (parseTopLine_structHeader d name hd hn) hloop
      simp only [segBlock, SegSpec.seg, declKids, kidLines_isEmpty]
      cases fields with
      | nil => exact absurd rfl hne
      | cons m ms => simp [SegSpec.first]

theorem docBlocks_forall2 : ∀ (ds : List Decl) (first : Bool) (k : Nat), WFDecls ds →
    Forall2 DeclBlock ((specSegs k (docSpecs first ds)).map segBlock) ds := by
  intro ds
  induction ds with
  | nil => intro _ k _; exact .nil
  | cons d rest ih =>
    intro first k h
    exact .cons (declBlock_of_wf _ k d (h d List.mem_cons_self)) (ih false _ (fun x hx => h x (List.mem_cons_of_mem _ hx)))

theorem printable_of_wf (ds : List Decl) (h : WFDecls ds) : ∀ d ∈ ds, PrintableDecl d := fun d hd => .wf d (h d hd)

/-- The document-level round trip: printing well-formed declarations and parsing the text gives them back. -/
theorem parseItems_print (ds : List Decl) (h : WFDecls ds) (hne : ds ≠ []) :
    parseItems (Printer.print ds).toList = .ok (ds.map Item.decl) := by
  rw [print_toList ds (printable_of_wf ds h)]
  obtain ⟨d, rest, rfl⟩ : ∃ d rest, ds = d :: rest := by
    cases ds with
    | nil => exact absurd rfl hne
    | cons d rest => exact ⟨d, rest, rfl⟩
  have hclean := clean_docSpecs (d :: rest) true (printable_of_wf _ h)
  have hblocks := blocks_of_layout ⟨false, declHead d, declKids d⟩ (docSpecs false rest) rfl hclean
  have htop := topLoop_decls _ _ [] (docBlocks_forall2 (d :: rest) true 1 h)
  simp only [List.reverse_nil, List.nil_append] at htop
  simp only [docSpecs, Bool.not_true] at htop ⊢
  rw [hblocks, htop]

theorem declsOf_map_decl (ds : List Decl) : declsOf (ds.map Item.decl) = ds := by
  induction ds with
  | nil => rfl
  | cons d rest ih => simp only [declsOf, List.map_cons, List.filterMap_cons] at ih ⊢; rw [ih]

theorem parse_print (ds : List Decl) (h : WFDecls ds) (hne : ds ≠ []) : parse (Printer.print ds).toList = .ok ds := by
  simp only [parse, parseItems_print ds h hne, Except.map, declsOf_map_decl]

end SymbolVerif.Cats.Parser

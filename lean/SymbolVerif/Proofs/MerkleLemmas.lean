/- Helper lemmas for C09 (Merkle part): loop invariants of `MerkleHashBuilder.final`, audit paths. Core Lean only. -/
import SymbolVerif.Model.Sdk.Merkle
namespace SymbolVerif.Sdk.Merkle
open SymbolVerif

theorem root_nil (H : Bytes → Bytes) : root H [] = zeroHash := by
  rw [root]

theorem root_singleton (H : Bytes → Bytes) (h : Bytes) : root H [h] = h := by
  rw [root]

theorem root_cons_cons (H : Bytes → Bytes) (a b : Bytes) (rest : List Bytes) :
    root H (a :: b :: rest) = root H (pairUp H (a :: b :: rest)) := by
  rw [root]

theorem root_of_two_le (H : Bytes → Bytes) (l : List Bytes) (h : 2 ≤ l.length) :
    root H l = root H (pairUp H l) := by
  match l, h with
  | a :: b :: rest, _ => exact root_cons_cons H a b rest

/-! ### the inner loop -/

theorem innerLoop_length (H : Bytes → Bytes) (hs : List Bytes) (n i : Nat) :
    (innerLoop H hs n i).1.length = hs.length := by
  induction hs, n, i using innerLoop.induct H with
  | case1 hs n i h1 h2 ih => rw [innerLoop, if_pos h1, if_pos h2, ih]; simp
  | case2 hs n i h1 h2 ih => rw [innerLoop, if_pos h1, if_neg h2, ih]; simp
  | case3 hs n i h1 => rw [innerLoop, if_neg h1]

theorem take_succ_set {α} (l : List α) (k : Nat) (x : α) (h : k < l.length) :
    (l.set k x).take (k + 1) = l.take k ++ [x] := by
  induction l generalizing k with
  | nil => simp at h
  | cons a l ih =>
    cases k with
    | zero => simp
    | succ k => simp [ih k (by simpa using h)]

theorem drop_take_set {α} (l : List α) (k n j : Nat) (x : α) (h : k < j) :
    ((l.set k x).take n).drop j = (l.take n).drop j := by
  apply List.ext_getElem?
  intro m
  simp only [List.getElem?_drop, List.getElem?_take]
  split
  · rw [List.getElem?_set_ne (by omega)]
  · rfl

theorem drop_take_two {α} (l : List α) (n i : Nat) (h1 : i + 1 < n) (h2 : n ≤ l.length) :
    ∃ a b, l[i]? = some a ∧ l[i + 1]? = some b ∧ (l.take n).drop i = a :: b :: (l.take n).drop (i + 2) := by
  have hi : i < l.length := by omega
  have hi1 : i + 1 < l.length := by omega
  refine ⟨l[i], l[i + 1], by simp [hi], by simp [hi1], ?_⟩
  apply List.ext_getElem?
  intro m
  match m with
  | 0 => simp [List.getElem?_take]; omega
  | 1 => simp [List.getElem?_take, hi1]; omega
  | m + 2 =>
    simp only [List.getElem?_drop, List.getElem?_cons_succ]
    congr 1; omega

theorem drop_take_one {α} (l : List α) (n i : Nat) (h1 : i + 1 = n) (h2 : n ≤ l.length) :
    ∃ a, l[i]? = some a ∧ (l.take n).drop i = [a] := by
  have hi : i < l.length := by omega
  refine ⟨l[i], by simp [hi], ?_⟩
  apply List.ext_getElem?
  intro m
  match m with
  | 0 => simp [List.getElem?_take]; omega
  | m + 1 =>
    simp only [List.getElem?_drop, List.getElem?_take]
    rw [if_neg (by omega)]; simp

/-- invariant of the inner loop: on exit the first `n'/2` slots hold what was there before position `i/2`
    followed by the paired-up remainder `[i, n)` of the level. -/
theorem innerLoop_take (H : Bytes → Bytes) (hs : List Bytes) (n i : Nat) :
    ∀ k, i = 2 * k → i ≤ n → n ≤ hs.length →
      (innerLoop H hs n i).1.take ((innerLoop H hs n i).2 / 2) = hs.take k ++ pairUp H ((hs.take n).drop i) := by
  induction hs, n, i using innerLoop.induct H with
  | case1 hs n i h1 h2 ih =>
    intro k hk hin hn
    have hkl : k < hs.length := by omega
    obtain ⟨a, b, ha, hb, hd⟩ := drop_take_two hs n i h2 hn
    rw [innerLoop, if_pos h1, if_pos h2]
    have hik : i / 2 = k := by omega
    rw [ih (k + 1) (by omega) (by omega) (by simpa using hn)]
    rw [hik, take_succ_set _ _ _ hkl, drop_take_set _ _ _ _ _ (by omega), hd, ha, hb]
    simp [pairUp]
  | case2 hs n i h1 h2 _ =>
    intro k hk hin hn
    have hkl : k < hs.length := by omega
    obtain ⟨a, ha, hd⟩ := drop_take_one hs n i (by omega) hn
    rw [innerLoop, if_pos h1, if_neg h2]
    rw [innerLoop, if_neg (by omega)]
    have hik : i / 2 = k := by omega
    have hn2 : (n + 1) / 2 = k + 1 := by omega
    simp only [hn2, hik]
    rw [take_succ_set _ _ _ hkl, hd, ha]
    simp [pairUp]
  | case3 hs n i h1 =>
    intro k hk hin hn
    rw [innerLoop, if_neg h1]
    have : n = i := by omega
    subst this
    have : (2 * k) / 2 = k := by omega
    simp [hk, this, pairUp]

/-- one whole pass of the inner loop turns the first `n` slots into the next level. -/
theorem innerLoop_level (H : Bytes → Bytes) (hs : List Bytes) (n : Nat) (hn : n ≤ hs.length) :
    (innerLoop H hs n 0).1.take ((innerLoop H hs n 0).2 / 2) = pairUp H (hs.take n) := by
  simpa using innerLoop_take H hs n 0 0 rfl (Nat.zero_le _) hn

/-! ### the outer loop -/

theorem outerLoop_head (H : Bytes → Bytes) (hs : List Bytes) (n : Nat) :
    1 ≤ n → n ≤ hs.length → (outerLoop H hs n)[0]?.getD [] = root H (hs.take n) := by
  induction hs, n using outerLoop.induct H with
  | case1 hs n h ih =>
    intro _ hn
    rw [outerLoop, dif_pos h]
    have hsnd := innerLoop_snd H hs n 0 (Nat.zero_le _)
    rw [ih (by rw [hsnd]; omega) (by rw [innerLoop_length, hsnd]; omega)]
    rw [innerLoop_level H hs n hn]
    rw [root_of_two_le H (hs.take n) (by simp; omega)]
  | case2 hs n h =>
    intro h1 hn
    rw [outerLoop, dif_neg h]
    have : n = 1 := by omega
    subst this
    match hs, hn with
    | a :: rest, _ => simp [root_singleton]

theorem foldl_update (leaves acc : List Bytes) : leaves.foldl update acc = acc ++ leaves := by
  induction leaves generalizing acc with
  | nil => simp
  | cons a l ih => simp [List.foldl, update, ih]

/-! ### audit paths -/

theorem pairUp_get (H : Bytes → Bytes) (l : List Bytes) :
    ∀ i (h : i < l.length), (pairUp H l)[i / 2]? = some (nextHash H l[i] (sibling l i)) := by
  induction l using pairUp.induct with
  | case1 => intro i h; simp at h
  | case2 a =>
    intro i h
    have : i = 0 := by simpa using h
    subst this
    simp [pairUp, sibling, nextHash]
  | case3 a b rest ih =>
    intro i h
    match i, h with
    | 0, _ => simp [pairUp, sibling, nextHash]
    | 1, _ => simp [pairUp, sibling, nextHash]
    | j + 2, h =>
      have hj : j < rest.length := by simpa using h
      have h2 : (j + 2) / 2 = j / 2 + 1 := by omega
      rw [h2]
      simp only [pairUp, List.getElem?_cons_succ, ih j hj, List.getElem_cons_succ]
      congr 2
      unfold sibling
      have hm : (j + 2) % 2 = j % 2 := by omega
      rw [hm]
      split
      · have : j + 2 - 1 = (j - 1) + 2 := by omega
        rw [this]; simp
      · simp

theorem auditPath_fold (H : Bytes → Bytes) (l : List Bytes) :
    ∀ i (h : i < l.length), (auditPath H l i).foldl (nextHash H) l[i] = root H l := by
  induction l using root.induct H with
  | case1 => intro i h; simp at h
  | case2 a =>
    intro i h
    have : i = 0 := by simpa using h
    subst this
    rw [auditPath, root_singleton]; simp
  | case3 a b rest ih =>
    intro i h
    rw [auditPath, root_cons_cons, List.foldl_cons]
    have hp := pairUp_get H (a :: b :: rest) i h
    have hlt : i / 2 < (pairUp H (a :: b :: rest)).length := by
      rw [pairUp_length]; omega
    have := ih (i / 2) hlt
    rw [← this]
    congr 1
    rw [List.getElem?_eq_getElem hlt] at hp
    exact (Option.some.inj hp).symm

theorem auditPath_flags (H : Bytes → Bytes) (l : List Bytes) :
    ∀ i, (auditPath H l i).map Part.isLeft = pathShape l.length i := by
  induction l using root.induct H with
  | case1 => intro i; rw [auditPath, pathShape]; simp
  | case2 a => intro i; rw [auditPath, pathShape]; simp
  | case3 a b rest ih =>
    intro i
    rw [auditPath, pathShape]
    have : ¬ (a :: b :: rest).length ≤ 1 := by simp
    rw [dif_neg this, List.map_cons, ih (i / 2), pairUp_length]
    congr 1
    unfold sibling
    split <;> simp [*]

/-! ### soundness as a collision reduction -/

theorem append_inj_of_length {a b c d : Bytes} (h : a ++ b = c ++ d) (hl : a.length = c.length) : a = c ∧ b = d :=
  List.append_inj h hl

/-- core of the reduction: two equal-shape folds ending in the same hash started equal, or a collision is in hand. -/
theorem fold_eq_or_collision (H : Bytes → Bytes) (n : Nat) (hlen : ∀ x, (H x).length = n) :
    ∀ (p1 p2 : List Part) (l1 l2 : Bytes),
      p1.map Part.isLeft = p2.map Part.isLeft →
      l1.length = n → l2.length = n →
      (∀ e ∈ p1, e.hash.length = n) → (∀ e ∈ p2, e.hash.length = n) →
      p1.foldl (nextHash H) l1 = p2.foldl (nextHash H) l2 →
      (l1 = l2 ∧ p1 = p2) ∨ ∃ x y, x ≠ y ∧ H x = H y := by
  intro p1
  induction p1 with
  | nil =>
    intro p2 l1 l2 hf _ _ _ _ he
    cases p2 with
    | nil => exact Or.inl ⟨by simpa using he, rfl⟩
    | cons e r => simp at hf
  | cons e1 r1 ih =>
    intro p2 l1 l2 hf h1 h2 hp1 hp2 he
    cases p2 with
    | nil => simp at hf
    | cons e2 r2 =>
      simp only [List.map_cons, List.cons.injEq] at hf
      obtain ⟨hflag, hf⟩ := hf
      simp only [List.foldl_cons] at he
      have he1 : e1.hash.length = n := hp1 e1 (by simp)
      have he2 : e2.hash.length = n := hp2 e2 (by simp)
      have hw1 : (nextHash H l1 e1).length = n := by unfold nextHash; split <;> exact hlen _
      have hw2 : (nextHash H l2 e2).length = n := by unfold nextHash; split <;> exact hlen _
      rcases ih r2 _ _ hf hw1 hw2 (fun e he => hp1 e (by simp [he])) (fun e he => hp2 e (by simp [he])) he with
        ⟨hw, hr⟩ | hc
      · unfold nextHash at hw
        rw [← hflag] at hw
        cases hl : e1.isLeft with
        | true =>
          simp only [hl, if_true] at hw
          by_cases hx : e1.hash ++ l1 = e2.hash ++ l2
          · obtain ⟨ha, hb⟩ := List.append_inj hx (by omega)
            left
            refine ⟨hb, ?_⟩
            rw [hr]
            congr 1
            cases e1; cases e2; simp_all
          · exact Or.inr ⟨_, _, hx, hw⟩
        | false =>
          simp only [hl, Bool.false_eq_true, if_false] at hw
          by_cases hx : l1 ++ e1.hash = l2 ++ e2.hash
          · obtain ⟨ha, hb⟩ := List.append_inj hx (by omega)
            left
            refine ⟨ha, ?_⟩
            rw [hr]
            congr 1
            cases e1; cases e2; simp_all
          · exact Or.inr ⟨_, _, hx, hw⟩
      · exact Or.inr hc

end SymbolVerif.Sdk.Merkle

/-
Helper lemmas for C20: every stage of `SortableInclude.__lt__` / `compare_paths` is comparison by a
key, the cascade is the lexicographic product of the stages (`compareLex`), hence a transitive,
oriented comparator (`Std.TransCmp`, core Lean), and its last stage separates distinct strings.
-/
import SymbolVerif.Model.Lint.IncludeOrder
namespace SymbolVerif.Lint
open Std

/-- how a three-way stage result is returned by the Python helpers (`True` / `False` / `None`) -/
def optOfOrd : Ordering → Option Bool
  | .lt => some true
  | .gt => some false
  | .eq => none

theorem chain (o o2 : Ordering) (rest : Bool) (h : rest = (o2 == .lt)) :
    orElseB (optOfOrd o) rest = (o.then o2 == .lt) := by
  cases o <;> simp [optOfOrd, orElseB, h]

theorem checkMark_eq (ma mb : Bool) : checkMark ma mb = optOfOrd (compare (!ma) (!mb)) := by
  cases ma <;> cases mb <;> decide

/-! ### keys of the stages -/

def keyHead (a : Str) : Option Char := a.head?
def keyC (T : Tables) (a : Str) : Bool := (a.head? == some '<') && isCHeader T a
def keyExt (T : Tables) (a : Str) : Bool := !isExternal T a
def keyCpp (T : Tables) (a : Str) : Bool := !isCpp T a
def keyLocal (T : Tables) (a : Str) : Int := if a.head? = some '"' then localValue T (splitSlash a) else 0
def depthClass (n : Nat) : Nat := if n = 1 then 0 else if n = 2 then 2 else 1
def keyDepth (a : Str) : Nat := if a.head? = some '"' then depthClass (splitSlash a).length else 0
def keyPath (a : Str) : List Str := splitSlash a

/-- the comparator as the lexicographic product of the seven key comparisons -/
def cmpInc (T : Tables) : Str → Str → Ordering :=
  compareLex (compareOn keyHead) <|
  compareLex (compareOn (keyC T)) <|
  compareLex (compareOn (keyExt T)) <|
  compareLex (compareOn (keyCpp T)) <|
  compareLex (compareOn (keyLocal T)) <|
  compareLex (compareOn keyDepth) (compareOn keyPath)

instance (T : Tables) : TransCmp (cmpInc T) := by unfold cmpInc; infer_instance

/-! ### splitSlash -/

theorem splitSlash_ne_nil (s : Str) : splitSlash s ≠ [] := by
  cases s with
  | nil => simp [splitSlash]
  | cons c cs =>
    simp only [splitSlash]
    split
    · simp
    · split <;> simp

theorem splitSlash_length_pos (s : Str) : 0 < (splitSlash s).length :=
  List.length_pos_iff.mpr (splitSlash_ne_nil s)

/-- `'/'.join(parts)` -/
def joinSlash : List Str → Str
  | [] => []
  | [p] => p
  | p :: q :: ps => p ++ '/' :: joinSlash (q :: ps)

theorem joinSlash_splitSlash (s : Str) : joinSlash (splitSlash s) = s := by
  induction s with
  | nil => rfl
  | cons c cs ih =>
    simp only [splitSlash]
    split
    · next h => exact absurd h (splitSlash_ne_nil cs)
    · next p ps h =>
      rw [h] at ih
      split
      · next hc => subst hc; simp [joinSlash, ih]
      · cases ps with
        | nil => simp [joinSlash] at ih ⊢; exact ih
        | cons q qs => simp [joinSlash] at ih ⊢; exact ih

theorem splitSlash_injective {a b : Str} (h : splitSlash a = splitSlash b) : a = b := by
  rw [← joinSlash_splitSlash a, ← joinSlash_splitSlash b, h]

/-! ### the stages are key comparisons -/

theorem checkLocal_eq (T : Tables) (pa pb : List Str) :
    checkLocal T pa pb = optOfOrd (compare (localValue T pa) (localValue T pb)) := by
  simp only [checkLocal]
  split
  · next h => simp [h, optOfOrd]
  · next h =>
    by_cases hl : localValue T pa < localValue T pb
    · rw [Int.compare_eq_lt.mpr hl]; simp [hl, optOfOrd]
    · have hg : localValue T pb < localValue T pa := by omega
      rw [Int.compare_eq_gt.mpr hg]; simp [hl, optOfOrd]

theorem depthClass_cases (m : Nat) (h : 0 < m) :
    (m = 1 ∧ depthClass m = 0) ∨ (m = 2 ∧ depthClass m = 2) ∨ (2 < m ∧ depthClass m = 1) := by
  unfold depthClass
  by_cases h1 : m = 1
  · simp [h1]
  · by_cases h2 : m = 2
    · simp [h2]
    · right; right; simp [h1, h2]; omega

theorem checkDepth_eq (pa pb : List Str) (ha : 0 < pa.length) (hb : 0 < pb.length) :
    checkDepth pa pb = optOfOrd (compare (depthClass pa.length) (depthClass pb.length)) := by
  simp only [checkDepth]
  generalize pa.length = m at *
  generalize pb.length = n at *
  rcases depthClass_cases m ha with ⟨hm, cm⟩ | ⟨hm, cm⟩ | ⟨hm, cm⟩ <;>
  rcases depthClass_cases n hb with ⟨hn, cn⟩ | ⟨hn, cn⟩ | ⟨hn, cn⟩ <;>
  rw [cm, cn] <;> (try subst hm) <;> (try subst hn)
  · decide
  · decide
  · have : 1 < n := by omega
    simp [this]; decide
  · decide
  · decide
  · have h1 : ¬ n = 1 := by omega
    simp [h1, hn]; decide
  · have h1 : ¬ m = 1 := by omega
    have h2 : 1 < m := by omega
    have h3 : ¬ m = 2 := by omega
    simp [h1, h2]; decide
  · have h1 : ¬ m = 1 := by omega
    have h3 : ¬ m = 2 := by omega
    simp [h1, h3, hm]; decide
  · have h1 : ¬ m = 1 := by omega
    have h3 : ¬ m = 2 := by omega
    have h4 : ¬ n = 1 := by omega
    have h5 : ¬ n = 2 := by omega
    simp [h1, h3, h4, h5]; decide

/-! ### the cascade is the lexicographic product -/

theorem comparePaths_eq (T : Tables) (a b : Str) (hh : a.head? = b.head?) :
    comparePaths T a b =
      ((compareLex (compareOn (keyExt T)) <| compareLex (compareOn (keyCpp T)) <|
        compareLex (compareOn (keyLocal T)) <| compareLex (compareOn keyDepth) (compareOn keyPath)) a b
        == .lt) := by
  unfold comparePaths
  simp only [checkExternal, checkCpp, checkMark_eq, compareLex, compareOn]
  apply chain; apply chain
  by_cases hq : a.head? = some '"'
  · have hqb : b.head? = some '"' := hh ▸ hq
    simp only [hq, if_true, checkLocal_eq,
      checkDepth_eq _ _ (splitSlash_length_pos a) (splitSlash_length_pos b)]
    simp only [keyLocal, keyDepth, hq, hqb, if_true]
    apply chain; apply chain; rfl
  · have hqb : ¬ b.head? = some '"' := hh ▸ hq
    simp [hq, hqb, keyLocal, keyDepth, ltPath, keyPath]

theorem lt_eq_cmp (T : Tables) (a b : Str) : lt T a b = (cmpInc T a b == .lt) := by
  unfold lt cmpInc
  simp only [compareLex, compareOn, keyHead]
  cases hc : compare a.head? b.head? with
  | lt => simp
  | gt => simp
  | eq =>
    have hh : a.head? = b.head? := LawfulEqOrd.eq_of_compare hc
    have hp := comparePaths_eq T a b hh
    simp only [compareLex, compareOn] at hp
    simp only [Ordering.eq_then] -- head stage is `eq`
    by_cases hl : a.head? = some '<'
    · have hlb : b.head? = some '<' := hh ▸ hl
      simp only [hl, if_true, keyC, hlb, beq_self_eq_true, Bool.true_and]
      have c1 : compare false true = Ordering.lt := rfl
      have c2 : compare true false = Ordering.gt := rfl
      cases ha : isCHeader T a <;> cases hb : isCHeader T b <;> simp [hp, c1, c2]
    · have hlb : ¬ b.head? = some '<' := hh ▸ hl
      have e1 : (a.head? == some '<') = false := by simpa using hl
      have e2 : (b.head? == some '<') = false := by simpa using hlb
      simp [hl, keyC, hp, e1, e2]

theorem cmpInc_eq_iff (T : Tables) (a b : Str) : cmpInc T a b = .eq ↔ a = b := by
  constructor
  · intro h
    simp only [cmpInc, compareLex_eq_eq] at h
    have hp : compare (splitSlash a) (splitSlash b) = .eq := h.2.2.2.2.2.2
    exact splitSlash_injective (LawfulEqOrd.eq_of_compare hp)
  · rintro rfl
    exact ReflCmp.compare_self

/-! ### consequences for `lt` -/

theorem lt_true_iff (T : Tables) (a b : Str) : lt T a b = true ↔ cmpInc T a b = .lt := by
  rw [lt_eq_cmp]; simp

theorem lt_false_iff (T : Tables) (a b : Str) : lt T a b = false ↔ cmpInc T a b ≠ .lt := by
  rw [lt_eq_cmp]; simp

theorem incomp_iff_cmp_eq (T : Tables) (a b : Str) :
    (lt T a b = false ∧ lt T b a = false) ↔ cmpInc T a b = .eq := by
  rw [lt_false_iff, lt_false_iff]
  constructor
  · rintro ⟨h1, h2⟩
    cases h : cmpInc T a b with
    | lt => exact absurd h h1
    | eq => rfl
    | gt => exact absurd (OrientedCmp.lt_of_gt h) h2
  · intro h
    refine ⟨by simp [h], ?_⟩
    rw [OrientedCmp.eq_symm h]; simp

/-! ### fix_relative -/

theorem removeAllGo_of_missing (p : Str) (c0 : Char) (hp : c0 ∈ p) :
    ∀ s : Str, c0 ∉ s → removeAllGo p 0 s = s
  | [], _ => rfl
  | c :: cs, hs => by
    have hnp : ¬ (p ≠ [] ∧ p.isPrefixOf (c :: cs) = true) := by
      rintro ⟨_, h⟩
      exact hs ((List.isPrefixOf_iff_prefix.mp h).subset hp)
    have hcs : c0 ∉ cs := fun h => hs (List.mem_cons_of_mem _ h)
    simp only [removeAllGo, hnp, if_false, removeAllGo_of_missing p c0 hp cs hcs]

theorem fixRelative_of_slash (own x : Str) (hc : (removeAll own x).contains '/' = true) :
    fixRelative own x = x := by
  show (if (removeAll own x).contains '/' = true then x else removeAll own x) = x
  rw [if_pos hc]

theorem fixRelative_of_no_slash (own x : Str) (hc : ¬ (removeAll own x).contains '/' = true) :
    fixRelative own x = removeAll own x := by
  show (if (removeAll own x).contains '/' = true then x else removeAll own x) = _
  rw [if_neg hc]

theorem fixRelative_idem (own : Str) (h : '/' ∈ own) (x : Str) :
    fixRelative own (fixRelative own x) = fixRelative own x := by
  by_cases hc : (removeAll own x).contains '/' = true
  · rw [fixRelative_of_slash own x hc, fixRelative_of_slash own x hc]
  · have hm : '/' ∉ removeAll own x := by simpa using hc
    have hr : removeAll own (removeAll own x) = removeAll own x :=
      removeAllGo_of_missing own '/' h _ hm
    rw [fixRelative_of_no_slash own x hc]
    have hc2 : ¬ (removeAll own (removeAll own x)).contains '/' = true := by rw [hr]; exact hc
    rw [fixRelative_of_no_slash own _ hc2, hr]

end SymbolVerif.Lint

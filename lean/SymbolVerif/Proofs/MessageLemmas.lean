/- Helper lemmas for C14 about `Model/Sdk/Message.lean`: hex and PKCS7 round trips, tag/iv/ciphertext slicing (core Lean only). -/
import SymbolVerif.Model.Sdk.Message
import SymbolVerif.Proofs.BytesLemmas
namespace SymbolVerif.Sdk.Message
open SymbolVerif SymbolVerif.Bytes

/-! hex -/

theorem hexValue_hexDigitLower (n : Nat) (h : n < 16) : hexValue (hexDigitLower n) = some n := by
  have : n = 0 ∨ n = 1 ∨ n = 2 ∨ n = 3 ∨ n = 4 ∨ n = 5 ∨ n = 6 ∨ n = 7 ∨ n = 8 ∨ n = 9 ∨ n = 10 ∨ n = 11 ∨ n = 12 ∨
      n = 13 ∨ n = 14 ∨ n = 15 := by omega
  rcases this with h | h | h | h | h | h | h | h | h | h | h | h | h | h | h | h <;> subst h <;> decide

theorem hexDigitLower_ascii (n : Nat) (h : n < 16) : (hexDigitLower n).toNat < 128 := by
  have : n = 0 ∨ n = 1 ∨ n = 2 ∨ n = 3 ∨ n = 4 ∨ n = 5 ∨ n = 6 ∨ n = 7 ∨ n = 8 ∨ n = 9 ∨ n = 10 ∨ n = 11 ∨ n = 12 ∨
      n = 13 ∨ n = 14 ∨ n = 15 := by omega
  rcases this with h | h | h | h | h | h | h | h | h | h | h | h | h | h | h | h <;> subst h <;> decide

theorem byte_of_nibbles (b : UInt8) : UInt8.ofNat (16 * (b.toNat / 16) + b.toNat % 16) = b := by
  have : 16 * (b.toNat / 16) + b.toNat % 16 = b.toNat := by omega
  rw [this]
  exact UInt8.ofNat_toNat

/-- `unhexlify(hexlify(data)) == data` -/
theorem unhexlify_hexlify (bs : Bytes) : unhexlify (hexlify bs) = some bs := by
  induction bs with
  | nil => rfl
  | cons b bs ih =>
    have hb := b.toNat_lt
    have h1 := hexValue_hexDigitLower (b.toNat / 16) (by omega)
    have h2 := hexValue_hexDigitLower (b.toNat % 16) (by omega)
    have ih' : unhexlify (List.flatMap (fun b => [hexDigitLower (b.toNat / 16), hexDigitLower (b.toNat % 16)]) bs) = some bs := ih
    simp only [hexlify, List.flatMap_cons, List.cons_append, List.nil_append, unhexlify, h1, h2, ih', byte_of_nibbles]

theorem hexlify_ascii (bs : Bytes) : (hexlify bs).all (·.toNat < 128) = true := by
  induction bs with
  | nil => rfl
  | cons b bs ih =>
    have hb := b.toNat_lt
    have h1 := hexDigitLower_ascii (b.toNat / 16) (by omega)
    have h2 := hexDigitLower_ascii (b.toNat % 16) (by omega)
    have ih' : (List.flatMap (fun b => [hexDigitLower (b.toNat / 16), hexDigitLower (b.toNat % 16)]) bs).all (·.toNat < 128) = true := ih
    simp only [hexlify, List.flatMap_cons, List.cons_append, List.nil_append, List.all_cons, ih', Bool.and_true,
      Bool.and_eq_true, decide_eq_true_eq]
    exact ⟨h1, h2⟩

theorem unhexlifyUtf8_hexlify (bs : Bytes) : unhexlifyUtf8 (hexlify bs) = .ok bs := by
  simp [unhexlifyUtf8, hexlify_ascii, unhexlify_hexlify]

/-! PKCS7 -/

theorem pkcs7Pad_length (clear : Bytes) : (pkcs7Pad clear).length % 16 = 0 ∧ clear.length < (pkcs7Pad clear).length := by
  simp only [pkcs7Pad, List.length_append, List.length_replicate]
  omega

/-- `unpad(pad(data)) == data` -/
theorem pkcs7Unpad_pad (clear : Bytes) : pkcs7Unpad (pkcs7Pad clear) = some clear := by
  have hn : 1 ≤ 16 - clear.length % 16 ∧ 16 - clear.length % 16 ≤ 16 := by omega
  obtain ⟨n, hn'⟩ : ∃ n, 16 - clear.length % 16 = n + 1 := ⟨16 - clear.length % 16 - 1, by omega⟩
  have hlast : (pkcs7Pad clear).getLast? = some (UInt8.ofNat (n + 1)) := by
    simp [pkcs7Pad, hn', List.replicate_succ', List.getLast?_append]
  have hnat : (UInt8.ofNat (n + 1)).toNat = n + 1 := by
    simp only [UInt8.toNat_ofNat']
    omega
  have hlen : (pkcs7Pad clear).length = clear.length + (n + 1) := by simp [pkcs7Pad, hn']
  have hmod := (pkcs7Pad_length clear).1
  unfold pkcs7Unpad
  rw [hlast]
  simp only [hnat]
  have hcond : ¬ (n + 1 = 0 ∨ 16 < n + 1 ∨ (pkcs7Pad clear).length < n + 1 ∨ (pkcs7Pad clear).length % 16 ≠ 0) := by omega
  rw [if_neg hcond]
  have hsub : (pkcs7Pad clear).length - (n + 1) = clear.length := by omega
  rw [hsub]
  have hdrop : (pkcs7Pad clear).drop clear.length = List.replicate (n + 1) (UInt8.ofNat (n + 1)) := by
    simp [pkcs7Pad, hn']
  have htake : (pkcs7Pad clear).take clear.length = clear := by
    simp [pkcs7Pad]
  rw [hdrop, htake]
  simp

/-! tag | iv | ciphertext slicing -/

theorem split_tag {ct tag : Bytes} (h : tag.length = 16) :
    (ct ++ tag).drop ((ct ++ tag).length - tagSize) = tag ∧ (ct ++ tag).take ((ct ++ tag).length - tagSize) = ct := by
  have : (ct ++ tag).length - tagSize = ct.length := by simp [tagSize, h]
  rw [this]
  exact ⟨List.drop_left, List.take_left⟩

theorem slice_frame {tag iv ct : Bytes} (ht : tag.length = 16) (hi : iv.length = 12) :
    (tag ++ iv ++ ct).take tagSize = tag ∧ ((tag ++ iv ++ ct).drop tagSize).take gcmIvSize = iv ∧
    (tag ++ iv ++ ct).drop (tagSize + gcmIvSize) = ct := by
  refine ⟨?_, ?_, ?_⟩
  · rw [List.append_assoc, tagSize, ← ht]; exact List.take_left
  · rw [List.append_assoc, tagSize, ← ht, List.drop_left, gcmIvSize, ← hi]; exact List.take_left
  · have : tagSize + gcmIvSize = (tag ++ iv).length := by simp [tagSize, gcmIvSize, ht, hi]
    rw [this]; exact List.drop_left

theorem slice_cbc_frame {salt iv ct : Bytes} (hs : salt.length = 32) (hi : iv.length = 16) :
    (salt ++ iv ++ ct).take saltSize = salt ∧ ((salt ++ iv ++ ct).drop saltSize).take cbcIvSize = iv ∧
    (salt ++ iv ++ ct).drop (saltSize + cbcIvSize) = ct := by
  refine ⟨?_, ?_, ?_⟩
  · rw [List.append_assoc, saltSize, ← hs]; exact List.take_left
  · rw [List.append_assoc, saltSize, ← hs, List.drop_left, cbcIvSize, ← hi]; exact List.take_left
  · have : saltSize + cbcIvSize = (salt ++ iv).length := by simp [saltSize, cbcIvSize, hs, hi]
    rw [this]; exact List.drop_left

/-- `tag ‖ iv ‖ ciphertext` as `encode_aes_gcm` cuts it out of `AesGcmCipher.encrypt`'s output. -/
def gcmFrame (A : Aead) (key clear iv : Bytes) : Bytes :=
  let out := gcmEncrypt A key clear iv
  out.drop (out.length - tagSize) ++ iv ++ out.take (out.length - tagSize)

variable {G : Type}

theorem encodeSymbol_of_key (E : Env G) {sk pk key : Bytes} (iv clear : Bytes) (hk : E.sharedKey pk sk = .ok key) :
    encodeSymbol E sk pk iv clear = some (1 :: gcmFrame E.aead key clear iv) := by
  simp only [encodeSymbol, encodeAesGcm, hk, Option.map_some, gcmFrame]

theorem encodeNem_of_key (E : Env G) {sk pk key : Bytes} (iv clear : Bytes) (hk : E.sharedKey pk sk = .ok key) :
    encodeNem E sk pk iv clear = some (gcmFrame E.aead key clear iv) := by
  simp only [encodeNem, encodeAesGcm, hk, Option.map_some, gcmFrame]

theorem encodeDelegation_of_key (E : Env G) {ephemeralSk nodePk key : Bytes} (iv remoteSk vrfSk : Bytes)
    (hk : E.sharedKey nodePk ephemeralSk = .ok key) :
    encodeDelegation E ephemeralSk nodePk iv remoteSk vrfSk =
      some (delegationMarker ++ Ed25519.publicKey E.scheme ephemeralSk ++ gcmFrame E.aead key (remoteSk ++ vrfSk) iv) := by
  simp only [encodeDelegation, encodeAesGcm, hk, Option.map_some, gcmFrame, List.append_assoc]

/-- the delegation branch of `try_decode`, for a message that starts with the marker and holds a whole ephemeral key. -/
theorem tryDecodeSymbol_delegation (E : Env G) (sk pk msg : Bytes) (h0 : msg.take 8 = delegationMarker)
    (hl : ((msg.drop 8).take 32).length = 32) :
    tryDecodeSymbol E sk pk msg =
      match decodeAesGcm E sk ((msg.drop 8).take 32) (msg.drop 40) with
      | .decoded clear => some (true, clear)
      | .invalidTag => some (false, msg)
      | .keyError .notInMainSubgroup => some (false, msg)
      | .keyError _ => none
      | .refused => none := by
  cases msg with
  | nil => simp [delegationMarker] at h0
  | cons b rest =>
    have hb : b = 0xFE := by
      simp only [delegationMarker, List.take_succ_cons, List.cons.injEq] at h0
      exact h0.1
    subst hb
    rw [tryDecodeSymbol.eq_def]
    simp only
    rw [if_neg (by decide), if_pos ⟨trivial, h0⟩, if_neg (fun hne => hne hl)]
    cases decodeAesGcm E sk (List.take 32 (List.drop 8 (254 :: rest))) (List.drop 40 (254 :: rest)) with
    | keyError e => cases e <;> rfl
    | _ => rfl

end SymbolVerif.Sdk.Message

/- Helper lemmas for C17 (core Lean only). -/
import SymbolVerif.Model.Cats.MultiFileSpec
namespace SymbolVerif.Cats.MultiFile

/-! ### the measure -/

theorem unproc_le_length (fs : FS) (done : List Path) : unproc fs done ≤ fs.length :=
  List.countP_le_length

theorem unproc_mono (fs : FS) {done done' : List Path} (h : ∀ p ∈ done, p ∈ done') :
    unproc fs done' ≤ unproc fs done := by
  unfold unproc
  apply List.countP_mono_left
  intro e _ he
  simp only [Bool.not_eq_true', List.contains_eq_mem, decide_eq_false_iff_not] at he ⊢
  exact fun hc => he (h _ hc)

theorem unproc_lt (fs : FS) {done : List Path} {p : Path} {f : File}
    (hp : p ∉ done) (hl : fs.lookup p = some f) : unproc fs (done ++ [p]) < unproc fs done := by
  induction fs with
  | nil => simp [List.lookup] at hl
  | cons e rest ih =>
    obtain ⟨q, g⟩ := e
    have hmono : unproc rest (done ++ [p]) ≤ unproc rest done :=
      unproc_mono rest (fun x hx => List.mem_append_left _ hx)
    unfold unproc at *
    rw [List.countP_cons, List.countP_cons]
    by_cases hq : p = q
    · subst hq
      have h1 : (!(done ++ [p]).contains p) = false := by simp
      have h2 : (!done.contains p) = true := by simp [hp]
      simp only [h1, h2, if_true]
      simp only [Bool.false_eq_true, if_false]
      omega
    · have hl' : rest.lookup p = some f := by
        simp only [List.lookup] at hl
        have : (p == q) = false := by simp [hq]
        simpa [this] using hl
      have := ih hl'
      have hsame : (!(done ++ [p]).contains q) = (!done.contains q) := by
        have : q ≠ p := fun h => hq h.symm
        simp [this]
      simp only [hsame]
      omega

/-! ### basic facts about `Walk` -/

theorem Walk.done_subset {fs : FS} {done todo post d} (h : Walk fs done todo post d) :
    ∀ p ∈ done, p ∈ d := by
  induction h with
  | nil => exact fun _ h => h
  | seen _ _ ih => exact ih
  | file _ _ _ _ ih1 ih2 => exact fun q hq => ih2 q (ih1 q (List.mem_append_left _ hq))

theorem Walk.unproc_le {fs : FS} {done todo post d} (h : Walk fs done todo post d) :
    unproc fs d ≤ unproc fs done := unproc_mono fs h.done_subset

/-- everything asked for ends up processed. -/
theorem Walk.todo_subset {fs : FS} {done todo post d} (h : Walk fs done todo post d) :
    ∀ p ∈ todo, p ∈ d := by
  induction h with
  | nil => intro _ h; cases h
  | seen hm hw ih =>
    intro q hq
    rcases List.mem_cons.1 hq with rfl | hq
    · exact hw.done_subset _ hm
    · exact ih q hq
  | file _ _ h1 h2 _ ih2 =>
    intro q hq
    rcases List.mem_cons.1 hq with rfl | hq
    · exact h2.done_subset _ (h1.done_subset _ (by simp))
    · exact ih2 q hq

/-- the processed list afterwards is the one before plus exactly the contributing files. -/
theorem Walk.mem_done_iff {fs : FS} {done todo post d} (h : Walk fs done todo post d) :
    ∀ p, p ∈ d ↔ p ∈ done ∨ p ∈ post := by
  induction h with
  | nil => simp
  | seen _ _ ih => exact ih
  | file _ _ _ _ ih1 ih2 =>
    intro q
    rw [ih2 q, ih1 q]
    simp only [List.mem_append, List.mem_cons]
    grind

theorem Walk.post_not_done {fs : FS} {done todo post d} (h : Walk fs done todo post d) :
    ∀ p ∈ post, p ∉ done := by
  induction h with
  | nil => intro _ h; cases h
  | seen _ _ ih => exact ih
  | file hp _ h1 _ ih1 ih2 =>
    intro q hq
    rcases List.mem_append.1 hq with hq | hq
    · exact fun hd => ih1 q hq (List.mem_append_left _ hd)
    · rcases List.mem_cons.1 hq with rfl | hq
      · exact hp
      · exact fun hd => ih2 q hq (h1.done_subset _ (List.mem_append_left _ hd))

theorem Walk.post_nodup {fs : FS} {done todo post d} (h : Walk fs done todo post d) : post.Nodup := by
  induction h with
  | nil => exact List.nodup_nil
  | seen _ _ ih => exact ih
  | @file done p ps imps decls o1 d1 o2 d2 hp _ h1 h2 ih1 ih2 =>
    rw [List.nodup_append]
    refine ⟨ih1, ?_, ?_⟩
    · rw [List.nodup_cons]
      refine ⟨fun hm => ?_, ih2⟩
      exact h2.post_not_done _ hm (h1.done_subset _ (by simp))
    · intro a ha b hb hab
      subst hab
      rcases List.mem_cons.1 hb with rfl | hb
      · exact h1.post_not_done _ ha (by simp)
      · exact h2.post_not_done _ hb ((h1.mem_done_iff a).2 (Or.inr ha))

theorem Walk.done_nodup {fs : FS} {done todo post d} (h : Walk fs done todo post d) (hd : done.Nodup) :
    d.Nodup := by
  induction h with
  | nil => exact hd
  | seen _ _ ih => exact ih hd
  | file hp _ _ _ ih1 ih2 =>
    apply ih2
    apply ih1
    rw [List.nodup_append]
    refine ⟨hd, by simp, ?_⟩
    intro a ha b hb hab
    subst hab
    simp only [List.mem_singleton] at hb
    subst hb
    exact hp ha

/-- every contributing file was parsed. -/
theorem Walk.post_parsed {fs : FS} {done todo post d} (h : Walk fs done todo post d) :
    ∀ p ∈ post, ∃ imps decls, fs.lookup p = some (.parsed imps decls) := by
  induction h with
  | nil => intro _ h; cases h
  | seen _ _ ih => exact ih
  | file _ hl _ _ ih1 ih2 =>
    intro q hq
    rcases List.mem_append.1 hq with hq | hq
    · exact ih1 q hq
    · rcases List.mem_cons.1 hq with rfl | hq
      · exact ⟨_, _, hl⟩
      · exact ih2 q hq

/-! ### reachability -/

theorem Reach.trans {fs : FS} {a b c : Path} (h1 : Reach fs a b) (h2 : Reach fs b c) : Reach fs a c := by
  induction h1 with
  | refl => exact h2
  | step hl hi _ ih => exact Reach.step hl hi (ih h2)

/-- every contributing file is reachable from one of the paths asked for. -/
theorem Walk.post_reach {fs : FS} {done todo post d} (h : Walk fs done todo post d) :
    ∀ p ∈ post, ∃ t ∈ todo, Reach fs t p := by
  induction h with
  | nil => intro _ h; cases h
  | seen _ _ ih =>
    intro q hq
    obtain ⟨t, ht, hr⟩ := ih q hq
    exact ⟨t, List.mem_cons_of_mem _ ht, hr⟩
  | file _ hl _ _ ih1 ih2 =>
    intro q hq
    rcases List.mem_append.1 hq with hq | hq
    · obtain ⟨t, ht, hr⟩ := ih1 q hq
      exact ⟨_, List.mem_cons_self, Reach.step hl ht hr⟩
    · rcases List.mem_cons.1 hq with rfl | hq
      · exact ⟨_, List.mem_cons_self, Reach.refl⟩
      · obtain ⟨t, ht, hr⟩ := ih2 q hq
        exact ⟨t, List.mem_cons_of_mem _ ht, hr⟩

/-- the newly processed files are closed under imports. -/
theorem Walk.closed {fs : FS} {done todo post d} (h : Walk fs done todo post d) :
    ∀ p ∈ post, ∀ i ∈ importsOf fs p, i ∈ d := by
  induction h with
  | nil => intro _ h; cases h
  | seen _ _ ih => exact ih
  | file _ hl h1 h2 ih1 ih2 =>
    intro q hq i hi
    rcases List.mem_append.1 hq with hq | hq
    · exact h2.done_subset _ (ih1 q hq i hi)
    · rcases List.mem_cons.1 hq with rfl | hq
      · simp only [importsOf, hl] at hi
        exact h2.done_subset _ (h1.todo_subset i hi)
      · exact ih2 q hq i hi

theorem importsOf_of_lookup {fs : FS} {p : Path} {imps decls} (h : fs.lookup p = some (.parsed imps decls)) :
    importsOf fs p = imps := by simp [importsOf, h]

theorem declsOf_of_lookup {fs : FS} {p : Path} {imps decls} (h : fs.lookup p = some (.parsed imps decls)) :
    declsOf fs p = decls := by simp [declsOf, h]

/-- from an empty processed list: everything reachable from a processed file is processed. -/
theorem Walk.reach_closed {fs : FS} {todo post d} (h : Walk fs [] todo post d) {a b : Path}
    (ha : a ∈ d) (hr : Reach fs a b) : b ∈ d := by
  induction hr with
  | refl => exact ha
  | @step a i b imps decls hl hi _ ih =>
    apply ih
    have hpost : a ∈ post := by
      rcases (h.mem_done_iff _).1 ha with h0 | h0
      · cases h0
      · exact h0
    exact h.closed _ hpost _ (by rw [importsOf_of_lookup hl]; exact hi)

/-! ### order -/

theorem Before.append_left {a b : Path} {l : List Path} (h : Before a b l) (pre : List Path) :
    Before a b (pre ++ l) := by
  obtain ⟨l1, l2, l3, rfl⟩ := h
  exact ⟨pre ++ l1, l2, l3, by simp⟩

theorem Before.append_right {a b : Path} {l : List Path} (h : Before a b l) (suf : List Path) :
    Before a b (l ++ suf) := by
  obtain ⟨l1, l2, l3, rfl⟩ := h
  exact ⟨l1, l2, l3 ++ suf, by simp⟩

theorem Before.of_mem {a b : Path} {l r : List Path} (ha : a ∈ l) (hb : b ∈ r) : Before a b (l ++ r) := by
  obtain ⟨l1, l2, rfl⟩ := List.append_of_mem ha
  obtain ⟨r1, r2, rfl⟩ := List.append_of_mem hb
  exact ⟨l1, l2 ++ r1, r2, by simp⟩

/-- classification of import edges by the traversal: for a contributing file `q` and an import `i` of it,
    `i` was processed before the walk began, or is `q` itself, or contributes before `q`, or contributes
    after `q` and `q` is reached from `i` (the edge closes a cycle). -/
theorem Walk.edge_class {fs : FS} {done todo post d} (h : Walk fs done todo post d) :
    ∀ q ∈ post, ∀ i ∈ importsOf fs q,
      i ∈ done ∨ i = q ∨ Before i q post ∨ (Before q i post ∧ Reach fs i q) := by
  induction h with
  | nil => intro _ h; cases h
  | seen _ _ ih => exact ih
  | @file done p ps imps decls o1 d1 o2 d2 hp hl h1 h2 ih1 ih2 =>
    intro q hq i hi
    rcases List.mem_append.1 hq with hq1 | hq1
    · rcases ih1 q hq1 i hi with hd | he | hb | ⟨hb, hr⟩
      · rcases List.mem_append.1 hd with hd | hd
        · exact Or.inl hd
        · simp only [List.mem_singleton] at hd
          subst hd
          refine Or.inr (Or.inr (Or.inr ⟨Before.of_mem hq1 List.mem_cons_self, ?_⟩))
          obtain ⟨t, ht, hr⟩ := h1.post_reach q hq1
          exact Reach.step hl ht hr
      · exact Or.inr (Or.inl he)
      · exact Or.inr (Or.inr (Or.inl (hb.append_right _)))
      · exact Or.inr (Or.inr (Or.inr ⟨hb.append_right _, hr⟩))
    · rcases List.mem_cons.1 hq1 with rfl | hq2
      · rw [importsOf_of_lookup hl] at hi
        rcases (h1.mem_done_iff i).1 (h1.todo_subset i hi) with hd | ho
        · rcases List.mem_append.1 hd with hd | hd
          · exact Or.inl hd
          · simp only [List.mem_singleton] at hd
            exact Or.inr (Or.inl hd)
        · exact Or.inr (Or.inr (Or.inl (Before.of_mem ho List.mem_cons_self)))
      · rcases ih2 q hq2 i hi with hd | he | hb | ⟨hb, hr⟩
        · rcases (h1.mem_done_iff i).1 hd with hd | ho
          · rcases List.mem_append.1 hd with hd | hd
            · exact Or.inl hd
            · simp only [List.mem_singleton] at hd
              subst hd
              refine Or.inr (Or.inr (Or.inl ?_))
              have : Before i q ((o1 ++ [i]) ++ o2) := Before.of_mem (by simp) hq2
              simpa using this
          · exact Or.inr (Or.inr (Or.inl (Before.of_mem ho (List.mem_cons_of_mem _ hq2))))
        · exact Or.inr (Or.inl he)
        · refine Or.inr (Or.inr (Or.inl ?_))
          have := (hb.append_left [p]).append_left o1
          simpa using this
        · refine Or.inr (Or.inr (Or.inr ⟨?_, hr⟩))
          have := (hb.append_left [p]).append_left o1
          simpa using this

/-! ### determinism -/

theorem Walk.det {fs : FS} {done todo post d post' d'} (h : Walk fs done todo post d)
    (h' : Walk fs done todo post' d') : post = post' ∧ d = d' := by
  induction h generalizing post' d' with
  | nil => cases h'; exact ⟨rfl, rfl⟩
  | seen hm _ ih =>
    cases h' with
    | seen _ h'' => exact ih h''
    | file hn => exact absurd hm hn
  | file hn hl _ _ ih1 ih2 =>
    cases h' with
    | seen hm _ => exact absurd hm hn
    | file _ hl' h1' h2' =>
      rw [hl] at hl'
      cases hl'
      obtain ⟨rfl, rfl⟩ := ih1 h1'
      obtain ⟨rfl, rfl⟩ := ih2 h2'
      exact ⟨rfl, rfl⟩

theorem Walk.not_fails {fs : FS} {done todo post d e} (h : Walk fs done todo post d)
    (h' : Fails fs done todo e) : False := by
  induction h with
  | nil => cases h'
  | seen hm _ ih =>
    cases h' with
    | seen _ h'' => exact ih h''
    | missing hn => exact hn hm
    | unparsable hn => exact hn hm
    | inImports hn => exact hn hm
    | inRest hn => exact hn hm
  | file hn hl h1 _ ih1 ih2 =>
    cases h' with
    | seen hm _ => exact hn hm
    | missing _ hl' => rw [hl] at hl'; cases hl'
    | unparsable _ hl' => rw [hl] at hl'; cases hl'
    | inImports _ hl' hf =>
      rw [hl] at hl'; cases hl'
      exact ih1 hf
    | inRest _ hl' hw hf =>
      rw [hl] at hl'; cases hl'
      obtain ⟨rfl, rfl⟩ := h1.det hw
      exact ih2 hf

theorem Fails.det {fs : FS} {done todo e e'} (h : Fails fs done todo e) (h' : Fails fs done todo e') :
    e = e' := by
  induction h with
  | seen hm _ ih =>
    cases h' with
    | seen _ h'' => exact ih h''
    | missing hn => exact absurd hm hn
    | unparsable hn => exact absurd hm hn
    | inImports hn => exact absurd hm hn
    | inRest hn => exact absurd hm hn
  | missing hn hl =>
    cases h' with
    | seen hm _ => exact absurd hm hn
    | missing => rfl
    | unparsable _ hl' => rw [hl] at hl'; cases hl'
    | inImports _ hl' => rw [hl] at hl'; cases hl'
    | inRest _ hl' => rw [hl] at hl'; cases hl'
  | unparsable hn hl =>
    cases h' with
    | seen hm _ => exact absurd hm hn
    | missing _ hl' => rw [hl] at hl'; cases hl'
    | unparsable => rfl
    | inImports _ hl' => rw [hl] at hl'; cases hl'
    | inRest _ hl' => rw [hl] at hl'; cases hl'
  | inImports hn hl hf ih =>
    cases h' with
    | seen hm _ => exact absurd hm hn
    | missing _ hl' => rw [hl] at hl'; cases hl'
    | unparsable _ hl' => rw [hl] at hl'; cases hl'
    | inImports _ hl' hf' => rw [hl] at hl'; cases hl'; exact ih hf'
    | inRest _ hl' hw _ => rw [hl] at hl'; cases hl'; exact (hw.not_fails hf).elim
  | inRest hn hl hw _ ih =>
    cases h' with
    | seen hm _ => exact absurd hm hn
    | missing _ hl' => rw [hl] at hl'; cases hl'
    | unparsable _ hl' => rw [hl] at hl'; cases hl'
    | inImports _ hl' hf' => rw [hl] at hl'; cases hl'; exact (hw.not_fails hf').elim
    | inRest _ hl' hw' hf' =>
      rw [hl] at hl'; cases hl'
      obtain ⟨rfl, rfl⟩ := hw.det hw'
      exact ih hf'

/-! ### totality (termination of the recursion) -/

theorem total_aux (fs : FS) : ∀ n done, unproc fs done ≤ n → ∀ todo,
    (∃ post d, Walk fs done todo post d) ∨ (∃ e, Fails fs done todo e) := by
  intro n
  induction n with
  | zero =>
    intro done hn todo
    induction todo with
    | nil => exact Or.inl ⟨_, _, Walk.nil⟩
    | cons p ps ih =>
      by_cases hm : p ∈ done
      · rcases ih with ⟨post, d, hw⟩ | ⟨e, hf⟩
        · exact Or.inl ⟨_, _, Walk.seen hm hw⟩
        · exact Or.inr ⟨_, Fails.seen hm hf⟩
      · cases hl : fs.lookup p with
        | none => exact Or.inr ⟨_, Fails.missing hm hl⟩
        | some f =>
          have := unproc_lt fs hm hl
          omega
  | succ n ihn =>
    intro done hn todo
    induction todo generalizing done with
    | nil => exact Or.inl ⟨_, _, Walk.nil⟩
    | cons p ps ih =>
      by_cases hm : p ∈ done
      · rcases ih done hn with ⟨post, d, hw⟩ | ⟨e, hf⟩
        · exact Or.inl ⟨_, _, Walk.seen hm hw⟩
        · exact Or.inr ⟨_, Fails.seen hm hf⟩
      · cases hl : fs.lookup p with
        | none => exact Or.inr ⟨_, Fails.missing hm hl⟩
        | some f =>
          cases f with
          | unparsable => exact Or.inr ⟨_, Fails.unparsable hm hl⟩
          | parsed imps decls =>
            have hlt := unproc_lt fs hm hl
            rcases ihn (done ++ [p]) (by omega) imps with ⟨o1, d1, hw1⟩ | ⟨e, hf⟩
            · have hle := hw1.unproc_le
              rcases ih d1 (by omega) with ⟨o2, d2, hw2⟩ | ⟨e, hf⟩
              · exact Or.inl ⟨_, _, Walk.file hm hl hw1 hw2⟩
              · exact Or.inr ⟨_, Fails.inRest hm hl hw1 hf⟩
            · exact Or.inr ⟨_, Fails.inImports hm hl hf⟩

theorem total (fs : FS) (done todo : List Path) :
    (∃ post d, Walk fs done todo post d) ∨ (∃ e, Fails fs done todo e) :=
  total_aux fs _ done (Nat.le_refl _) todo

/-! ### the executable function computes the relation -/

theorem flatMap_post (fs : FS) (o1 o2 : List Path) (p : Path) :
    namesOf fs (o1 ++ p :: o2) = namesOf fs o1 ++ declsOf fs p ++ namesOf fs o2 := by
  simp [namesOf, List.flatMap_append, List.flatMap_cons]

theorem Walk.run {fs : FS} {done todo post d} (h : Walk fs done todo post d) :
    ∀ fuel, unproc fs done < fuel →
      parseImportsWith (parseFile fs fuel) todo done = .ok (namesOf fs post, d) := by
  induction h with
  | nil => intro _ _; rfl
  | @seen done p ps post d hm _ ih =>
    intro fuel hf
    obtain ⟨k, rfl⟩ : ∃ k, fuel = k + 1 := ⟨fuel - 1, by omega⟩
    have : parseFile fs (k + 1) p done = .ok ([], done) := by simp [parseFile, hm]
    simp only [parseImportsWith, this, ih (k + 1) hf, List.nil_append]
  | @file done p ps imps decls o1 d1 o2 d2 hn hl h1 h2 ih1 ih2 =>
    intro fuel hf
    obtain ⟨k, rfl⟩ : ∃ k, fuel = k + 1 := ⟨fuel - 1, by omega⟩
    have hlt := unproc_lt fs hn hl
    have h1' := ih1 k (by omega)
    have hle := h1.unproc_le
    have h2' := ih2 (k + 1) (by omega)
    have : parseFile fs (k + 1) p done = .ok (namesOf fs o1 ++ decls, d1) := by
      simp [parseFile, hn, hl, h1']
    simp only [parseImportsWith, this, h2']
    rw [flatMap_post, declsOf_of_lookup hl]

theorem Fails.run {fs : FS} {done todo e} (h : Fails fs done todo e) :
    ∀ fuel, unproc fs done < fuel → parseImportsWith (parseFile fs fuel) todo done = .error e := by
  induction h with
  | @seen done p ps e hm _ ih =>
    intro fuel hf
    obtain ⟨k, rfl⟩ : ∃ k, fuel = k + 1 := ⟨fuel - 1, by omega⟩
    have : parseFile fs (k + 1) p done = .ok ([], done) := by simp [parseFile, hm]
    simp only [parseImportsWith, this, ih (k + 1) hf]
  | @missing done p ps hn hl =>
    intro fuel hf
    obtain ⟨k, rfl⟩ : ∃ k, fuel = k + 1 := ⟨fuel - 1, by omega⟩
    have : parseFile fs (k + 1) p done = .error (.missing p) := by simp [parseFile, hn, hl]
    simp only [parseImportsWith, this]
  | @unparsable done p ps hn hl =>
    intro fuel hf
    obtain ⟨k, rfl⟩ : ∃ k, fuel = k + 1 := ⟨fuel - 1, by omega⟩
    have : parseFile fs (k + 1) p done = .error (.unparsable p) := by simp [parseFile, hn, hl]
    simp only [parseImportsWith, this]
  | @inImports done p ps imps decls e hn hl _ ih =>
    intro fuel hf
    obtain ⟨k, rfl⟩ : ∃ k, fuel = k + 1 := ⟨fuel - 1, by omega⟩
    have hlt := unproc_lt fs hn hl
    have h1' := ih k (by omega)
    have : parseFile fs (k + 1) p done = .error e := by simp [parseFile, hn, hl, h1']
    simp only [parseImportsWith, this]
  | @inRest done p ps imps decls o1 d1 e hn hl hw _ ih =>
    intro fuel hf
    obtain ⟨k, rfl⟩ : ∃ k, fuel = k + 1 := ⟨fuel - 1, by omega⟩
    have hlt := unproc_lt fs hn hl
    have h1' := hw.run k (by omega)
    have hle := hw.unproc_le
    have h2' := ih (k + 1) (by omega)
    have : parseFile fs (k + 1) p done = .ok (namesOf fs o1 ++ decls, d1) := by
      simp [parseFile, hn, hl, h1']
    simp only [parseImportsWith, this, h2']

/-- `parseFile` on one path is the loop on the one-element list. -/
theorem parseImportsWith_singleton (rec : Path → List Path → Res) (p : Path) (done : List Path) :
    parseImportsWith rec [p] done = rec p done := by
  simp only [parseImportsWith]
  cases h : rec p done with
  | error e => rfl
  | ok r => obtain ⟨o, d⟩ := r; simp

/-! ### which error -/

theorem Fails.missing_reach {fs : FS} {done todo e} (h : Fails fs done todo e) :
    ∀ p, e = .missing p → fs.lookup p = none ∧ ∃ t ∈ todo, Reach fs t p := by
  induction h with
  | seen _ _ ih =>
    intro q hq
    obtain ⟨hl, t, ht, hr⟩ := ih q hq
    exact ⟨hl, t, List.mem_cons_of_mem _ ht, hr⟩
  | missing _ hl =>
    intro q hq
    cases hq
    exact ⟨hl, _, List.mem_cons_self, Reach.refl⟩
  | unparsable => intro q hq; cases hq
  | inImports _ hl _ ih =>
    intro q hq
    obtain ⟨hn, t, ht, hr⟩ := ih q hq
    exact ⟨hn, _, List.mem_cons_self, Reach.step hl ht hr⟩
  | inRest _ _ _ _ ih =>
    intro q hq
    obtain ⟨hl, t, ht, hr⟩ := ih q hq
    exact ⟨hl, t, List.mem_cons_of_mem _ ht, hr⟩

theorem Fails.unparsable_reach {fs : FS} {done todo e} (h : Fails fs done todo e) :
    ∀ p, e = .unparsable p → fs.lookup p = some .unparsable ∧ ∃ t ∈ todo, Reach fs t p := by
  induction h with
  | seen _ _ ih =>
    intro q hq
    obtain ⟨hl, t, ht, hr⟩ := ih q hq
    exact ⟨hl, t, List.mem_cons_of_mem _ ht, hr⟩
  | missing => intro q hq; cases hq
  | unparsable _ hl =>
    intro q hq
    cases hq
    exact ⟨hl, _, List.mem_cons_self, Reach.refl⟩
  | inImports _ hl _ ih =>
    intro q hq
    obtain ⟨hn, t, ht, hr⟩ := ih q hq
    exact ⟨hn, _, List.mem_cons_self, Reach.step hl ht hr⟩
  | inRest _ _ _ _ ih =>
    intro q hq
    obtain ⟨hl, t, ht, hr⟩ := ih q hq
    exact ⟨hl, t, List.mem_cons_of_mem _ ht, hr⟩

theorem Fails.not_outOfFuel {fs : FS} {done todo e} (h : Fails fs done todo e) : e ≠ .outOfFuel := by
  induction h with
  | seen _ _ ih => exact ih
  | missing => intro h; cases h
  | unparsable => intro h; cases h
  | inImports _ _ _ ih => exact ih
  | inRest _ _ _ _ ih => exact ih

end SymbolVerif.Cats.MultiFile

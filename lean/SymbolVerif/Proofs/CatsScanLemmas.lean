/- Lemmas about the terminal scanners of `Model/Cats/Lexer.lean` on texts built from well-formed names. -/
import SymbolVerif.Model.Cats.Lexer
namespace SymbolVerif.Cats.Lexer

theorem takeWhile_append_stop (p : Char → Bool) : ∀ (w r : Chars), w.all p = true →
    (∀ c, r.head? = some c → p c = false) → (w ++ r).takeWhile p = w ∧ (w ++ r).dropWhile p = r := by
  intro w
  induction w with
  | nil =>
    intro r _ hr
    cases r with
    | nil => simp
    | cons c cs => simp [hr c rfl]
  | cons a w ih =>
    intro r hw hr
    simp only [List.all_cons, Bool.and_eq_true] at hw
    obtain ⟨h1, h2⟩ := ih r hw.2 hr
    simp [hw.1, h1, h2]

def isTypeChar (c : Char) : Bool := isUpper c || isLower c || isDigit c
def isPropChar (c : Char) : Bool := isLower c || isDigit c || c == '_'
def isConstChar (c : Char) : Bool := isUpper c || isDigit c || c == '_'

/-- the lexical class `USER_TYPE_NAME` -/
def IsUserTypeName (w : Chars) : Prop :=
  ∃ a b rest, w = a :: b :: rest ∧ isUpper a = true ∧ isLower b = true ∧ rest.all isTypeChar = true

/-- the lexical class `PROPERTY_NAME` -/
def IsPropertyName (w : Chars) : Prop :=
  ∃ a b rest, w = a :: b :: rest ∧ isLower a = true ∧ isPropChar b = true ∧ rest.all isPropChar = true

/-- the lexical class `CONST_PROPERTY_NAME` -/
def IsConstName (w : Chars) : Prop :=
  ∃ a b rest, w = a :: b :: rest ∧ isUpper a = true ∧ isConstChar b = true ∧ rest.all isConstChar = true

theorem not_ws_of_upper {c : Char} (h : isUpper c = true) : isWs c = false := by
  simp only [isUpper, isWs, Bool.and_eq_true, decide_eq_true_eq, Bool.or_eq_false_iff, beq_eq_false_iff_ne] at *
  constructor <;> (intro hc; subst hc; revert h; decide)

theorem not_ws_of_lower {c : Char} (h : isLower c = true) : isWs c = false := by
  simp only [isLower, isWs, Bool.and_eq_true, decide_eq_true_eq, Bool.or_eq_false_iff, beq_eq_false_iff_ne] at *
  constructor <;> (intro hc; subst hc; revert h; decide)

/-- scanning a well-formed type name that is followed by something that cannot continue it -/
theorem userTypeName_append (w r : Chars) (hw : IsUserTypeName w) (hr : ∀ c, r.head? = some c → isTypeChar c = false) :
    userTypeName (w ++ r) = some (String.ofList w, r) := by
  obtain ⟨a, b, rest, rfl, ha, hb, hrest⟩ := hw
  have hws : skipWs (a :: b :: rest ++ r) = a :: b :: (rest ++ r) := by
    simp [skipWs, not_ws_of_upper ha]
  obtain ⟨h1, h2⟩ := takeWhile_append_stop isTypeChar rest r hrest hr
  unfold userTypeName
  rw [hws]
  simp only [ha, hb, Bool.and_self, if_true]
  have hp : (fun c => isUpper c || isLower c || isDigit c) = isTypeChar := rfl
  rw [hp, h1, h2]

theorem userTypeName_with_blank (w r : Chars) (hw : IsUserTypeName w) (hr : ∀ c, r.head? = some c → isTypeChar c = false) :
    userTypeName (' ' :: (w ++ r)) = some (String.ofList w, r) := by
  have : userTypeName (' ' :: (w ++ r)) = userTypeName (w ++ r) := by
    simp [userTypeName, skipWs, List.dropWhile, isWs]
  rw [this]
  exact userTypeName_append w r hw hr

end SymbolVerif.Cats.Lexer

namespace SymbolVerif.Cats.Lexer

/-- a literal cannot match when the first significant character differs from its first character -/
theorem lit_none_of_head (s : String) (s0 : Char) (srest : Chars) (hs : s.toList = s0 :: srest) (c : Char) (cs : Chars)
    (hws : isWs c = false) (hne : (s0 == c) = false) : lit s (c :: cs) = none := by
  simp [lit, skipWs, List.dropWhile, hws, hs, List.isPrefixOf, hne]

theorem litHere_none_of_head (s : String) (s0 : Char) (srest : Chars) (hs : s.toList = s0 :: srest) (c : Char) (cs : Chars)
    (hne : (s0 == c) = false) : litHere s (c :: cs) = none := by
  simp [litHere, hs, List.isPrefixOf, hne]

theorem structModifier_none_of_head (c : Char) (cs : Chars) (hws : isWs c = false) (ha : ('a' == c) = false)
    (hi : ('i' == c) = false) : structModifier (c :: cs) = none := by
  simp [structModifier, skipWs, List.dropWhile, hws, litHere, List.isPrefixOf, ha, hi]

theorem constName_none_of_head (c : Char) (cs : Chars) (hws : isWs c = false) (hu : isUpper c = false) :
    constName (c :: cs) = none := by
  simp [constName, skipWs, List.dropWhile, hws, hu]

theorem propertyName_none_of_head (c : Char) (cs : Chars) (hws : isWs c = false) (hl : isLower c = false) :
    propertyName (c :: cs) = none := by
  simp [propertyName, skipWs, List.dropWhile, hws, hl]

theorem lit_skip_blank (s : String) (cs : Chars) : lit s (' ' :: cs) = lit s cs := by
  simp [lit, skipWs, List.dropWhile, isWs]

theorem lit_using (r : Chars) : lit "using" ('u' :: 's' :: 'i' :: 'n' :: 'g' :: r) = some r := by
  simp [lit, skipWs, isWs, List.isPrefixOf]

theorem propertyName_using (r : Chars) :
    propertyName ('u' :: 's' :: 'i' :: 'n' :: 'g' :: ' ' :: r) = some ("using", ' ' :: r) := by
  simp [propertyName, skipWs, isWs, isLower, isDigit, List.takeWhile, List.dropWhile]

theorem lit_eq_none_of_upper (a : Char) (r : Chars) (ha : isUpper a = true) : lit "=" (' ' :: a :: r) = none := by
  have hws := not_ws_of_upper ha
  have hne : ('=' == a) = false := by
    simp only [isUpper, Bool.and_eq_true, decide_eq_true_eq] at ha
    simp only [beq_eq_false_iff_ne, ne_eq]
    intro h; subst h; revert ha; decide
  rw [lit_skip_blank]
  exact lit_none_of_head "=" '=' [] rfl a r hws hne

theorem skipWs_cons_of_not_ws (c : Char) (cs : Chars) (h : isWs c = false) : skipWs (c :: cs) = c :: cs := by
  simp [skipWs, List.dropWhile, h]

theorem userTypeName_skip_blank (cs : Chars) : userTypeName (' ' :: cs) = userTypeName cs := by
  simp [userTypeName, skipWs, List.dropWhile, isWs]

/-- a type name needs an upper-case letter followed by a lower-case letter -/
theorem userTypeName_none_of_second (a b : Char) (cs : Chars) (ha : isWs a = false) (hb : isLower b = false) :
    userTypeName (a :: b :: cs) = none := by
  unfold userTypeName
  rw [skipWs_cons_of_not_ws a _ ha]
  simp [hb]

/-! ### decimal numerals -/

theorem decValue_toDigits (n : Nat) : decValue (Nat.toDigits 10 n) = n := by
  have := Nat.ofDigitChars_toDigits (b := 10) (n := n) (by decide) (by decide)
  simpa [decValue, digitVal, Nat.ofDigitChars] using this

theorem isDigit_eq (c : Char) : isDigit c = c.isDigit := by
  simp only [isDigit, Char.isDigit, Char.le_def]

theorem all_isDigit_toDigits (n : Nat) : (Nat.toDigits 10 n).all isDigit = true := by
  rw [List.all_eq_true]
  intro c hc
  rw [isDigit_eq]
  exact Nat.isDigit_of_mem_toDigits (b := 10) (n := n) (by decide) (by decide) hc

theorem not_ws_of_digit {c : Char} (hc : isDigit c = true) : isWs c = false := by
  simp only [isDigit, isWs, Bool.and_eq_true, decide_eq_true_eq, Bool.or_eq_false_iff, beq_eq_false_iff_ne] at *
  constructor <;> (intro h; subst h; revert hc; decide)

theorem toString_toList (n : Nat) : (toString n).toList = Nat.toDigits 10 n := by
  show (Nat.repr n).toList = _
  exact Nat.toList_repr

theorem skipWs_toDigits (n : Nat) (r : Chars) : skipWs (Nat.toDigits 10 n ++ r) = Nat.toDigits 10 n ++ r := by
  cases hd : Nat.toDigits 10 n with
  | nil => exact absurd hd Nat.toDigits_ne_nil
  | cons c cs =>
    have hc : isDigit c = true := by
      have := all_isDigit_toDigits n
      rw [hd] at this
      simp only [List.all_cons, Bool.and_eq_true] at this
      exact this.1
    exact skipWs_cons_of_not_ws c _ (not_ws_of_digit hc)

/-- a decimal numeral printed by `toString` scans back to its value -/
theorem decNumber_repr (n : Nat) (r : Chars) (hr : ∀ c, r.head? = some c → isDigit c = false) :
    decNumber ((toString n).toList ++ r) = some (n, r) := by
  rw [toString_toList]
  obtain ⟨h1, h2⟩ := takeWhile_append_stop isDigit (Nat.toDigits 10 n) r (all_isDigit_toDigits n) hr
  unfold decNumber
  simp only [skipWs_toDigits, h1, h2]
  have : (Nat.toDigits 10 n).isEmpty = false := by
    cases hd : Nat.toDigits 10 n with
    | nil => exact absurd hd Nat.toDigits_ne_nil
    | cons c cs => rfl
  simp [this, decValue_toDigits]

/-- a decimal numeral is not taken for a hexadecimal one (unless an `x` follows a lone `0`) -/
theorem hexNumber_repr_none (n : Nat) (r : Chars) (hr : ∀ c, r.head? = some c → c ≠ 'x') :
    hexNumber ((toString n).toList ++ r) = none := by
  rw [toString_toList]
  unfold hexNumber
  rw [skipWs_toDigits]
  have hall := all_isDigit_toDigits n
  cases hd : Nat.toDigits 10 n with
  | nil => exact absurd hd Nat.toDigits_ne_nil
  | cons c cs =>
    rw [hd] at hall
    simp only [List.all_cons, Bool.and_eq_true] at hall
    cases cs with
    | nil =>
      cases r with
      | nil => simp
      | cons d r' =>
        have hdx : d ≠ 'x' := hr d rfl
        by_cases hc0 : c = '0'
        · subst hc0
          simp only [List.cons_append, List.nil_append]
          split
          · rename_i heq
            simp only [List.cons.injEq, true_and] at heq
            exact absurd heq.1 hdx
          · rfl
        · simp only [List.cons_append, List.nil_append]
          split
          · rename_i heq
            simp only [List.cons.injEq] at heq
            exact absurd heq.1 hc0
          · rfl
    | cons d ds =>
      have hd' : isDigit d = true := by
        simp only [List.all_cons, Bool.and_eq_true] at hall
        exact hall.2.1
      have hdx : d ≠ 'x' := by
        intro h; subst h; revert hd'; decide
      simp only [List.cons_append]
      split
      · rename_i heq
        simp only [List.cons.injEq] at heq
        exact absurd heq.2.1 hdx
      · rfl

theorem number_repr (n : Nat) (r : Chars) (hr : ∀ c, r.head? = some c → isDigit c = false ∧ c ≠ 'x') :
    number ((toString n).toList ++ r) = some (n, r) := by
  unfold number
  rw [hexNumber_repr_none n r (fun c hc => (hr c hc).2), decNumber_repr n r (fun c hc => (hr c hc).1)]

end SymbolVerif.Cats.Lexer

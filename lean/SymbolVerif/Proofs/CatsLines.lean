/-
The line structure of a printed document: a text that is a sequence of clean lines, each ended by `\n` (code lines
with an optional leading tab, separated by empty lines), is cut by `Lexer.logicalLines` into exactly those lines.
-/
import SymbolVerif.Model.Cats.Lexer
namespace SymbolVerif.Cats.Lexer
set_option linter.unusedSimpArgs false

/-- a printed line: empty, or code with an optional leading tab -/
inductive PLine where
  | blank
  | code (indented : Bool) (text : Chars)
  deriving Repr

def PLine.chars : PLine → Chars
  | .blank => []
  | .code true t => '\t' :: t
  | .code false t => t

/-- characters that may occur inside a line -/
def isLineChar (c : Char) : Bool := c != '\n' && c != '\r'

/-- a code text: not empty, starts with something that is neither white space nor `#`, has no line ends inside -/
def CleanText (t : Chars) : Prop :=
  t.all isLineChar = true ∧ ∃ c r, t = c :: r ∧ isWs c = false ∧ c ≠ '#'

def PLine.Clean : PLine → Prop
  | .blank => True
  | .code _ t => CleanText t

/-- every line followed by a line end -/
def unlinesC (ls : List Chars) : Chars := ls.flatMap (· ++ ['\n'])

theorem physLines_ne_nil : ∀ (cs : Chars), physLines cs ≠ []
  | [] => by simp [physLines]
  | c :: cs => by
    have ih := physLines_ne_nil cs
    simp only [physLines]
    cases hp : physLines cs with
    | nil => exact absurd hp ih
    | cons a as => simp only []; split <;> simp

theorem physLines_line (l rest : Chars) (h : l.all isLineChar = true) :
    physLines (l ++ '\n' :: rest) = l :: physLines rest := by
  induction l with
  | nil =>
    simp only [List.nil_append, physLines]
    cases hp : physLines rest with
    | nil => exact absurd hp (physLines_ne_nil rest)
    | cons a as => simp
  | cons c cs ih =>
    simp only [List.all_cons, Bool.and_eq_true] at h
    have hc : (c == '\n') = false := by
      have := h.1
      simp only [isLineChar, Bool.and_eq_true, bne_iff_ne, ne_eq] at this
      simp [this.1]
    simp only [List.cons_append, physLines, ih h.2, hc, Bool.false_eq_true, if_false]

theorem physLines_unlines (ls : List Chars) (h : ∀ l ∈ ls, l.all isLineChar = true) :
    physLines (unlinesC ls) = ls ++ [[]] := by
  induction ls with
  | nil => rfl
  | cons l rest ih =>
    have : unlinesC (l :: rest) = l ++ '\n' :: unlinesC rest := by
      simp [unlinesC, List.flatMap_cons]
    rw [this, physLines_line l _ (h l List.mem_cons_self), ih (fun x hx => h x (List.mem_cons_of_mem _ hx))]
    rfl

/-- the logical lines expected from a list of printed lines, numbered from `k` -/
def expLines : Nat → List PLine → List LLine
  | _, [] => []
  | k, .blank :: rest => expLines (k + 1) rest
  | k, .code i t :: rest => ⟨k, k, if i then 4 else 0, .code, t⟩ :: expLines (k + 1) rest

theorem stripCR_clean (t : Chars) (h : t.all isLineChar = true) : stripCR t = t := by
  unfold stripCR
  cases hl : t.getLast? with
  | none => rfl
  | some c =>
    have hm : c ∈ t := List.mem_of_getLast? hl
    have := (List.all_eq_true.1 h) c hm
    simp only [isLineChar, Bool.and_eq_true, bne_iff_ne, ne_eq] at this
    split
    · rename_i heq; cases heq; exact absurd rfl this.2
    · rfl

theorem dropWhile_isWs_of_not (c : Char) (r : Chars) (h : isWs c = false) : List.dropWhile isWs (c :: r) = c :: r := by
  simp [List.dropWhile, h]
theorem takeWhile_isWs_of_not (c : Char) (r : Chars) (h : isWs c = false) : List.takeWhile isWs (c :: r) = [] := by
  simp [List.takeWhile, h]
theorem dropWhile_isWs_tab (c : Char) (r : Chars) (h : isWs c = false) : List.dropWhile isWs ('\t' :: c :: r) = c :: r := by
  have ht : isWs '\t' = true := by decide
  simp [List.dropWhile, ht, h]
theorem takeWhile_isWs_tab (c : Char) (r : Chars) (h : isWs c = false) : List.takeWhile isWs ('\t' :: c :: r) = ['\t'] := by
  have ht : isWs '\t' = true := by decide
  simp [List.takeWhile, ht, h]

theorem groupStep_blank (acc : List LLine) (b : Bool) (n : Nat) : groupStep (acc, b) (n, []) = (acc, false) := by
  simp [groupStep, isCommentLine, isBlankLine]

theorem groupStep_code (acc : List LLine) (b : Bool) (n : Nat) (i : Bool) (t : Chars) (h : CleanText t) :
    groupStep (acc, b) (n, (PLine.code i t).chars) = (⟨n, n, if i then 4 else 0, .code, t⟩ :: acc, false) := by
  obtain ⟨hall, c, r, rfl, hws, hne⟩ := h
  have hcr : c ≠ '\r' := by
    simp only [List.all_cons, Bool.and_eq_true, isLineChar, bne_iff_ne, ne_eq] at hall
    exact hall.1.2
  have hstrip := stripCR_clean (c :: r) hall
  cases i with
  | false =>
    have h1 := dropWhile_isWs_of_not c r hws
    have h2 := takeWhile_isWs_of_not c r hws
    have hcomment : isCommentLine (c :: r) = false := by simp [isCommentLine, h1, hne]
    have hblank : isBlankLine (c :: r) = false := by simp [isBlankLine, h1, hcr]
    simp only [PLine.chars, groupStep, hcomment, hblank, h1, h2, hstrip, Bool.false_eq_true, if_false]
    rfl
  | true =>
    have h1 := dropWhile_isWs_tab c r hws
    have h2 := takeWhile_isWs_tab c r hws
    have hcomment : isCommentLine ('\t' :: c :: r) = false := by simp [isCommentLine, h1, hne]
    have hblank : isBlankLine ('\t' :: c :: r) = false := by simp [isBlankLine, h1, hcr]
    simp only [PLine.chars, groupStep, hcomment, hblank, h1, h2, hstrip, Bool.false_eq_true, if_false]
    rfl

theorem foldl_groupStep_exp : ∀ (ps : List PLine) (k : Nat) (acc : List LLine) (b : Bool), (∀ p ∈ ps, p.Clean) →
    ps ≠ [] → (enumFrom k (ps.map PLine.chars)).foldl groupStep (acc, b) = ((expLines k ps).reverse ++ acc, false) := by
  intro ps
  induction ps with
  | nil => intro _ _ _ _ h; exact absurd rfl h
  | cons p rest ih =>
    intro k acc b hclean _
    have hrest : ∀ q ∈ rest, q.Clean := fun q hq => hclean q (List.mem_cons_of_mem _ hq)
    have hstep : ∃ acc', groupStep (acc, b) (k, p.chars) = (acc', false) ∧
        (expLines k (p :: rest)).reverse ++ acc = (expLines (k + 1) rest).reverse ++ acc' := by
      cases p with
      | blank => exact ⟨acc, groupStep_blank acc b k, rfl⟩
      | code i t =>
        refine ⟨_, groupStep_code acc b k i t (hclean _ List.mem_cons_self), ?_⟩
        simp [expLines]
    obtain ⟨acc', hs, he⟩ := hstep
    simp only [List.map_cons, enumFrom, List.foldl_cons, hs]
    cases rest with
    | nil => simp only [List.map_nil, enumFrom, List.foldl_nil, he, expLines, List.reverse_nil, List.nil_append]
    | cons q qs => rw [ih (k + 1) acc' false hrest (by simp), he]

theorem all_lineChar_chars (p : PLine) (h : p.Clean) : p.chars.all isLineChar = true := by
  cases p with
  | blank => rfl
  | code i t =>
    cases i
    · exact h.1
    · simp only [PLine.chars, List.all_cons, h.1, Bool.and_true]; decide

/-- A text made of clean printed lines, the first of which is a code line, is cut into exactly these lines. -/
theorem logicalLines_unlines (i : Bool) (t : Chars) (rest : List PLine)
    (hclean : ∀ p ∈ PLine.code i t :: rest, p.Clean) :
    logicalLines (unlinesC ((PLine.code i t :: rest).map PLine.chars)) = .ok (expLines 1 (PLine.code i t :: rest), 0) := by
  have hphys := physLines_unlines ((PLine.code i t :: rest).map PLine.chars) (by
    intro l hl
    obtain ⟨p, hp, rfl⟩ := List.mem_map.1 hl
    exact all_lineChar_chars p (hclean p hp))
  have hfold := foldl_groupStep_exp (PLine.code i t :: rest) 1 [] false hclean (by simp)
  have hfirst : isBlankLine (PLine.code i t).chars = false := by
    obtain ⟨hall, c, r, rfl, hws, hne⟩ := hclean _ List.mem_cons_self
    have hcr : c ≠ '\r' := by
      simp only [List.all_cons, Bool.and_eq_true, isLineChar, bne_iff_ne, ne_eq] at hall
      exact hall.1.2
    cases i
    · simp [PLine.chars, isBlankLine, dropWhile_isWs_of_not c r hws, hcr]
    · simp [PLine.chars, isBlankLine, dropWhile_isWs_tab c r hws, hcr]
  unfold logicalLines
  rw [hphys]
  simp only [List.map_cons] at hfold
  simp only [List.dropLast_concat, List.getLast?_concat, Option.getD_some, List.map_cons, hfirst, hfold, List.all_nil,
    Bool.false_eq_true, if_false, Bool.not_true, List.append_nil, List.reverse_reverse, indentOf, List.foldl_nil]

end SymbolVerif.Cats.Lexer

/-
Trivia for C04: `\r\n` line ends. A document without carriage returns and the same document with every `\n`
replaced by `\r\n` have the same logical lines, hence the same parse (result and error alike).
-/
import SymbolVerif.Model.Cats.Parser
namespace SymbolVerif.Cats.Lexer
set_option linter.unusedSimpArgs false

/-- every line end written as `\r\n` -/
def crlf : Chars → Chars
  | [] => []
  | c :: cs => if c == '\n' then '\r' :: '\n' :: crlf cs else c :: crlf cs

/-- a carriage return at the end of every line but the last (the text after the final line end) -/
def addCR : List Chars → List Chars
  | [] => []
  | [x] => [x]
  | x :: y :: r => (x ++ ['\r']) :: addCR (y :: r)

theorem physLines_ne_nil' : ∀ (cs : Chars), physLines cs ≠ []
  | [] => by simp [physLines]
  | c :: cs => by
    have ih := physLines_ne_nil' cs
    simp only [physLines]
    cases hp : physLines cs with
    | nil => exact absurd hp ih
    | cons a as => simp only []; split <;> simp

theorem addCR_cons_cons (x y : Chars) (r : List Chars) : addCR (x :: y :: r) = (x ++ ['\r']) :: addCR (y :: r) := rfl

theorem physLines_crlf : ∀ (doc : Chars), physLines (crlf doc) = addCR (physLines doc) := by
  intro doc
  induction doc with
  | nil => rfl
  | cons c cs ih =>
    cases hp : physLines cs with
    | nil => exact absurd hp (physLines_ne_nil' cs)
    | cons l ls =>
      rw [hp] at ih
      by_cases hc : c = '\n'
      · subst hc
        have h1 : physLines ('\n' :: crlf cs) = [] :: addCR (l :: ls) := by
          simp only [physLines, ih]
          cases hadd : addCR (l :: ls) with
          | nil => cases ls <;> simp [addCR] at hadd
          | cons a as => simp
        have h2 : physLines ('\r' :: '\n' :: crlf cs) = ['\r'] :: addCR (l :: ls) := by
          have : physLines ('\r' :: '\n' :: crlf cs) =
              (match physLines ('\n' :: crlf cs) with
               | [] => [[]]
               | l :: ls => if ('\r' == '\n') = true then [] :: l :: ls else ('\r' :: l) :: ls) := rfl
          rw [this, h1]
          rfl
        simp only [crlf, beq_self_eq_true, if_true, h2, physLines, hp]
        rfl
      · have hne : (c == '\n') = false := by simp [hc]
        simp only [crlf, hne, Bool.false_eq_true, if_false, physLines, ih, hp]
        cases ls with
        | nil => simp [addCR]
        | cons y r => simp [addCR]

theorem dropWhile_append_not (p : Char → Bool) (x : Char) (hx : p x = false) : ∀ (l : Chars),
    (l ++ [x]).dropWhile p = l.dropWhile p ++ [x] := by
  intro l
  induction l with
  | nil => simp [List.dropWhile, hx]
  | cons a rest ih =>
    simp only [List.cons_append, List.dropWhile]
    cases p a <;> simp [ih]

theorem takeWhile_append_not (p : Char → Bool) (x : Char) (hx : p x = false) : ∀ (l : Chars),
    (l ++ [x]).takeWhile p = l.takeWhile p := by
  intro l
  induction l with
  | nil => simp [List.takeWhile, hx]
  | cons a rest ih =>
    simp only [List.cons_append, List.takeWhile]
    cases p a <;> simp [ih]

theorem stripCR_append (x : Chars) : stripCR (x ++ ['\r']) = x := by
  simp [stripCR]

theorem stripCR_of_not_mem (x : Chars) (h : '\r' ∉ x) : stripCR x = x := by
  unfold stripCR
  cases hl : x.getLast? with
  | none => rfl
  | some c =>
    have hm : c ∈ x := List.mem_of_getLast? hl
    split
    · rename_i heq; cases heq; exact absurd hm h
    · rfl

theorem not_mem_dropWhile (x : Chars) (h : '\r' ∉ x) : '\r' ∉ x.dropWhile isWs :=
  fun hm => h ((List.dropWhile_sublist isWs).subset hm)

theorem isWs_cr : isWs '\r' = false := by decide

theorem isBlankLine_cr (p : Chars) (h : '\r' ∉ p) : isBlankLine (p ++ ['\r']) = isBlankLine p := by
  simp only [isBlankLine, dropWhile_append_not isWs '\r' isWs_cr]
  cases hd : p.dropWhile isWs with
  | nil => simp
  | cons a rest =>
    have ha : a ≠ '\r' := by
      intro he; subst he
      exact not_mem_dropWhile p h (by rw [hd]; exact List.mem_cons_self)
    have hne : (a == '\r') = false := by simp [ha]
    simp [hne]

theorem isCommentLine_cr (p : Chars) : isCommentLine (p ++ ['\r']) = isCommentLine p := by
  simp only [isCommentLine, dropWhile_append_not isWs '\r' isWs_cr]
  cases hd : p.dropWhile isWs with
  | nil => simp
  | cons a rest => simp

theorem groupStep_cr (st : List LLine × Bool) (n : Nat) (p : Chars) (h : '\r' ∉ p) :
    groupStep st (n, p ++ ['\r']) = groupStep st (n, p) := by
  obtain ⟨acc, inC⟩ := st
  have h1 := stripCR_of_not_mem p h
  have h2 := stripCR_of_not_mem (p.dropWhile isWs) (not_mem_dropWhile p h)
  simp only [groupStep, isCommentLine_cr, isBlankLine_cr p h, dropWhile_append_not isWs '\r' isWs_cr,
    takeWhile_append_not isWs '\r' isWs_cr, stripCR_append, h1, h2]

theorem enumFrom_map_cr : ∀ (body : List Chars) (k : Nat) (st : List LLine × Bool), (∀ p ∈ body, '\r' ∉ p) →
    (enumFrom k (body.map (· ++ ['\r']))).foldl groupStep st = (enumFrom k body).foldl groupStep st := by
  intro body
  induction body with
  | nil => intro _ _ _; rfl
  | cons p rest ih =>
    intro k st h
    simp only [List.map_cons, enumFrom, List.foldl_cons, groupStep_cr st k p (h p List.mem_cons_self)]
    exact ih (k + 1) _ (fun x hx => h x (List.mem_cons_of_mem _ hx))

theorem addCR_dropLast : ∀ (ls : List Chars), (addCR ls).dropLast = ls.dropLast.map (· ++ ['\r']) := by
  intro ls
  induction ls with
  | nil => rfl
  | cons x rest ih =>
    cases rest with
    | nil => rfl
    | cons y r =>
      rw [addCR_cons_cons]
      cases hadd : addCR (y :: r) with
      | nil => cases r <;> simp [addCR] at hadd
      | cons a as =>
        rw [hadd] at ih
        simp only [List.dropLast_cons_cons, List.map_cons, ih]

theorem addCR_getLast : ∀ (ls : List Chars), (addCR ls).getLast? = ls.getLast? := by
  intro ls
  induction ls with
  | nil => rfl
  | cons x rest ih =>
    cases rest with
    | nil => rfl
    | cons y r =>
      rw [addCR_cons_cons]
      cases hadd : addCR (y :: r) with
      | nil => cases r <;> simp [addCR] at hadd
      | cons a as =>
        rw [hadd] at ih
        simp only [List.getLast?_cons_cons, ih]

theorem addCR_length : ∀ (ls : List Chars), (addCR ls).length = ls.length := by
  intro ls
  induction ls with
  | nil => rfl
  | cons x rest ih =>
    cases rest with
    | nil => rfl
    | cons y r => rw [addCR_cons_cons, List.length_cons, ih]; rfl

theorem mem_physLines_not_cr : ∀ (doc : Chars), '\r' ∉ doc → ∀ p ∈ physLines doc, '\r' ∉ p := by
  intro doc
  induction doc with
  | nil => intro _ p hp; simp [physLines] at hp; subst hp; simp
  | cons c cs ih =>
    intro h p hp
    have hcs : '\r' ∉ cs := fun hm => h (List.mem_cons_of_mem _ hm)
    have hc : c ≠ '\r' := fun he => h (he ▸ List.mem_cons_self)
    cases hphys : physLines cs with
    | nil => exact absurd hphys (physLines_ne_nil' cs)
    | cons l ls =>
      simp only [physLines, hphys] at hp
      have ihl := ih hcs
      rw [hphys] at ihl
      split at hp
      · simp only [List.mem_cons] at hp
        rcases hp with rfl | rfl | hp
        · simp
        · exact ihl _ List.mem_cons_self
        · exact ihl _ (List.mem_cons_of_mem _ hp)
      · simp only [List.mem_cons] at hp
        rcases hp with rfl | hp
        · intro hm
          simp only [List.mem_cons] at hm
          rcases hm with hm | hm
          · exact hc hm.symm
          · exact ihl _ List.mem_cons_self hm
        · exact ihl _ (List.mem_cons_of_mem _ hp)

/-- `\r\n` line ends give the same logical lines as `\n` line ends -/
theorem logicalLines_crlf (doc : Chars) (h : '\r' ∉ doc) : logicalLines (crlf doc) = logicalLines doc := by
  have hbody : ∀ p ∈ (physLines doc).dropLast, '\r' ∉ p :=
    fun p hp => mem_physLines_not_cr doc h p (List.dropLast_subset _ hp)
  unfold logicalLines
  simp only [physLines_crlf, addCR_dropLast, addCR_getLast, addCR_length]
  cases hb : (physLines doc).dropLast with
  | nil => simp
  | cons first rest =>
    rw [hb] at hbody
    have hfold := enumFrom_map_cr (first :: rest) 1 ([], false) hbody
    simp only [List.map_cons] at hfold
    simp only [List.map_cons, isBlankLine_cr first (hbody first List.mem_cons_self), hfold]

end SymbolVerif.Cats.Lexer

namespace SymbolVerif.Cats.Parser
open SymbolVerif.Cats.Lexer

theorem parseItems_crlf (doc : Chars) (h : '\r' ∉ doc) : parseItems (crlf doc) = parseItems doc := by
  simp only [parseItems, logicalLines_crlf doc h]

theorem parse_crlf_eq (doc : Chars) (h : '\r' ∉ doc) : parse (crlf doc) = parse doc := by
  simp only [parse, parseItems_crlf doc h]

end SymbolVerif.Cats.Parser

namespace SymbolVerif.Cats.Lexer

theorem dropWhile_ws_prefix : ∀ (pre post : Chars), pre.all isWs = true → (pre ++ post).dropWhile isWs = post.dropWhile isWs := by
  intro pre
  induction pre with
  | nil => intro _ _; rfl
  | cons a rest ih =>
    intro post h
    simp only [List.all_cons, Bool.and_eq_true] at h
    simp only [List.cons_append, List.dropWhile, h.1, ih post h.2]

theorem takeWhile_ws_prefix : ∀ (pre post : Chars), pre.all isWs = true → (pre ++ post).takeWhile isWs = pre ++ post.takeWhile isWs := by
  intro pre
  induction pre with
  | nil => intro _ _; rfl
  | cons a rest ih =>
    intro post h
    simp only [List.all_cons, Bool.and_eq_true] at h
    simp only [List.cons_append, List.takeWhile, h.1, ih post h.2]

theorem indentOf_foldl' (k : Nat) (ws : Chars) :
    ws.foldl (fun n c => n + (if c == '\t' then 4 else if c == ' ' then 1 else 0)) k = k + indentOf ws := by
  induction ws generalizing k with
  | nil => simp [indentOf]
  | cons c cs ih =>
    simp only [indentOf, List.foldl_cons]
    rw [ih, ih (0 + _)]
    omega

theorem indentOf_tab (pre post : Chars) : indentOf (pre ++ '\t' :: post) = indentOf (pre ++ ' ' :: ' ' :: ' ' :: ' ' :: post) := by
  simp only [indentOf, List.foldl_append, List.foldl_cons]
  simp only [indentOf_foldl']
  simp

/-- a tab in the indentation of a code line may be written as four blanks: the line contributes the same logical
    line (same text, same indentation) -/
theorem groupStep_tab (st : List LLine × Bool) (n : Nat) (pre post : Chars) (hpre : pre.all isWs = true)
    (hcode : isCommentLine (pre ++ '\t' :: post) = false) :
    groupStep st (n, pre ++ ' ' :: ' ' :: ' ' :: ' ' :: post) = groupStep st (n, pre ++ '\t' :: post) := by
  obtain ⟨acc, inC⟩ := st
  have ht : isWs '\t' = true := by decide
  have hs : isWs ' ' = true := by decide
  have d1 : (pre ++ '\t' :: post).dropWhile isWs = post.dropWhile isWs := by
    rw [dropWhile_ws_prefix pre _ hpre]; simp [List.dropWhile, ht]
  have d2 : (pre ++ ' ' :: ' ' :: ' ' :: ' ' :: post).dropWhile isWs = post.dropWhile isWs := by
    rw [dropWhile_ws_prefix pre _ hpre]; simp [List.dropWhile, hs]
  have t1 : (pre ++ '\t' :: post).takeWhile isWs = pre ++ '\t' :: post.takeWhile isWs := by
    rw [takeWhile_ws_prefix pre _ hpre]; simp [List.takeWhile, ht]
  have t2 : (pre ++ ' ' :: ' ' :: ' ' :: ' ' :: post).takeWhile isWs = pre ++ ' ' :: ' ' :: ' ' :: ' ' :: post.takeWhile isWs := by
    rw [takeWhile_ws_prefix pre _ hpre]; simp [List.takeWhile, hs]
  have hc2 : isCommentLine (pre ++ ' ' :: ' ' :: ' ' :: ' ' :: post) = false := by
    simp only [isCommentLine, d2]; simpa only [isCommentLine, d1] using hcode
  simp only [groupStep, hcode, hc2, isBlankLine, d1, d2, t1, t2, indentOf_tab, Bool.false_eq_true, if_false]

end SymbolVerif.Cats.Lexer

/-
Decode-encode direction, part 8: the condition of a member evaluated on the decoded object agrees with
what `deserialize` decided from its locals, and the object is admissible as far as conditions go.
-/
import SymbolVerif.Proofs.Codec.DedStruct
namespace SymbolVerif.Codec
open SymbolVerif.Bytes

section
variable {S : Schema} {T : String → Bytes → Bytes} {g fa : String → Val → Bool} {r : Rec}
variable {name : String} {d : StructDef} {E vs : List (String × Val)}

/-- the discriminant of a conditional member: an unconditional member (earlier, or later for a union)
    with an integer local -/
theorem DedStruct.disc (h : DedStruct S T g fa r name d E vs) {f : Field} (hf : f ∈ d.fields) {c : Cond}
    (hc : f.cond = some c) {a : Int} (ha : envInt E c.field = .ok a) :
    ∃ gk, lookupField d.fields c.field = some gk ∧ gk ∈ d.fields ∧ gk.name = c.field ∧ gk.cond = none ∧
      discKindOk c gk.kind = true ∧ Val.get E gk.name = some (.int a) ∧
      (gk.kind.carries = true → Val.get vs c.field = some (.int a)) := by
  obtain ⟨pre, post, hsplit, -, hcov⟩ := field_pos h.wf.fields h.wf.covered hf
  unfold condCovered at hcov
  simp only [hc] at hcov
  have hEa := envInt_ok ha
  have key : ∃ gk, gk ∈ d.fields ∧ gk.name = c.field ∧ gk.cond = none ∧ discKindOk c gk.kind = true := by
    by_cases hsome : (lookupField pre c.field).isSome = true
    · simp only [hsome, if_true] at hcov
      obtain ⟨gk, -, hgm, hgn, hgc, hgk⟩ := refOk_field (f := f) (post := post) hcov
      exact ⟨gk, by rw [hsplit]; exact List.mem_append_left _ hgm, hgn, hgc, hgk⟩
    · simp only [hsome, Bool.false_eq_true, if_false, Bool.and_eq_true] at hcov
      obtain ⟨gk, -, hgm, hgn, hgc, hgk⟩ := refOk_field (pre := post) (f := f) (post := []) hcov.1
      exact ⟨gk, by rw [hsplit]; simp [hgm], hgn, hgc, hgk⟩
  obtain ⟨gk, hgd, hgn, hgc, hgk⟩ := key
  have hl : lookupField d.fields c.field = some gk := by
    rw [← hgn]; exact lookupField_of_mem h.wf.names hgd
  refine ⟨gk, hl, hgd, hgn, hgc, hgk, by rw [hgn]; exact hEa, ?_⟩
  intro hcar
  have := h.carried hgd hcar
  rw [hgn] at this
  rw [this, hEa]

theorem decInt_unsigned_nonneg (w : Nat) (bs : Bytes) : 0 ≤ decInt w false bs := by
  unfold decInt
  simp

/-- a member tested by truthiness -/
theorem DedStruct.cond_viaSelf (h : DedStruct S T g fa r name d E vs) {f : Field} (hf : f ∈ d.fields) {c : Cond}
    (hc : f.cond = some c) (hvs : c.viaSelf = true) {v : Val} {a : Int} {pd : Bool}
    (hv : Val.get E f.name = some v) (ha : envInt E c.field = .ok a) (hpd : condHolds c.op c.value a = .ok pd)
    (hbody : if pd then PaySpec S T r E f v else v = .none) :
    condOnObject r d.fields vs f = .ok (truthy v) ∧ admCond r d vs f = true ∧
      (truthy v = true → PaySpec S T r E f v) := by
  obtain ⟨gk, hl, hgd, hgn, hgc, hgk, hEg, hcarry⟩ := h.disc hf hc ha
  obtain ⟨-, -, hwc⟩ := h.wfdAt hf
  unfold wfdCond at hwc
  simp only [hc, hl, hvs, Bool.not_true, Bool.false_or, Bool.and_eq_true] at hwc
  obtain ⟨⟨hbar, hdk⟩, -⟩ := hwc
  obtain ⟨sf, hk⟩ : ∃ sf, f.kind = .barray sf := by
    cases hk : f.kind <;> simp [hk, FK.isBarray] at hbar
    exact ⟨_, rfl⟩
  have hvsv : Val.get vs f.name = some v := by
    rw [h.carried hf (by simp [hk, FK.carries]), hv]
  -- the discriminant as `deserialize` will see it on the re-encoded object
  have hdo : discOnObject r d vs c = .ok a := by
    unfold discOnObject
    simp only [hl]
    by_cases hcar : gk.kind.carries = true
    · simp [hcar, hcarry hcar]
    · simp only [hcar, Bool.false_eq_true, Bool.false_or] at hdk
      simp only [hcar, Bool.false_eq_true, if_false]
      cases hgkk : gk.kind with
      | count w s t ab =>
        simp only [hgkk, Bool.and_eq_true, Bool.not_eq_true', beq_iff_eq] at hdk
        obtain ⟨hs, ht⟩ := hdk
        subst hs ht
        -- the count member describes `f`
        obtain ⟨-, hwk, -⟩ := h.wfdAt hgd
        unfold wfdKind at hwk
        simp only [hgkk, h.lookup hf, hk, hc, Bool.and_eq_true, beq_iff_eq] at hwk
        obtain ⟨hsf, hab⟩ := hwk
        simp only [derivedValue, hvsv]
        cases pd with
        | true =>
          simp only [if_true] at hbody
          unfold PaySpec at hbody
          simp only [hk] at hbody
          obtain ⟨n, b, hn, hvb, hlen⟩ := hbody
          subst hvb
          rw [hsf, hgn, ha] at hn
          simp only [Except.ok.injEq] at hn
          subst hn
          -- the count was read unsigned
          obtain ⟨vg, hvg, hsg⟩ := h.spec gk hgd
          simp only [hgc] at hsg
          unfold PaySpec at hsg
          simp only [hgkk] at hsg
          obtain ⟨view, hview⟩ := hsg
          rw [hEg] at hvg
          simp only [Option.some.injEq] at hvg
          rw [← hvg] at hview
          simp only [Val.int.injEq] at hview
          have hnn : 0 ≤ a := by rw [hview]; exact decInt_unsigned_nonneg w view
          simp only [Except.ok.injEq]
          rw [hlen]
          exact Int.toNat_of_nonneg hnn
        | false =>
          simp only [Bool.false_eq_true, if_false] at hbody
          subst hbody
          cases ab with
          | none => simp at hab
          | some av =>
            simp only [Bool.and_eq_true, beq_iff_eq] at hab
            obtain ⟨⟨-, hop⟩, hval⟩ := hab
            unfold condHolds at hpd
            simp only [hop, Except.ok.injEq, bne_eq_false_iff_eq] at hpd
            simp only [Except.ok.injEq]
            rw [← hval, hpd]
      | _ => simp [hgkk] at hdk
  refine ⟨?_, ?_, ?_⟩
  · unfold condOnObject
    simp [hc, hvs, hvsv]
  · unfold admCond
    simp only [hc, hvs, if_true, hdo, hpd, hvsv]
    cases pd with
    | false =>
      simp only [Bool.false_eq_true, if_false] at hbody
      subst hbody
      rfl
    | true =>
      simp only [if_true] at hbody
      unfold PaySpec at hbody
      simp only [hk] at hbody
      obtain ⟨n, b, -, hvb, -⟩ := hbody
      subst hvb
      cases b with
      | nil => simp [hk, FK.isBarray, Val.isEmptyBytes]
      | cons x xs => simp [truthy]
  · intro ht
    cases pd with
    | true => simpa using hbody
    | false =>
      simp only [Bool.false_eq_true, if_false] at hbody
      subst hbody
      simp [truthy] at ht

/-- a member guarded by a condition on another member -/
theorem DedStruct.cond_other (h : DedStruct S T g fa r name d E vs) {f : Field} (hf : f ∈ d.fields) {c : Cond}
    (hc : f.cond = some c) (hvs : c.viaSelf = false) {v : Val} {a : Int} {pd : Bool}
    (hv : Val.get E f.name = some v) (ha : envInt E c.field = .ok a) (hpd : condHolds c.op c.value a = .ok pd)
    (hbody : if pd then PaySpec S T r E f v else v = .none) :
    condOnObject r d.fields vs f = .ok pd ∧ admCond r d vs f = true := by
  obtain ⟨gk, hl, hgd, hgn, hgc, hgk, hEg, hcarry⟩ := h.disc hf hc ha
  obtain ⟨-, -, hwc⟩ := h.wfdAt hf
  unfold wfdCond at hwc
  simp only [hc, hl, hvs, Bool.not_false, Bool.true_or, Bool.true_and] at hwc
  have hcond : condOnObject r d.fields vs f = .ok pd := by
    unfold condOnObject
    simp only [hc, hvs, Bool.false_eq_true, if_false, hl]
    unfold discKindOk at hgk
    simp only [hvs, Bool.false_or, Bool.or_eq_true] at hgk
    cases hgkk : gk.kind with
    | sizeRef w s t dl =>
      simp only [hgkk, Bool.and_eq_true, beq_iff_eq] at hwc
      obtain ⟨⟨⟨ht, hop⟩, hval⟩, -⟩ := hwc
      subst ht
      -- the size-ref member describes `f`, a member of struct type
      obtain ⟨-, hwk, -⟩ := h.wfdAt hgd
      unfold wfdKind at hwk
      simp only [hgkk, h.lookup hf, Bool.and_eq_true, decide_eq_true_eq] at hwk
      obtain ⟨hdl, hwk⟩ := hwk
      cases hk : f.kind with
      | ref ty lim =>
        simp only [hk, Bool.and_eq_true] at hwk
        have hvsv : Val.get vs f.name = some v := by
          rw [h.carried hf (by simp [hk, FK.carries]), hv]
        simp only [sizeRefValue, hvsv, h.lookup hf, hk]
        cases pd with
        | false =>
          simp only [Bool.false_eq_true, if_false] at hbody
          subst hbody
          unfold condHolds at hpd ⊢
          simp only [hop, hval] at hpd ⊢
          simp [truthy, bind, Except.bind]
        | true =>
          simp only [if_true] at hbody
          unfold PaySpec at hbody
          simp only [hk] at hbody
          obtain ⟨hnn, hgv, b, hb, hsz⟩ := h.memberRef hf hk hvsv hbody
          have htruthy : truthy v = true := by
            obtain ⟨view, hview⟩ := hbody
            have := h.ctx.shape ty view v hview
            unfold ShapeOf at this
            unfold isStructType at hwk
            cases hft : S.find ty with
            | none => simp [hft] at this
            | some td =>
              cases td <;> simp [hft] at hwk
              simp only [hft] at this
              obtain ⟨n, fs, rfl⟩ := this
              rfl
          have hbne : b ≠ [] := h.ctx.ok.ne ty hwk.2 v b hb
          have hpos : 0 < b.length := List.length_pos_iff.mpr hbne
          simp only [htruthy, Bool.not_true, Bool.false_eq_true, if_false, hsz, bind, Except.bind]
          unfold condHolds
          simp only [hop, hval, Except.ok.injEq, bne_iff_ne, ne_eq]
          omega
      | _ => simp [hk] at hwk
    | int w s =>
      have := hcarry (by simp [hgkk, FK.carries])
      simp only [this]
      exact hpd
    | ref ty l =>
      have := hcarry (by simp [hgkk, FK.carries])
      simp only [this]
      exact hpd
    | barray sf =>
      have := hcarry (by simp [hgkk, FK.carries])
      simp only [this]
      exact hpd
    | array e m al pl k =>
      have := hcarry (by simp [hgkk, FK.carries])
      simp only [this]
      exact hpd
    | reserved w s value => simp [hgkk, FK.carries] at hgk
    | sizeF w => simp [hgkk, FK.carries] at hgk
    | count w s t ab => simp [hgkk, FK.carries] at hgk
    | byteSize w s t => simp [hgkk, FK.carries] at hgk
    | sizeOf w s t => simp [hgkk, FK.carries] at hgk
  refine ⟨hcond, ?_⟩
  unfold admCond
  simp only [hc, hvs, Bool.false_eq_true, if_false, hcond]
  cases pd with
  | true => rfl
  | false =>
    simp only [Bool.false_eq_true, if_false] at hbody
    subst hbody
    by_cases hcar : f.kind.carries = true
    · simp [hcar, h.carried hf hcar, hv]
    · simp [hcar]

/-- every member: its local, whether `serialize` will write it, and -- when it does -- what was read -/
theorem DedStruct.cond_ok (h : DedStruct S T g fa r name d E vs) {f : Field} (hf : f ∈ d.fields) :
    ∃ v p, Val.get E f.name = some v ∧ condOnObject r d.fields vs f = .ok p ∧ admCond r d vs f = true ∧
      (p = true → PaySpec S T r E f v) := by
  obtain ⟨v, hv, hs⟩ := h.spec f hf
  cases hc : f.cond with
  | none =>
    simp only [hc] at hs
    refine ⟨v, true, hv, condOnObject_of_none r d.fields vs f hc, ?_, fun _ => hs⟩
    unfold admCond
    simp [hc]
  | some c =>
    simp only [hc] at hs
    obtain ⟨a, pd, ha, hpd, hbody⟩ := hs
    by_cases hvs : c.viaSelf = true
    · obtain ⟨h1, h2, h3⟩ := h.cond_viaSelf hf hc hvs hv ha hpd hbody
      exact ⟨v, truthy v, hv, h1, h2, h3⟩
    · have hvs' : c.viaSelf = false := by simpa using hvs
      obtain ⟨h1, h2⟩ := h.cond_other hf hc hvs' hv ha hpd hbody
      refine ⟨v, pd, hv, h1, h2, ?_⟩
      intro hp
      subst hp
      simpa using hbody

end
end SymbolVerif.Codec

/-
Struct-level round trip, part 5: unions laid out before their discriminant.
The members of such a union are plain references to scalar types of one width `w`; exactly one is
present, so the union occupies `w` bytes, which `deserialize` moves to a temporary buffer by reading
the first member; the members are read from that buffer once the discriminant is known.
-/
import SymbolVerif.Proofs.Codec.StructFields
namespace SymbolVerif.Codec
open SymbolVerif.Bytes

/-- a member of a union on discriminant `dn`, all members of width `w` -/
structure UMember (S : Schema) (d : StructDef) (dn : String) (w : Nat) (m : Field) : Prop where
  mem : m ∈ d.fields
  cond : ∃ c, m.cond = some c ∧ c.field = dn ∧
    ∀ dnf ∈ d.fields, dnf.name = dn → dnf.cond = none ∧ discKindOk c dnf.kind = true
  kind : ∃ t, m.kind = .ref t none ∧ scalarWidth S t = some w

theorem eq_of_name_eq {fs : List Field} (hnd : allDistinct (fs.map (·.name)) = true) {a b : Field}
    (ha : a ∈ fs) (hb : b ∈ fs) (h : a.name = b.name) : a = b := by
  have h1 := lookupField_of_mem hnd ha
  have h2 := lookupField_of_mem hnd hb
  rw [h, h2] at h1
  exact (Option.some.inj h1).symm

theorem lookupField_none {fs : List Field} {n : String} (h : lookupField fs n = none) : ∀ x ∈ fs, x.name ≠ n := by
  unfold lookupField at h
  rw [List.find?_eq_none] at h
  intro x hx
  simpa using h x hx

theorem lookupField_append_right {pre post : List Field} {n : String} (h : lookupField pre n = none) :
    lookupField (pre ++ post) n = lookupField post n := by
  unfold lookupField at *
  rw [List.find?_append, h]
  rfl

theorem lookupField_isSome_of_mem {fs : List Field} {x : Field} (hx : x ∈ fs) : (lookupField fs x.name).isSome = true := by
  unfold lookupField
  rw [List.find?_isSome]
  exact ⟨x, hx, by simp⟩

theorem isPresent_of {r : Rec} {d : StructDef} {vs : List (String × Val)} {m : Field} {p : Bool}
    (h : condOnObject r d.fields vs m = .ok p) : isPresent r d vs m = p := by
  unfold isPresent
  rw [h]
  cases p <;> rfl

theorem EnvRel.names {P : Field → Val → Prop} {gs : List Field} {env : List (String × Val)} (h : EnvRel P gs env) :
    env.map (·.1) = gs.map (·.name) := by
  induction h with
  | nil => rfl
  | cons _ _ ih => simp [ih]

section
variable {S : Schema} {T : String → Bytes → Bytes} {r : Rec} {g : String → Val → Bool}
variable {d : StructDef} {vs : List (String × Val)}

/-- what a union member contributes to the encoding -/
theorem umember_enc (hr : RecOk S g r) {dn : String} {w : Nat} {m : Field} (hu : UMember S d dn w m)
    (hm : admMember g vs m = true) {p : Bool} {bf : Bytes}
    (he : (if p then encField S T r d vs m else .ok []) = .ok bf) :
    (p = false → bf = []) ∧
    (p = true → ∃ t v, m.kind = .ref t none ∧ Val.get vs m.name = some v ∧ r.enc t v = .ok bf ∧ g t v = true ∧
      bf.length = w) := by
  obtain ⟨t, hk, hw⟩ := hu.kind
  constructor
  · intro hp
    subst hp
    simp only [Bool.false_eq_true, if_false, Except.ok.injEq] at he
    exact he.symm
  · intro hp
    subst hp
    simp only [if_true] at he
    unfold encField at he
    unfold admMember at hm
    simp only [hk] at he hm
    cases hv : Val.get vs m.name with
    | none => simp [hv] at he
    | some v =>
      simp only [hv] at he hm
      have hnn : v.isNone = false := by
        cases v <;> first | rfl | cases he
      have hgv : g t v = true := by simpa [hnn] using hm
      have he' : r.enc t v = .ok bf := by
        cases v <;> first | exact he | cases he
      have h1 := (hr.law.apply hgv he').1
      have h2 := (hr.scalar t v bf he').size_eq t w hw v _ h1
      exact ⟨t, v, hk, rfl, he', hgv, h2⟩

/-- the union occupies `w` bytes per present member -/
theorem group_len (hr : RecOk S g r) {dn : String} {w : Nat} (G : List Field) :
    ∀ (bG : Bytes), (∀ m ∈ G, UMember S d dn w m) → (∀ m ∈ G, admMember g vs m = true) →
    encFrom S T r d vs G = .ok bG → bG.length = w * G.countP (isPresent r d vs) := by
  induction G with
  | nil =>
    intro bG _ _ he
    simp only [encFrom, Except.ok.injEq] at he
    subst he
    simp
  | cons m ms ih =>
    intro bG hu hm he
    unfold encFrom at he
    obtain ⟨p, hp, he⟩ := bind_eq_ok.mp he
    obtain ⟨bf, hbf, he⟩ := bind_eq_ok.mp he
    obtain ⟨t, ht, he⟩ := bind_eq_ok.mp he
    simp only [Except.ok.injEq] at he
    subst he
    have hrest := ih t (fun x hx => hu x (by simp [hx])) (fun x hx => hm x (by simp [hx])) ht
    obtain ⟨h0, h1⟩ := umember_enc hr (hu m (by simp)) (hm m (by simp)) hbf
    rw [List.countP_cons, isPresent_of hp, List.length_append, hrest]
    cases p with
    | false => simp [h0 rfl]
    | true =>
      obtain ⟨_, _, _, _, _, _, hl⟩ := h1 rfl
      simp only [hl, if_true, Nat.mul_add, Nat.mul_one]
      exact Nat.add_comm _ _

/-- some member of the union is present: the recursive calls are live -/
theorem group_scalar (hr : RecOk S g r) {dn : String} {w : Nat} (G : List Field) :
    ∀ (bG : Bytes), (∀ m ∈ G, UMember S d dn w m) → (∀ m ∈ G, admMember g vs m = true) →
    encFrom S T r d vs G = .ok bG → 0 < G.countP (isPresent r d vs) → ScalarOk S r := by
  induction G with
  | nil => intro _ _ _ _ h; simp at h
  | cons m ms ih =>
    intro bG hu hm he hc
    unfold encFrom at he
    obtain ⟨p, hp, he⟩ := bind_eq_ok.mp he
    obtain ⟨bf, hbf, he⟩ := bind_eq_ok.mp he
    obtain ⟨t, ht, he⟩ := bind_eq_ok.mp he
    obtain ⟨-, h1⟩ := umember_enc hr (hu m (by simp)) (hm m (by simp)) hbf
    rw [List.countP_cons, isPresent_of hp] at hc
    cases p with
    | true =>
      obtain ⟨ty, v, _, _, henc, _, _⟩ := h1 rfl
      exact hr.scalar ty v bf henc
    | false =>
      exact ih t (fun x hx => hu x (by simp [hx])) (fun x hx => hm x (by simp [hx])) ht (by simpa using hc)

/-- the queued members are read back from the temporary buffer -/
theorem flush_fold (hr : RecOk S g r) (hnd : allDistinct (d.fields.map (·.name)) = true)
    (hadm : ∀ f ∈ d.fields, admCond r d vs f = true ∧ admMember g vs f = true)
    {dn : String} {w : Nat} {dnf : Field} (hdnf : dnf ∈ d.fields) (hdn : dnf.name = dn)
    {v0 : Val} (he0 : EntryOk r d vs dnf v0) (G : List Field) :
    ∀ (env : List (String × Val)) (tmp : Bytes), (∀ m ∈ G, UMember S d dn w m) →
    encFrom S T r d vs G = .ok tmp → Val.get env dn = some v0 →
    ∃ ents, G.foldlM (flushStep S T r) (env, tmp) = .ok (env ++ ents, []) ∧
      EnvRel (EntryOk r d vs) G ents := by
  induction G with
  | nil =>
    intro env tmp _ he _
    simp only [encFrom, Except.ok.injEq] at he
    subst he
    exact ⟨[], by simp [List.foldlM, pure, Except.pure], .nil⟩
  | cons m ms ih =>
    intro env tmp hu he hget
    unfold encFrom at he
    obtain ⟨p, hp, he⟩ := bind_eq_ok.mp he
    obtain ⟨bf, hbf, he⟩ := bind_eq_ok.mp he
    obtain ⟨t, ht, he⟩ := bind_eq_ok.mp he
    simp only [Except.ok.injEq] at he
    subst he
    have hum := hu m (by simp)
    obtain ⟨c, hc, hcf, hdisc⟩ := hum.cond
    obtain ⟨hdnone, hdk⟩ := hdisc dnf hdnf hdn
    have hl : lookupField d.fields c.field = some dnf := by
      rw [hcf, ← hdn]; exact lookupField_of_mem hnd hdnf
    obtain ⟨a, pd, hda, hch, hpd⟩ := cond_disc hc hl hdk (hadm m hum.mem).1 hp
    have hpd' : pd = p := by
      rcases hpd with h | ⟨-, -, hbar, -⟩
      · exact h
      · obtain ⟨t', hk', -⟩ := hum.kind
        simp [hk', FK.isBarray] at hbar
    rw [hpd'] at hch
    have hv0 := disc_entry hl hdnone he0 hda
    subst hv0
    have hce : condOnEnv env c = .ok p := by
      unfold condOnEnv
      rw [hcf, envInt_of_get hget]
      exact hch
    obtain ⟨h0, h1⟩ := umember_enc hr hum (hadm m hum.mem).2 hbf
    rw [List.foldlM_cons]
    cases p with
    | false =>
      have := h0 rfl
      subst this
      have hstep : flushStep S T r (env, [] ++ t) m = .ok (env ++ [(m.name, Val.none)], t) := by
        unfold flushStep
        simp [hc, hce, bind, Except.bind, pure, Except.pure]
      rw [hstep]
      simp only [bind, Except.bind]
      obtain ⟨ents, hf, hrel⟩ := ih (env ++ [(m.name, Val.none)]) t (fun x hx => hu x (by simp [hx])) ht
        (get_append_some hget)
      refine ⟨(m.name, Val.none) :: ents, ?_, .cons (entry_absent hc (hadm m hum.mem).1 hp hda hch) hrel⟩
      rw [hf]
      simp
    | true =>
      obtain ⟨ty, v, hk, hv, henc, hgv, hl⟩ := h1 rfl
      obtain ⟨hsz, hdec⟩ := hr.law.apply hgv henc
      have hpay : decPayload S T r env m (bf ++ t) = .ok (v, bf.length) := by
        unfold decPayload
        simp [hk, hdec t, hsz, bind, Except.bind, pure, Except.pure]
      have hstep : flushStep S T r (env, bf ++ t) m = .ok (env ++ [(m.name, v)], t) := by
        unfold flushStep
        simp [hc, hce, hpay, bind, Except.bind, pure, Except.pure]
      rw [hstep]
      simp only [bind, Except.bind]
      obtain ⟨ents, hf, hrel⟩ := ih (env ++ [(m.name, v)]) t (fun x hx => hu x (by simp [hx])) ht
        (get_append_some hget)
      have hentry : EntryOk r d vs m v := by
        unfold EntryOk
        simp [hk, FK.carries, hv]
      refine ⟨(m.name, v) :: ents, ?_, .cons hentry hrel⟩
      rw [hf]
      simp

/-- `deserialize` over the members of a union: the first member's read moves the union's bytes to
    the temporary buffer -/
theorem decFrom_group (hr : RecOk S g r) {dn : String} {w : Nat} {f : Field} {ms : List Field}
    (hu : ∀ m ∈ f :: ms, UMember S d dn w m) (hm : ∀ m ∈ f :: ms, admMember g vs m = true)
    (hhead : headTypeOk S f = true)
    (hone : (f :: ms).countP (isPresent r d vs) = 1)
    (hfoll : ∀ m ∈ ms, condOn dn m = true)
    {bG : Bytes} (he : encFrom S T r d vs (f :: ms) = .ok bG)
    {st : DecState} {rest : Bytes} (hbuf : st.buf = bG ++ rest)
    (hget : Val.get st.env dn = none) (hq : st.queued = []) (hsz : StSz st) (d' : StructDef) (idx : Nat) :
    decFrom S T r d' (f :: ms) idx st = .ok { st with buf := rest, queued := [(dn, bG, f :: ms)] } := by
  have hlen : bG.length = w := by
    have := group_len hr (f :: ms) bG hu hm he
    rw [hone] at this
    simpa using this
  have hsc := group_scalar hr (f :: ms) bG hu hm he (by rw [hone]; exact Nat.one_pos)
  obtain ⟨c, hc, hcf, -⟩ := (hu f (by simp)).cond
  obtain ⟨t, hk, hw⟩ := (hu f (by simp)).kind
  -- the first member decodes from any `w` bytes
  have hpay : ∃ v, decPayload S T r st.env f st.buf = .ok (v, w) := by
    unfold headTypeOk at hhead
    simp only [hk] at hhead
    unfold decPayload
    simp only [hk]
    cases hf : S.find t with
    | none => simp [hf] at hhead
    | some td =>
      cases td with
      | int w' s =>
        have hn : w' = w := by
          unfold scalarWidth at hw
          simpa [hf] using hw
        subst hn
        refine ⟨.int (decInt w' s st.buf), ?_⟩
        simp [hsc.decInt t w' s hf, hsc.sizeInt t w' s hf, bind, Except.bind, pure, Except.pure]
      | bytes n =>
        have hn : n = w := by
          unfold scalarWidth at hw
          simpa [hf] using hw
        subst hn
        refine ⟨.bytes (st.buf.take n), ?_⟩
        have hle : n ≤ st.buf.length := by rw [hbuf, ← hlen]; simp
        have hlt : (st.buf.take n).length = n := by rw [List.length_take]; omega
        simp [hsc.decBytes t n hf st.buf hle, hsc.sizeBytes t n hf _ hlt, bind, Except.bind, pure, Except.pure]
      | _ => simp [hf] at hhead
  obtain ⟨v, hpay⟩ := hpay
  unfold decFrom
  subst hcf
  rw [decStep_head hc hget hq hsz hpay d' idx]
  simp only [bind, Except.bind]
  have htake : st.buf.take w = bG := by rw [hbuf, ← hlen]; simp
  have hdrop : st.buf.drop w = rest := by rw [hbuf, ← hlen]; simp
  have := decFrom_followers (S := S) (T := T) (r := r) d' c.field ms
    { st with buf := st.buf.drop w, queued := [(c.field, st.buf.take w, [f])] } (st.buf.take w) [f] (idx + 1)
    hfoll hget rfl hsz
  rw [this]
  simp [htake, hdrop]

end
end SymbolVerif.Codec

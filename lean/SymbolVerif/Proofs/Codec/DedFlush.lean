/-
Decode-encode direction: what the members read back from the temporary buffer look like.
-/
import SymbolVerif.Proofs.Codec.DedProg
namespace SymbolVerif.Codec
open SymbolVerif.Bytes

section
variable {S : Schema} {T : String → Bytes → Bytes} {r : Rec}

theorem flushStep_spec {acc acc' : List (String × Val) × Bytes} {m : Field}
    (h : flushStep S T r acc m = .ok acc') :
    ∃ v, acc'.1 = acc.1 ++ [(m.name, v)] ∧
      ∃ c, m.cond = some c ∧ ∃ a pd, envInt acc.1 c.field = .ok a ∧ condHolds c.op c.value a = .ok pd ∧
        (if pd then PaySpec S T r acc.1 m v else v = .none) := by
  unfold flushStep at h
  cases hc : m.cond with
  | none => simp [hc] at h
  | some c =>
    simp only [hc] at h
    obtain ⟨pd, hpd, h⟩ := bind_eq_ok.mp h
    unfold condOnEnv at hpd
    obtain ⟨a, ha, hpd⟩ := bind_eq_ok.mp hpd
    cases pd with
    | true =>
      simp only [if_true] at h
      obtain ⟨⟨v, adv⟩, hpay, h⟩ := bind_eq_ok.mp h
      simp only [pure, Except.pure, Except.ok.injEq] at h
      exact ⟨v, by rw [← h], c, rfl, a, true, ha, hpd, by simpa using decPayload_spec hpay⟩
    | false =>
      simp only [Bool.false_eq_true, if_false, pure, Except.pure, Except.ok.injEq] at h
      exact ⟨.none, by rw [← h], c, rfl, a, false, ha, hpd, by simp⟩

/-- every member read back from the temporary buffer has its local, described by `FieldSpec` -/
theorem flushFold_spec (G : List Field) : ∀ (acc acc' : List (String × Val) × Bytes),
    G.foldlM (flushStep S T r) acc = .ok acc' → allDistinct (G.map (·.name)) = true →
    (∀ m ∈ G, Val.get acc.1 m.name = none) →
    (∃ ext, acc'.1 = acc.1 ++ ext ∧ ext.map (·.1) = G.map (·.name)) ∧ ∀ m ∈ G, FieldSpec S T r acc'.1 m := by
  induction G with
  | nil =>
    intro acc acc' h _ _
    simp only [List.foldlM_nil, pure, Except.pure, Except.ok.injEq] at h
    subst h
    exact ⟨⟨[], by simp, rfl⟩, fun _ hm => by cases hm⟩
  | cons m ms ih =>
    intro acc acc' h hd hnone
    rw [List.foldlM_cons] at h
    obtain ⟨acc1, h1, h⟩ := bind_eq_ok.mp h
    obtain ⟨v, hv, c, hc, a, pd, ha, hpd, hbody⟩ := flushStep_spec h1
    rw [List.map_cons] at hd
    obtain ⟨hd1, hd2⟩ := allDistinct_cons hd
    have hnone1 : ∀ x ∈ ms, Val.get acc1.1 x.name = none := by
      intro x hx
      rw [hv, get_append_none (hnone x (by simp [hx]))]
      apply get_none_of_names
      intro nv hnv
      simp only [List.mem_singleton] at hnv
      subst hnv
      intro hh
      have hh' : m.name = x.name := hh
      exact hd1 (hh' ▸ List.mem_map_of_mem (f := (·.name)) hx)
    obtain ⟨⟨ext, hext, hnames⟩, hspecs⟩ := ih acc1 acc' h hd2 hnone1
    refine ⟨⟨(m.name, v) :: ext, by rw [hext, hv]; simp, by simp [hnames]⟩, ?_⟩
    intro x hx
    rcases List.mem_cons.mp hx with rfl | hx
    · have hget1 : Val.get acc1.1 x.name = some v := by
        rw [hv, get_append_none (hnone x (by simp))]; simp [Val.get]
      refine ⟨v, by rw [hext]; exact get_append_some hget1, ?_⟩
      simp only [hc]
      refine ⟨a, pd, ?_, hpd, ?_⟩
      · rw [hext, hv, List.append_assoc]; exact envInt_mono ha
      · cases pd with
        | true =>
          simp only [if_true] at hbody ⊢
          rw [hext, hv, List.append_assoc]
          exact hbody.mono
        | false => simpa using hbody
    · exact hspecs x hx

end
end SymbolVerif.Codec

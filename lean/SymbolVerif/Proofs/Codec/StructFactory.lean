/-
Struct-level round trip, part 9: a concrete class seen through its factory (abstract) type.
-/
import SymbolVerif.Proofs.Codec.StructStep
namespace SymbolVerif.Codec
open SymbolVerif.Bytes

/-- encoding a child object at its own type or at its factory type is the same thing; admissibility
    at the factory type (which includes the discriminator values) implies admissibility at its own -/
theorem child_at_factory {S : Schema} {T : String → Bytes → Bytes} (hwf : WF S = true) {a c : String}
    {da dc : StructDef} (hfa : S.find a = some (.struct da)) (hab : da.abstract = true)
    (hchild : (c, dc) ∈ S.children a) (r : Rec) {v : Val} {b : Bytes}
    (henc : encTypeStep S T r c v = .ok b) :
    encTypeStep S T r a v = .ok b ∧ (∀ g, okStep S r g a v = true → okStep S r g c v = true) := by
  have hany : (S.children a).any (·.1 == c) = true := by
    simp only [List.any_eq_true, beq_iff_eq]
    exact ⟨(c, dc), hchild, rfl⟩
  obtain ⟨dc', hm', hfc, hna, -, -, -⟩ := child_facts hwf hfa hany
  unfold encTypeStep at henc
  simp only [hfc] at henc
  cases v with
  | struct vty vs =>
    simp only [hna, Bool.false_eq_true, if_false] at henc
    split at henc
    · rename_i hc
      simp only [Bool.and_eq_true, beq_iff_eq] at hc
      obtain ⟨rfl, hshape⟩ := hc
      refine ⟨?_, ?_⟩
      · unfold encTypeStep
        simp only [hfa, hab, if_true, hany, hfc, hna, Bool.false_eq_true, if_false, hshape]
        exact henc
      · intro g
        unfold okStep
        simp only [hfa, hab, if_true, hfc, hna, Bool.false_eq_true, if_false, Bool.and_eq_true]
        exact fun h => h.1
    · cases henc
  | _ => simp at henc

end SymbolVerif.Codec

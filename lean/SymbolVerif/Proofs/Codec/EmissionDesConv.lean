/-
Emitted `deserialize`, the converse direction, part 1: when the statements emitted for a member run through, the
layout interpreter reads the member too -- or refuses it as outside its modelled domain (`Err.unsupported`: an array
of more than `maxCount` elements). `OkOrU` is that disjunction.
-/
import SymbolVerif.Proofs.Codec.EmissionDesUnionStep
namespace SymbolVerif.Codec
open SymbolVerif.Bytes

/-- succeeds, or is refused as outside the interpreter's modelled domain -/
def OkOrU {α : Type} (x : R α) : Prop := (∃ a, x = .ok a) ∨ x = .error .unsupported

theorem OkOrU.ok {α : Type} (a : α) : OkOrU (.ok a : R α) := Or.inl ⟨a, rfl⟩

theorem OkOrU.bind {α β : Type} {x : R α} {f : α → R β} (hx : OkOrU x) (hf : ∀ a, x = .ok a → OkOrU (f a)) :
    OkOrU (x >>= f) := by
  rcases hx with ⟨a, ha⟩ | hx
  · subst ha; exact hf a rfl
  · subst hx; exact Or.inr rfl

/-- a member referenced by name: when the emitted code reads its local as an integer, the decoder finds that integer -/
theorem Sim.intBack {σ : PyState} {st : DecState} {full hid pre : List Field} (h : Sim σ st hid pre) {n : String}
    {p : FK → Bool} (hlk : lookupField full n = lookupField pre n) (href : refOk full n p = true) :
    ∃ gk, gk ∈ pre ∧ gk.name = n ∧ p gk.kind = true ∧
      ∀ i, σ.getInt (localName gk) = .ok i → envInt st.env n = .ok i := by
  unfold refOk at href
  rw [hlk] at href
  cases hl : lookupField pre n with
  | none => simp [hl] at href
  | some gk =>
    simp only [hl, Bool.and_eq_true] at href
    obtain ⟨hm, hn⟩ := lookupField_some hl
    refine ⟨gk, hm, hn, href.2, ?_⟩
    intro i hi
    obtain ⟨v0, hv0⟩ := Option.isSome_iff_exists.mp (h.has gk hm)
    have := h.loc gk hm v0 hv0
    unfold PyState.getInt at hi
    rw [this] at hi
    cases v0 <;> simp at hi
    subst hi
    rw [hn] at hv0
    exact envInt_of_get hv0

section
variable {S : Schema} {T : String → Bytes → Bytes} {r : Rec} {d : StructDef}

/-- the load expression and the slice bound of a member evaluate: the decoder reads the member (or refuses it as too
    long an array) -/
theorem payload_progress {σ : PyState} {st : DecState} {full hid pre : List Field} (hS : Sim σ st hid pre)
    {f : Field} (hlk : ∀ n ∈ refsOf f, lookupField full n = lookupField pre n)
    {isLast : Bool} (hwf : wfFieldAt S d full f isLast = true) (hg : wfgdKind f = true)
    {src : BufSrc} (hsrc1 : ∀ ty l, f.kind = .ref ty (some l) → src = .limited l)
    (hsrc2 : ∀ ty, f.kind = .ref ty none → src = .var "buffer")
    {v : Val} {a : Int} (hload : (loadAst S f src).eval S T r σ = .ok v)
    (hadv : (advAst f).eval r (σ.set (localName f) v) = .ok a)
    (hres : ∀ w s value, f.kind = .reserved w s value → v = .int value) :
    OkOrU (decPayload S T r st.env f st.buf) := by
  unfold decPayload
  unfold loadAst at hload
  unfold advAst at hadv
  unfold wfFieldAt at hwf
  unfold wfgdKind at hg
  have hbuf := hS.buf
  cases hk : f.kind with
  | int w s => exact OkOrU.ok _
  | sizeF w => exact OkOrU.ok _
  | count w s t a => exact OkOrU.ok _
  | byteSize w s t => exact OkOrU.ok _
  | sizeOf w s t => exact OkOrU.ok _
  | sizeRef w s t dl => exact OkOrU.ok _
  | reserved w s value =>
    simp only [hk, LoadExpr.eval, Except.ok.injEq] at hload
    have := hres w s value hk
    rw [← hload, hbuf] at this
    simp only [Val.int.injEq] at this
    simp only [this, beq_self_eq_true, if_true]
    exact OkOrU.ok _
  | ref ty lim =>
    simp only [hk, Bool.and_eq_true, bne_iff_ne, ne_eq] at hload hadv hg hwf
    have hattr : localName f = printerName f.name := localName_attr hg.1.1
    have core : ∀ window, r.dec ty window = .ok v →
        OkOrU (r.dec ty window >>= fun v' => r.size ty v' >>= fun s => (.ok (v', s) : R (Val × Nat))) := by
      intro window hd
      simp only [hd, bind, Except.bind]
      simp only [AdvExpr.eval, PyState.get_set, hattr, beq_self_eq_true, if_true] at hadv
      cases hsz : r.size ty v with
      | ok sz => exact OkOrU.ok _
      | error e => cases v <;> simp [hsz, bind, Except.bind] at hadv
    cases lim with
    | none =>
      simp only [LoadExpr.eval, hsrc2 ty hk, BufSrc.eval, PyState.getBuf_buffer, hbuf, bind, Except.bind] at hload
      exact core st.buf hload
    | some l =>
      simp only at hwf hg
      obtain ⟨gk, hgm, hgn, hgk, hback⟩ := hS.intBack (hlk l (by simp [refsOf, hk])) hwf
      obtain ⟨w', s', hkk⟩ := isSizeOf_of hgk
      have hloc : localName gk = l := by rw [← hgn]; exact localName_raw (by rw [hgn]; exact hg.2)
      simp only [LoadExpr.eval, hsrc1 ty l hk, BufSrc.eval] at hload
      obtain ⟨b, hb, hload⟩ := bind_eq_ok.mp hload
      obtain ⟨i, hi, hb⟩ := bind_eq_ok.mp hb
      simp only [Except.ok.injEq] at hb
      have henv := hback i (by rw [hloc]; exact hi)
      have h0 : 0 ≤ i := hS.nonneg gk hgm (by rw [hkk]; rfl) i (by rw [hgn]; exact envInt_ok henv)
      rw [← hb, pyTake_nonneg _ h0, hbuf] at hload
      simp only [henv, bind, Except.bind, pure, Except.pure]
      exact core _ hload
  | barray sf =>
    simp only [hk, Bool.and_eq_true] at hload hg hwf
    obtain ⟨gk, hgm, hgn, hgk, hback⟩ := hS.intBack (hlk sf (by simp [refsOf, hk])) hwf
    obtain ⟨w', s', a', hkk⟩ := isCount_of hgk
    have hraw := rawNameOk_iff.mp hg.2
    have hloc : localName gk = fixSizeName sf := by
      unfold localName; rw [hgn, printerName_of_plain hraw.1 hraw.2]
    simp only [LoadExpr.eval] at hload
    obtain ⟨n, hn, hload⟩ := bind_eq_ok.mp hload
    have henv := hback n (by rw [hloc]; exact hn)
    have h0 : 0 ≤ n := hS.nonneg gk hgm (by rw [hkk]; rfl) n (by rw [hgn]; exact envInt_ok henv)
    simp only [henv, bind, Except.bind]
    split at hload
    · cases hload
    · rename_i hle
      rw [hbuf] at hle
      have : ¬ n.toNat > st.buf.length := by omega
      simp only [this, if_false]
      exact OkOrU.ok _
  | array elem mode al pl key =>
    have hattr : localName f = printerName f.name := by
      apply localName_attr
      have := hg
      simp only [hk, Bool.and_eq_true, bne_iff_ne, ne_eq] at this
      exact this.1.1
    have hgetself : (σ.set (localName f) v).get (printerName f.name) = some v := by
      rw [PyState.get_set, hattr]; simp
    cases mode with
    | count cf =>
      simp only [hk, Bool.and_eq_true, bne_iff_ne, ne_eq, beq_iff_eq] at hload hadv hg hwf
      obtain ⟨-, hal, href⟩ := hwf
      subst hal
      obtain ⟨gk, hgm, hgn, -, hback⟩ := hS.intBack (hlk cf (by simp [refsOf, hk])) href
      have hloc : localName gk = cf := by rw [← hgn]; exact localName_raw (by rw [hgn]; exact hg.2)
      simp only [show ((0 : Nat) != 0) = false from rfl, Bool.false_eq_true, if_false, LoadExpr.eval] at hload
      obtain ⟨n, hn, hload⟩ := bind_eq_ok.mp hload
      obtain ⟨l, hl, hload⟩ := bind_eq_ok.mp hload
      simp only [Except.ok.injEq] at hload
      subst hload
      have henv := hback n (by rw [hloc]; exact hn)
      simp only [henv, bind, Except.bind]
      by_cases hmax : n.toNat > maxCount
      · simp only [hmax, if_true, throw, throwThe, MonadExceptOf.throw]
        exact Or.inr rfl
      · simp only [hmax, if_false, pure, Except.pure]
        rw [hbuf] at hl
        simp only [hl]
        simp only [show ((0 : Nat) != 0) = false from rfl, Bool.false_eq_true, not_true_eq_false, if_false, AdvExpr.eval, hgetself] at hadv
        cases hss : elemSizes r elem l with
        | ok ss => exact OkOrU.ok _
        | error e => simp [hgetself, hss, bind, Except.bind] at hadv
    | sized sf =>
      simp only [hk, Bool.and_eq_true, bne_iff_ne, ne_eq, decide_eq_true_eq] at hload hadv hg hwf
      obtain ⟨-, hal, href⟩ := hwf
      have hal' : al ≠ 0 := by omega
      obtain ⟨gk, hgm, hgn, hgk, hback⟩ := hS.intBack (hlk sf (by simp [refsOf, hk])) href
      obtain ⟨w', s', hkk⟩ := isByteSize_of hgk
      have hloc : localName gk = sf := by rw [← hgn]; exact localName_raw (by rw [hgn]; exact hg.2)
      simp only [hal', bne_iff_ne, ne_eq, not_false_eq_true, if_true, LoadExpr.eval] at hload
      obtain ⟨window, hwin, hload⟩ := bind_eq_ok.mp hload
      obtain ⟨n, hn, hwin⟩ := bind_eq_ok.mp hwin
      simp only [Except.ok.injEq] at hwin
      obtain ⟨l, hl, hload⟩ := bind_eq_ok.mp hload
      have henv := hback n (by rw [hloc]; exact hn)
      have h0 : 0 ≤ n := hS.nonneg gk hgm (by rw [hkk]; rfl) n (by rw [hgn]; exact envInt_ok henv)
      rw [← hwin, pyTake_nonneg _ h0, hbuf] at hl
      simp only [henv, bind, Except.bind, hl]
      by_cases hmax : l.length > maxCount
      · simp only [hmax, if_true, throw, throwThe, MonadExceptOf.throw]
        exact Or.inr rfl
      · simp only [hmax, if_false, pure, Except.pure]
        exact OkOrU.ok _
    | fill =>
      simp only [hk, Bool.and_eq_true, bne_iff_ne, ne_eq] at hload hadv hg hwf
      by_cases hal : al = 0
      · subst hal
        simp only [show ((0 : Nat) != 0) = false from rfl, Bool.false_eq_true, if_false, LoadExpr.eval] at hload
        obtain ⟨l, hl, hload⟩ := bind_eq_ok.mp hload
        obtain ⟨sorted, hsorted, hload⟩ := bind_eq_ok.mp hload
        rw [hbuf] at hl
        simp only [not_true_eq_false, if_false, hl, bind, Except.bind]
        by_cases hmax : l.length > maxCount
        · simp only [hmax, if_true, throw, throwThe, MonadExceptOf.throw]
          exact Or.inr rfl
        · simp only [hmax, if_false, pure, Except.pure]
          cases sorted with
          | false => simp at hload
          | true =>
            simp only [Bool.not_true, Bool.false_eq_true, if_false, Except.ok.injEq] at hload
            subst hload
            simp only [show ((0 : Nat) != 0) = false from rfl, Bool.false_eq_true, not_true_eq_false, if_false, AdvExpr.eval, hgetself] at hadv
            have hs2 : (match key with
                | none => (Except.ok true : R Bool)
                | some k => do let keys ← l.mapM (sortKeyOf S T elem k); .ok (strictlyAscending keys)) = .ok true := by
              cases key with
              | none => rfl
              | some k =>
                obtain ⟨keys, hkeys, hasc⟩ := bind_eq_ok.mp hsorted
                simp only [Except.ok.injEq] at hasc
                simp only [hkeys, hasc, bind, Except.bind]
            cases key with
            | none =>
              simp only [Bool.not_true, Bool.false_eq_true, if_false]
              cases hss : elemSizes r elem l with
              | ok ss => exact OkOrU.ok _
              | error e => simp [hgetself, hss, bind, Except.bind] at hadv
            | some k =>
              simp only [bind, Except.bind] at hs2
              simp only [hs2, Bool.not_true, Bool.false_eq_true, if_false]
              cases hss : elemSizes r elem l with
              | ok ss => exact OkOrU.ok _
              | error e => simp [hgetself, hss, bind, Except.bind] at hadv
      · simp only [hal, bne_iff_ne, ne_eq, not_false_eq_true, if_true, LoadExpr.eval, bind, Except.bind] at hload
        rw [hbuf] at hload
        simp only [bne_iff_ne, ne_eq, hal, not_false_eq_true, if_true, bind, Except.bind]
        cases hl : decArrayAligned r elem al pl (st.buf.length + 1) st.buf with
        | error e => simp [hl] at hload
        | ok l =>
          simp only [hl, Except.ok.injEq] at hload
          subst hload
          simp only
          by_cases hmax : l.length > maxCount
          · simp only [hmax, if_true, throw, throwThe, MonadExceptOf.throw]
            exact Or.inr rfl
          · simp only [hmax, if_false, pure, Except.pure]
            simp only [hal, bne_iff_ne, ne_eq, not_false_eq_true, if_true, AdvExpr.eval, hgetself] at hadv
            cases hss : elemSizes r elem l with
            | ok ss => exact OkOrU.ok _
            | error e => simp [hgetself, hss, bind, Except.bind] at hadv

theorem execStmts_cons_ok {s : DesStmt} {rest : List DesStmt} {σ σ' : PyState}
    (h : execStmts S T r (s :: rest) σ = .ok σ') : ∃ σ1, s.exec S T r σ = .ok σ1 ∧ execStmts S T r rest σ1 = .ok σ' := by
  simp only [execStmts] at h
  exact bind_eq_ok.mp h

/-- the statements of a member (read from `buffer`) run through: its payload is readable for the decoder -/
theorem core_progress {σ σ' : PyState} {st : DecState} {full hid pre : List Field} (hS : Sim σ st hid pre)
    {f : Field} (hlk : ∀ n ∈ refsOf f, lookupField full n = lookupField pre n)
    {isLast : Bool} (hwf : wfFieldAt S d full f isLast = true) (hg : wfgdKind f = true) {sm : Option String}
    (hex : execStmts S T r (desFieldAst S d sm f none).core σ = .ok σ') :
    OkOrU (decPayload S T r st.env f st.buf) := by
  unfold desFieldAst at hex
  simp only [Option.getD_none, List.cons_append, List.nil_append] at hex
  obtain ⟨σa, hassign, hex⟩ := execStmts_cons_ok hex
  obtain ⟨σb, hadvance, hextra⟩ := execStmts_cons_ok hex
  simp only [DesStmt.exec] at hassign
  obtain ⟨v, hload, hσa⟩ := bind_eq_ok.mp hassign
  simp only [Except.ok.injEq] at hσa
  subst hσa
  simp only [DesStmt.exec] at hadvance
  obtain ⟨b, hb, hadvance⟩ := bind_eq_ok.mp hadvance
  obtain ⟨a, hadv, hadvance⟩ := bind_eq_ok.mp hadvance
  refine payload_progress (T := T) hS hlk hwf hg (src := srcOf f "buffer") (by intro ty l hk; simp [srcOf, hk])
    (by intro ty hk; simp [srcOf, hk]) hload hadv ?_
  intro w s value hk
  -- the check of the constant
  have hname : f.name ≠ "size" := by
    unfold wfgdKind at hg
    simp only [Bool.and_eq_true] at hg
    simpa [hk] using hg.1.1
  have hloc : fixSizeName (printerName f.name) = printerName f.name := by
    have := localName_attr hname; unfold localName at this; exact this
  have hlv : v = .int (decInt w s σ.buffer) := by
    unfold loadAst at hload
    simp only [hk, LoadExpr.eval, Except.ok.injEq] at hload
    exact hload.symm
  have hσb : σb.get (printerName f.name) = some v := by
    split at hadvance
    · simp only [Except.ok.injEq] at hadvance
      rw [← hadvance, PyState.get_setBuf, PyState.get_set, hloc]; simp
    · obtain ⟨e, -, hadvance⟩ := bind_eq_ok.mp hadvance
      simp only [Except.ok.injEq] at hadvance
      rw [← hadvance, PyState.get_setBuf, PyState.get_set, hloc]; simp
  unfold extraOf at hextra
  simp only [hk, execStmts, DesStmt.exec, hσb, hlv, bind, Except.bind] at hextra
  rw [hlv]
  by_cases heq : decInt w s σ.buffer = value
  · rw [heq]
  · simp [heq] at hextra

/-- a conditional member whose discriminant has been read: the emitted statements run through, so does the decoder -/
theorem cond_progress {σ σ' : PyState} {st : DecState} {full hid pre : List Field} (hS : Sim σ st hid pre)
    {f : Field} {c : Cond} (hc : f.cond = some c) (hfresh : ∀ x ∈ pre, localName x ≠ localName f)
    (hlk : ∀ n ∈ refsOf f, lookupField full n = lookupField pre n)
    {isLast : Bool} (hwf : wfFieldAt S d full f isLast = true) (hg : wfgdKind f = true) (hgc : wfgdCond S d f = true)
    (hearly : refOk full c.field (discKindOk c) = true) {sm : Option String}
    (hex : (desFieldAst S d sm f none).exec S T r σ = .ok σ') : OkOrU (decCondField S T r st c f) := by
  have hnsz : ∀ w, f.kind ≠ .sizeF w := by
    intro w hk
    unfold wfFieldAt at hwf
    simp [hk, hc] at hwf
  have hname : f.name ≠ "size" := by
    unfold wfgdKind at hg
    simp only [Bool.and_eq_true] at hg
    have h1 := hg.1.1
    cases hk : f.kind <;> simp [hk] at h1 <;> first | exact h1 | exact absurd hk (hnsz _)
  have hattr : localName f = printerName f.name := localName_attr hname
  obtain ⟨gk, hgm, hgn, -, hback⟩ := hS.intBack (hlk c.field (by simp [refsOf, hc])) hearly
  have hlocg : localName gk = fixSizeName (printerName c.field) := by unfold localName; rw [hgn]
  have hS0 : Sim (σ.set (printerName f.name) .none) st hid pre :=
    hS.set_fresh .none (fun x hx => by rw [← hattr]; exact hfresh x hx)
  unfold DesField.exec at hex
  have hcond : (desFieldAst S d sm f none).cond =
      some { value := condValueAst S d c, op := c.op, disc := fixSizeName (printerName c.field) } := by
    unfold desFieldAst localCondAst; simp [hc]
  have hattr' : (desFieldAst S d sm f none).attr = printerName f.name := rfl
  simp only [hcond, hattr'] at hex
  obtain ⟨pd, hpd, hex⟩ := bind_eq_ok.mp hex
  unfold LocalCond.eval at hpd
  obtain ⟨a, ha, hpd⟩ := bind_eq_ok.mp hpd
  simp only [condValue_eval hc hgc, bind, Except.bind] at hpd
  -- the discriminant's local is untouched by `attr = None`
  have ha' : σ.getInt (localName gk) = .ok a := by
    unfold PyState.getInt at ha ⊢
    rw [PyState.get_set] at ha
    have : (printerName f.name == fixSizeName (printerName c.field)) = false := by
      simp only [beq_eq_false_iff_ne, ne_eq]
      intro hh
      exact hfresh gk hgm (by rw [hlocg, hattr, hh])
    simp only [this, Bool.false_eq_true, if_false] at ha
    rw [hlocg]; exact ha
  have henv := hback a ha'
  have hsome : (Val.get st.env c.field).isSome = true := by
    have := hS.has gk hgm; rw [hgn] at this; exact this
  unfold decCondField
  simp only [hsome, if_true, condOnEnv, henv, bind, Except.bind, hpd]
  cases pd with
  | false => exact OkOrU.ok _
  | true =>
    simp only [if_true] at hex ⊢
    have := core_progress (T := T) hS0 hlk hwf hg hex
    rcases this with ⟨⟨v, adv⟩, hp⟩ | hp
    · rw [hp]; exact OkOrU.ok _
    · rw [hp]; exact Or.inr rfl

/-- one parked member read from the temporary buffer: the emitted statements run through, so does the decoder's step -/
theorem flush_member_progress {sm : Option String} {dn : String} {fdn : Field} (hfdn : fdn.name = dn)
    {base pre : List Field} {σ σ' : PyState} {st : DecState} {temp : Bytes} (hS : Sim σ st base pre) (hpre : fdn ∈ pre)
    (hbuf : σ.getBuf (dn ++ "_condition") = .ok temp) {q : Field} (hq : ParkedOk S d sm dn q)
    (hfresh : ∀ x ∈ pre, localName x ≠ localName q)
    (hex : (desFieldAst S d sm q (some (dn ++ "_condition"))).exec S T r σ = .ok σ') :
    ∃ acc', flushStep S T r (st.env, temp) q = .ok acc' := by
  obtain ⟨c, hc, hcf⟩ := hq.cond
  obtain ⟨t, hk⟩ := hq.kind
  have hattr := hq.attr
  have hlocg : localName fdn = fixSizeName (printerName c.field) := by unfold localName; rw [hfdn, hcf]
  unfold DesField.exec at hex
  have hcond : (desFieldAst S d sm q (some (dn ++ "_condition"))).cond =
      some { value := condValueAst S d c, op := c.op, disc := fixSizeName (printerName c.field) } := by
    unfold desFieldAst localCondAst; simp [hc]
  have hattr' : (desFieldAst S d sm q (some (dn ++ "_condition"))).attr = printerName q.name := rfl
  simp only [hcond, hattr'] at hex
  obtain ⟨pd, hpd, hex⟩ := bind_eq_ok.mp hex
  unfold LocalCond.eval at hpd
  obtain ⟨a, ha, hpd⟩ := bind_eq_ok.mp hpd
  simp only [condValue_eval hc hq.gc, bind, Except.bind] at hpd
  have ha' : σ.getInt (localName fdn) = .ok a := by
    unfold PyState.getInt at ha ⊢
    rw [PyState.get_set] at ha
    have : (printerName q.name == fixSizeName (printerName c.field)) = false := by
      simp only [beq_eq_false_iff_ne, ne_eq]
      intro hh
      exact hfresh fdn hpre (by rw [hlocg, hattr, hh])
    simp only [this, Bool.false_eq_true, if_false] at ha
    rw [hlocg]; exact ha
  have henv : envInt st.env c.field = .ok a := by
    obtain ⟨v0, hv0⟩ := Option.isSome_iff_exists.mp (hS.has fdn hpre)
    have := hS.loc fdn hpre v0 hv0
    unfold PyState.getInt at ha'
    rw [this] at ha'
    cases v0 <;> simp at ha'
    subst ha'
    rw [hfdn, ← hcf] at hv0
    exact envInt_of_get hv0
  unfold flushStep
  simp only [hc, condOnEnv, henv, bind, Except.bind, hpd]
  cases pd with
  | false => exact ⟨_, rfl⟩
  | true =>
    simp only [if_true] at hex ⊢
    rw [decPayload_ref hk]
    unfold desFieldAst at hex
    have hsrc : srcOf q (dn ++ "_condition") = .var (dn ++ "_condition") := by unfold srcOf; simp [hk]
    have hload : loadAst S q (.var (dn ++ "_condition")) = .object t (isAbstractStruct S t) (.var (dn ++ "_condition")) := by
      unfold loadAst; simp [hk]
    have hadv : advAst q = .objSize (printerName q.name) t := by unfold advAst; simp [hk]
    have hloc : fixSizeName (printerName q.name) = printerName q.name := by
      have := hattr; unfold localName at this; exact this
    simp only [Option.getD_some, hsrc, hload, hadv, hloc, List.cons_append, List.nil_append] at hex
    obtain ⟨σa, hassign, hex⟩ := execStmts_cons_ok hex
    obtain ⟨σb, hadvance, -⟩ := execStmts_cons_ok hex
    simp only [DesStmt.exec, LoadExpr.eval, BufSrc.eval, getBuf_set, hbuf, bind, Except.bind] at hassign
    cases hd : r.dec t temp with
    | error e => simp [hd] at hassign
    | ok v =>
      simp only [hd, Except.ok.injEq] at hassign
      subst hassign
      simp only [DesStmt.exec, getBuf_set, hbuf, bind, Except.bind, AdvExpr.eval, PyState.get_set, beq_self_eq_true,
        if_true] at hadvance
      cases hsz : r.size t v with
      | ok sz => simp [bind, Except.bind, hsz, pure, Except.pure]
      | error e => cases v <;> simp [hsz] at hadvance

end
end SymbolVerif.Codec

/-
Decode-encode direction, part 7: a struct object that came out of a successful run of `deserialize`
(`DedStruct`), and the basic facts about its members.
-/
import SymbolVerif.Proofs.Codec.DedCtx
import SymbolVerif.Proofs.Codec.StructStep
namespace SymbolVerif.Codec
open SymbolVerif.Bytes

/-- `vs` is the object built from the locals `E` of a successful run over the members of `d` -/
structure DedStruct (S : Schema) (T : String → Bytes → Bytes) (g fa : String → Val → Bool) (r : Rec)
    (name : String) (d : StructDef) (E vs : List (String × Val)) : Prop where
  ctx : DedCtx S g fa r
  wf : WfStruct S name d
  wfd : wfdStruct S d = true
  spec : ∀ x ∈ d.fields, FieldSpec S T r E x
  obj : objectOf d E = .ok vs
  fit : d.fields.all (fun f => fitField r d vs f && admMember fa vs f) = true

section
variable {S : Schema} {T : String → Bytes → Bytes} {g fa : String → Val → Bool} {r : Rec}
variable {name : String} {d : StructDef} {E vs : List (String × Val)}

theorem DedStruct.carried (h : DedStruct S T g fa r name d E vs) {f : Field} (hf : f ∈ d.fields)
    (hc : f.kind.carries = true) : Val.get vs f.name = Val.get E f.name :=
  (objectOf_spec h.wf.names h.obj).2.1 f hf hc

theorem DedStruct.derivedNone (h : DedStruct S T g fa r name d E vs) {f : Field} (hf : f ∈ d.fields)
    (hc : f.kind.carries = false) : Val.get vs f.name = none :=
  (objectOf_spec h.wf.names h.obj).2.2 f hf hc

theorem DedStruct.shape (h : DedStruct S T g fa r name d E vs) : shapeOk d vs = true :=
  (objectOf_spec h.wf.names h.obj).1

theorem DedStruct.wfdAt (h : DedStruct S T g fa r name d E vs) {f : Field} (hf : f ∈ d.fields) :
    widthOk f.kind = true ∧ wfdKind S d f = true ∧ wfdCond d f = true := by
  have := h.wfd
  unfold wfdStruct at this
  simp only [List.all_eq_true, Bool.and_eq_true] at this
  have := this.1 f hf
  exact ⟨this.1.1, this.1.2, this.2⟩

theorem DedStruct.wfdUnions (h : DedStruct S T g fa r name d E vs) : wfdUnionsFrom S [] d.fields = true := by
  have := h.wfd
  unfold wfdStruct at this
  simp only [Bool.and_eq_true] at this
  exact this.2

theorem DedStruct.fitAt (h : DedStruct S T g fa r name d E vs) {f : Field} (hf : f ∈ d.fields) :
    fitField r d vs f = true ∧ admMember fa vs f = true := by
  have := h.fit
  simp only [List.all_eq_true, Bool.and_eq_true] at this
  exact this f hf

theorem DedStruct.lookup (h : DedStruct S T g fa r name d E vs) {f : Field} (hf : f ∈ d.fields) :
    lookupField d.fields f.name = some f :=
  lookupField_of_mem h.wf.names hf

/-- a decoded member of a named type: admissible, encodable, with a size -/
theorem DedStruct.memberRef (h : DedStruct S T g fa r name d E vs) {f : Field} (hf : f ∈ d.fields)
    {ty : String} {lim : Option String} (hk : f.kind = .ref ty lim) {v : Val} (hv : Val.get vs f.name = some v)
    (hd : FromDec r ty v) :
    v.isNone = false ∧ g ty v = true ∧ ∃ b, r.enc ty v = .ok b ∧ r.size ty v = .ok b.length := by
  obtain ⟨view, hview⟩ := hd
  have hnn := (h.ctx.shape ty view v hview).not_none
  have hfa : fa ty v = true := by
    have := (h.fitAt hf).2
    unfold admMember at this
    simpa [hk, hv, hnn] using this
  exact ⟨hnn, h.ctx.member ⟨view, hview⟩ hfa⟩

/-- the decoded elements of an array member -/
theorem DedStruct.memberArr (h : DedStruct S T g fa r name d E vs) {f : Field} (hf : f ∈ d.fields)
    {elem : String} {mode : ArrMode} {al : Nat} {pl : Bool} {key : Option String}
    (hk : f.kind = .array elem mode al pl key) {l : List Val} (hv : Val.get vs f.name = some (.arr l))
    (hd : ∀ e ∈ l, FromDec r elem e) :
    ∀ e ∈ l, g elem e = true ∧ ∃ b, r.enc elem e = .ok b ∧ r.size elem e = .ok b.length := by
  have hfa : ∀ e ∈ l, fa elem e = true := by
    have := (h.fitAt hf).2
    unfold admMember at this
    simpa [hk, hv, List.all_eq_true] using this
  intro e he
  exact h.ctx.member (hd e he) (hfa e he)

end
end SymbolVerif.Codec

/-
Decode-encode direction, part 6: what is known about the recursive calls, and positional facts
extracted from the well-formedness scans.
-/
import SymbolVerif.Proofs.Codec.DedObj
namespace SymbolVerif.Codec
open SymbolVerif.Bytes

/-- the constructor of a decoded value follows the kind of its type -/
def ShapeOf (S : Schema) (ty : String) (v : Val) : Prop :=
  match S.find ty with
  | some (.struct _) => ∃ n fs, v = .struct n fs
  | some (.bytes _) => ∃ b, v = .bytes b
  | some (.int _ _) => ∃ i, v = .int i
  | some (.enum _ _ _ _) => ∃ i, v = .int i
  | none => False

theorem ShapeOf.not_none {S : Schema} {ty : String} {v : Val} (h : ShapeOf S ty v) : v.isNone = false := by
  unfold ShapeOf at h
  cases hf : S.find ty with
  | none => simp [hf] at h
  | some t =>
    cases t <;> simp only [hf] at h
    · obtain ⟨i, rfl⟩ := h; rfl
    · obtain ⟨b, rfl⟩ := h; rfl
    · obtain ⟨i, rfl⟩ := h; rfl
    · obtain ⟨n, fs, rfl⟩ := h; rfl

/-- what the decode-side step lemmas know about the recursive calls: the forward law, and that
    whatever `dec` returns (and whose derived sizes fit, `fa`) is admissible and encodes -/
structure DedCtx (S : Schema) (g fa : String → Val → Bool) (r : Rec) : Prop where
  ok : RecOk S g r
  dec : ∀ ty bs v, r.dec ty bs = .ok v → fa ty v = true → g ty v = true ∧ ∃ b, r.enc ty v = .ok b
  shape : ∀ ty bs v, r.dec ty bs = .ok v → ShapeOf S ty v
  enumOk : ∀ ty bs v w s bw ms, r.dec ty bs = .ok v → S.find ty = some (.enum w s bw ms) →
    ∃ i, v = .int i ∧ enumAdmits bw ms i = true

theorem DedCtx.member {S : Schema} {g fa : String → Val → Bool} {r : Rec} (h : DedCtx S g fa r) {ty : String} {v : Val}
    (hd : FromDec r ty v) (hf : fa ty v = true) :
    g ty v = true ∧ ∃ b, r.enc ty v = .ok b ∧ r.size ty v = .ok b.length := by
  obtain ⟨view, hv⟩ := hd
  obtain ⟨hg, b, hb⟩ := h.dec ty view v hv hf
  exact ⟨hg, b, hb, (h.ok.law.apply hg hb).1⟩

/-! ### positional facts -/

theorem wfFieldsFrom_at {S : Schema} {d : StructDef} (xs : List Field) : ∀ (p0 : List Field) (f : Field) (ys : List Field),
    wfFieldsFrom S d p0 (xs ++ f :: ys) = true → wfFieldAt S d (p0 ++ xs) f ys.isEmpty = true := by
  induction xs with
  | nil =>
    intro p0 f ys h
    simp only [List.nil_append, wfFieldsFrom, Bool.and_eq_true] at h
    simpa using h.1
  | cons x xs ih =>
    intro p0 f ys h
    simp only [List.cons_append, wfFieldsFrom, Bool.and_eq_true] at h
    have := ih (p0 ++ [x]) f ys h.2
    simpa using this

theorem coveredFrom_at {S : Schema} (xs : List Field) : ∀ (p0 : List Field) (f : Field) (ys : List Field),
    coveredFrom S p0 (xs ++ f :: ys) = true → condCovered S (p0 ++ xs) f ys = true := by
  induction xs with
  | nil =>
    intro p0 f ys h
    simp only [List.nil_append, coveredFrom, Bool.and_eq_true] at h
    simpa using h.1
  | cons x xs ih =>
    intro p0 f ys h
    simp only [List.cons_append, coveredFrom, Bool.and_eq_true] at h
    have := ih (p0 ++ [x]) f ys h.2
    simpa using this

theorem earlyFrom_at (xs : List Field) : ∀ (p0 : List Field) (f : Field) (ys : List Field),
    earlyFrom p0 (xs ++ f :: ys) = true → ∀ c, f.cond = some c → (lookupField (p0 ++ xs) c.field).isSome = true := by
  induction xs with
  | nil =>
    intro p0 f ys h c hc
    simp only [List.nil_append, earlyFrom, Bool.and_eq_true, hc] at h
    simpa using h.1
  | cons x xs ih =>
    intro p0 f ys h c hc
    simp only [List.cons_append, earlyFrom, Bool.and_eq_true] at h
    have := ih (p0 ++ [x]) f ys h.2 c hc
    simpa using this

/-- a member together with the members before and after it -/
theorem field_pos {S : Schema} {d : StructDef} (hwf : wfFieldsFrom S d [] d.fields = true)
    (hcov : coveredFrom S [] d.fields = true) {f : Field} (hf : f ∈ d.fields) :
    ∃ pre post, d.fields = pre ++ f :: post ∧ wfFieldAt S d pre f post.isEmpty = true ∧
      condCovered S pre f post = true := by
  obtain ⟨pre, post, hsplit⟩ := List.append_of_mem hf
  refine ⟨pre, post, hsplit, ?_, ?_⟩
  · have := wfFieldsFrom_at pre [] f post (by rw [← hsplit]; exact hwf)
    simpa using this
  · have := coveredFrom_at pre [] f post (by rw [← hsplit]; exact hcov)
    simpa using this

/-- a reference to an earlier unconditional member resolves in the whole member list -/
theorem refOk_field {pre post : List Field} {f : Field} {n : String} {p : FK → Bool} (h : refOk pre n p = true) :
    ∃ gk, lookupField (pre ++ f :: post) n = some gk ∧ gk ∈ pre ∧ gk.name = n ∧ gk.cond = none ∧ p gk.kind = true := by
  unfold refOk at h
  cases hl : lookupField pre n with
  | none => simp [hl] at h
  | some gk =>
    simp only [hl, Bool.and_eq_true, Option.isNone_iff_eq_none] at h
    obtain ⟨hm, hn⟩ := lookupField_some hl
    exact ⟨gk, lookupField_append hl, hm, hn, h.1, h.2⟩

end SymbolVerif.Codec

/-
The text of the member part of `deserialize` / `_deserialize` (Emission.lean) is the rendering of the
abstract program (EmissionDes.lean).
-/
import SymbolVerif.Model.Codec.EmissionDes
import SymbolVerif.Proofs.Codec.EmissionRender
namespace SymbolVerif.Codec

theorem render_loadAst (S : Schema) (f : Field) (src : BufSrc) : (loadAst S f src).render = loadExpr S f src.render := by
  unfold loadAst loadExpr
  cases hk : f.kind with
  | array elem mode al pl key =>
    simp only
    split
    · cases mode <;> rfl
    · cases mode <;> cases key <;> rfl
  | _ => rfl

theorem render_advAst (f : Field) : (advAst f).render = advanceExpr f := by
  unfold advAst advanceExpr
  cases hk : f.kind with
  | array elem mode al pl key =>
    cases mode with
    | sized sf => rfl
    | fill =>
      simp only []
      rw [apply_ite AdvExpr.render]
      rfl
    | count cf =>
      simp only []
      rw [apply_ite AdvExpr.render]
      rfl
  | _ => rfl

theorem render_localCondAst (S : Schema) (d : StructDef) (f : Field) :
    (localCondAst S d f).map LocalCond.render = localConditionLine S d f := by
  unfold localCondAst localConditionLine
  cases hc : f.cond with
  | none => rfl
  | some c =>
    have h := render_condValueAst S d c
    simp only [Option.map_some, LocalCond.render, Option.some.injEq]
    rw [← h]
    cases c.op <;> rfl

theorem render_desFieldAst (S : Schema) (d : StructDef) (sm : Option String) (f : Field) (arg : Option String) :
    (desFieldAst S d sm f arg).render = deserializeFieldLines S d sm f arg := by
  unfold DesField.render desFieldAst deserializeFieldLines srcOf extraOf
  simp only []
  rw [← render_localCondAst]
  have hload := render_loadAst S f
  have hadv := render_advAst f
  by_cases hsm : (sm == some (printerName f.name)) = true
  · cases hk : f.kind with
    | ref ty lim =>
      cases lim <;> cases arg <;>
        simp only [hsm, if_true, List.map_append, List.map_cons, List.map_nil, DesStmt.render, hload, hadv,
          BufSrc.render, Option.getD_none, Option.getD_some, Option.isSome_none, Option.isSome_some, Bool.or_false,
          Bool.or_true, Bool.false_eq_true, if_false, List.append_nil] <;>
        (cases localCondAst S d f <;> rfl)
    | _ =>
      cases arg <;>
        simp only [hsm, if_true, List.map_append, List.map_cons, List.map_nil, DesStmt.render, hload, hadv,
          BufSrc.render, Option.getD_none, Option.getD_some, Option.isSome_none, Option.isSome_some, Bool.or_false,
          Bool.or_true, Bool.false_eq_true, if_false, List.append_nil] <;>
        (cases localCondAst S d f <;> rfl)
  · cases hk : f.kind with
    | ref ty lim =>
      cases lim <;> cases arg <;>
        simp only [hsm, Bool.false_eq_true, if_false, List.map_append, List.map_cons, List.map_nil, DesStmt.render, hload, hadv,
          BufSrc.render, Option.getD_none, Option.getD_some, Option.isSome_none, Option.isSome_some, Bool.or_false,
          Bool.or_true, if_true, List.append_nil] <;>
        (cases localCondAst S d f <;> rfl)
    | _ =>
      cases arg <;>
        simp only [hsm, Bool.false_eq_true, if_false, List.map_append, List.map_cons, List.map_nil, DesStmt.render, hload, hadv,
          BufSrc.render, Option.getD_none, Option.getD_some, Option.isSome_none, Option.isSome_some, Bool.or_false,
          Bool.or_true, if_true, List.append_nil] <;>
        (cases localCondAst S d f <;> rfl)

theorem renderItems_append (a b : List DesItem) : renderItems (a ++ b) = renderItems a ++ renderItems b := by
  unfold renderItems
  exact List.flatMap_append

/-- the loop of `get_deserialize_descriptor`, state by state -/
theorem renderItems_loop (S : Schema) (d : StructDef) (sm : Option String) (fs : List Field) :
    ∀ (st : DesAstState) (st' : DesState), st'.lines = renderItems st.items → st'.processed = st.processed →
    st'.queued = st.queued →
    (deserializeLoop S d sm fs st').lines = renderItems (emitDesLoop S d sm fs st).items := by
  induction fs with
  | nil => intro st st' h _ _; exact h
  | cons f rest ih =>
    intro st st' hl hp hq
    have hdirect : (deserializeLoop S d sm rest { st' with
          lines := st'.lines ++ deserializeFieldLines S d sm f none ++
            (((st'.queued.find? (·.1 == f.name)).map (·.2)).getD []).flatMap
              (fun q => deserializeFieldLines S d sm q (some (f.name ++ "_condition"))),
          processed := st'.processed ++ [f.name] }).lines =
        renderItems (emitDesLoop S d sm rest { st with
          items := st.items ++ [DesItem.field (desFieldAst S d sm f none)] ++
            (((st.queued.find? (·.1 == f.name)).map (·.2)).getD []).map
              (fun q => DesItem.field (desFieldAst S d sm q (some (f.name ++ "_condition")))),
          processed := st.processed ++ [f.name] }).items := by
      apply ih
      · simp only [hl, hq, renderItems_append]
        congr 1
        · congr 1
          simp [renderItems, DesItem.render, render_desFieldAst]
        · unfold renderItems
          rw [List.flatMap_map]
          congr 1
          funext q
          simp [DesItem.render, render_desFieldAst]
      · simp [hp]
      · exact hq
    unfold deserializeLoop emitDesLoop
    cases hc : f.cond with
    | none => simpa using hdirect
    | some c =>
      simp only [hp]
      by_cases hcon : st.processed.contains c.field = true
      · simp only [hcon, if_true]
        simpa [hp] using hdirect
      · simp only [hcon, Bool.false_eq_true, if_false, hq]
        by_cases hfind : (st.queued.find? (·.1 == c.field)).isSome = true
        · simp only [hfind, if_true]
          apply ih
          · exact hl
          · rfl
          · simp
        · simp only [hfind, Bool.false_eq_true, if_false]
          apply ih
          · simp only [hl, renderItems_append]
            congr 1
            simp [renderItems, DesItem.render, render_loadAst, BufSrc.render]
          · rfl
          · simp

theorem sizeMemberOf_eq (d : StructDef) :
    sizeMemberOf d = (match d.fields.head? with
      | some ⟨n, .sizeF _, _⟩ => some (printerName n)
      | _ => none) := by
  unfold sizeMemberOf
  rfl

/-- the member part of `deserialize` / `_deserialize` is the rendering of `emitDeserialize` -/
theorem renderItems_emitDeserialize (S : Schema) (d : StructDef) :
    renderItems (emitDeserialize S d) = (deserializeLoop S d (sizeMemberOf d) (ownFields d) {}).lines := by
  unfold emitDeserialize
  exact (renderItems_loop S d (sizeMemberOf d) (ownFields d) {} {} rfl rfl rfl).symm

/-- the body of `deserialize` / `_deserialize`: prologue, the rendered member statements, epilogue -/
theorem deserializeBody_eq (S : Schema) (ty : String) (d : StructDef) :
    deserializeBody S ty d =
      ((if d.abstract then (if (ownSizeMember d).isSome then [] else ["size_ = len(buffer)"])
        else ["buffer = memoryview(payload)", "instance = " ++ ty ++ "()"]) ++
       (match d.base with
        | some b => ["(window_start, window_end) = " ++ b ++ "._deserialize(buffer, instance)", "buffer = buffer[window_start:window_end]"]
        | none => [])) ++
      renderItems (emitDeserialize S d) ++ ["", "# pylint: disable=protected-access"] ++
      ((nonReservedOwn d).map fun f => "instance._" ++ printerName f.name ++ " = " ++ printerName f.name) ++
      [if d.abstract then "return (" ++ sizeLocal d ++ " - len(buffer), " ++ sizeLocal d ++ ")" else "return instance"] := by
  rw [renderItems_emitDeserialize]
  unfold deserializeBody
  cases d.base <;> rfl

end SymbolVerif.Codec

/-
Emitted `deserialize`, semantics part 6: the run over the members of a class when members may be laid out before
their discriminant. `SimQ` extends `Sim` with the generator's loop state and the union parked in the temporary
buffer; `decFrom_simQ` is the simulation.
-/
import SymbolVerif.Proofs.Codec.EmissionDesUnion
import SymbolVerif.Proofs.Codec.DedProg
namespace SymbolVerif.Codec
open SymbolVerif.Bytes

/-- the union parked in the temporary buffer: its discriminant and its members so far -/
abbrev PendQ := Option (String × List Field)

def pendList : PendQ → List Field
  | none => []
  | some (_, G) => G

/-- the emitted program's state, the decoder's state and the generator's loop state after the members `full`:
    `base` read by the base class, `pre` read in this scope (they have locals), `pendList pend` parked -/
structure SimQ (S : Schema) (d : StructDef) (sm : Option String) (σ : PyState) (st : DecState) (ast : DesAstState)
    (full base pre : List Field) (pend : PendQ) : Prop where
  sim : Sim σ st base pre
  mem : ∀ x, x ∈ full ↔ (x ∈ base ∨ x ∈ pre ∨ x ∈ pendList pend)
  procIn : ∀ n ∈ ast.processed, ∃ x ∈ pre, x.name = n
  procUn : ∀ x ∈ pre, x.cond = none → x.name ∈ ast.processed
  resolved : ∀ x ∈ pre, ∀ c, x.cond = some c → (lookupField full c.field).isSome = true
  baseUn : ∀ x ∈ base, x.cond = none
  stale : ∀ q ∈ ast.queued, q.1 ∈ ast.processed ∨ pend = some q
  sep : ∀ q ∈ pendList pend, ∀ x ∈ base ++ pre, x.name ≠ q.name
  gd : allDistinct ((pendList pend).map (·.name)) = true
  qnone : pend = none → st.queued = []
  qsome : ∀ dn G, pend = some (dn, G) →
    (∃ temp, st.queued = [(dn, temp, G)] ∧ σ.getBuf (dn ++ "_condition") = .ok temp) ∧
    ast.queued.find? (·.1 == dn) = some (dn, G) ∧ G ≠ [] ∧ (∀ q ∈ G, ParkedOk S d sm dn q) ∧
    (∀ x ∈ full, x.name ≠ dn) ∧ (∃ g ∈ d.fields, g.name = dn ∧ g.cond = none)

theorem refOk_some {pre : List Field} {n : String} {p : FK → Bool} (h : refOk pre n p = true) :
    ∃ g, lookupField pre n = some g ∧ g.cond = none ∧ p g.kind = true := by
  unfold refOk at h
  cases hl : lookupField pre n with
  | none => simp [hl] at h
  | some g =>
    simp only [hl, Bool.and_eq_true, Option.isNone_iff_eq_none] at h
    exact ⟨g, rfl, h.1, h.2⟩

/-- a name looked up among all members read so far is found among those in scope, if it is there at all -/
theorem lookup_pre {full pre : List Field} (hnd : allDistinct (full.map (·.name)) = true) (hsub : ∀ x ∈ pre, x ∈ full)
    {n : String} (h : lookupField full n = none ∨ ∃ g, lookupField full n = some g ∧ g ∈ pre) :
    lookupField full n = lookupField pre n := by
  rcases h with h | ⟨g, hl, hg⟩
  · rw [h]
    exact (lookupField_eq_none (fun x hx => lookupField_none h x (hsub x hx))).symm
  · rw [hl]
    obtain ⟨hgm, hgn⟩ := lookupField_some hl
    cases hp : lookupField pre n with
    | none => exact absurd hgn (lookupField_none hp g hg)
    | some g' =>
      obtain ⟨hgm', hgn'⟩ := lookupField_some hp
      rw [eq_of_name_eq hnd hgm (hsub g' hgm') (by rw [hgn, hgn'])]

/-- the members a member's statements mention are unconditional members read before it, or not read yet -/
theorem refs_unconditional {S : Schema} {d : StructDef} {full rest : List Field} {f : Field} {isLast : Bool}
    (hwf : wfFieldAt S d full f isLast = true) (hcov : condCovered S full f rest = true) :
    ∀ n ∈ refsOf f, lookupField full n = none ∨ ∃ g, lookupField full n = some g ∧ g.cond = none := by
  intro n hn
  unfold refsOf at hn
  rcases List.mem_append.mp hn with hn | hn
  · cases hc : f.cond with
    | none => simp [hc] at hn
    | some c =>
      simp only [hc, List.mem_singleton] at hn
      subst hn
      unfold condCovered at hcov
      simp only [hc] at hcov
      cases hl : lookupField full c.field with
      | none => exact Or.inl rfl
      | some g =>
        simp only [hl, Option.isSome_some, if_true] at hcov
        obtain ⟨g', hl', hgc, -⟩ := refOk_some hcov
        rw [hl] at hl'
        cases hl'
        exact Or.inr ⟨g, rfl, hgc⟩
  · unfold wfFieldAt at hwf
    cases hk : f.kind with
    | barray sf =>
      simp only [hk, List.mem_singleton] at hn hwf
      subst hn
      obtain ⟨g, hl, hgc, -⟩ := refOk_some hwf
      exact Or.inr ⟨g, hl, hgc⟩
    | array elem mode al pl key =>
      cases mode with
      | count cf =>
        simp only [hk, List.mem_singleton, Bool.and_eq_true] at hn hwf
        subst hn
        obtain ⟨g, hl, hgc, -⟩ := refOk_some hwf.2.2
        exact Or.inr ⟨g, hl, hgc⟩
      | sized sf =>
        simp only [hk, List.mem_singleton, Bool.and_eq_true] at hn hwf
        subst hn
        obtain ⟨g, hl, hgc, -⟩ := refOk_some hwf.2.2
        exact Or.inr ⟨g, hl, hgc⟩
      | fill => simp [hk] at hn
    | ref ty lim =>
      cases lim with
      | none => simp [hk] at hn
      | some l =>
        simp only [hk, List.mem_singleton] at hn hwf
        subst hn
        obtain ⟨g, hl, hgc, -⟩ := refOk_some hwf
        exact Or.inr ⟨g, hl, hgc⟩
    | _ => simp [hk] at hn

/-- a member laid out before its discriminant is a plain reference to a named type -/
theorem forward_kind {S : Schema} {full rest : List Field} {f : Field} {c : Cond} (hc : f.cond = some c)
    (hcov : condCovered S full f rest = true) (hl : lookupField full c.field = none) : ∃ t, f.kind = .ref t none := by
  unfold condCovered at hcov
  simp only [hc, hl, Option.isSome_none, Bool.false_eq_true, if_false, Bool.and_eq_true] at hcov
  have h2 := hcov.2
  have hw : (refWidth S f).isSome = true ∨ headTypeOk S f = true := by
    cases hg : full.getLast? with
    | none =>
      simp only [hg, Bool.false_eq_true, if_false, Bool.and_eq_true] at h2
      exact Or.inr h2.1
    | some g =>
      simp only [hg] at h2
      by_cases hco : condOn c.field g = true
      · simp only [hco, if_true, Bool.and_eq_true] at h2; exact Or.inl h2.1
      · simp only [hco, Bool.false_eq_true, if_false, Bool.and_eq_true] at h2; exact Or.inr h2.1
  rcases hw with hw | hw
  · unfold refWidth at hw
    cases hk : f.kind with
    | ref t lim =>
      cases lim with
      | none => exact ⟨t, rfl⟩
      | some l => simp [hk] at hw
    | _ => simp [hk] at hw
  · unfold headTypeOk at hw
    cases hk : f.kind with
    | ref t lim =>
      cases lim with
      | none => exact ⟨t, rfl⟩
      | some l => simp [hk] at hw
    | _ => simp [hk] at hw

theorem getBuf_cond_of_bufs {σ1 σ : PyState} (h : σ1.bufs = σ.bufs) (dn : String) :
    σ1.getBuf (dn ++ "_condition") = σ.getBuf (dn ++ "_condition") := by
  unfold PyState.getBuf
  simp only [condition_ne_buffer, Bool.false_eq_true, if_false, h]

section
variable {S : Schema} {d : StructDef} {sm : Option String}

/-- after a member that is read at once and is not the discriminant of the parked union -/
theorem SimQ.read {σ σ1 : PyState} {st st1 : DecState} {ast : DesAstState} {full base pre : List Field} {pend : PendQ}
    (hQ : SimQ S d sm σ st ast full base pre pend) {f : Field} (hS1 : Sim σ1 st1 base (pre ++ [f]))
    (hq : st1.queued = st.queued) (hb : σ1.bufs = σ.bufs) (hnefull : ∀ x ∈ full, x.name ≠ f.name)
    (hres : ∀ c, f.cond = some c → (lookupField full c.field).isSome = true)
    (hdn : ∀ dn G, pend = some (dn, G) → f.name ≠ dn) :
    SimQ S d sm σ1 st1 (astRead S d sm f ast) (full ++ [f]) base (pre ++ [f]) pend := by
  refine ⟨hS1, ?_, ?_, ?_, ?_, hQ.baseUn, ?_, ?_, hQ.gd, ?_, ?_⟩
  · intro x
    simp only [List.mem_append, List.mem_singleton, hQ.mem x]
    constructor
    · intro h
      rcases h with h | h
      · rcases h with h | h | h
        · exact Or.inl h
        · exact Or.inr (Or.inl (Or.inl h))
        · exact Or.inr (Or.inr h)
      · exact Or.inr (Or.inl (Or.inr h))
    · intro h
      rcases h with h | h | h
      · exact Or.inl (Or.inl h)
      · rcases h with h | h
        · exact Or.inl (Or.inr (Or.inl h))
        · exact Or.inr h
      · exact Or.inl (Or.inr (Or.inr h))
  · intro n hn
    simp only [astRead, List.mem_append, List.mem_singleton] at hn
    rcases hn with hn | hn
    · obtain ⟨x, hx, hxn⟩ := hQ.procIn n hn
      exact ⟨x, List.mem_append_left _ hx, hxn⟩
    · exact ⟨f, by simp, hn.symm⟩
  · intro x hx hc
    simp only [astRead, List.mem_append, List.mem_singleton]
    rcases List.mem_append.mp hx with hx | hx
    · exact Or.inl (hQ.procUn x hx hc)
    · simp only [List.mem_singleton] at hx; subst hx; exact Or.inr rfl
  · intro x hx c hc
    apply lookupField_isSome_append
    rcases List.mem_append.mp hx with hx | hx
    · exact hQ.resolved x hx c hc
    · simp only [List.mem_singleton] at hx; subst hx; exact hres c hc
  · intro q hq'
    rcases hQ.stale q hq' with h | h
    · exact Or.inl (by simp only [astRead, List.mem_append]; exact Or.inl h)
    · exact Or.inr h
  · intro q hq' x hx
    rw [← List.append_assoc] at hx
    rcases List.mem_append.mp hx with hx | hx
    · exact hQ.sep q hq' x hx
    · simp only [List.mem_singleton] at hx
      subst hx
      exact fun hh => hnefull q ((hQ.mem q).mpr (Or.inr (Or.inr hq'))) hh.symm
  · intro hp; rw [hq]; exact hQ.qnone hp
  · intro dn G hp
    obtain ⟨⟨temp, h1, h2⟩, h3, h4, h5, h6, h7⟩ := hQ.qsome dn G hp
    refine ⟨⟨temp, by rw [hq]; exact h1, by rw [getBuf_cond_of_bufs hb]; exact h2⟩, h3, h4, h5, ?_, h7⟩
    intro x hx
    rcases List.mem_append.mp hx with hx | hx
    · exact h6 x hx
    · simp only [List.mem_singleton] at hx; subst hx; exact hdn dn G hp

/-- `Sim` only looks at the buffer and the environment of the decoder state -/
theorem Sim.congr {σ : PyState} {st st' : DecState} {hid pre : List Field} (h : Sim σ st hid pre)
    (hb : st'.buf = st.buf) (he : st'.env = st.env) : Sim σ st' hid pre :=
  ⟨by rw [hb]; exact h.buf, by rw [he]; exact h.loc, by rw [he]; exact h.nonneg, by rw [he]; exact h.names,
    by rw [he]; exact h.has⟩

/-- after a further member of the parked union -/
theorem SimQ.follow {σ : PyState} {st : DecState} {ast : DesAstState} {full base pre : List Field} {dn : String}
    {G : List Field} (hQ : SimQ S d sm σ st ast full base pre (some (dn, G))) {f : Field} (hpk : ParkedOk S d sm dn f)
    (hnefull : ∀ x ∈ full, x.name ≠ f.name) (hfdn : f.name ≠ dn) :
    SimQ S d sm σ { st with queued := st.queued.map fun q => if q.1 == dn then (q.1, q.2.1, q.2.2 ++ [f]) else q }
      (DesAstState.mk ast.items ast.processed (ast.queued.map fun q => if q.1 == dn then (q.1, q.2 ++ [f]) else q))
      (full ++ [f]) base pre (some (dn, G ++ [f])) := by
  obtain ⟨⟨temp, h1, h2⟩, h3, h4, h5, h6, h7⟩ := hQ.qsome dn G rfl
  refine ⟨hQ.sim.congr rfl rfl, ?_, hQ.procIn, hQ.procUn, ?_, hQ.baseUn, ?_, ?_, ?_, ?_, ?_⟩
  · intro x
    simp only [List.mem_append, List.mem_singleton, hQ.mem x, pendList]
    constructor
    · intro h
      rcases h with h | h
      · rcases h with h | h | h
        · exact Or.inl h
        · exact Or.inr (Or.inl h)
        · exact Or.inr (Or.inr (Or.inl h))
      · exact Or.inr (Or.inr (Or.inr h))
    · intro h
      rcases h with h | h | h
      · exact Or.inl (Or.inl h)
      · exact Or.inl (Or.inr (Or.inl h))
      · rcases h with h | h
        · exact Or.inl (Or.inr (Or.inr h))
        · exact Or.inr h
  · intro x hx c hc
    exact lookupField_isSome_append (hQ.resolved x hx c hc)
  · intro q' hq'
    simp only [List.mem_map] at hq'
    obtain ⟨q, hq, rfl⟩ := hq'
    by_cases hqd : (q.1 == dn) = true
    · simp only [hqd, if_true]
      rcases hQ.stale q hq with h | h
      · exfalso
        obtain ⟨x, hx, hxn⟩ := hQ.procIn _ h
        simp only [beq_iff_eq] at hqd
        exact h6 x ((hQ.mem x).mpr (Or.inr (Or.inl hx))) (by rw [hxn, hqd])
      · simp only [Option.some.injEq] at h
        subst h
        exact Or.inr rfl
    · simp only [hqd, Bool.false_eq_true, if_false]
      rcases hQ.stale q hq with h | h
      · exact Or.inl h
      · simp only [Option.some.injEq] at h
        subst h
        simp at hqd
  · intro q hq x hx
    simp only [pendList, List.mem_append, List.mem_singleton] at hq
    rcases hq with hq | hq
    · exact hQ.sep q hq x hx
    · subst hq
      apply hnefull x
      rcases List.mem_append.mp hx with hx | hx
      · exact (hQ.mem x).mpr (Or.inl hx)
      · exact (hQ.mem x).mpr (Or.inr (Or.inl hx))
  · exact allDistinct_snoc_names G f hQ.gd (fun m hm => hnefull m ((hQ.mem m).mpr (Or.inr (Or.inr hm))))
  · intro h; cases h
  · intro dn' G' hp
    simp only [Option.some.injEq, Prod.mk.injEq] at hp
    obtain ⟨rfl, rfl⟩ := hp
    refine ⟨⟨temp, by simp [h1], h2⟩, ?_, by simp, ?_, ?_, h7⟩
    · rw [List.find?_map]
      have : ((fun (x : String × List Field) => x.1 == dn) ∘ fun q => if (q.1 == dn) = true then (q.1, q.2 ++ [f]) else q) =
          fun x => x.1 == dn := by
        funext q
        simp only [Function.comp]
        split <;> rfl
      rw [this, h3]
      simp
    · intro q hq
      rcases List.mem_append.mp hq with hq | hq
      · exact h5 q hq
      · simp only [List.mem_singleton] at hq; subst hq; exact hpk
    · intro x hx
      rcases List.mem_append.mp hx with hx | hx
      · exact h6 x hx
      · simp only [List.mem_singleton] at hx; subst hx; exact hfdn

/-- after the first member of a union laid out before its discriminant -/
theorem SimQ.park {σ : PyState} {st : DecState} {ast : DesAstState} {full base pre : List Field}
    (hQ : SimQ S d sm σ st ast full base pre none) {f : Field} {cf : String} (hpk : ParkedOk S d sm cf f)
    (hnefull : ∀ x ∈ full, x.name ≠ f.name) (hfdn : f.name ≠ cf) (hcf : ∀ x ∈ full, x.name ≠ cf)
    (hdisc : ∃ g ∈ d.fields, g.name = cf ∧ g.cond = none) (adv : Nat) (item : DesItem) :
    SimQ S d sm { σ with buffer := σ.buffer.drop adv, bufs := (cf ++ "_condition", σ.buffer.take adv) :: σ.bufs }
      { st with buf := st.buf.drop adv, queued := st.queued ++ [(cf, st.buf.take adv, [f])] }
      (DesAstState.mk (ast.items ++ [item]) ast.processed (ast.queued ++ [(cf, [f])]))
      (full ++ [f]) base pre (some (cf, [f])) := by
  have hqn := hQ.qnone rfl
  have hallstale : ∀ q ∈ ast.queued, q.1 ∈ ast.processed := by
    intro q hq
    rcases hQ.stale q hq with h | h
    · exact h
    · cases h
  have hfindnone : ast.queued.find? (·.1 == cf) = none := by
    rw [List.find?_eq_none]
    intro q hq hqc
    simp only [beq_iff_eq] at hqc
    obtain ⟨x, hx, hxn⟩ := hQ.procIn _ (hallstale q hq)
    exact hcf x ((hQ.mem x).mpr (Or.inr (Or.inl hx))) (by rw [hxn, hqc])
  refine ⟨⟨?_, hQ.sim.loc, hQ.sim.nonneg, hQ.sim.names, hQ.sim.has⟩, ?_, hQ.procIn, hQ.procUn, ?_, hQ.baseUn, ?_, ?_, ?_,
    ?_, ?_⟩
  · show σ.buffer.drop adv = st.buf.drop adv
    rw [hQ.sim.buf]
  · intro x
    simp only [List.mem_append, List.mem_singleton, hQ.mem x, pendList, List.not_mem_nil, or_false]
    constructor
    · intro h
      rcases h with h | h
      · rcases h with h | h
        · exact Or.inl h
        · exact Or.inr (Or.inl h)
      · exact Or.inr (Or.inr h)
    · intro h
      rcases h with h | h | h
      · exact Or.inl (Or.inl h)
      · exact Or.inl (Or.inr h)
      · exact Or.inr h
  · intro x hx c hc
    exact lookupField_isSome_append (hQ.resolved x hx c hc)
  · intro q hq
    rcases List.mem_append.mp hq with hq | hq
    · exact Or.inl (hallstale q hq)
    · simp only [List.mem_singleton] at hq; subst hq; exact Or.inr rfl
  · intro q hq x hx
    simp only [pendList, List.mem_singleton] at hq
    subst hq
    apply hnefull x
    rcases List.mem_append.mp hx with hx | hx
    · exact (hQ.mem x).mpr (Or.inl hx)
    · exact (hQ.mem x).mpr (Or.inr (Or.inl hx))
  · simp [pendList, allDistinct]
  · intro h; cases h
  · intro dn' G' hp
    simp only [Option.some.injEq, Prod.mk.injEq] at hp
    obtain ⟨rfl, rfl⟩ := hp
    refine ⟨⟨st.buf.take adv, by simp [hqn], ?_⟩, ?_, by simp, ?_, ?_, hdisc⟩
    · unfold PyState.getBuf
      simp [condition_ne_buffer, hQ.sim.buf]
    · rw [List.find?_append, hfindnone]
      simp
    · intro q hq
      simp only [List.mem_singleton] at hq; subst hq; exact hpk
    · intro x hx
      rcases List.mem_append.mp hx with hx | hx
      · exact hcf x hx
      · simp only [List.mem_singleton] at hx; subst hx; exact hfdn

/-- after the discriminant of the parked union and the members read back from the temporary buffer -/
theorem SimQ.flush {σ σ2 : PyState} {st st2 : DecState} {ast : DesAstState} {full base pre : List Field} {dn : String}
    {G : List Field} (hQ : SimQ S d sm σ st ast full base pre (some (dn, G))) {f : Field} (hfdn : f.name = dn)
    (hfc : f.cond = none) (hS2 : Sim σ2 st2 base (pre ++ [f] ++ G)) (hq2 : st2.queued = []) :
    SimQ S d sm σ2 st2 (astRead S d sm f ast) (full ++ [f]) base (pre ++ [f] ++ G) none := by
  obtain ⟨-, h3, h4, h5, h6, h7⟩ := hQ.qsome dn G rfl
  refine ⟨hS2, ?_, ?_, ?_, ?_, hQ.baseUn, ?_, ?_, ?_, fun _ => hq2, ?_⟩
  · intro x
    simp only [List.mem_append, List.mem_singleton, hQ.mem x, pendList, List.not_mem_nil, or_false]
    constructor
    · intro h
      rcases h with h | h
      · rcases h with h | h | h
        · exact Or.inl h
        · exact Or.inr (Or.inl (Or.inl h))
        · exact Or.inr (Or.inr h)
      · exact Or.inr (Or.inl (Or.inr h))
    · intro h
      rcases h with h | h
      · exact Or.inl (Or.inl h)
      · rcases h with h | h
        · rcases h with h | h
          · exact Or.inl (Or.inr (Or.inl h))
          · exact Or.inr h
        · exact Or.inl (Or.inr (Or.inr h))
  · intro n hn
    simp only [astRead, List.mem_append, List.mem_singleton] at hn
    rcases hn with hn | hn
    · obtain ⟨x, hx, hxn⟩ := hQ.procIn n hn
      exact ⟨x, by simp [hx], hxn⟩
    · exact ⟨f, by simp, hn.symm⟩
  · intro x hx hc
    simp only [astRead, List.mem_append, List.mem_singleton]
    simp only [List.mem_append, List.mem_singleton] at hx
    rcases hx with (hx | hx) | hx
    · exact Or.inl (hQ.procUn x hx hc)
    · subst hx; exact Or.inr rfl
    · obtain ⟨c, hcc, -⟩ := (h5 x hx).cond
      rw [hc] at hcc; cases hcc
  · intro x hx c hc
    simp only [List.mem_append, List.mem_singleton] at hx
    rcases hx with (hx | hx) | hx
    · exact lookupField_isSome_append (hQ.resolved x hx c hc)
    · subst hx
      rw [hfc] at hc; cases hc
    · obtain ⟨c', hcc, hcf⟩ := (h5 x hx).cond
      rw [hc] at hcc
      simp only [Option.some.injEq] at hcc
      subst hcc
      rw [hcf, ← hfdn]
      exact lookupField_isSome_of_mem (by simp)
  · intro q hq
    rcases hQ.stale q hq with h | h
    · exact Or.inl (by simp only [astRead, List.mem_append]; exact Or.inl h)
    · simp only [Option.some.injEq] at h
      subst h
      exact Or.inl (by simp [astRead, hfdn])
  · intro q hq; cases hq
  · rfl
  · intro dn' G' h; cases h

end

end SymbolVerif.Codec

/-
Decode-encode direction, part 13: the decoded object is admissible; summary for one struct object.
-/
import SymbolVerif.Proofs.Codec.DedEnc
namespace SymbolVerif.Codec
open SymbolVerif.Bytes

theorem admUnionsFrom_of_early (r : Rec) (d : StructDef) (vs : List (String × Val)) (fs : List Field) :
    ∀ pre, earlyFrom pre fs = true → admUnionsFrom r d vs pre fs = true := by
  induction fs with
  | nil => intro _ _; rfl
  | cons f rest ih =>
    intro pre h
    simp only [earlyFrom, Bool.and_eq_true] at h
    simp only [admUnionsFrom, Bool.and_eq_true]
    refine ⟨?_, ih _ h.2⟩
    unfold admUnion unionHead
    cases hc : f.cond with
    | none => rfl
    | some c =>
      have := h.1
      simp only [hc] at this
      simp [this]

section
variable {S : Schema} {T : String → Bytes → Bytes} {g fa : String → Val → Bool} {r : Rec}
variable {name : String} {d : StructDef} {E vs : List (String × Val)}

theorem DedStruct.admMember_ok (h : DedStruct S T g fa r name d E vs) {f : Field} (hf : f ∈ d.fields) :
    admMember g vs f = true := by
  unfold admMember
  cases hk : f.kind with
  | ref ty lim =>
    cases hvs : Val.get vs f.name with
    | none => rfl
    | some v =>
      simp only [Bool.or_eq_true]
      by_cases hnn : v.isNone = true
      · exact .inl hnn
      · have hnn' : v.isNone = false := by simpa using hnn
        have hv : Val.get E f.name = some v := by
          rw [← h.carried hf (by simp [hk, FK.carries])]; exact hvs
        have hps := h.present_spec hf hv hnn'
        unfold PaySpec at hps
        simp only [hk] at hps
        exact .inr (h.memberRef hf hk hvs hps).2.1
  | array elem mode al pl key =>
    cases hvs : Val.get vs f.name with
    | none => rfl
    | some v =>
      cases v with
      | arr l =>
        simp only [List.all_eq_true]
        have hv : Val.get E f.name = some (.arr l) := by
          rw [← h.carried hf (by simp [hk, FK.carries])]; exact hvs
        have hps := h.present_spec hf hv rfl
        unfold PaySpec at hps
        simp only [hk] at hps
        obtain ⟨l', hl', -, hfrom, -⟩ := hps
        simp only [Val.arr.injEq] at hl'
        subst hl'
        exact fun e he => (h.memberArr hf hk hvs hfrom e he).1
      | _ => rfl
  | _ => rfl

/-- a struct object that came out of `deserialize`: it has the right shape, is admissible and encodes -/
theorem DedStruct.summary (h : DedStruct S T g fa r name d E vs) :
    shapeOk d vs = true ∧ okStruct S r g d vs = true ∧ ∃ b, encStruct S T r d vs = .ok b := by
  refine ⟨h.shape, ?_, h.encFrom_ok d.fields (fun _ hf => hf)⟩
  unfold okStruct
  simp only [Bool.and_eq_true, List.all_eq_true]
  refine ⟨fun f hf => ⟨?_, h.admMember_ok hf⟩, admUnionsFrom_of_early r d vs d.fields [] h.early⟩
  obtain ⟨_, _, _, _, hadm, _⟩ := h.cond_ok hf
  exact hadm

end
end SymbolVerif.Codec

/-
Decode-encode direction, part 13: the decoded object is admissible; summary for one struct object.
-/
import SymbolVerif.Proofs.Codec.DedEnc
namespace SymbolVerif.Codec
open SymbolVerif.Bytes

theorem mem_of_mem_takeWhile' {α : Type} {p : α → Bool} {l : List α} {x : α} (h : x ∈ l.takeWhile p) : x ∈ l := by
  induction l with
  | nil => cases h
  | cons a l ih =>
    rw [List.takeWhile_cons] at h
    split at h
    · rcases List.mem_cons.mp h with rfl | h'
      · simp
      · exact List.mem_cons_of_mem _ (ih h')
    · cases h

theorem unionHead_some {pre : List Field} {f : Field} {dn : String} (h : unionHead pre f = some dn) :
    ∃ c, f.cond = some c ∧ c.field = dn := by
  unfold unionHead at h
  cases hc : f.cond with
  | none => simp [hc] at h
  | some c =>
    simp only [hc] at h
    by_cases h1 : (lookupField pre c.field).isSome = true
    · simp [h1] at h
    · cases hgl : pre.getLast? with
      | none =>
        simp [h1, hgl] at h
        exact ⟨c, rfl, h⟩
      | some gl =>
        by_cases h2 : condOn c.field gl = true
        · simp [h1, hgl, h2] at h
        · simp [h1, hgl, h2] at h
          exact ⟨c, rfl, h⟩

theorem count_one (a : Int) (G : List Field) (hd : distinctInts (G.map condValue) = true)
    (ha : G.any (fun m => condValue m == a) = true) : G.countP (fun m => condValue m == a) = 1 := by
  induction G with
  | nil => simp at ha
  | cons m ms ih =>
    simp only [List.map_cons, distinctInts, Bool.and_eq_true, Bool.not_eq_true', List.contains_eq_mem,
      decide_eq_false_iff_not] at hd
    rw [List.countP_cons]
    by_cases hm : condValue m = a
    · have hzero : ms.countP (fun m => condValue m == a) = 0 := by
        rw [List.countP_eq_zero]
        intro x hx hxa
        simp only [beq_iff_eq] at hxa
        exact hd.1 (by rw [hm, ← hxa]; exact List.mem_map_of_mem (f := condValue) hx)
      simp [hm, hzero]
    · have hne : (condValue m == a) = false := by simp [hm]
      simp only [List.any_cons, hne, Bool.false_or] at ha
      simp [hne, ih hd.2 ha]

section
variable {S : Schema} {T : String → Bytes → Bytes} {g fa : String → Val → Bool} {r : Rec}
variable {name : String} {d : StructDef} {E vs : List (String × Val)}

/-- of a union laid out before its discriminant exactly one member is present in a decoded object -/
theorem DedStruct.union_ok (h : DedStruct S T g fa r name d E vs) {pre rest : List Field} {f : Field}
    (hsplit : d.fields = pre ++ f :: rest) (hw : wfdUnion S pre f rest = true) :
    admUnion r d vs pre f rest = true := by
  unfold admUnion
  unfold wfdUnion at hw
  cases huh : unionHead pre f with
  | none => rfl
  | some dn =>
    simp only [huh, Bool.and_eq_true] at hw ⊢
    obtain ⟨⟨hall, hdist⟩, hdnf⟩ := hw
    have hfd : f ∈ d.fields := by rw [hsplit]; simp
    -- `f` is guarded by a condition on `dn`
    obtain ⟨c, hc, hcf⟩ := unionHead_some huh
    -- every member of the union
    have hG : ∀ m ∈ f :: rest.takeWhile (condOn dn), m ∈ d.fields ∧ ∃ cm, m.cond = some cm ∧ cm.field = dn := by
      intro m hm
      rcases List.mem_cons.mp hm with rfl | hm
      · exact ⟨hfd, c, hc, hcf⟩
      · refine ⟨by rw [hsplit]; exact List.mem_append_right _ (List.mem_cons_of_mem _ (mem_of_mem_takeWhile' hm)), ?_⟩
        have := mem_takeWhile_imp' hm
        unfold condOn at this
        cases hcm : m.cond with
        | none => simp [hcm] at this
        | some cm => exact ⟨cm, rfl, by simpa [hcm] using this⟩
    -- the discriminant and its value
    obtain ⟨vf, -, hsf⟩ := h.spec f hfd
    simp only [hc] at hsf
    obtain ⟨a, -, ha, -, -⟩ := hsf
    obtain ⟨gk, hl, hgd, hgn, hgc, -, hEg, -⟩ := h.disc hfd hc ha
    rw [hcf] at ha hl hgn
    cases hlr : lookupField rest dn with
    | none => simp [hlr] at hdnf
    | some dnf =>
      simp only [hlr] at hdnf
      obtain ⟨hdm, hdn'⟩ := lookupField_some hlr
      have hdd : dnf ∈ d.fields := by rw [hsplit]; simp [hdm]
      have : dnf = gk := eq_of_name_eq h.wf.names hdd hgd (by rw [hdn', hgn])
      subst this
      cases hkd : dnf.kind with
      | ref te lim =>
        simp only [hkd] at hdnf
        cases hfe : S.find te with
        | none => simp [hfe] at hdnf
        | some td =>
          cases td with
          | enum w s bw ms =>
            cases bw with
            | true => simp [hfe] at hdnf
            | false =>
              simp only [hfe, List.all_eq_true] at hdnf
              -- the discriminant value is a member of the enum
              obtain ⟨vd, hvd, hsd⟩ := h.spec dnf hdd
              simp only [hgc] at hsd
              unfold PaySpec at hsd
              simp only [hkd] at hsd
              rw [hEg] at hvd
              simp only [Option.some.injEq] at hvd
              subst hvd
              obtain ⟨view, hview⟩ := hsd
              obtain ⟨i, hi, hadm⟩ := h.ctx.enumOk te view _ w s false ms hview hfe
              simp only [Val.int.injEq] at hi
              subst hi
              unfold enumAdmits at hadm
              simp only [Bool.false_eq_true, if_false, List.any_eq_true, beq_iff_eq] at hadm
              obtain ⟨nv, hnv, hnva⟩ := hadm
              have hany : (f :: rest.takeWhile (condOn dn)).any (fun m => condValue m == a) = true := by
                have := hdnf nv hnv
                rw [hnva] at this
                exact this
              -- presence of a member is `its value == a`
              have hpres : ∀ m ∈ f :: rest.takeWhile (condOn dn), isPresent r d vs m = (condValue m == a) := by
                intro m hm
                obtain ⟨hmd, cm, hcm, hcmf⟩ := hG m hm
                have hallm := List.all_eq_true.mp hall m hm
                simp only [hcm, Bool.and_eq_true, beq_iff_eq, Bool.not_eq_true'] at hallm
                obtain ⟨vm, hvm, hsm⟩ := h.spec m hmd
                simp only [hcm] at hsm
                obtain ⟨a', pd, ha', hpd, hbody⟩ := hsm
                have : a' = a := by
                  rw [hcmf, ha] at ha'
                  simp only [Except.ok.injEq] at ha'
                  exact ha'.symm
                subst this
                obtain ⟨hco, -⟩ := h.cond_other hmd hcm hallm.2 hvm ha' hpd hbody
                rw [isPresent_of hco]
                unfold condHolds at hpd
                simp only [hallm.1, Except.ok.injEq] at hpd
                rw [← hpd]
                unfold condValue
                simp [hcm]
              rw [List.countP_congr (fun m hm => by rw [hpres m hm])]
              simp [count_one a _ hdist hany]
          | _ => simp [hfe] at hdnf
      | _ => simp [hkd] at hdnf

theorem DedStruct.unions_ok (h : DedStruct S T g fa r name d E vs) (fs : List Field) : ∀ pre,
    d.fields = pre ++ fs → wfdUnionsFrom S pre fs = true → admUnionsFrom r d vs pre fs = true := by
  induction fs with
  | nil => intro _ _ _; rfl
  | cons f rest ih =>
    intro pre hsplit hw
    simp only [wfdUnionsFrom, Bool.and_eq_true] at hw
    simp only [admUnionsFrom, Bool.and_eq_true]
    exact ⟨h.union_ok hsplit hw.1, ih (pre ++ [f]) (by rw [hsplit]; simp) hw.2⟩

theorem DedStruct.admMember_ok (h : DedStruct S T g fa r name d E vs) {f : Field} (hf : f ∈ d.fields) :
    admMember g vs f = true := by
  unfold admMember
  cases hk : f.kind with
  | ref ty lim =>
    cases hvs : Val.get vs f.name with
    | none => rfl
    | some v =>
      simp only [Bool.or_eq_true]
      by_cases hnn : v.isNone = true
      · exact .inl hnn
      · have hnn' : v.isNone = false := by simpa using hnn
        have hv : Val.get E f.name = some v := by
          rw [← h.carried hf (by simp [hk, FK.carries])]; exact hvs
        have hps := h.present_spec hf hv hnn'
        unfold PaySpec at hps
        simp only [hk] at hps
        exact .inr (h.memberRef hf hk hvs hps).2.1
  | array elem mode al pl key =>
    cases hvs : Val.get vs f.name with
    | none => rfl
    | some v =>
      cases v with
      | arr l =>
        simp only [List.all_eq_true]
        have hv : Val.get E f.name = some (.arr l) := by
          rw [← h.carried hf (by simp [hk, FK.carries])]; exact hvs
        have hps := h.present_spec hf hv rfl
        unfold PaySpec at hps
        simp only [hk] at hps
        obtain ⟨l', hl', -, hfrom, -⟩ := hps
        simp only [Val.arr.injEq] at hl'
        subst hl'
        exact fun e he => (h.memberArr hf hk hvs hfrom e he).1
      | _ => rfl
  | _ => rfl

/-- a struct object that came out of `deserialize`: it has the right shape, is admissible and encodes -/
theorem DedStruct.summary (h : DedStruct S T g fa r name d E vs) :
    shapeOk d vs = true ∧ okStruct S r g d vs = true ∧ ∃ b, encStruct S T r d vs = .ok b := by
  refine ⟨h.shape, ?_, h.encFrom_ok d.fields (fun _ hf => hf)⟩
  unfold okStruct
  simp only [Bool.and_eq_true, List.all_eq_true]
  refine ⟨fun f hf => ⟨?_, h.admMember_ok hf⟩, h.unions_ok d.fields [] (by simp) h.wfdUnions⟩
  obtain ⟨_, _, _, _, hadm, _⟩ := h.cond_ok hf
  exact hadm

end
end SymbolVerif.Codec

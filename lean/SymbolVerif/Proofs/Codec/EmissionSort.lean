/-
The emitted `sort` method: its text is the rendering of `emitSort`, and running it on an object gives the model's
`sortStructStep` (Render.lean).
-/
import SymbolVerif.Model.Codec.EmissionSort
import SymbolVerif.Proofs.Codec.EmissionClass
namespace SymbolVerif.Codec
open SymbolVerif.Bytes

theorem render_sortAst (S : Schema) (f : Field) : (sortAst S f).map SortStmt.render = sortStatement S f := by
  unfold sortAst sortStatement
  cases hk : f.kind with
  | array elem mode al pl key =>
    cases key with
    | none => rfl
    | some k => simp [SortStmt.render, selfName, hk, FK.isComputed]
  | ref ty lim =>
    simp only
    cases hS : S.find ty with
    | none => rfl
    | some t => cases t <;> simp [SortStmt.render, selfName, hk, FK.isComputed]
  | _ => rfl

/-- the text of the `sort` method is the rendering of the abstract statements -/
theorem renderSort_emitSort (S : Schema) (d : StructDef) : renderSort (emitSort S d) = sortBody S d := by
  unfold renderSort emitSort sortBody
  have : (d.fields.filterMap (sortStmtOf S d)).flatMap GSortStmt.render = d.fields.flatMap (sortFieldLines S d) := by
    induction d.fields with
    | nil => rfl
    | cons f fs ih =>
      rw [List.filterMap_cons, List.flatMap_cons, ← ih]
      unfold sortStmtOf sortFieldLines
      rw [← render_sortAst, ← render_condAst]
      cases sortAst S f with
      | none => rfl
      | some s => simp [GSortStmt.render]
  rw [this]

/-! ### lookups -/

theorem get_append (a b : List (String × Val)) (n : String) :
    Val.get (a ++ b) n = (match Val.get a n with | some v => some v | none => Val.get b n) := by
  cases h : Val.get a n with
  | some v => exact get_append_some h
  | none => exact get_append_none h

theorem get_cons_self (n : String) (v : Val) (b : List (String × Val)) : Val.get ((n, v) :: b) n = some v := by
  simp [Val.get]

theorem setMember_mid (a b : List (String × Val)) (m : String) (v v' : Val)
    (ha : ∀ nv ∈ a, nv.1 ≠ m) (hb : ∀ nv ∈ b, nv.1 ≠ m) :
    setMember (a ++ (m, v) :: b) m v' = a ++ (m, v') :: b := by
  unfold setMember
  rw [List.map_append, List.map_cons]
  have h1 : a.map (fun nv => if nv.1 == m then (nv.1, v') else nv) = a := by
    conv => rhs; rw [← List.map_id a]
    apply List.map_congr_left
    intro nv hnv
    have : (nv.1 == m) = false := by simp only [beq_eq_false_iff_ne, ne_eq]; exact ha nv hnv
    simp [this]
  have h2 : b.map (fun nv => if nv.1 == m then (nv.1, v') else nv) = b := by
    conv => rhs; rw [← List.map_id b]
    apply List.map_congr_left
    intro nv hnv
    have : (nv.1 == m) = false := by simp only [beq_eq_false_iff_ne, ne_eq]; exact hb nv hnv
    simp [this]
  rw [h1, h2]
  simp

section
variable {S : Schema} {T : String → Bytes → Bytes} {r : Rec} {d : StructDef}

/-- a member's condition looks at the member itself, at its discriminant, or at the target of a size-ref discriminant -/
theorem condOnObject_congr {vs cur : List (String × Val)} {f : Field}
    (hself : Val.get cur f.name = Val.get vs f.name)
    (hdisc : ∀ c, f.cond = some c → c.viaSelf = false → Val.get cur c.field = Val.get vs c.field)
    (htarget : ∀ c cf w s t dl, f.cond = some c → c.viaSelf = false → lookupField d.fields c.field = some cf →
      cf.kind = .sizeRef w s t dl → t = f.name) :
    condOnObject r d.fields cur f = condOnObject r d.fields vs f := by
  unfold condOnObject
  cases hc : f.cond with
  | none => rfl
  | some c =>
    simp only
    by_cases hv : c.viaSelf = true
    · simp only [hv, if_true, hself]
    · have hv' : c.viaSelf = false := by simpa using hv
      simp only [hv', Bool.false_eq_true, if_false]
      cases hl : lookupField d.fields c.field with
      | none => rfl
      | some cf =>
        simp only
        cases hk : cf.kind with
        | sizeRef w s t dl =>
          have := htarget c cf w s t dl hc hv' hl hk
          subst this
          simp only [sizeRefValue, hself]
        | _ => simp only [hdisc c hc hv']

/-- the model's treatment of one member of the object (the body of `sortStructStep`) -/
def sortEntry (S : Schema) (T : String → Bytes → Bytes) (r : Rec) (recSort : String → Val → R Val) (d : StructDef)
    (vs : List (String × Val)) (nv : String × Val) : R (String × Val) :=
  match lookupField d.fields nv.1 with
  | none => .error .missing
  | some f => do
    let present ← condOnObject r d.fields vs f
    if !present then pure (nv.1, nv.2) else
    match f.kind, nv.2 with
    | .ref ty _, .struct a b =>
      match S.find ty with
      | some (.struct _) => do let v' ← recSort ty (.struct a b); pure (nv.1, v')
      | _ => pure (nv.1, nv.2)
    | .array elem _ _ _ (some key), .arr l => do
      let keys ← l.mapM (sortKeyOf S T elem key)
      pure (nv.1, .arr (sortByKey (keys.zip l)))
    | _, _ => pure (nv.1, nv.2)

theorem sortStructStep_eq (recSort : String → Val → R Val) (vs : List (String × Val)) :
    sortStructStep S T r recSort d vs = vs.mapM (sortEntry S T r recSort d vs) := by
  unfold sortStructStep
  congr 1
  funext nv
  obtain ⟨n, v⟩ := nv
  unfold sortEntry
  simp only
  cases lookupField d.fields n with
  | none => rfl
  | some f =>
    simp only
    cases condOnObject r d.fields vs f with
    | error e => rfl
    | ok p =>
      cases p with
      | false => rfl
      | true =>
        simp only [bind, Except.bind, Bool.not_true, Bool.false_eq_true, if_false]
        cases hk : f.kind with
        | ref ty lim =>
          cases v with
          | struct a b =>
            simp only
            cases hS : S.find ty with
            | none => rfl
            | some t => cases t <;> rfl
          | _ => rfl
        | array elem mode al pl key =>
          cases key with
          | none => cases v <;> rfl
          | some k => cases v <;> rfl
        | _ => cases v <;> rfl

theorem mapM_ok_iff {α β : Type} (g : α → R β) (l : List α) (l' : List β) :
    l.mapM g = .ok l' ↔ Rel2 (fun a b => g a = .ok b) l l' := by
  induction l generalizing l' with
  | nil =>
    constructor
    · intro h; simp only [List.mapM_nil, pure, Except.pure, Except.ok.injEq] at h; subst h; exact .nil
    · intro h; cases h; rfl
  | cons a l ih =>
    constructor
    · intro h
      rw [List.mapM_cons] at h
      obtain ⟨b, hb, h⟩ := bind_eq_ok.mp h
      obtain ⟨bs, hbs, h⟩ := bind_eq_ok.mp h
      simp only [pure, Except.pure, Except.ok.injEq] at h
      subst h
      exact .cons hb ((ih bs).mp hbs)
    · intro h
      cases h with
      | cons hb hrest =>
        rw [List.mapM_cons, hb, (ih _).mpr hrest]
        rfl

/-- what the sort theorem needs of the class and the object -/
structure SortCtx (S : Schema) (r : Rec) (d : StructDef) (vs : List (String × Val)) : Prop where
  nd : allDistinct (d.fields.map (·.name)) = true
  shape : vs.map (·.1) = (d.fields.filter (·.kind.carries)).map (·.name)
  hvs : NamesOk vs
  hfields : ∀ g ∈ d.fields, mangledFree g.name = true ∧ wfgKind d g = true
  hcond : ∀ f ∈ d.fields, wfgCond S d f = true
  decl : sortDeclOk S d = true
  obj : sortObjOk S r d vs = true

theorem sortAst_carries {f : Field} {s : SortStmt} (h : sortAst S f = some s) : f.kind.carries = true := by
  unfold sortAst at h
  cases hk : f.kind <;> simp [hk] at h <;> rfl

/-- the emitted statements of the members `fs`, run on an object whose earlier members are done, do what the model's
    per-member treatment does to the remaining members -/
theorem execSort_iff (hc : SortCtx S r d vs) (recSort : String → Val → R Val) (fs : List Field) :
    ∀ (fpre : List Field) (wpre wpre' wrest : List (String × Val)),
    d.fields = fpre ++ fs → vs = wpre ++ wrest →
    wrest.map (·.1) = (fs.filter (·.kind.carries)).map (·.name) →
    wpre.map (·.1) = (fpre.filter (·.kind.carries)).map (·.name) → wpre'.map (·.1) = wpre.map (·.1) →
    (∀ n, (∀ g ∈ d.fields, g.name = n → sortAst S g = none) → Val.get wpre' n = Val.get wpre n) →
    ∀ vs', execSort S T r recSort (fs.filterMap (sortStmtOf S d)) (wpre' ++ wrest) = .ok vs' ↔
      ∃ wrest', vs' = wpre' ++ wrest' ∧ Rel2 (fun nv nv' => sortEntry S T r recSort d vs nv = .ok nv') wrest wrest' := by
  induction fs with
  | nil =>
    intro fpre wpre wpre' wrest _ _ hrest _ _ _ vs'
    have : wrest = [] := by simpa using hrest
    subst this
    simp only [List.filterMap_nil, execSort, Except.ok.injEq]
    constructor
    · intro h; exact ⟨[], h.symm, .nil⟩
    · rintro ⟨w, rfl, hw⟩; cases hw; rfl
  | cons f fs' ih =>
    intro fpre wpre wpre' wrest hsplit hws hrest hpren hpre hstable vs'
    have hfd : f ∈ d.fields := by rw [hsplit]; simp
    have hsplit' : d.fields = (fpre ++ [f]) ++ fs' := by rw [hsplit]; simp
    have hne_pre := name_ne_of_split hc.nd hsplit
    -- the condition of `f` evaluates
    have hobj := hc.obj
    unfold sortObjOk at hobj
    simp only [List.all_eq_true] at hobj
    have hobjf := hobj f hfd
    cases hp : condOnObject r d.fields vs f with
    | error e => simp [hp] at hobjf
    | ok p =>
    simp only [hp] at hobjf
    by_cases hcar : f.kind.carries = true
    · -- a member of the object
      rw [List.filter_cons_of_pos (by simpa using hcar), List.map_cons] at hrest
      cases wrest with
      | nil => simp at hrest
      | cons nv wtail =>
        obtain ⟨n, v⟩ := nv
        simp only [List.map_cons, List.cons.injEq] at hrest
        obtain ⟨hn, htail⟩ := hrest
        subst hn
        have hfn_pre : ∀ nv ∈ wpre, nv.1 ≠ f.name := by
          intro nv hnv hh
          have : nv.1 ∈ wpre.map (·.1) := List.mem_map_of_mem (f := (·.1)) hnv
          rw [hpren] at this
          obtain ⟨g, hg, hgn⟩ := List.mem_map.mp this
          exact hne_pre g (List.mem_filter.mp hg).1 (by rw [hgn, hh])
        have hfn_pre' : ∀ nv ∈ wpre', nv.1 ≠ f.name := by
          intro nv hnv hh
          have : nv.1 ∈ wpre'.map (·.1) := List.mem_map_of_mem (f := (·.1)) hnv
          rw [hpre] at this
          obtain ⟨nv0, hnv0, h0⟩ := List.mem_map.mp this
          exact hfn_pre nv0 hnv0 (by rw [h0, hh])
        have hfn_tail : ∀ nv ∈ wtail, nv.1 ≠ f.name := by
          intro nv hnv hh
          have : nv.1 ∈ wtail.map (·.1) := List.mem_map_of_mem (f := (·.1)) hnv
          rw [htail] at this
          obtain ⟨g, hg, hgn⟩ := List.mem_map.mp this
          have hnd := hc.nd
          rw [hsplit, List.map_append, List.map_cons] at hnd
          obtain ⟨h1, -⟩ := allDistinct_cons (allDistinct_append_right hnd)
          exact h1 (by rw [← hh, ← hgn]; exact List.mem_map_of_mem (f := (·.name)) (List.mem_filter.mp hg).1)
        have hgetvs : Val.get vs f.name = some v := by
          rw [hws, get_append, get_none_of_names hfn_pre, get_cons_self]
        have hgetcur : Val.get (wpre' ++ (f.name, v) :: wtail) f.name = some v := by
          rw [get_append, get_none_of_names hfn_pre', get_cons_self]
        have hlook : lookupField d.fields f.name = some f := lookupField_of_mem hc.nd hfd
        -- the entry of `f` when nothing is done to it
        have hentry_same : (sortAst S f = none ∨ p = false) → sortEntry S T r recSort d vs (f.name, v) = .ok (f.name, v) := by
          intro h
          unfold sortEntry
          simp only [hlook, hp, bind, Except.bind]
          cases p with
          | false => rfl
          | true =>
            rcases h with h | h
            · simp only [Bool.not_true, Bool.false_eq_true, if_false]
              unfold sortAst at h
              cases hk : f.kind with
              | ref ty lim =>
                cases v with
                | struct a b =>
                  simp only [hk] at h ⊢
                  cases hS : S.find ty with
                  | none => rfl
                  | some t => cases t <;> simp [hS] at h ⊢ <;> rfl
                | _ => rfl
              | array elem mode al pl key =>
                cases key with
                | none => cases v <;> rfl
                | some k => simp [hk] at h
              | _ => cases v <;> rfl
            · cases h
        -- extending the done part by the entry of `f`
        have hext : ∀ v', (sortAst S f = none → v' = v) →
            ∀ vs', execSort S T r recSort (fs'.filterMap (sortStmtOf S d)) ((wpre' ++ [(f.name, v')]) ++ wtail) = .ok vs' ↔
              ∃ wtail', vs' = (wpre' ++ [(f.name, v')]) ++ wtail' ∧
                Rel2 (fun nv nv' => sortEntry S T r recSort d vs nv = .ok nv') wtail wtail' := by
          intro v' hv'
          apply ih (fpre ++ [f]) (wpre ++ [(f.name, v)]) (wpre' ++ [(f.name, v')]) wtail hsplit' (by rw [hws]; simp) htail
          · rw [List.map_append, List.filter_append, List.map_append, hpren]
            simp [List.filter_cons_of_pos, hcar]
          · simp [hpre]
          · intro nm hnm
            rw [get_append, get_append, hstable nm hnm]
            cases Val.get wpre nm with
            | some x => rfl
            | none =>
              simp only
              by_cases hnf : nm = f.name
              · subst hnf
                rw [hv' (hnm f hfd rfl)]
              · have : ∀ (x : Val), Val.get [(f.name, x)] nm = none := by
                  intro x
                  apply get_none_of_names
                  intro nv hnv
                  simp only [List.mem_singleton] at hnv
                  subst hnv
                  exact fun hh => hnf hh.symm
                rw [this, this]
        cases hs : sortAst S f with
        | none =>
          have hstmt : sortStmtOf S d f = none := by unfold sortStmtOf; rw [hs]; rfl
          rw [List.filterMap_cons, hstmt]
          have hE := hentry_same (Or.inl hs)
          have := hext v (fun _ => rfl) vs'
          simp only [List.append_assoc, List.singleton_append] at this
          rw [this]
          constructor
          · rintro ⟨wtail', rfl, hrel⟩
            exact ⟨(f.name, v) :: wtail', rfl, .cons hE hrel⟩
          · rintro ⟨wrest', rfl, hrel⟩
            cases hrel with
            | cons hb hrest' =>
              rw [hE] at hb
              simp only [Except.ok.injEq] at hb
              subst hb
              exact ⟨_, rfl, hrest'⟩
        | some s =>
          have hstmt : sortStmtOf S d f = some { cond := condAst S d f, stmt := s } := by unfold sortStmtOf; rw [hs]; rfl
          rw [List.filterMap_cons, hstmt]
          simp only [execSort]
          -- the guard, evaluated on the current object, is the condition on the original object
          have hnames : (wpre' ++ (f.name, v) :: wtail).map (·.1) = vs.map (·.1) := by
            rw [hws]; simp [hpre]
          have hvscur : NamesOk (wpre' ++ (f.name, v) :: wtail) := by
            intro nv hnv
            have : nv.1 ∈ (wpre' ++ (f.name, v) :: wtail).map (·.1) := List.mem_map_of_mem (f := (·.1)) hnv
            rw [hnames] at this
            obtain ⟨nv0, hnv0, h0⟩ := List.mem_map.mp this
            rw [← h0]
            exact hc.hvs nv0 hnv0
          have hdecl := hc.decl
          unfold sortDeclOk at hdecl
          simp only [List.all_eq_true] at hdecl
          have hdf := hdecl f hfd
          have hguard : evalGuard (PyCtx.mk S T r (wpre' ++ (f.name, v) :: wtail) (.error .unsupported))
              (condAst S d f) = .ok p := by
            rw [cond_eval hvscur hc.hfields hfd (hc.hcond f hfd), ← hp]
            apply condOnObject_congr
            · rw [hgetcur, hgetvs]
            · intro c hcc hvf
              simp only [hcc, hvf, Bool.false_or] at hdf
              rw [hws, get_append, get_append]
              have : Val.get wpre' c.field = Val.get wpre c.field := by
                apply hstable
                intro g hg hgn
                cases hl : lookupField d.fields c.field with
                | none => exact absurd hgn (lookupField_none hl g hg)
                | some cf =>
                  simp only [hl, Bool.and_eq_true, Option.isNone_iff_eq_none] at hdf
                  obtain ⟨hcfm, hcfn⟩ := lookupField_some hl
                  rw [eq_of_name_eq hc.nd hg hcfm (by rw [hgn, hcfn])]
                  exact hdf.1
              rw [this]
            · intro c cf w s' t dl hcc hvf hl hk
              simp only [hcc, hvf, Bool.false_or, hl, hk, Bool.and_eq_true, beq_iff_eq] at hdf
              exact hdf.2
          unfold GSortStmt.exec
          simp only [hguard, bind, Except.bind]
          cases p with
          | false =>
            simp only [Bool.false_eq_true, if_false]
            have hE := hentry_same (Or.inr rfl)
            have := hext v (fun _ => rfl) vs'
            simp only [List.append_assoc, List.singleton_append] at this
            rw [this]
            constructor
            · rintro ⟨wtail', rfl, hrel⟩
              exact ⟨(f.name, v) :: wtail', rfl, .cons hE hrel⟩
            · rintro ⟨wrest', rfl, hrel⟩
              cases hrel with
              | cons hb hrest' =>
                rw [hE] at hb
                simp only [Except.ok.injEq] at hb
                subst hb
                exact ⟨_, rfl, hrest'⟩
          | true =>
            simp only [if_true, Bool.not_true, Bool.false_or, hs, hgetvs] at hobjf ⊢
            -- the statement and the model's entry compute the same new value
            have hkey : ∀ (x : R Val), (∀ v', x = .ok v' → True) →
                (sortEntry S T r recSort d vs (f.name, v) = x >>= fun v' => pure (f.name, v')) →
                (s.exec S T recSort (wpre' ++ (f.name, v) :: wtail) = x >>= fun v' => .ok (wpre' ++ (f.name, v') :: wtail)) →
                (Except.bind (s.exec S T recSort (wpre' ++ (f.name, v) :: wtail))
                    (fun cur => execSort S T r recSort (fs'.filterMap (sortStmtOf S d)) cur) = .ok vs' ↔
                 ∃ wrest', vs' = wpre' ++ wrest' ∧
                   Rel2 (fun nv nv' => sortEntry S T r recSort d vs nv = .ok nv') ((f.name, v) :: wtail) wrest') := by
              intro x _ hE hX
              rw [hX]
              cases x with
              | error e =>
                simp only [bind, Except.bind]
                constructor
                · intro h; cases h
                · rintro ⟨wrest', -, hrel⟩
                  cases hrel with
                  | cons hb _ => rw [hE] at hb; cases hb
              | ok v' =>
                simp only [bind, Except.bind]
                have := hext v' (fun h => by rw [hs] at h; cases h) vs'
                simp only [List.append_assoc, List.singleton_append] at this
                rw [this]
                constructor
                · rintro ⟨wtail', rfl, hrel⟩
                  exact ⟨(f.name, v') :: wtail', rfl, .cons (by rw [hE]; rfl) hrel⟩
                · rintro ⟨wrest', rfl, hrel⟩
                  cases hrel with
                  | cons hb hrest' =>
                    rw [hE] at hb
                    simp only [bind, Except.bind, pure, Except.pure, Except.ok.injEq] at hb
                    subst hb
                    exact ⟨_, rfl, hrest'⟩
            unfold sortAst at hs
            cases hk : f.kind with
            | array elem mode al pl key =>
              cases key with
              | none => simp [hk] at hs
              | some k =>
                simp only [hk, Option.some.injEq] at hs
                subst hs
                cases v with
                | arr l =>
                  have hK := hkey (l.mapM (sortKeyOf S T elem k) >>= fun keys => .ok (.arr (sortByKey (keys.zip l)))) (fun _ _ => trivial) ?_ ?_
                  · simp only [Except.bind] at hK; exact hK
                  · unfold sortEntry
                    simp only [hlook, hp, bind, Except.bind, Bool.not_true, Bool.false_eq_true, if_false, hk]
                    cases l.mapM (sortKeyOf S T elem k) <;> rfl
                  · simp only [SortStmt.exec, hgetcur, bind, Except.bind]
                    cases l.mapM (sortKeyOf S T elem k) with
                    | error e => rfl
                    | ok keys => simp only [setMember_mid _ _ _ _ _ hfn_pre' hfn_tail]
                | _ => simp at hobjf
            | ref ty lim =>
              simp only [hk] at hs
              cases hS : S.find ty with
              | none => simp [hS] at hs
              | some t =>
                cases t with
                | struct dty =>
                  simp only [hS, Option.some.injEq] at hs
                  subst hs
                  cases v with
                  | struct a b =>
                    have hK := hkey (recSort ty (.struct a b)) (fun _ _ => trivial) ?_ ?_
                    · simp only [Except.bind] at hK; exact hK
                    · unfold sortEntry
                      simp only [hlook, hp, bind, Except.bind, Bool.not_true, Bool.false_eq_true, if_false, hk, hS]
                    · simp only [SortStmt.exec, hgetcur, bind, Except.bind]
                      cases recSort ty (.struct a b) with
                      | error e => rfl
                      | ok v' => simp only [setMember_mid _ _ _ _ _ hfn_pre' hfn_tail]
                  | _ => simp at hobjf
                | _ => simp [hS] at hs
            | _ => simp [hk] at hs
    · -- not a member of the object: no statement
      have hcar' : f.kind.carries = false := by simpa using hcar
      have hs : sortAst S f = none := by
        cases h : sortAst S f with
        | none => rfl
        | some s => rw [sortAst_carries h] at hcar'; cases hcar'
      have hstmt : sortStmtOf S d f = none := by unfold sortStmtOf; rw [hs]; rfl
      rw [List.filterMap_cons, hstmt]
      rw [List.filter_cons_of_neg (by simpa using hcar)] at hrest
      exact ih (fpre ++ [f]) wpre wpre' wrest hsplit' hws hrest
        (by rw [List.filter_append, List.map_append, hpren]; simp [List.filter_cons_of_neg, hcar']) hpre hstable vs'

/-- running the emitted `sort` statements of a class on an object gives what the model's `sortStructStep` gives -/
theorem emittedSort_iff (hc : SortCtx S r d vs) (recSort : String → Val → R Val) (vs' : List (String × Val)) :
    emittedSort S T r recSort d vs = .ok vs' ↔ sortStructStep S T r recSort d vs = .ok vs' := by
  unfold emittedSort emitSort
  have h := execSort_iff (T := T) hc recSort d.fields [] [] [] vs (by simp) (by simp) hc.shape (by simp) rfl
    (fun _ _ => rfl) vs'
  simp only [List.nil_append] at h
  rw [h, sortStructStep_eq, mapM_ok_iff]
  constructor
  · rintro ⟨w, rfl, hw⟩; exact hw
  · intro hw; exact ⟨vs', rfl, hw⟩

theorem sortCtx_of (hwg : WFG S = true) {name : String} (hnd : allDistinct (d.fields.map (·.name)) = true)
    (hfind : S.find name = some (.struct d)) (hshape : shapeOk d vs = true) (hdecl : sortDeclOk S d = true)
    (hobj : sortObjOk S r d vs = true) : SortCtx S r d vs := by
  have hg := WFG_struct hwg hfind
  refine ⟨hnd, ?_, namesOk_of_shape hg hshape, ?_, ?_, hdecl, hobj⟩
  · unfold shapeOk at hshape; simpa using hshape
  · intro g hg'; exact ⟨(wfgStruct_at hg hg').1, (wfgStruct_at hg hg').2.1⟩
  · intro f hf; exact (wfgStruct_at hg hf).2.2

end
end SymbolVerif.Codec

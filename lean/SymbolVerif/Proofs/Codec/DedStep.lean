/-
Decode-encode direction, part 14: one concrete struct class, and the header read by a factory.
-/
import SymbolVerif.Proofs.Codec.DedAdm
import SymbolVerif.Proofs.Codec.DedRunQ
namespace SymbolVerif.Codec
open SymbolVerif.Bytes

section
variable {S : Schema} {T : String → Bytes → Bytes} {g fa : String → Val → Bool} {r : Rec}

/-- what `<Type>.deserialize` of a concrete struct class returns -/
theorem ded_concrete (hctx : DedCtx S g fa r) {name : String} {d : StructDef} (hwf : WfStruct S name d)
    (hwd : wfdStruct S d = true) {ty : String} {buf : Bytes} {v : Val}
    (hdec : decConcrete S T r ty d buf = .ok v)
    (hfit : ∀ vs, v = .struct ty vs → d.fields.all (fun f => fitField r d vs f && admMember fa vs f) = true) :
    ∃ vs, v = .struct ty vs ∧ shapeOk d vs = true ∧ okStruct S r g d vs = true ∧
      (∃ b, encStruct S T r d vs = .ok b) ∧
      ∃ st, decFields S T r d d.fields buf = .ok st ∧ objectOf d st.env = .ok vs := by
  unfold decConcrete at hdec
  obtain ⟨st, hst, hdec⟩ := bind_eq_ok.mp hdec
  obtain ⟨vs, hvs, hdec⟩ := bind_eq_ok.mp hdec
  simp only [Except.ok.injEq] at hdec
  subst hdec
  have hspec := drunq_fields hwf.names hwf.covered d hst
  have hds : DedStruct S T g fa r name d st.env vs :=
    ⟨hctx, hwf, hwd, hspec, hvs, hfit vs rfl⟩
  obtain ⟨h1, h2, h3⟩ := hds.summary
  exact ⟨vs, rfl, h1, h2, h3, st, hst, hvs⟩

/-- `deserialize` of two struct definitions agrees on a common stretch of members as long as neither
    is at its inherited boundary -/
theorem decFrom_congr (d1 d2 : StructDef) (fs : List Field) : ∀ (idx : Nat) (st : DecState),
    (∀ i st', idx ≤ i → i < idx + fs.length → rebase d1 st' i = rebase d2 st' i) →
    decFrom S T r d1 fs idx st = decFrom S T r d2 fs idx st := by
  induction fs with
  | nil => intro _ _ _; rfl
  | cons f fs ih =>
    intro idx st h
    unfold decFrom
    have hstep : decFieldStep S T r d1 st idx f = decFieldStep S T r d2 st idx f := by
      unfold decFieldStep
      rw [h idx st (Nat.le_refl _) (by simp)]
    rw [hstep]
    cases decFieldStep S T r d2 st idx f with
    | error e => rfl
    | ok st1 =>
      simp only [bind, Except.bind]
      exact ih (idx + 1) st1 (fun i st' h1 h2 => h i st' (by omega) (by simp only [List.length_cons]; omega))

theorem rebase_no_base (d : StructDef) (h : d.base = none) (st : DecState) (i : Nat) : rebase d st i = st := by
  unfold rebase
  simp [h]

theorem rebase_before (d : StructDef) (st : DecState) {i : Nat} (h : i < d.inherited) : rebase d st i = st := by
  unfold rebase
  have : (i == d.inherited) = false := by simp; omega
  simp [this]

end
end SymbolVerif.Codec

/-
Decode-encode direction, part 1: whatever `decInt` reads (leniently) can be written again.
-/
import SymbolVerif.Proofs.Codec.Ints
namespace SymbolVerif.Codec
open SymbolVerif.Bytes

theorem decInt_inRange_signed {w : Nat} (hw : 0 < w) (bs : Bytes) : inRange w true (decInt w true bs) = true := by
  unfold inRange decInt
  simp only [if_true, decide_eq_true_eq]
  generalize ht : bs.take w = t
  have hl : t.length ≤ w := by rw [← ht, List.length_take]; exact Nat.min_le_left _ _
  have hn := leNat_lt t
  have hPQ : 256 ^ t.length ≤ 256 ^ w := Nat.pow_le_pow_right (by decide) hl
  have hQ := pow256_even hw
  generalize hQv : 256 ^ w = Q at *
  by_cases hL : t.length = 0
  · have : t = [] := List.eq_nil_of_length_eq_zero hL
    subst this
    have hQ128 : 2 ≤ Q := by
      rw [← hQv]
      calc 2 ≤ 256 ^ 1 := by decide
        _ ≤ 256 ^ w := Nat.pow_le_pow_right (by decide) hw
    simp only [toSigned, leNat, List.length_nil, Nat.pow_zero]
    simp only [Nat.mul_zero, Nat.lt_one_iff, if_true]
    constructor <;> omega
  · have hP := pow256_even (Nat.pos_of_ne_zero hL)
    generalize hPv : 256 ^ t.length = P at *
    unfold toSigned
    split
    · constructor <;> omega
    · constructor <;> omega

theorem decInt_inRange {w : Nat} (hw : 0 < w) (s : Bool) (bs : Bytes) : inRange w s (decInt w s bs) = true := by
  cases s with
  | false => exact decInt_inRange_unsigned w bs
  | true => exact decInt_inRange_signed hw bs

theorem encInt_of_inRange {w : Nat} {s : Bool} {i : Int} (h : inRange w s i = true) :
    ∃ b, encInt w s i = .ok b := by
  unfold encInt
  simp [h]

theorem encInt_decInt_ok {w : Nat} (hw : 0 < w) (s : Bool) (bs : Bytes) : ∃ b, encInt w s (decInt w s bs) = .ok b :=
  encInt_of_inRange (decInt_inRange hw s bs)

/-- a non-negative count read from `w` bytes, taken as a natural number, still fits -/
theorem inRange_toNat {w : Nat} (hw : 0 < w) {s : Bool} {i : Int} (h : inRange w s i = true) :
    inRange w s (i.toNat : Int) = true := by
  by_cases hi : 0 ≤ i
  · rw [Int.toNat_of_nonneg hi]; exact h
  · have : i.toNat = 0 := by omega
    rw [this]
    unfold inRange
    have hQ := pow256_even hw
    have hQ2 : 2 ≤ 256 ^ w := by
      calc 2 ≤ 256 ^ 1 := by decide
        _ ≤ 256 ^ w := Nat.pow_le_pow_right (by decide) hw
    generalize 256 ^ w = Q at *
    cases s <;> simp <;> omega

end SymbolVerif.Codec

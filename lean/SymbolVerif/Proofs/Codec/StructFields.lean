/-
Struct-level round trip, part 4: single steps of `deserialize`.
  * a member whose condition (if any) is on an earlier member;
  * the members of a union laid out before its discriminant: the first one is read into a temporary
    buffer, the others are queued behind it;
  * the queued members read back from the temporary buffer once the discriminant is known.
-/
import SymbolVerif.Proofs.Codec.StructDec
namespace SymbolVerif.Codec
open SymbolVerif.Bytes

/-- a size member, once read, does not exceed the original buffer -/
def StSz (st : DecState) : Prop := ∀ sz, st.sizeVal = some sz → sz ≤ st.origLen

theorem rebase_of_ok (d' : StructDef) (st : DecState) (idx : Nat) (h : StSz st) : rebase d' st idx = st := by
  unfold rebase
  split
  · cases hs : st.sizeVal with
    | none => rfl
    | some sz =>
      have : sz - st.origLen = 0 := Nat.sub_eq_zero_of_le (h sz hs)
      simp only [this, List.drop_zero]
      cases st
      simp_all
  · rfl

theorem flushQueued_none (S : Schema) (T : String → Bytes → Bytes) (r : Rec) (n : String) (st : DecState)
    (h : st.queued.find? (·.1 == n) = none) : flushQueued S T r n st = .ok st := by
  unfold flushQueued
  simp [h]

theorem afterPlain_plain (st : DecState) (f : Field) (v : Val) (adv : Nat) (h : ∀ w, f.kind ≠ .sizeF w) :
    afterPlain st f v adv = { st with buf := st.buf.drop adv, env := st.env ++ [(f.name, v)] } := by
  unfold afterPlain
  cases hk : f.kind <;> first | rfl | exact absurd hk (h _)

/-! ### lookups in the locals -/

theorem get_append_some {env ext : List (String × Val)} {n : String} {v : Val} (h : Val.get env n = some v) :
    Val.get (env ++ ext) n = some v := by
  unfold Val.get at *
  cases hf : env.find? (·.1 == n) with
  | none => simp [hf] at h
  | some x => rw [List.find?_append, hf]; simpa [hf] using h

theorem get_append_none {env ext : List (String × Val)} {n : String} (h : Val.get env n = none) :
    Val.get (env ++ ext) n = Val.get ext n := by
  unfold Val.get at *
  cases hf : env.find? (·.1 == n) with
  | none => rw [List.find?_append, hf]; rfl
  | some x => simp [hf] at h

theorem get_none_of_names {env : List (String × Val)} {n : String} (h : ∀ nv ∈ env, nv.1 ≠ n) :
    Val.get env n = none := by
  unfold Val.get
  rw [Option.map_eq_none_iff, List.find?_eq_none]
  intro nv hnv
  simpa using h nv hnv

theorem get_some_mem {env : List (String × Val)} {n : String} {v : Val} (h : Val.get env n = some v) :
    ∃ nv ∈ env, nv.1 = n := by
  unfold Val.get at h
  cases hf : env.find? (·.1 == n) with
  | none => simp [hf] at h
  | some x => exact ⟨x, List.mem_of_find?_eq_some hf, by simpa using List.find?_some hf⟩

section
variable {S : Schema} {T : String → Bytes → Bytes} {r : Rec} {g : String → Val → Bool}
variable {d : StructDef} {vs : List (String × Val)}

/-- on a conditional member, the condition on the object (`p`) is the condition on the discriminant
    that `deserialize` reads (`pd`) -- except for an empty byte array tested by truthiness, which is not
    written although `deserialize` will look for it (and read it back from no bytes) -/
theorem cond_disc {f : Field} {c : Cond} {gk : Field} {p : Bool} (hc : f.cond = some c)
    (hl : lookupField d.fields c.field = some gk)
    (hcov : discKindOk c gk.kind = true)
    (hadm : admCond r d vs f = true)
    (hp : condOnObject r d.fields vs f = .ok p) :
    ∃ a pd, discOnObject r d vs c = .ok a ∧ condHolds c.op c.value a = .ok pd ∧
      (pd = p ∨ (pd = true ∧ p = false ∧ f.kind.isBarray = true ∧ Val.get vs f.name = some (.bytes []))) := by
  unfold discKindOk at hcov
  unfold admCond at hadm
  simp only [hc] at hadm
  by_cases hvs : c.viaSelf = true
  · simp only [hvs, if_true] at hadm
    unfold condOnObject at hp
    simp only [hc, hvs, if_true, Except.ok.injEq] at hp
    cases hdo : discOnObject r d vs c with
    | error e => simp [hdo] at hadm
    | ok a =>
      simp only [hdo] at hadm
      cases hch : condHolds c.op c.value a with
      | error e => simp [hch] at hadm
      | ok pd =>
        simp only [hch] at hadm
        refine ⟨a, pd, rfl, hch, ?_⟩
        cases pd with
        | false =>
          simp only at hadm
          cases hv : Val.get vs f.name with
          | none => simp [hv] at hadm
          | some v =>
            cases v <;> simp [hv] at hadm
            left
            rw [← hp, hv]
            rfl
        | true =>
          simp only at hadm
          cases hv : Val.get vs f.name with
          | none => simp [hv] at hadm
          | some v =>
            simp only [hv, Bool.or_eq_true, Bool.and_eq_true] at hadm
            rw [hv] at hp
            simp only [Option.getD_some] at hp
            rcases hadm with h | ⟨hb, he⟩
            · left; rw [← hp, h]
            · right
              have hve : v = .bytes [] := by
                unfold Val.isEmptyBytes at he
                cases v with
                | bytes b => cases b <;> simp at he ⊢
                | _ => simp at he
              subst hve
              exact ⟨rfl, by rw [← hp]; rfl, hb, rfl⟩
  · simp only [hvs, Bool.false_eq_true, if_false] at hadm
    unfold condOnObject at hp
    simp only [hc, hvs, Bool.false_eq_true, if_false, hl] at hp
    simp only [hvs, Bool.false_or, Bool.or_eq_true] at hcov
    unfold discOnObject
    simp only [hl]
    cases hk : gk.kind with
    | sizeRef w s t dl =>
      simp only [hk, FK.carries, Bool.false_eq_true, if_false, derivedValue] at hp ⊢
      obtain ⟨a, ha1, ha2⟩ := bind_eq_ok.mp hp
      exact ⟨a, p, ha1, ha2, .inl rfl⟩
    | int w s =>
      simp only [hk, FK.carries, if_true] at hp ⊢
      cases hv : Val.get vs c.field with
      | none => simp [hv] at hp
      | some v => cases v <;> simp only [hv] at hp <;> first | exact ⟨_, p, rfl, hp, .inl rfl⟩ | cases hp
    | ref ty l =>
      simp only [hk, FK.carries, if_true] at hp ⊢
      cases hv : Val.get vs c.field with
      | none => simp [hv] at hp
      | some v => cases v <;> simp only [hv] at hp <;> first | exact ⟨_, p, rfl, hp, .inl rfl⟩ | cases hp
    | barray sf =>
      simp only [hk, FK.carries, if_true] at hp ⊢
      cases hv : Val.get vs c.field with
      | none => simp [hv] at hp
      | some v => cases v <;> simp only [hv] at hp <;> first | exact ⟨_, p, rfl, hp, .inl rfl⟩ | cases hp
    | array e m al pl k =>
      simp only [hk, FK.carries, if_true] at hp ⊢
      cases hv : Val.get vs c.field with
      | none => simp [hv] at hp
      | some v => cases v <;> simp only [hv] at hp <;> first | exact ⟨_, p, rfl, hp, .inl rfl⟩ | cases hp
    | reserved w s value => simp [hk, FK.carries] at hcov
    | sizeF w => simp [hk, FK.carries] at hcov
    | count w s t a => simp [hk, FK.carries] at hcov
    | byteSize w s t => simp [hk, FK.carries] at hcov
    | sizeOf w s t => simp [hk, FK.carries] at hcov

/-- the discriminant's local is the discriminant value of the object -/
theorem disc_entry {c : Cond} {gk : Field} {v0 : Val} {a : Int}
    (hl : lookupField d.fields c.field = some gk) (hn : gk.cond = none)
    (he : EntryOk r d vs gk v0) (hd : discOnObject r d vs c = .ok a) : v0 = .int a := by
  unfold discOnObject at hd
  simp only [hl] at hd
  have hname := (lookupField_some hl).2
  by_cases hcar : gk.kind.carries = true
  · simp only [hcar, if_true] at hd
    unfold EntryOk at he
    simp only [hcar, if_true, hname] at he
    cases hv : Val.get vs c.field with
    | none => simp [hv] at hd
    | some v =>
      rw [hv] at he
      cases v with
      | int i =>
        simp only [hv, Except.ok.injEq] at hd
        subst hd
        simp only [Option.some.injEq] at he
        exact he.symm
      | _ => simp [hv] at hd
  · have hcar' : gk.kind.carries = false := by simpa using hcar
    simp only [hcar', Bool.false_eq_true, if_false] at hd
    obtain ⟨i, hi, rfl⟩ := entry_derived hcar' hn he
    rw [hd] at hi
    cases hi
    rfl

/-- an absent conditional member: the local is `none`, as is the object's member -/
theorem entry_absent {f : Field} {c : Cond} (hc : f.cond = some c) (hadm : admCond r d vs f = true)
    (hp : condOnObject r d.fields vs f = .ok false)
    {a : Int} (hda : discOnObject r d vs c = .ok a) (hch : condHolds c.op c.value a = .ok false) :
    EntryOk r d vs f .none := by
  unfold EntryOk
  by_cases hcar : f.kind.carries = true
  · simp only [hcar, if_true]
    unfold admCond at hadm
    simp only [hc] at hadm
    by_cases hvs : c.viaSelf = true
    · simp only [hvs, if_true, hda, hch] at hadm
      cases hv : Val.get vs f.name with
      | none => simp [hv] at hadm
      | some v => cases v <;> simp [hv] at hadm ⊢
    · simp only [hvs, Bool.false_eq_true, if_false, hp, hcar, Bool.not_true, Bool.false_or] at hadm
      cases hv : Val.get vs f.name with
      | none => simp [hv] at hadm
      | some v => cases v <;> simp [hv] at hadm ⊢
  · simp only [hcar, Bool.false_eq_true, if_false]
    exact .inr ⟨hp, trivial⟩

/-- one member of `deserialize` (not the struct's size member) whose condition, if any, is on an
    earlier member -/
theorem decStep_std (hr : RecOk S g r)
    (hnd : allDistinct (d.fields.map (·.name)) = true)
    {pre post : List Field} {f : Field} (hsplit : d.fields = pre ++ f :: post)
    (hwf : wfFieldAt S d pre f post.isEmpty = true)
    (hcond : ∀ c, f.cond = some c → refOk pre c.field (discKindOk c) = true)
    (hnsz : ∀ w, f.kind ≠ .sizeF w)
    {st : DecState} (henv : EnvOk r d vs pre st.env)
    (hadm : admCond r d vs f = true) (hm : admMember g vs f = true)
    {p : Bool} (hp : condOnObject r d.fields vs f = .ok p)
    {bf : Bytes} (he : (if p then encField S T r d vs f else .ok []) = .ok bf)
    {rest : Bytes} (hbuf : st.buf = bf ++ rest) (hsz : StSz st)
    (hrest : (∃ e a p k, f.kind = .array e .fill a p k) → rest = [])
    (d' : StructDef) (idx : Nat) :
    ∃ v, EntryOk r d vs f v ∧
      decFieldStep S T r d' st idx f =
        (match f.cond with
          | none => flushQueued S T r f.name { st with buf := rest, env := st.env ++ [(f.name, v)] }
          | some _ => .ok { st with buf := rest, env := st.env ++ [(f.name, v)] }) := by
  unfold decFieldStep
  simp only [rebase_of_ok d' st idx hsz]
  cases hc : f.cond with
  | none =>
    have hp' := condOnObject_of_none r d.fields vs f hc
    rw [hp'] at hp
    simp only [Except.ok.injEq] at hp
    subst hp
    simp only [if_true] at he
    obtain ⟨v, hdec, hfull⟩ := decPayload_of_enc hr hnd hsplit hwf henv hm he rest hrest
    refine ⟨v, EntryOk.of_full hp' hfull, ?_⟩
    simp only
    unfold decPlainField
    rw [hbuf, hdec]
    simp only [bind, Except.bind]
    rw [afterPlain_plain _ _ _ _ hnsz]
    simp [hbuf]
  | some c =>
    simp only
    obtain ⟨gk, v0, hl, hn, hpk, hv0, he0⟩ := env_ref henv (hcond c hc)
    have hl' : lookupField d.fields c.field = some gk := by rw [hsplit]; exact lookupField_append hl
    obtain ⟨a, pd, hda, hch, hpd⟩ := cond_disc hc hl' hpk hadm hp
    have hv0' := disc_entry hl' hn he0 hda
    subst hv0'
    have hce : condOnEnv st.env c = .ok pd := by
      unfold condOnEnv
      rw [envInt_of_get hv0]
      exact hch
    unfold decCondField
    simp only [hv0, Option.isSome_some, if_true, hce, bind, Except.bind]
    rcases hpd with rfl | ⟨rfl, rfl, hbar, hval⟩
    · cases pd with
      | true =>
        simp only [if_true] at he ⊢
        obtain ⟨v, hdec, hfull⟩ := decPayload_of_enc hr hnd hsplit hwf henv hm he rest hrest
        refine ⟨v, EntryOk.of_full hp hfull, ?_⟩
        rw [hbuf, hdec]
        simp [pure, Except.pure]
      | false =>
        simp only [Bool.false_eq_true, if_false, Except.ok.injEq] at he ⊢
        subst he
        refine ⟨.none, entry_absent hc hadm hp hda hch, ?_⟩
        simp only [List.nil_append] at hbuf
        simp [pure, Except.pure, hbuf]
    · -- an empty byte array tested by truthiness: not written, read back from no bytes
      simp only [Bool.false_eq_true, if_false, Except.ok.injEq] at he
      subst he
      simp only [List.nil_append] at hbuf
      cases hk : f.kind with
      | barray sf =>
        unfold wfFieldAt at hwf
        simp only [hk] at hwf
        obtain ⟨w, s, ab, i, hi, hei⟩ := env_count henv hwf
        simp only [derivedValue, hval, Except.ok.injEq] at hi
        subst hi
        refine ⟨.bytes [], ?_, ?_⟩
        · unfold EntryOk
          simp [hk, FK.carries, hval]
        · unfold decPayload
          simp [hk, hei, bind, Except.bind, pure, Except.pure, hbuf]
      | _ => simp [hk, FK.isBarray] at hbar

end

/-! ### a union before its discriminant -/

section
variable {S : Schema} {T : String → Bytes → Bytes} {r : Rec}

/-- the first member of the union: read from the buffer (whether present or not) and parked -/
theorem decStep_head {f : Field} {c : Cond} (hc : f.cond = some c) {st : DecState}
    (hget : Val.get st.env c.field = none) (hq : st.queued = []) (hsz : StSz st)
    {v : Val} {adv : Nat} (hdec : decPayload S T r st.env f st.buf = .ok (v, adv)) (d' : StructDef) (idx : Nat) :
    decFieldStep S T r d' st idx f =
      .ok { st with buf := st.buf.drop adv, queued := [(c.field, st.buf.take adv, [f])] } := by
  unfold decFieldStep
  simp only [rebase_of_ok d' st idx hsz, hc]
  unfold decCondField
  simp [hget, hq, hdec, bind, Except.bind, pure, Except.pure]

/-- a further member of the union: queued behind the first -/
theorem decStep_follower {f : Field} {c : Cond} (hc : f.cond = some c) {st : DecState}
    (hget : Val.get st.env c.field = none) {temp : Bytes} {G0 : List Field}
    (hq : st.queued = [(c.field, temp, G0)]) (hsz : StSz st) (d' : StructDef) (idx : Nat) :
    decFieldStep S T r d' st idx f = .ok { st with queued := [(c.field, temp, G0 ++ [f])] } := by
  unfold decFieldStep
  simp only [rebase_of_ok d' st idx hsz, hc]
  unfold decCondField
  simp [hget, hq, pure, Except.pure]

/-- the remaining members of the union -/
theorem decFrom_followers (d' : StructDef) (dn : String) (ms : List Field) :
    ∀ (st : DecState) (temp : Bytes) (G0 : List Field) (idx : Nat),
    (∀ m ∈ ms, condOn dn m = true) → Val.get st.env dn = none → st.queued = [(dn, temp, G0)] → StSz st →
    decFrom S T r d' ms idx st = .ok { st with queued := [(dn, temp, G0 ++ ms)] } := by
  induction ms with
  | nil =>
    intro st temp G0 idx _ _ hq _
    unfold decFrom
    cases st
    simp_all
  | cons m ms ih =>
    intro st temp G0 idx hall hget hq hsz
    have hm := hall m (by simp)
    unfold condOn at hm
    cases hc : m.cond with
    | none => simp [hc] at hm
    | some c =>
      simp only [hc, beq_iff_eq] at hm
      subst hm
      unfold decFrom
      rw [decStep_follower hc hget hq hsz d' idx]
      simp only [bind, Except.bind]
      rw [ih { st with queued := [(c.field, temp, G0 ++ [m])] } temp (G0 ++ [m]) (idx + 1)
        (fun m' hm' => hall m' (by simp [hm'])) hget rfl hsz]
      simp

end
end SymbolVerif.Codec

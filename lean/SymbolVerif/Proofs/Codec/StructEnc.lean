/-
Struct-level round trip, part 2: the encode side.
  * members without a value of their own are written as `encInt` of their derived value;
  * the size law: `size` of a struct object is the length of what `serialize` writes.
-/
import SymbolVerif.Proofs.Codec.StructBase
namespace SymbolVerif.Codec
open SymbolVerif.Bytes

section
variable (S : Schema) (T : String → Bytes → Bytes) (r : Rec) (d : StructDef) (vs : List (String × Val))

/-- derived members: `serialize` writes the derived integer -/
theorem encField_derived (f : Field) (h : f.kind.carries = false) :
    encField S T r d vs f = (derivedValue r d vs f.kind >>= fun i => encInt f.kind.width f.kind.signed i) := by
  unfold encField
  cases hk : f.kind with
  | int w s => simp [hk, FK.carries] at h
  | ref ty l => simp [hk, FK.carries] at h
  | barray sf => simp [hk, FK.carries] at h
  | array e m a p k => simp [hk, FK.carries] at h
  | reserved w s value => simp [derivedValue, FK.width, FK.signed, bind, Except.bind]
  | sizeF w =>
    simp only [derivedValue, FK.width, FK.signed]
    cases structSize r d vs <;> rfl
  | count w s target absent =>
    simp only [derivedValue, FK.width, FK.signed]
    cases Val.get vs target with
    | none => rfl
    | some v =>
      cases v with
      | none => cases absent <;> rfl
      | _ => rfl
  | byteSize w s target =>
    simp only [derivedValue, FK.width, FK.signed]
    cases lookupField d.fields target with
    | none => rfl
    | some tf =>
      simp only
      cases fieldSize r tf (Val.get vs target) <;> rfl
  | sizeOf w s target =>
    simp only [derivedValue, FK.width, FK.signed]
    cases lookupField d.fields target with
    | none => rfl
    | some tf =>
      simp only
      cases fieldSize r tf (Val.get vs target) <;> rfl
  | sizeRef w s target delta =>
    simp only [derivedValue, FK.width, FK.signed]

/-- the width of a derived member is what `size` counts for it -/
theorem fieldSize_derived (f : Field) (h : f.kind.carries = false) (v : Option Val) :
    fieldSize r f v = .ok f.kind.width := by
  unfold fieldSize
  cases hk : f.kind <;> simp [hk, FK.carries, FK.width] at h ⊢

end

/-- the recursive calls treat the scalar types as one interpretation step does -/
structure ScalarOk (S : Schema) (r : Rec) : Prop where
  size_eq : ∀ ty w, scalarWidth S ty = some w → ∀ v n, r.size ty v = .ok n → n = w
  sizeInt : ∀ ty w s, S.find ty = some (.int w s) → ∀ i, r.size ty (.int i) = .ok w
  sizeBytes : ∀ ty n, S.find ty = some (.bytes n) → ∀ b : Bytes, b.length = n → r.size ty (.bytes b) = .ok n
  decInt : ∀ ty w s, S.find ty = some (.int w s) → ∀ buf, r.dec ty buf = .ok (.int (decInt w s buf))
  decBytes : ∀ ty n, S.find ty = some (.bytes n) → ∀ buf : Bytes, n ≤ buf.length → r.dec ty buf = .ok (.bytes (buf.take n))

/-- what the step lemmas know about the recursive calls -/
structure RecOk (S : Schema) (g : String → Val → Bool) (r : Rec) : Prop where
  law : r.LawOn g
  ne : ∀ ty, posSize S ty = true → r.NonEmpty ty
  /-- as soon as anything encodes at all (fuel is not exhausted), scalars are handled -/
  scalar : ∀ ty v b, r.enc ty v = .ok b → ScalarOk S r

section
variable {S : Schema} {T : String → Bytes → Bytes} {r : Rec} {g : String → Val → Bool}
variable {d : StructDef} {vs : List (String × Val)}

/-- the size counted for a serialized member is the number of bytes written for it -/
theorem fieldSize_of_enc (hr : r.LawOn g) {f : Field} {bf : Bytes}
    (hm : admMember g vs f = true) (he : encField S T r d vs f = .ok bf) :
    fieldSize r f (Val.get vs f.name) = .ok bf.length := by
  by_cases hc : f.kind.carries = false
  · rw [fieldSize_derived r f hc]
    rw [encField_derived S T r d vs f hc] at he
    obtain ⟨i, -, hi⟩ := bind_eq_ok.mp he
    rw [encInt_length hi]
  · unfold encField at he
    unfold fieldSize
    unfold admMember at hm
    cases hk : f.kind with
    | reserved w s value => simp [hk, FK.carries] at hc
    | sizeF w => simp [hk, FK.carries] at hc
    | count w s t a => simp [hk, FK.carries] at hc
    | byteSize w s t => simp [hk, FK.carries] at hc
    | sizeOf w s t => simp [hk, FK.carries] at hc
    | sizeRef w s t dl => simp [hk, FK.carries] at hc
    | int w s =>
      simp only [hk] at he ⊢
      cases hv : Val.get vs f.name with
      | none => simp [hv] at he
      | some v =>
        cases v <;> simp only [hv] at he <;> first | (rw [encInt_length he]) | cases he
    | ref ty l =>
      simp only [hk] at he hm ⊢
      cases hv : Val.get vs f.name with
      | none => simp [hv] at he
      | some v =>
        simp only [hv] at he hm ⊢
        have hnn : v.isNone = false := by
          cases v <;> first | rfl | cases he
        have hgv : g ty v = true := by simpa [hnn] using hm
        have he' : r.enc ty v = .ok bf := by
          cases v <;> first | exact he | cases he
        exact (hr.apply hgv he').1
    | barray sf =>
      simp only [hk] at he ⊢
      cases hv : Val.get vs f.name with
      | none => simp [hv] at he
      | some v =>
        cases v <;> simp only [hv] at he <;> first | (cases he; rfl) | cases he
    | array elem mode align padLast key =>
      simp only [hk] at he hm ⊢
      cases hv : Val.get vs f.name with
      | none => simp [hv] at he
      | some v =>
        cases v with
        | arr l =>
          simp only [hv] at he hm ⊢
          have hg : ∀ v ∈ l, g elem v = true := by simpa [List.all_eq_true] using hm
          by_cases hmax : l.length > maxCount
          · simp [hmax] at he
          · simp only [hmax, if_false] at he
            by_cases hal : align = 0
            · subst hal
              simp only [bne_self_eq_false, Bool.false_eq_true, if_false] at he
              have hplain : encArrayPlain r elem l = .ok bf := by
                cases key with
                | none => exact he
                | some k =>
                  simp only at he
                  obtain ⟨keys, -, hk2⟩ := bind_eq_ok.mp he
                  split at hk2
                  · exact hk2
                  · cases hk2
              obtain ⟨ss, hss, hsum⟩ := plain_sizes hr hg hplain
              simp [hss, bind, Except.bind, arraySize, hsum]
            · have hal' : (align != 0) = true := by simp [hal]
              simp only [hal', if_true] at he
              obtain ⟨ss, hss, hsum⟩ := aligned_sizes hr (Nat.pos_of_ne_zero hal) hg he
              simp [hss, bind, Except.bind, hsum]
        | _ => simp [hv] at he

/-- size law of a struct object, over any suffix of the member list -/
theorem sizeFrom_of_enc (hr : r.LawOn g) (fs : List Field) (b : Bytes)
    (hm : ∀ f ∈ fs, admMember g vs f = true) (he : encFrom S T r d vs fs = .ok b) :
    sizeFrom r d vs fs = .ok b.length := by
  induction fs generalizing b with
  | nil =>
    simp only [encFrom, Except.ok.injEq] at he
    subst he
    rfl
  | cons f rest ih =>
    unfold encFrom at he
    obtain ⟨p, hp, he⟩ := bind_eq_ok.mp he
    obtain ⟨bf, hbf, he⟩ := bind_eq_ok.mp he
    obtain ⟨t, ht, he⟩ := bind_eq_ok.mp he
    simp only [Except.ok.injEq] at he
    subst he
    have hrest := ih t (fun f' hf' => hm f' (by simp [hf'])) ht
    unfold sizeFrom
    simp only [hp, hrest, bind, Except.bind]
    cases p with
    | false =>
      simp only [Bool.false_eq_true, if_false, Except.ok.injEq] at hbf
      subst hbf
      simp
    | true =>
      simp only [if_true] at hbf
      rw [fieldSize_of_enc hr (hm f (by simp)) hbf]
      simp

theorem structSize_of_enc (hr : r.LawOn g) (b : Bytes)
    (hm : ∀ f ∈ d.fields, admMember g vs f = true) (he : encStruct S T r d vs = .ok b) :
    structSize r d vs = .ok b.length :=
  sizeFrom_of_enc hr d.fields b hm he

end
end SymbolVerif.Codec

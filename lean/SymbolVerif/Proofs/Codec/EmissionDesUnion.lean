/-
Emitted `deserialize`, semantics part 5: members laid out before their discriminant -- read into the temporary buffer
`<discriminant>_condition`, and read again from there once the discriminant is known.
-/
import SymbolVerif.Proofs.Codec.EmissionDesBase
namespace SymbolVerif.Codec
open SymbolVerif.Bytes

section
variable {S : Schema} {d : StructDef} {sm : Option String}

/-- the items a state of the generator's loop holds are kept; the loop only appends -/
theorem emitDesLoop_items (fs : List Field) : ∀ st : DesAstState,
    ∃ tail, (emitDesLoop S d sm fs st).items = st.items ++ tail := by
  induction fs with
  | nil => intro st; exact ⟨[], by simp [emitDesLoop]⟩
  | cons f rest ih =>
    intro st
    unfold emitDesLoop
    simp only []
    split
    · split
      · obtain ⟨t, ht⟩ := ih (DesAstState.mk st.items st.processed
          (st.queued.map fun q => if q.1 == _ then (q.1, q.2 ++ [f]) else q))
        exact ⟨t, ht⟩
      · obtain ⟨t, ht⟩ := ih (DesAstState.mk (st.items ++ [.park (printerName f.name) _ (loadAst S f (.var "buffer"))])
          st.processed (st.queued ++ [(_, [f])]))
        exact ⟨[.park (printerName f.name) _ (loadAst S f (.var "buffer"))] ++ t, by rw [ht]; simp only [List.append_assoc]; rfl⟩
    · obtain ⟨t, ht⟩ := ih (DesAstState.mk (st.items ++ [DesItem.field (desFieldAst S d sm f none)] ++
          (((st.queued.find? (·.1 == f.name)).map (·.2)).getD []).map
            (fun q => DesItem.field (desFieldAst S d sm q (some (f.name ++ "_condition")))))
          (st.processed ++ [f.name]) st.queued)
      exact ⟨_, by rw [ht]; simp only [List.append_assoc]; rfl⟩

/-- the items the loop appends for `fs` -/
def newItems (S : Schema) (d : StructDef) (sm : Option String) (fs : List Field) (st : DesAstState) : List DesItem :=
  (emitDesLoop S d sm fs st).items.drop st.items.length

theorem emitDesLoop_newItems (fs : List Field) (st : DesAstState) :
    (emitDesLoop S d sm fs st).items = st.items ++ newItems S d sm fs st := by
  obtain ⟨t, ht⟩ := emitDesLoop_items (S := S) (d := d) (sm := sm) fs st
  unfold newItems
  rw [ht]; simp

theorem newItems_step {f : Field} {rest : List Field} {st st1 : DesAstState} {X : List DesItem}
    (h1 : emitDesLoop S d sm (f :: rest) st = emitDesLoop S d sm rest st1) (h2 : st1.items = st.items ++ X) :
    newItems S d sm (f :: rest) st = X ++ newItems S d sm rest st1 := by
  unfold newItems
  rw [h1, emitDesLoop_newItems rest st1, h2]
  simp [newItems]

/-- the state after a member that is read at once -/
def astRead (S : Schema) (d : StructDef) (sm : Option String) (f : Field) (st : DesAstState) : DesAstState :=
  DesAstState.mk (st.items ++ [DesItem.field (desFieldAst S d sm f none)] ++
      (((st.queued.find? (·.1 == f.name)).map (·.2)).getD []).map
        (fun q => DesItem.field (desFieldAst S d sm q (some (f.name ++ "_condition")))))
    (st.processed ++ [f.name]) st.queued

theorem emitDesLoop_read_plain {f : Field} (rest : List Field) (st : DesAstState) (hc : f.cond = none) :
    emitDesLoop S d sm (f :: rest) st = emitDesLoop S d sm rest (astRead S d sm f st) := by
  conv => lhs; unfold emitDesLoop
  simp only [hc]
  rfl

theorem emitDesLoop_read_cond {f : Field} {c : Cond} (rest : List Field) (st : DesAstState) (hc : f.cond = some c)
    (hp : st.processed.contains c.field = true) :
    emitDesLoop S d sm (f :: rest) st = emitDesLoop S d sm rest (astRead S d sm f st) := by
  conv => lhs; unfold emitDesLoop
  simp only [hc, hp, if_true]
  rfl

theorem emitDesLoop_follow {f : Field} {c : Cond} (rest : List Field) (st : DesAstState) (hc : f.cond = some c)
    (hp : st.processed.contains c.field = false) (hq : (st.queued.find? (·.1 == c.field)).isSome = true) :
    emitDesLoop S d sm (f :: rest) st = emitDesLoop S d sm rest
      (DesAstState.mk st.items st.processed (st.queued.map fun q => if q.1 == c.field then (q.1, q.2 ++ [f]) else q)) := by
  conv => lhs; unfold emitDesLoop
  simp only [hc, hp, Bool.false_eq_true, if_false, hq, if_true]

theorem emitDesLoop_park {f : Field} {c : Cond} (rest : List Field) (st : DesAstState) (hc : f.cond = some c)
    (hp : st.processed.contains c.field = false) (hq : (st.queued.find? (·.1 == c.field)).isSome = false) :
    emitDesLoop S d sm (f :: rest) st = emitDesLoop S d sm rest
      (DesAstState.mk (st.items ++ [.park (printerName f.name) c.field (loadAst S f (.var "buffer"))]) st.processed
        (st.queued ++ [(c.field, [f])])) := by
  conv => lhs; unfold emitDesLoop
  simp only [hc, hp, Bool.false_eq_true, if_false, hq]

end

/-! ### the two run-time mechanisms: park and flush -/

theorem condition_ne_buffer (dn : String) : (dn ++ "_condition" == "buffer") = false := by
  simp only [beq_eq_false_iff_ne, ne_eq]
  intro h
  have := congrArg String.length h
  simp only [String.length_append] at this
  have h1 : "_condition".length = 10 := by decide
  have h2 : "buffer".length = 6 := by decide
  omega

theorem getBuf_setBuf_cond (σ : PyState) (dn : String) (b : Bytes) :
    (σ.setBuf (dn ++ "_condition") b).getBuf (dn ++ "_condition") = .ok b := by
  unfold PyState.setBuf PyState.getBuf
  simp [condition_ne_buffer]

theorem buffer_setBuf_cond (σ : PyState) (dn : String) (b : Bytes) :
    (σ.setBuf (dn ++ "_condition") b).buffer = σ.buffer := by
  unfold PyState.setBuf
  simp [condition_ne_buffer]

theorem getBuf_set (σ : PyState) (l : String) (v : Val) (n : String) : (σ.set l v).getBuf n = σ.getBuf n := rfl

section
variable {S : Schema} {T : String → Bytes → Bytes} {r : Rec} {d : StructDef}

/-- what a plain reference to a named type reads -/
theorem decPayload_ref {env : List (String × Val)} {f : Field} {t : String} (hk : f.kind = .ref t none) (view : Bytes) :
    decPayload S T r env f view = (r.dec t view >>= fun v => r.size t v >>= fun s => .ok (v, s)) := by
  unfold decPayload
  simp only [hk]
  rfl

/-- the head of a union: read, its bytes kept in `<discriminant>_condition`, skipped -/
theorem park_exec {σ : PyState} {f : Field} {t : String} (hk : f.kind = .ref t none)
    (hnn : ∀ ty b v, r.dec ty b = .ok v → v ≠ .none) {env : List (String × Val)} {v : Val} {adv : Nat}
    (hpay : decPayload S T r env f σ.buffer = .ok (v, adv)) (a dn : String) :
    (DesItem.park a dn (loadAst S f (.var "buffer"))).exec S T r σ =
      .ok { σ with buffer := σ.buffer.drop adv, bufs := (dn ++ "_condition", σ.buffer.take adv) :: σ.bufs } := by
  rw [decPayload_ref hk] at hpay
  obtain ⟨v', hd, hpay⟩ := bind_eq_ok.mp hpay
  obtain ⟨sz, hsz, hpay⟩ := bind_eq_ok.mp hpay
  simp only [Except.ok.injEq, Prod.mk.injEq] at hpay
  obtain ⟨rfl, rfl⟩ := hpay
  have hvn := hnn t _ _ hd
  unfold loadAst
  simp only [hk, DesItem.exec, LoadExpr.eval, BufSrc.eval, PyState.getBuf_buffer, hd, bind, Except.bind]
  cases v' with
  | none => exact absurd rfl hvn
  | _ => simp [hsz]

/-- what the flush needs to know of a parked member -/
structure ParkedOk (S : Schema) (d : StructDef) (sm : Option String) (dn : String) (q : Field) : Prop where
  cond : ∃ c, q.cond = some c ∧ c.field = dn
  kind : ∃ t, q.kind = .ref t none
  gk : wfgdKind q = true
  gc : wfgdCond S d q = true
  mf : mangledFree q.name = true
  ns : q.name ≠ "size_"
  sm : (sm == some (printerName q.name)) = false

theorem ParkedOk.attr {sm : Option String} {dn : String} {q : Field} (h : ParkedOk S d sm dn q) :
    localName q = printerName q.name := by
  apply localName_attr
  obtain ⟨t, hk⟩ := h.kind
  have := h.gk
  unfold wfgdKind at this
  simpa [hk] using this

/-- one parked member, read from the temporary buffer once its discriminant is known -/
theorem flush_member {sm : Option String} {dn : String} {fdn : Field} (hfdn : fdn.name = dn)
    (hnn : ∀ ty b v, r.dec ty b = .ok v → v ≠ .none)
    {base pre : List Field} {σ : PyState} {st : DecState} {temp : Bytes} (hS : Sim σ st base pre) (hpre : fdn ∈ pre)
    (hbuf : σ.getBuf (dn ++ "_condition") = .ok temp) {q : Field} (hq : ParkedOk S d sm dn q)
    (hfresh : ∀ x ∈ pre, localName x ≠ localName q) (hne : ∀ x ∈ base ++ pre, x.name ≠ q.name)
    {acc' : List (String × Val) × Bytes} (hstep : flushStep S T r (st.env, temp) q = .ok acc') :
    ∃ σ', (desFieldAst S d sm q (some (dn ++ "_condition"))).exec S T r σ = .ok σ' ∧
      Sim σ' { st with env := acc'.1 } base (pre ++ [q]) ∧ σ'.getBuf (dn ++ "_condition") = .ok acc'.2 := by
  obtain ⟨c, hc, hcf⟩ := hq.cond
  obtain ⟨t, hk⟩ := hq.kind
  have hattr := hq.attr
  unfold flushStep at hstep
  simp only [hc] at hstep
  obtain ⟨pd, hpd, hstep⟩ := bind_eq_ok.mp hstep
  unfold condOnEnv at hpd
  obtain ⟨a, ha, hpd⟩ := bind_eq_ok.mp hpd
  have hlocg : localName fdn = fixSizeName (printerName c.field) := by unfold localName; rw [hfdn, hcf]
  have hgi : σ.getInt (fixSizeName (printerName c.field)) = .ok a := by
    have := hS.loc fdn hpre (.int a) (by rw [hfdn, ← hcf]; exact envInt_ok ha)
    rw [hlocg] at this
    unfold PyState.getInt; rw [this]
  have hgi0 : (σ.set (printerName q.name) .none).getInt (fixSizeName (printerName c.field)) = .ok a := by
    unfold PyState.getInt at hgi ⊢
    rw [PyState.get_set]
    have : (printerName q.name == fixSizeName (printerName c.field)) = false := by
      simp only [beq_eq_false_iff_ne, ne_eq]
      intro hh
      exact hfresh fdn hpre (by rw [hlocg, hattr, hh])
    simp only [this, Bool.false_eq_true, if_false]
    exact hgi
  have hcev : LocalCond.eval S (σ.set (printerName q.name) .none)
      { value := condValueAst S d c, op := c.op, disc := fixSizeName (printerName c.field) } = .ok pd := by
    unfold LocalCond.eval
    simp only [hgi0, condValue_eval hc hq.gc, bind, Except.bind]
    exact hpd
  unfold DesField.exec desFieldAst
  simp only [localCondAst, hc, hcev, bind, Except.bind]
  cases pd with
  | false =>
    simp only [Bool.false_eq_true, if_false, pure, Except.pure, Except.ok.injEq] at hstep ⊢
    subst hstep
    refine ⟨_, rfl, ?_, by rw [getBuf_set]; exact hbuf⟩
    apply hS.snoc (v := .none) rfl
    · exact hS.buf
    · intro x hx
      rw [PyState.get_set]
      have : (printerName q.name == localName x) = false := by
        simp only [beq_eq_false_iff_ne, ne_eq]; rw [← hattr]; exact fun hh => hfresh x hx hh.symm
      simp [this]
    · rw [PyState.get_set, hattr]; simp
    · exact hne
    · intro _ i hi; cases hi
  | true =>
    simp only [if_true] at hstep ⊢
    obtain ⟨⟨v, adv⟩, hpay, hstep⟩ := bind_eq_ok.mp hstep
    simp only [pure, Except.pure, Except.ok.injEq] at hstep
    subst hstep
    rw [decPayload_ref hk] at hpay
    obtain ⟨v', hd, hpay⟩ := bind_eq_ok.mp hpay
    obtain ⟨sz, hsz, hpay⟩ := bind_eq_ok.mp hpay
    simp only [Except.ok.injEq, Prod.mk.injEq] at hpay
    obtain ⟨rfl, rfl⟩ := hpay
    have hvn := hnn t _ _ hd
    have hloc : fixSizeName (printerName q.name) = printerName q.name := by
      have := hattr; unfold localName at this; exact this
    refine ⟨((σ.set (printerName q.name) .none).set (printerName q.name) v').setBuf (dn ++ "_condition") (temp.drop sz), ?_, ?_, ?_⟩
    · have hsrc : srcOf q (dn ++ "_condition") = .var (dn ++ "_condition") := by unfold srcOf; simp [hk]
      have hextra : extraOf q = [] := by unfold extraOf; simp [hk]
      have hload : loadAst S q (.var (dn ++ "_condition")) = .object t (isAbstractStruct S t) (.var (dn ++ "_condition")) := by
        unfold loadAst; simp [hk]
      have hadv : advAst q = .objSize (printerName q.name) t := by unfold advAst; simp [hk]
      simp only [Option.getD_some, hsrc, hextra, hload, hadv, hq.sm, Bool.false_eq_true, if_false, List.append_nil, hloc,
        execStmts, DesStmt.exec, LoadExpr.eval, BufSrc.eval, getBuf_set, hbuf, hd, bind, Except.bind, AdvExpr.eval,
        PyState.get_set, beq_self_eq_true, if_true]
      cases v' with
      | none => exact absurd rfl hvn
      | _ => simp [hsz, pyDrop_nonneg]
    · apply hS.snoc (v := v') rfl
      · rw [buffer_setBuf_cond]; exact hS.buf
      · intro x hx
        rw [PyState.get_setBuf, PyState.get_set, PyState.get_set]
        have h2 : (printerName q.name == localName x) = false := by
          simp only [beq_eq_false_iff_ne, ne_eq]; rw [← hattr]; exact fun hh => hfresh x hx hh.symm
        simp [h2]
      · rw [PyState.get_setBuf, PyState.get_set, hattr]; simp
      · exact hne
      · intro hb; simp [hk, FK.isBoundSize] at hb
    · exact getBuf_setBuf_cond _ _ _

/-- all parked members, in order -/
theorem flush_sim {sm : Option String} {dn : String} {fdn : Field} (hfdn : fdn.name = dn)
    (hnn : ∀ ty b v, r.dec ty b = .ok v → v ≠ .none) {base : List Field} (G2 : List Field) :
    ∀ (pre : List Field) (σ : PyState) (st : DecState) (temp : Bytes) (acc' : List (String × Val) × Bytes),
    Sim σ st base pre → fdn ∈ pre → σ.getBuf (dn ++ "_condition") = .ok temp →
    (∀ q ∈ G2, ParkedOk S d sm dn q) →
    (∀ x ∈ pre, mangledFree x.name = true ∧ x.name ≠ "size_") →
    (∀ q ∈ G2, ∀ x ∈ base ++ pre, x.name ≠ q.name) → allDistinct (G2.map (·.name)) = true →
    G2.foldlM (flushStep S T r) (st.env, temp) = .ok acc' →
    ∃ σ', execItems S T r (G2.map fun q => DesItem.field (desFieldAst S d sm q (some (dn ++ "_condition")))) σ = .ok σ' ∧
      Sim σ' { st with env := acc'.1 } base (pre ++ G2) ∧ σ'.buffer = σ.buffer := by
  induction G2 with
  | nil =>
    intro pre σ st temp acc' hS _ _ _ _ _ _ hfold
    simp only [List.foldlM_nil, pure, Except.pure, Except.ok.injEq] at hfold
    subst hfold
    refine ⟨σ, rfl, ?_, rfl⟩
    simpa using hS
  | cons q rest ih =>
    intro pre σ st temp acc' hS hpre hbuf hok hmf hsep hgd hfold
    simp only [List.foldlM_cons] at hfold
    obtain ⟨acc1, hstep, hfold⟩ := bind_eq_ok.mp hfold
    have hq := hok q (by simp)
    have hne : ∀ x ∈ base ++ pre, x.name ≠ q.name := hsep q (by simp)
    have hfresh : ∀ x ∈ pre, localName x ≠ localName q := by
      intro x hx heq
      exact hne x (List.mem_append_right _ hx) (localName_inj (hmf x hx).1 hq.mf (hmf x hx).2 hq.ns heq)
    obtain ⟨σ1, hex1, hS1, hbuf1⟩ := flush_member (T := T) hfdn hnn hS hpre hbuf hq hfresh hne hstep
    have hbuffer1 : σ1.buffer = σ.buffer := by rw [hS1.buf, hS.buf]
    rw [List.map_cons] at hgd
    obtain ⟨hq1, hq2⟩ := allDistinct_cons hgd
    obtain ⟨σ2, hex2, hS2, hb2⟩ := ih (pre ++ [q]) σ1 { st with env := acc1.1 } acc1.2 acc' hS1 (by simp [hpre]) hbuf1
      (fun x hx => hok x (List.mem_cons_of_mem _ hx))
      (by
        intro x hx
        rcases List.mem_append.mp hx with hx | hx
        · exact hmf x hx
        · simp only [List.mem_singleton] at hx; subst hx; exact ⟨hq.mf, hq.ns⟩)
      (by
        intro q' hq' x hx
        rw [← List.append_assoc] at hx
        rcases List.mem_append.mp hx with hx | hx
        · exact hsep q' (List.mem_cons_of_mem _ hq') x hx
        · simp only [List.mem_singleton] at hx
          subst hx
          intro hh
          exact hq1 (by rw [hh]; exact List.mem_map_of_mem (f := (·.name)) hq'))
      hq2 hfold
    refine ⟨σ2, ?_, by simpa using hS2, by rw [hb2, hbuffer1]⟩
    simp only [List.map_cons, execItems, DesItem.exec, hex1, bind, Except.bind]
    exact hex2

end
end SymbolVerif.Codec

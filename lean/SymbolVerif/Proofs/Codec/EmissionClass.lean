/-
Emitted-program semantics, part 4: a whole class (`super()` part included).
-/
import SymbolVerif.Proofs.Codec.EmissionProg
namespace SymbolVerif.Codec
open SymbolVerif.Bytes

theorem WFG_struct {S : Schema} (h : WFG S = true) {n : String} {d : StructDef} (hf : S.find n = some (.struct d)) :
    wfgStruct S d = true := by
  have hm := Schema.find_mem hf
  unfold WFG at h
  simp only [List.all_eq_true] at h
  simpa using h _ hm

theorem wfgStruct_at {S : Schema} {d : StructDef} (h : wfgStruct S d = true) {f : Field} (hf : f ∈ d.fields) :
    mangledFree f.name = true ∧ wfgKind d f = true ∧ wfgCond S d f = true := by
  unfold wfgStruct at h
  simp only [List.all_eq_true, Bool.and_eq_true] at h
  have := h f hf
  exact ⟨this.1.1, this.1.2, this.2⟩

theorem pyObjOk_at {d : StructDef} {vs : List (String × Val)} (h : pyObjOk d vs = true) {f : Field}
    (hf : f ∈ d.fields) : StoreOk vs f := by
  unfold pyObjOk at h
  simp only [List.all_eq_true] at h
  have := h f hf
  intro e m a p k l hk hv
  simp only [hk, hv, decide_eq_true_eq] at this
  exact this

/-- the members of an object of the right shape have unmangled names -/
theorem namesOk_of_shape {S : Schema} {d : StructDef} {vs : List (String × Val)} (hg : wfgStruct S d = true)
    (hs : shapeOk d vs = true) : NamesOk vs := by
  unfold shapeOk at hs
  simp only [beq_iff_eq] at hs
  intro nv hnv
  have : nv.1 ∈ vs.map (·.1) := List.mem_map_of_mem (f := (·.1)) hnv
  rw [hs] at this
  obtain ⟨f, hf, hfn⟩ := List.mem_map.mp this
  rw [← hfn]
  exact (wfgStruct_at hg (List.mem_filter.mp hf).1).1

section
variable {S : Schema} {T : String → Bytes → Bytes} {r : Rec}

/-- the base class's members are a prefix: names resolve alike -/
theorem findCompat_prefix {da d : StructDef} {rest : List Field} (h : d.fields = da.fields ++ rest) : FindCompat da d := by
  intro n tf hfind
  rw [h]
  exact lookupField_append hfind

/-- facts about the `super()` part of a class -/
theorem base_facts (hwf : WF S = true) (hwg : WFG S = true) {name : String} {d : StructDef} (hw : WfStruct S name d)
    {a : String} (hb : d.base = some a) :
    ∃ da, S.find a = some (.struct da) ∧ ownFields da = da.fields ∧ wfgStruct S da = true ∧
      (∀ f ∈ da.fields, f.cond = none) ∧ d.fields = da.fields ++ ownFields d := by
  obtain ⟨-, da, hfa, hab, htake⟩ := hw.base a hb
  have hwa := wfStruct_iff (WF_struct hwf hfa)
  obtain ⟨hbn, huncond, -, -⟩ := hwa.abs hab
  refine ⟨da, hfa, by unfold ownFields; simp [hbn], WFG_struct hwg hfa, huncond, ?_⟩
  have := fields_split hw
  simpa [hb, hfa] using this

/-- the `size` property of the emitted class computes the interpreter's struct size -/
theorem emittedSize_eq (hwf : WF S = true) (hwg : WFG S = true) {name : String} {d : StructDef}
    (hfind : S.find name = some (.struct d)) {vs : List (String × Val)} (hshape : shapeOk d vs = true) :
    emittedSize S T r d vs = structSize r d vs := by
  have hw := wfStruct_iff (WF_struct hwf hfind)
  have hg := WFG_struct hwg hfind
  have hvs := namesOk_of_shape hg hshape
  unfold emittedSize structSize
  -- the own members
  have hown : Rel2 (fun (s : SizeStmt) f =>
      evalGuard { S := S, T := T, calls := r, vs := vs, selfSize := .error .unsupported } s.cond = condOnObject r d.fields vs f ∧
      (condOnObject r d.fields vs f = .ok true →
        s.expr.eval { S := S, T := T, calls := r, vs := vs, selfSize := .error .unsupported } = fieldSize r f (Val.get vs f.name)))
      (emitSize S d) (ownFields d) := by
    apply forall2_map_left
    intro f hf
    have hfd : f ∈ d.fields := List.mem_of_mem_drop hf
    obtain ⟨hn, -, hc⟩ := wfgStruct_at hg hfd
    refine ⟨cond_eval hvs (fun g hgm => ⟨(wfgStruct_at hg hgm).1, (wfgStruct_at hg hgm).2.1⟩) hfd hc _, ?_⟩
    intro hp
    exact size_eval hvs hn _
  unfold emitSizeClass
  cases hb : d.base with
  | none =>
    have hsplit := fields_split hw
    simp only [hb, List.nil_append] at hsplit ⊢
    have h := evalSize_eq (d := d) (r := r) (vs := vs) _ rfl rfl _ _ hown
    rw [← hsplit] at h
    exact h
  | some a =>
    obtain ⟨da, hfa, hoa, hga, huncond, hsplit⟩ := base_facts hwf hwg hw hb
    simp only [hfa]
    suffices hrel : Rel2 (fun (s : SizeStmt) f =>
        evalGuard { S := S, T := T, calls := r, vs := vs, selfSize := .error .unsupported } s.cond = condOnObject r d.fields vs f ∧
        (condOnObject r d.fields vs f = .ok true →
          s.expr.eval { S := S, T := T, calls := r, vs := vs, selfSize := .error .unsupported } = fieldSize r f (Val.get vs f.name)))
        (emitSize S da ++ emitSize S d) (da.fields ++ ownFields d) by
      have h := evalSize_eq (d := d) (r := r) (vs := vs) _ rfl rfl _ _ hrel
      rw [← hsplit] at h
      exact h
    apply forall2_append _ hown
    unfold emitSize
    rw [hoa]
    apply forall2_map_left
    intro f hf
    have hfd : f ∈ d.fields := by rw [hsplit]; exact List.mem_append_left _ hf
    have hcn := huncond f hf
    have hp : condOnObject r d.fields vs f = .ok true := by unfold condOnObject; simp [hcn]
    refine ⟨?_, ?_⟩
    · unfold condAst
      simp only [hcn, evalGuard, hp]
    · intro _
      exact size_eval hvs (wfgStruct_at hga hf).1 _

/-- `serialize()` of the emitted class computes the interpreter's struct encoding -/
theorem emittedSerialize_eq (hwf : WF S = true) (hwg : WFG S = true) {name : String} {d : StructDef}
    (hfind : S.find name = some (.struct d)) {vs : List (String × Val)} (hshape : shapeOk d vs = true)
    (hobj : pyObjOk d vs = true) :
    emittedSerialize S T r d vs = encStruct S T r d vs := by
  have hw := wfStruct_iff (WF_struct hwf hfind)
  have hg := WFG_struct hwg hfind
  have hvs := namesOk_of_shape hg hshape
  unfold emittedSerialize encStruct
  rw [emittedSize_eq hwf hwg hfind hshape]
  have hown : Rel2 (fun (s : SerStmt) f =>
      evalGuard { S := S, T := T, calls := r, vs := vs, selfSize := structSize r d vs } s.cond = condOnObject r d.fields vs f ∧
      (condOnObject r d.fields vs f = .ok true →
        s.expr.eval { S := S, T := T, calls := r, vs := vs, selfSize := structSize r d vs } = encField S T r d vs f))
      (emitSerialize S d) (ownFields d) := by
    apply forall2_map_left
    intro f hf
    have hfd : f ∈ d.fields := List.mem_of_mem_drop hf
    obtain ⟨hn, hk, hc⟩ := wfgStruct_at hg hfd
    refine ⟨cond_eval hvs (fun g hgm => ⟨(wfgStruct_at hg hgm).1, (wfgStruct_at hg hgm).2.1⟩) hfd hc _, ?_⟩
    intro _
    exact store_eval hvs (FindCompat.refl d) hn hk (pyObjOk_at hobj hfd)
  unfold emitSerializeClass
  cases hb : d.base with
  | none =>
    have hsplit := fields_split hw
    simp only [hb, List.nil_append] at hsplit ⊢
    have h := evalSer_eq (S := S) (T := T) (d := d) (r := r) (vs := vs) _ _ _ hown
    rw [← hsplit] at h
    exact h
  | some a =>
    obtain ⟨da, hfa, hoa, hga, huncond, hsplit⟩ := base_facts hwf hwg hw hb
    simp only [hfa]
    suffices hrel : Rel2 (fun (s : SerStmt) f =>
        evalGuard { S := S, T := T, calls := r, vs := vs, selfSize := structSize r d vs } s.cond = condOnObject r d.fields vs f ∧
        (condOnObject r d.fields vs f = .ok true →
          s.expr.eval { S := S, T := T, calls := r, vs := vs, selfSize := structSize r d vs } = encField S T r d vs f))
        (emitSerialize S da ++ emitSerialize S d) (da.fields ++ ownFields d) by
      have h := evalSer_eq (S := S) (T := T) (d := d) (r := r) (vs := vs) _ _ _ hrel
      rw [← hsplit] at h
      exact h
    apply forall2_append _ hown
    unfold emitSerialize
    rw [hoa]
    apply forall2_map_left
    intro f hf
    have hfd : f ∈ d.fields := by rw [hsplit]; exact List.mem_append_left _ hf
    have hcn := huncond f hf
    have hp : condOnObject r d.fields vs f = .ok true := by unfold condOnObject; simp [hcn]
    refine ⟨?_, ?_⟩
    · unfold condAst
      simp only [hcn, evalGuard, hp]
    · intro _
      obtain ⟨hn, hk, -⟩ := wfgStruct_at hga hf
      exact store_eval hvs (findCompat_prefix hsplit) hn hk (pyObjOk_at hobj hfd)

end
end SymbolVerif.Codec

/-
Decode-encode direction, part 15: what a factory (`deserialize` at an abstract type) returns carries
the discriminator values of the class it picked.
-/
import SymbolVerif.Proofs.Codec.DedStep
import SymbolVerif.Proofs.Codec.DedMono
namespace SymbolVerif.Codec
open SymbolVerif.Bytes

theorem discMatch_of_env {vs env : List (String × Val)} (names : List String) : ∀ (vals : List Int),
    names.mapM (envInt env) = .ok vals →
    (∀ m ∈ names, ∀ i, envInt env m = .ok i → Val.get vs m = some (.int i)) →
    discMatch vs names vals = true := by
  induction names with
  | nil =>
    intro vals h _
    simp only [List.mapM_nil, pure, Except.pure, Except.ok.injEq] at h
    subst h
    rfl
  | cons m ms ih =>
    intro vals h hget
    rw [List.mapM_cons] at h
    obtain ⟨i, hi, h⟩ := bind_eq_ok.mp h
    obtain ⟨is, his, h⟩ := bind_eq_ok.mp h
    simp only [pure, Except.pure, Except.ok.injEq] at h
    subst h
    simp only [discMatch, Bool.and_eq_true]
    refine ⟨?_, ih is his (fun m' hm' => hget m' (by simp [hm']))⟩
    rw [hget m (by simp) i hi]
    simp [valIsInt]

theorem earlyFrom_append (xs : List Field) : ∀ (pre ys : List Field),
    earlyFrom pre (xs ++ ys) = true → earlyFrom (pre ++ xs) ys = true := by
  induction xs with
  | nil => intro pre ys h; simpa using h
  | cons x xs ih =>
    intro pre ys h
    simp only [List.cons_append, earlyFrom, Bool.and_eq_true] at h
    have := ih (pre ++ [x]) ys h.2
    simpa using this

section
variable {S : Schema} {T : String → Bytes → Bytes} {r : Rec}

/-- the header read with the abstract struct's members is the first part of the run of the concrete
    class over the same buffer: the discriminator values seen by the factory are those of the object -/
theorem header_disc {da dc : StructDef} (hdn : allDistinct (dc.fields.map (·.name)) = true)
    (hbase : da.base = none) (htake : dc.fields.take dc.inherited = da.fields)
    (hcarry : ∀ m ∈ da.disc, ∃ gk, lookupField da.fields m = some gk ∧ gk.kind.carries = true)
    {buf : Bytes} {sth stc : DecState} (hh : decFields S T r da da.fields buf = .ok sth)
    (hc : decFields S T r dc dc.fields buf = .ok stc)
    {vs : List (String × Val)} (hobj : objectOf dc stc.env = .ok vs)
    {vals : List Int} (hdisc : da.disc.mapM (envInt sth.env) = .ok vals) :
    discMatch vs da.disc vals = true := by
  have hsplit : dc.fields = da.fields ++ dc.fields.drop dc.inherited := by
    rw [← htake]; exact (List.take_append_drop _ _).symm
  unfold decFields at hh hc
  rw [hsplit, decFrom_append] at hc
  obtain ⟨stm, hm, hown⟩ := bind_eq_ok.mp hc
  have hlen : da.fields.length ≤ dc.inherited := by
    rw [← htake, List.length_take]; exact Nat.min_le_left _ _
  rw [decFrom_congr (S := S) (T := T) (r := r) dc da da.fields 0 _ (fun i st' _ hi => by
    rw [rebase_no_base da hbase, rebase_before dc st' (by omega)])] at hm
  rw [hh] at hm
  simp only [Except.ok.injEq] at hm
  subst hm
  obtain ⟨ext, hext⟩ := decFrom_env (S := S) (T := T) (r := r) dc _ _ _ _ hown
  apply discMatch_of_env da.disc vals hdisc
  intro m hm i hi
  obtain ⟨gk, hl, hcar⟩ := hcarry m hm
  obtain ⟨hgm, hgn⟩ := lookupField_some hl
  have hgd : gk ∈ dc.fields := by rw [hsplit]; exact List.mem_append_left _ hgm
  have := (objectOf_spec hdn hobj).2.1 gk hgd hcar
  rw [hgn] at this
  rw [this, hext]
  exact get_append_some (envInt_ok hi)

end
end SymbolVerif.Codec

/-
Emitted-program semantics, part 2: one emitted statement computes what the layout interpreter computes
for the member (`encField`, `fieldSize`, `condOnObject`).
-/
import SymbolVerif.Proofs.Codec.EmissionAttr
namespace SymbolVerif.Codec
open SymbolVerif.Bytes

section
variable {S : Schema} {T : String → Bytes → Bytes} {r : Rec} {d d0 : StructDef} {vs : List (String × Val)}

/-- the emitting class `d0` (the class itself, or its base class) resolves member names like the class `d` -/
def FindCompat (d0 d : StructDef) : Prop :=
  ∀ n tf, d0.fields.find? (·.name == n) = some tf → lookupField d.fields n = some tf

theorem FindCompat.refl (d : StructDef) : FindCompat d d := fun _ _ h => h

theorem refTypeOf_some {d0 : StructDef} {t ty : String} (h : refTypeOf d0 t = some ty) :
    ∃ tf lim, d0.fields.find? (·.name == t) = some tf ∧ tf.kind = .ref ty lim := by
  unfold refTypeOf at h
  cases hf : d0.fields.find? (·.name == t) with
  | none => simp [hf] at h
  | some tf =>
    obtain ⟨n, k, c⟩ := tf
    cases k <;> simp [hf] at h
    subst h
    exact ⟨_, _, rfl, rfl⟩

theorem isBytesMember_some {d0 : StructDef} {t : String} (h : isBytesMember d0 t = true) :
    ∃ tf sf, d0.fields.find? (·.name == t) = some tf ∧ tf.kind = .barray sf := by
  unfold isBytesMember at h
  cases hf : d0.fields.find? (·.name == t) with
  | none => simp [hf] at h
  | some tf =>
    obtain ⟨n, k, c⟩ := tf
    cases k <;> simp [hf] at h
    exact ⟨_, _, rfl, rfl⟩

theorem isBytesMember_of_ref {d0 : StructDef} {t ty : String} (h : refTypeOf d0 t = some ty) : isBytesMember d0 t = false := by
  obtain ⟨tf, lim, hfind, hk⟩ := refTypeOf_some h
  unfold isBytesMember
  obtain ⟨n, k, c⟩ := tf
  simp only at hk
  subst hk
  simp [hfind]

theorem refTypeOf_of_bytes {d0 : StructDef} {t : String} (h : isBytesMember d0 t = true) : refTypeOf d0 t = none := by
  obtain ⟨tf, sf, hfind, hk⟩ := isBytesMember_some h
  unfold refTypeOf
  obtain ⟨n, k, c⟩ := tf
  simp only at hk
  subst hk
  simp [hfind]

/-- the `…_computed` property is the interpreter's size-ref value -/
theorem computed_eval' {r : Rec} {d d0 : StructDef} {vs : List (String × Val)} {S : Schema} {T : String → Bytes → Bytes}
    (hvs : NamesOk vs) (hcompat : ∀ n tf, d0.fields.find? (·.name == n) = some tf → lookupField d.fields n = some tf)
    {m t : String} {dl : Int}
    (hmt : mangledFree t = true) (hraw : rawNameOk t = true)
    (hk : ((refTypeOf d0 t).isSome || isBytesMember d0 t) = true) (ss : R Nat) :
    (IntExpr.computed m t (refTypeOf d0 t) (isBytesMember d0 t) dl).eval { S := S, T := T, calls := r, vs := vs, selfSize := ss } =
      sizeRefValue r d.fields vs t dl := by
  cases hty : refTypeOf d0 t with
  | some ty =>
    obtain ⟨tf, lim, hfind, htk⟩ := refTypeOf_some hty
    have hl := hcompat t _ hfind
    simp only [IntExpr.eval, attrOf_raw hvs hraw hmt, sizeRefValue, hl, isBytesMember_of_ref hty]
    cases hv : Val.get vs t with
    | none => rfl
    | some v =>
      simp only
      by_cases ht : truthy v = true
      · simp only [ht, Bool.not_true, Bool.false_eq_true, if_false, htk, memberSizeOf]
      · have ht' : truthy v = false := by simpa using ht
        simp [ht']
  | none =>
    simp only [hty, Option.isSome_none, Bool.false_or] at hk
    obtain ⟨tf, sf, hfind, htk⟩ := isBytesMember_some hk
    have hl := hcompat t _ hfind
    simp only [IntExpr.eval, attrOf_raw hvs hraw hmt, sizeRefValue, hl, hk]
    cases hv : Val.get vs t with
    | none => rfl
    | some v =>
      simp only
      by_cases ht : truthy v = true
      · simp only [ht, Bool.not_true, Bool.false_eq_true, if_false, htk, if_true]
        cases v <;> rfl
      · have ht' : truthy v = false := by simpa using ht
        simp [ht']

/-- the part of `pyObjOk` that concerns writing member `f` -/
def StoreOk (vs : List (String × Val)) (f : Field) : Prop :=
  ∀ e m a p k l, f.kind = .array e m a p k → Val.get vs f.name = some (.arr l) → l.length ≤ maxCount

/-- `buffer += <store expression>` appends what the interpreter writes for the member -/
theorem store_eval (hvs : NamesOk vs) (hcompat : FindCompat d0 d) {f : Field} (hname : mangledFree f.name = true)
    (hk : wfgKind d0 f = true) (hok : StoreOk vs f) :
    (storeAst d0 f).eval { S := S, T := T, calls := r, vs := vs, selfSize := structSize r d vs } =
      encField S T r d vs f := by
  unfold storeAst encField wfgKind at *
  cases hkind : f.kind with
  | int w s =>
    simp only [StoreExpr.eval, IntExpr.eval, attrOf_printer hvs hname]
    cases Val.get vs f.name with
    | none => rfl
    | some v => cases v <;> rfl
  | reserved w s value => rfl
  | sizeF w =>
    simp only [StoreExpr.eval, IntExpr.eval]
    cases structSize r d vs <;> rfl
  | count w s t a =>
    simp only [hkind] at hk
    simp only [StoreExpr.eval, IntExpr.eval, attrOf_printer hvs hk]
    cases Val.get vs t with
    | none => rfl
    | some v =>
      cases v with
      | none => cases a <;> rfl
      | _ => rfl
  | byteSize w s t =>
    simp only [hkind, Bool.and_eq_true] at hk
    obtain ⟨hmt, hk⟩ := hk
    cases hfind : d0.fields.find? (·.name == t) with
    | none => simp [hfind] at hk
    | some tf =>
      obtain ⟨n, k, c⟩ := tf
      cases k with
      | array elem mode al pl key =>
        have hl := hcompat t _ hfind
        simp only [hfind, StoreExpr.eval, IntExpr.eval, attrOf_printer hvs hmt, hl, fieldSize]
        cases Val.get vs t with
        | none => rfl
        | some v =>
          cases v with
          | arr l =>
            simp only
            cases elemSizes r elem l <;> rfl
          | _ => rfl
      | _ => simp [hfind] at hk
  | sizeOf w s t =>
    simp only [hkind, Bool.and_eq_true] at hk
    obtain ⟨hmt, hk⟩ := hk
    obtain ⟨ty, hty⟩ := Option.isSome_iff_exists.mp hk
    obtain ⟨tf, lim, hfind, htk⟩ := refTypeOf_some hty
    have hl := hcompat t _ hfind
    simp only [StoreExpr.eval, IntExpr.eval, attrOf_printer hvs hmt, hl, fieldSize, htk, hty, memberSizeOf]
    cases hv : Val.get vs t with
    | none => rfl
    | some v =>
      simp only []
      cases hr : r.size ty v <;> simp only [hr, bind, Except.bind]
  | sizeRef w s t dl =>
    simp only [hkind, Bool.and_eq_true] at hk
    obtain ⟨⟨hmt, hk⟩, hraw⟩ := hk
    simp only [StoreExpr.eval]
    rw [computed_eval' (S := S) (T := T) hvs hcompat hmt hraw hk]
  | ref ty lim =>
    simp only [StoreExpr.eval, attrOf_printer hvs hname]
    cases Val.get vs f.name with
    | none => rfl
    | some v => cases v <;> rfl
  | barray sf =>
    simp only [StoreExpr.eval, attrOf_printer hvs hname]
    cases Val.get vs f.name with
    | none => rfl
    | some v => cases v <;> rfl
  | array elem mode al pl key =>
    simp only [hkind] at hk
    have hb := hok elem mode al pl key
    cases hv : Val.get vs f.name with
    | none =>
      by_cases hal : al = 0
      · subst hal
        cases mode <;> cases key <;> simp [StoreExpr.eval, attrOf_printer hvs hname, hv]
      · have hal' : (al != 0) = true := by simp [hal]
        simp [hal', StoreExpr.eval, attrOf_printer hvs hname, hv]
    | some v =>
      cases v with
      | arr l =>
        have hmax : ¬ l.length > maxCount := by have := hb l hkind hv; omega
        by_cases hal : al = 0
        · subst hal
          cases mode <;> cases key <;>
            simp [StoreExpr.eval, attrOf_printer hvs hname, hv, hmax] at hk ⊢
        · have hal' : (al != 0) = true := by simp [hal]
          simp [hal', StoreExpr.eval, attrOf_printer hvs hname, hv, hmax]
      | int i =>
        by_cases hal : al = 0
        · subst hal
          cases mode <;> cases key <;> simp [StoreExpr.eval, attrOf_printer hvs hname, hv]
        · have hal' : (al != 0) = true := by simp [hal]
          simp [hal', StoreExpr.eval, attrOf_printer hvs hname, hv]
      | bytes b =>
        by_cases hal : al = 0
        · subst hal
          cases mode <;> cases key <;> simp [StoreExpr.eval, attrOf_printer hvs hname, hv]
        · have hal' : (al != 0) = true := by simp [hal]
          simp [hal', StoreExpr.eval, attrOf_printer hvs hname, hv]
      | struct n fs =>
        by_cases hal : al = 0
        · subst hal
          cases mode <;> cases key <;> simp [StoreExpr.eval, attrOf_printer hvs hname, hv]
        · have hal' : (al != 0) = true := by simp [hal]
          simp [hal', StoreExpr.eval, attrOf_printer hvs hname, hv]
      | none =>
        by_cases hal : al = 0
        · subst hal
          cases mode <;> cases key <;> simp [StoreExpr.eval, attrOf_printer hvs hname, hv]
        · have hal' : (al != 0) = true := by simp [hal]
          simp [hal', StoreExpr.eval, attrOf_printer hvs hname, hv]

/-- `size += <size expression>` adds what the interpreter counts for the member -/
theorem size_eval (hvs : NamesOk vs) {f : Field} (hname : mangledFree f.name = true) (ss : R Nat) :
    (sizeAst f).eval { S := S, T := T, calls := r, vs := vs, selfSize := ss } = fieldSize r f (Val.get vs f.name) := by
  unfold sizeAst fieldSize
  cases hkind : f.kind with
  | ref ty lim =>
    simp only [SizeExpr.eval, attrOf_printer hvs hname]
    cases hv : Val.get vs f.name with
    | none => rfl
    | some v => simp only [memberSizeOf]
  | barray sf =>
    simp only [SizeExpr.eval, attrOf_printer hvs hname]
    cases Val.get vs f.name with
    | none => rfl
    | some v => cases v <;> rfl
  | array elem mode al pl key =>
    simp only [SizeExpr.eval, attrOf_printer hvs hname]
    cases Val.get vs f.name with
    | none => rfl
    | some v => cases v <;> rfl
  | _ => rfl

/-- the `…_computed` property is the interpreter's size-ref value (within one class) -/
theorem computed_eval (hvs : NamesOk vs) {m t : String} {dl : Int} {w : Nat} {s : Bool} {cf : Field}
    (hkind : cf.kind = .sizeRef w s t dl) (hk : wfgKind d cf = true) (ss : R Nat) :
    (IntExpr.computed m t (refTypeOf d t) (isBytesMember d t) dl).eval { S := S, T := T, calls := r, vs := vs, selfSize := ss } =
      sizeRefValue r d.fields vs t dl := by
  unfold wfgKind at hk
  simp only [hkind, Bool.and_eq_true] at hk
  obtain ⟨⟨hmt, hk⟩, hraw⟩ := hk
  exact computed_eval' hvs (fun _ _ h => h) hmt hraw hk ss

theorem enum_find_name {ms : List (String × Int)} (hd : enumNamesDistinct ms = true) {m : String × Int} (hm : m ∈ ms) :
    ms.find? (fun x => x.1 == m.1) = some m := by
  induction ms with
  | nil => cases hm
  | cons x xs ih =>
    simp only [enumNamesDistinct, Bool.and_eq_true, Bool.not_eq_true', List.any_eq_false, beq_iff_eq] at hd
    rw [List.find?_cons]
    rcases List.mem_cons.mp hm with rfl | hm'
    · simp
    · have hne : (x.1 == m.1) = false := by
        have := hd.1 m hm'
        simp only [beq_eq_false_iff_ne, ne_eq]
        exact fun h => this h.symm
      simp only [hne]
      exact ih hd.2 hm'

/-- the guard of an emitted statement is the interpreter's condition on the object -/
theorem cond_eval (hvs : NamesOk vs) (hfields : ∀ g ∈ d.fields, mangledFree g.name = true ∧ wfgKind d g = true)
    {f : Field} (hf : f ∈ d.fields) (hc : wfgCond S d f = true) (ss : R Nat) :
    evalGuard { S := S, T := T, calls := r, vs := vs, selfSize := ss } (condAst S d f) = condOnObject r d.fields vs f := by
  unfold condAst condOnObject wfgCond at *
  cases hcond : f.cond with
  | none => rfl
  | some c =>
    simp only [hcond] at hc ⊢
    by_cases hvs' : c.viaSelf = true
    · simp only [hvs', if_true] at hc ⊢
      simp only [evalGuard, CondExpr.eval, attrOf_printer hvs (hfields f hf).1]
    · simp only [hvs', Bool.false_eq_true, if_false] at hc ⊢
      have hlk : lookupField d.fields c.field = d.fields.find? (fun g => g.name == c.field) := rfl
      rw [hlk]
      cases hfind : d.fields.find? (fun g => g.name == c.field) with
      | none => simp [hfind] at hc
      | some cf =>
        simp only [hfind] at hc
        have hcfm : cf ∈ d.fields := List.mem_of_find?_eq_some hfind
        have hcfn : cf.name = c.field := by simpa using List.find?_some hfind
        have hmf : mangledFree c.field = true := by rw [← hcfn]; exact (hfields cf hcfm).1
        obtain ⟨n, k, cc⟩ := cf
        cases k with
        | sizeRef w s t dl =>
          simp only [evalGuard, CondExpr.eval, condValueAst, hfind, CondValue.eval]
          rw [computed_eval hvs (cf := ⟨n, .sizeRef w s t dl, cc⟩) rfl (hfields _ hcfm).2]
          cases sizeRefValue r d.fields vs t dl <;> rfl
        | ref ty lim =>
          simp only [evalGuard, CondExpr.eval, condValueAst, hfind, attrOf_printer hvs hmf]
          cases hS : S.find ty with
          | none =>
            simp only [CondValue.eval]
            cases Val.get vs c.field with
            | none => rfl
            | some v => cases v <;> rfl
          | some td =>
            cases td with
            | enum w s bw ms =>
              simp only [hS, Bool.and_eq_true, List.any_eq_true, beq_iff_eq] at hc
              obtain ⟨⟨m, hm, hmv⟩, hdist⟩ := hc
              have hfv : ∃ m', ms.find? (fun m => m.2 == c.value) = some m' ∧ m' ∈ ms ∧ m'.2 = c.value := by
                cases hfv : ms.find? (fun m => m.2 == c.value) with
                | none =>
                  rw [List.find?_eq_none] at hfv
                  exact absurd (by simpa using hmv) (hfv m hm)
                | some m' => exact ⟨m', rfl, List.mem_of_find?_eq_some hfv, by simpa using List.find?_some hfv⟩
              obtain ⟨m', hfm, hm'mem, hm'v⟩ := hfv
              simp only [hfm, CondValue.eval, hS, enum_find_name hdist hm'mem, hm'v]
              cases Val.get vs c.field with
              | none => rfl
              | some v => cases v <;> rfl
            | _ =>
              simp only [CondValue.eval]
              cases Val.get vs c.field with
              | none => rfl
              | some v => cases v <;> rfl
        | _ =>
          simp only [evalGuard, CondExpr.eval, condValueAst, hfind, attrOf_printer hvs hmf, CondValue.eval]
          cases Val.get vs c.field with
          | none => rfl
          | some v => cases v <;> rfl

end
end SymbolVerif.Codec

/-
Emitted `deserialize`, semantics part 7: one member of a class that may park members in the temporary buffer --
the generator's loop, the decoder and the emitted statements move together (`stepQ`).
-/
import SymbolVerif.Proofs.Codec.EmissionDesUnionRun
namespace SymbolVerif.Codec
open SymbolVerif.Bytes

section
variable {S : Schema} {T : String → Bytes → Bytes} {r : Rec} {d : StructDef} {sm : Option String}

/-- what one step needs of the class and of the position of the member `f` in it -/
structure StepCtx (S : Schema) (d : StructDef) (sm : Option String) (full : List Field) (f : Field) (rest : List Field)
    (base : List Field) : Prop where
  nd : allDistinct (d.fields.map (·.name)) = true
  gd : DesFieldsOk S d
  hsm : ∀ f ∈ d.fields, (sm == some (printerName f.name)) = true ↔ ∃ w, f.kind = .sizeF w
  split : d.fields = full ++ f :: rest
  wf : wfFieldAt S d full f rest.isEmpty = true
  cov : condCovered S full f rest = true
  visb : ∀ n ∈ refsOf f, ∀ x ∈ base, x.name ≠ n

theorem StepCtx.fd {full rest base : List Field} {f : Field} (h : StepCtx S d sm full f rest base) : f ∈ d.fields := by
  rw [h.split]; simp

theorem StepCtx.nefull {full rest base : List Field} {f : Field} (h : StepCtx S d sm full f rest base) :
    ∀ x ∈ full, x.name ≠ f.name := name_ne_of_split h.nd h.split

theorem StepCtx.fullnd {full rest base : List Field} {f : Field} (h : StepCtx S d sm full f rest base) :
    allDistinct (full.map (·.name)) = true := by
  have := h.nd
  rw [h.split, List.map_append] at this
  exact allDistinct_append_left this

theorem StepCtx.fullIn {full rest base : List Field} {f : Field} (h : StepCtx S d sm full f rest base) :
    ∀ x ∈ full, x ∈ d.fields := by
  intro x hx; rw [h.split]; exact List.mem_append_left _ hx

/-- members after `f` have other names -/
theorem StepCtx.nerest {full rest base : List Field} {f : Field} (h : StepCtx S d sm full f rest base) :
    ∀ x ∈ rest, x.name ≠ f.name := by
  have := h.nd
  rw [h.split, List.map_append, List.map_cons] at this
  obtain ⟨h1, -⟩ := allDistinct_cons (allDistinct_append_right this)
  intro x hx hn
  exact h1 (by rw [← hn]; exact List.mem_map_of_mem (f := (·.name)) hx)

variable {σ : PyState} {st : DecState} {ast : DesAstState} {full base pre rest : List Field} {pend : PendQ} {f : Field}

theorem SimQ.subB (hQ : SimQ S d sm σ st ast full base pre pend) : ∀ x ∈ base, x ∈ full :=
  fun x hx => (hQ.mem x).mpr (Or.inl hx)
theorem SimQ.subP (hQ : SimQ S d sm σ st ast full base pre pend) : ∀ x ∈ pre, x ∈ full :=
  fun x hx => (hQ.mem x).mpr (Or.inr (Or.inl hx))
theorem SimQ.subG (hQ : SimQ S d sm σ st ast full base pre pend) : ∀ x ∈ pendList pend, x ∈ full :=
  fun x hx => (hQ.mem x).mpr (Or.inr (Or.inr hx))

theorem SimQ.gcond (hQ : SimQ S d sm σ st ast full base pre pend) : ∀ q ∈ pendList pend, q.cond ≠ none := by
  intro q hq hc
  cases pend with
  | none => cases hq
  | some p =>
    obtain ⟨dn, G⟩ := p
    obtain ⟨-, -, -, h5, -, -⟩ := hQ.qsome dn G rfl
    obtain ⟨c, hcc, -⟩ := (h5 q hq).cond
    rw [hc] at hcc; cases hcc

/-- the names a member's statements mention resolve among the members in scope -/
theorem SimQ.lk (hQ : SimQ S d sm σ st ast full base pre pend) (hc : StepCtx S d sm full f rest base) :
    ∀ n ∈ refsOf f, lookupField full n = lookupField pre n := by
  intro n hn
  rcases refs_unconditional hc.wf hc.cov n hn with h | ⟨g, hl, hgc⟩
  · exact lookup_pre hc.fullnd hQ.subP (Or.inl h)
  · obtain ⟨hgm, hgn⟩ := lookupField_some hl
    rcases (hQ.mem g).mp hgm with hb | hp | hg
    · exact absurd hgn (hc.visb n hn g hb)
    · exact lookup_pre hc.fullnd hQ.subP (Or.inr ⟨g, hl, hp⟩)
    · exact absurd hgc (hQ.gcond g hg)

theorem SimQ.ne (hQ : SimQ S d sm σ st ast full base pre pend) (hc : StepCtx S d sm full f rest base) :
    ∀ x ∈ base ++ pre, x.name ≠ f.name := by
  intro x hx
  rcases List.mem_append.mp hx with hx | hx
  · exact hc.nefull x (hQ.subB x hx)
  · exact hc.nefull x (hQ.subP x hx)

theorem SimQ.fresh (hQ : SimQ S d sm σ st ast full base pre pend) (hc : StepCtx S d sm full f rest base) :
    ∀ x ∈ pre, localName x ≠ localName f := by
  intro x hx heq
  obtain ⟨hmx, hnx, -, -⟩ := hc.gd x (hc.fullIn x (hQ.subP x hx))
  obtain ⟨hmf, hns, -, -⟩ := hc.gd f hc.fd
  exact hc.nefull x (hQ.subP x hx) (localName_inj hmx hmf hnx hns heq)

/-- entries of the generator's queue for other discriminants than the parked one are for members read already -/
theorem SimQ.find_none (hQ : SimQ S d sm σ st ast full base pre pend) {n : String} (hfull : ∀ x ∈ full, x.name ≠ n)
    (hdn : ∀ dn G, pend = some (dn, G) → dn ≠ n) : ast.queued.find? (·.1 == n) = none := by
  rw [List.find?_eq_none]
  intro q hq hqn
  simp only [beq_iff_eq] at hqn
  rcases hQ.stale q hq with h | h
  · obtain ⟨x, hx, hxn⟩ := hQ.procIn _ h
    exact hfull x (hQ.subP x hx) (by rw [hxn, hqn])
  · exact hdn q.1 q.2 h hqn

/-- the outcome of one step: the generator's loop advances to `ast1` appending the items `X`, running `X` gives `σ1`,
    and the three states are related again -/
def StepOut (S : Schema) (T : String → Bytes → Bytes) (r : Rec) (d : StructDef) (sm : Option String) (σ : PyState)
    (st1 : DecState) (ast : DesAstState) (full base : List Field) (f : Field) : Prop :=
  ∃ σ1 ast1 X pre1 pend1,
    (∀ rest', emitDesLoop S d sm (f :: rest') ast = emitDesLoop S d sm rest' ast1) ∧ ast1.items = ast.items ++ X ∧
    execItems S T r X σ = .ok σ1 ∧ SimQ S d sm σ1 st1 ast1 (full ++ [f]) base pre1 pend1

theorem execItems_single (i : DesItem) (σ : PyState) : execItems S T r [i] σ = i.exec S T r σ := by
  simp only [execItems]
  cases i.exec S T r σ <;> rfl

/-- an unconditional member that is not the discriminant of the parked union -/
theorem stepQ_plain (hnn : ∀ ty b v, r.dec ty b = .ok v → v ≠ .none) {d' : StructDef} (hreb : ∀ st i, rebase d' st i = st)
    (hQ : SimQ S d sm σ st ast full base pre pend) (hc : StepCtx S d sm full f rest base) (hfc : f.cond = none)
    (hdn : ∀ dn G, pend = some (dn, G) → dn ≠ f.name) {idx : Nat} {st1 : DecState}
    (hstep : decFieldStep S T r d' st idx f = .ok st1) : StepOut S T r d sm σ st1 ast full base f := by
  obtain ⟨hmf, hns, hgk, hgc⟩ := hc.gd f hc.fd
  have hqnone : st.queued.find? (·.1 == f.name) = none := by
    cases hp : pend with
    | none => rw [hQ.qnone hp]; rfl
    | some p =>
      obtain ⟨dn, G⟩ := p
      obtain ⟨⟨temp, h1, -⟩, -⟩ := hQ.qsome dn G hp
      rw [h1]
      have : (dn == f.name) = false := by simp only [beq_eq_false_iff_ne, ne_eq]; exact hdn dn G hp
      simp [this]
  obtain ⟨σ1, hex, hS1, hq1, hb1, -⟩ := plain_sim hQ.sim hnn hqnone hfc (hQ.fresh hc) (hQ.ne hc) (hQ.lk hc) hc.wf hgk
    (hc.hsm f hc.fd) (hreb st idx) hstep
  have hfn := hQ.find_none hc.nefull hdn
  refine ⟨σ1, astRead S d sm f ast, [DesItem.field (desFieldAst S d sm f none)], pre ++ [f], pend,
    fun rest' => emitDesLoop_read_plain rest' ast hfc, ?_, ?_, ?_⟩
  · simp [astRead, hfn]
  · rw [execItems_single]; exact hex
  · exact hQ.read hS1 hq1 hb1 hc.nefull (fun c hcc => by rw [hfc] at hcc; cases hcc) (fun dn G hp hh => hdn dn G hp hh.symm)

/-- the name of a conditional member is not the discriminant of the parked union -/
theorem SimQ.cond_not_disc (hQ : SimQ S d sm σ st ast full base pre pend) (hc : StepCtx S d sm full f rest base)
    {c : Cond} (hfc : f.cond = some c) : ∀ dn G, pend = some (dn, G) → dn ≠ f.name := by
  intro dn G hp hh
  obtain ⟨-, -, -, -, -, g, hg, hgn, hgc⟩ := hQ.qsome dn G hp
  have := eq_of_name_eq hc.nd hg hc.fd (by rw [hgn, hh])
  rw [this, hfc] at hgc
  cases hgc

/-- a conditional member whose discriminant has been read -/
theorem stepQ_cond_early (hnn : ∀ ty b v, r.dec ty b = .ok v → v ≠ .none) {d' : StructDef} (hreb : ∀ st i, rebase d' st i = st)
    (hQ : SimQ S d sm σ st ast full base pre pend) (hc : StepCtx S d sm full f rest base) {c : Cond} (hfc : f.cond = some c)
    {gk : Field} (hl : lookupField full c.field = some gk) {idx : Nat} {st1 : DecState}
    (hstep : decFieldStep S T r d' st idx f = .ok st1) : StepOut S T r d sm σ st1 ast full base f := by
  obtain ⟨hmf, hns, hgk, hgc⟩ := hc.gd f hc.fd
  have hearly : refOk full c.field (discKindOk c) = true := by
    have := hc.cov
    unfold condCovered at this
    simpa [hfc, hl] using this
  have hdn := hQ.cond_not_disc hc hfc
  -- the discriminant is in scope, hence among the names the generator has processed
  have hproc : ast.processed.contains c.field = true := by
    obtain ⟨g, hlg, hgcn, -⟩ := refOk_some hearly
    have hlp := hQ.lk hc c.field (by simp [refsOf, hfc])
    rw [hlg] at hlp
    obtain ⟨hgm, hgn⟩ := lookupField_some hlp.symm
    have := hQ.procUn g hgm hgcn
    rw [hgn] at this
    simpa using this
  obtain ⟨σ1, hex, hS1, hq1, hb1, -⟩ := cond_sim hQ.sim hnn hfc (hQ.fresh hc) (hQ.ne hc) (hQ.lk hc) hc.wf hgk hgc hearly
    (hc.hsm f hc.fd) (hreb st idx) hstep
  have hfn := hQ.find_none hc.nefull hdn
  refine ⟨σ1, astRead S d sm f ast, [DesItem.field (desFieldAst S d sm f none)], pre ++ [f], pend,
    fun rest' => emitDesLoop_read_cond rest' ast hfc hproc, ?_, ?_, ?_⟩
  · simp [astRead, hfn]
  · rw [execItems_single]; exact hex
  · refine hQ.read hS1 hq1 hb1 hc.nefull ?_ (fun dn G hp hh => hdn dn G hp hh.symm)
    intro c' hcc
    rw [hfc] at hcc
    simp only [Option.some.injEq] at hcc
    subst hcc
    rw [hl]; rfl

/-- facts about a member laid out before its discriminant -/
theorem forward_facts (hQ : SimQ S d sm σ st ast full base pre pend) (hc : StepCtx S d sm full f rest base) {c : Cond}
    (hfc : f.cond = some c) (hl : lookupField full c.field = none) :
    ast.processed.contains c.field = false ∧ Val.get st.env c.field = none ∧ ParkedOk S d sm c.field f ∧
    f.name ≠ c.field ∧ (∃ g ∈ d.fields, g.name = c.field ∧ g.cond = none) ∧
    (∀ dn G, pend = some (dn, G) → dn = c.field) := by
  obtain ⟨hmf, hns, hgk, hgc⟩ := hc.gd f hc.fd
  have hcf := lookupField_none hl
  have hcov := hc.cov
  unfold condCovered at hcov
  simp only [hfc, hl, Option.isSome_none, Bool.false_eq_true, if_false, Bool.and_eq_true] at hcov
  obtain ⟨g, hlg, hgcn, -⟩ := refOk_some hcov.1
  obtain ⟨hgm, hgn⟩ := lookupField_some hlg
  obtain ⟨t, hk⟩ := forward_kind hfc hc.cov hl
  refine ⟨?_, ?_, ⟨⟨c, hfc, rfl⟩, ⟨t, hk⟩, hgk, hgc, hmf, hns, ?_⟩, ?_, ⟨g, by rw [hc.split]; simp [hgm], hgn, hgcn⟩, ?_⟩
  · cases hp : ast.processed.contains c.field with
    | false => rfl
    | true =>
      exfalso
      obtain ⟨x, hx, hxn⟩ := hQ.procIn c.field (by simpa using hp)
      exact hcf x (hQ.subP x hx) hxn
  · apply get_none_of_names
    intro nv hnv hn
    obtain ⟨x, hx, hxn⟩ := hQ.sim.names nv hnv
    have hxf : x ∈ full := by
      rcases List.mem_append.mp hx with hx | hx
      · exact hQ.subB x hx
      · exact hQ.subP x hx
    exact hcf x hxf (by rw [hxn, hn])
  · cases h : (sm == some (printerName f.name)) with
    | false => rfl
    | true => obtain ⟨w, hw⟩ := (hc.hsm f hc.fd).mp h; rw [hk] at hw; cases hw
  · intro hh
    exact hc.nerest g hgm (by rw [hgn, hh])
  · intro dn G hp
    obtain ⟨-, -, hG, h5, h6, -⟩ := hQ.qsome dn G hp
    have h2 := hcov.2
    cases hg : full.getLast? with
    | none =>
      -- nothing read yet: nothing can be parked
      exfalso
      cases G with
      | nil => exact hG rfl
      | cons q _ =>
        have hqf : q ∈ full := hQ.subG q (by rw [hp]; simp [pendList])
        have : full = [] := by simpa using hg
        rw [this] at hqf; cases hqf
    | some gl =>
      have hglm : gl ∈ full := List.mem_of_getLast? hg
      simp only [hg] at h2
      by_cases hco : condOn c.field gl = true
      · -- the member before `f` waits for the same discriminant: it is parked
        unfold condOn at hco
        cases hgc' : gl.cond with
        | none => simp [hgc'] at hco
        | some cg =>
          simp only [hgc', beq_iff_eq] at hco
          rcases (hQ.mem gl).mp hglm with hb | hpp | hgg
          · have := hQ.baseUn gl hb; rw [hgc'] at this; cases this
          · have := hQ.resolved gl hpp cg hgc'
            rw [hco, hl] at this; cases this
          · rw [hp] at hgg
            obtain ⟨c', hcc, hcf'⟩ := (h5 gl hgg).cond
            rw [hgc'] at hcc
            simp only [Option.some.injEq] at hcc
            subst hcc
            rw [← hcf', hco]
      · -- `f` starts a union: every conditional member so far is resolved, so none is parked
        exfalso
        simp only [hco, Bool.false_eq_true, if_false, Bool.and_eq_true] at h2
        have hres := h2.2
        unfold allResolved at hres
        simp only [List.all_eq_true] at hres
        cases G with
        | nil => exact hG rfl
        | cons q _ =>
          have hqG : q ∈ pendList pend := by rw [hp]; simp [pendList]
          obtain ⟨c', hcc, hcf'⟩ := (h5 q (by simp)).cond
          have := hres q (hQ.subG q hqG)
          simp only [hcc, hcf'] at this
          obtain ⟨x, hx⟩ := Option.isSome_iff_exists.mp this
          obtain ⟨hxm, hxn⟩ := lookupField_some hx
          exact h6 x hxm hxn

/-- a member laid out before its discriminant: parked as the head of a union, or queued behind it -/
theorem stepQ_forward (hnn : ∀ ty b v, r.dec ty b = .ok v → v ≠ .none) {d' : StructDef} (hreb : ∀ st i, rebase d' st i = st)
    (hQ : SimQ S d sm σ st ast full base pre pend) (hc : StepCtx S d sm full f rest base) {c : Cond} (hfc : f.cond = some c)
    (hl : lookupField full c.field = none) {idx : Nat} {st1 : DecState}
    (hstep : decFieldStep S T r d' st idx f = .ok st1) : StepOut S T r d sm σ st1 ast full base f := by
  obtain ⟨hproc, henv, hpk, hfcf, hdisc, hsame⟩ := forward_facts hQ hc hfc hl
  have hcf := lookupField_none hl
  unfold decFieldStep at hstep
  simp only [hreb, hfc] at hstep
  unfold decCondField at hstep
  simp only [henv, Option.isSome_none, Bool.false_eq_true, if_false] at hstep
  cases hp : pend with
  | none =>
    subst hp
    have hqn := hQ.qnone rfl
    simp only [hqn, List.find?_nil] at hstep
    obtain ⟨⟨v, adv⟩, hpay, hstep⟩ := bind_eq_ok.mp hstep
    simp only [pure, Except.pure, Except.ok.injEq] at hstep
    subst hstep
    have hfn : (ast.queued.find? (·.1 == c.field)).isSome = false := by
      rw [hQ.find_none hcf (fun dn G h => by cases h)]; rfl
    obtain ⟨t, hk⟩ := hpk.kind
    rw [← hQ.sim.buf] at hpay
    have hex := park_exec (S := S) (T := T) hk hnn hpay (printerName f.name) c.field
    refine ⟨{ σ with buffer := σ.buffer.drop adv, bufs := (c.field ++ "_condition", σ.buffer.take adv) :: σ.bufs },
      DesAstState.mk (ast.items ++ [.park (printerName f.name) c.field (loadAst S f (.var "buffer"))]) ast.processed
        (ast.queued ++ [(c.field, [f])]),
      [.park (printerName f.name) c.field (loadAst S f (.var "buffer"))], pre, some (c.field, [f]),
      fun rest' => emitDesLoop_park rest' ast hfc hproc hfn, rfl, ?_, ?_⟩
    · rw [execItems_single]; exact hex
    · have := hQ.park hpk hc.nefull hfcf hcf hdisc adv (.park (printerName f.name) c.field (loadAst S f (.var "buffer")))
      rw [hQ.sim.buf] at this ⊢
      simpa [hqn] using this
  | some p =>
    obtain ⟨dn, G⟩ := p
    subst hp
    have hdn := hsame dn G rfl
    subst hdn
    obtain ⟨⟨temp, h1, h2⟩, h3, -⟩ := hQ.qsome c.field G rfl
    simp only [h1, List.find?_cons, beq_self_eq_true] at hstep
    simp only [pure, Except.pure, Except.ok.injEq] at hstep
    subst hstep
    have hfs : (ast.queued.find? (·.1 == c.field)).isSome = true := by rw [h3]; rfl
    refine ⟨σ, DesAstState.mk ast.items ast.processed (ast.queued.map fun q => if q.1 == c.field then (q.1, q.2 ++ [f]) else q),
      [], pre, some (c.field, G ++ [f]), fun rest' => emitDesLoop_follow rest' ast hfc hproc hfs, by simp, rfl, ?_⟩
    have := hQ.follow hpk hc.nefull hfcf
    simpa [h1] using this

theorem execItems_append (a b : List DesItem) : ∀ (σ0 σ1 : PyState), execItems S T r a σ0 = .ok σ1 →
    execItems S T r (a ++ b) σ0 = execItems S T r b σ1 := by
  induction a with
  | nil => intro σ0 σ1 h; simp only [execItems, Except.ok.injEq] at h; subst h; rfl
  | cons i a ih =>
    intro σ0 σ1 h
    simp only [List.cons_append, execItems] at h ⊢
    obtain ⟨σm, hm, h⟩ := bind_eq_ok.mp h
    simp only [hm, bind, Except.bind]
    exact ih σm σ1 h

/-- the discriminant of the parked union: read, then the parked members are read from the temporary buffer -/
theorem stepQ_disc (hnn : ∀ ty b v, r.dec ty b = .ok v → v ≠ .none) {d' : StructDef} (hreb : ∀ st i, rebase d' st i = st)
    {dn : String} {G : List Field} (hQ : SimQ S d sm σ st ast full base pre (some (dn, G)))
    (hc : StepCtx S d sm full f rest base) (hfc : f.cond = none) (hfdn : f.name = dn) {idx : Nat} {st1 : DecState}
    (hstep : decFieldStep S T r d' st idx f = .ok st1) : StepOut S T r d sm σ st1 ast full base f := by
  obtain ⟨hmf, hns, hgk, hgc⟩ := hc.gd f hc.fd
  obtain ⟨⟨temp, h1, h2⟩, h3, h4, h5, h6, h7⟩ := hQ.qsome dn G rfl
  unfold decFieldStep at hstep
  simp only [hreb, hfc] at hstep
  unfold decPlainField at hstep
  obtain ⟨⟨v, adv⟩, hpay, hflush⟩ := bind_eq_ok.mp hstep
  simp only at hflush
  -- the same member read by a decoder that has nothing parked
  let st0 : DecState := { st with queued := [] }
  have hstep0 : decFieldStep S T r d' st0 idx f = .ok (afterPlain st0 f v adv) := by
    unfold decFieldStep
    simp only [hreb, hfc]
    unfold decPlainField
    have : decPayload S T r st0.env f st0.buf = .ok (v, adv) := hpay
    simp only [this, bind, Except.bind]
    exact flushQueued_none _ _ _ _ _ (by rw [afterPlain_queued]; rfl)
  have hS0 : Sim σ st0 base pre := hQ.sim.congr rfl rfl
  obtain ⟨σ1, hex1, hS1, -, hb1, -⟩ := plain_sim hS0 hnn (by rfl) hfc (hQ.fresh hc) (hQ.ne hc) (hQ.lk hc) hc.wf hgk
    (hc.hsm f hc.fd) (hreb st0 idx) hstep0
  -- the flush
  unfold flushQueued at hflush
  have hq : (afterPlain st f v adv).queued = [(dn, temp, G)] := by rw [afterPlain_queued, h1]
  simp only [hq, List.find?_cons, hfdn, beq_self_eq_true] at hflush
  obtain ⟨acc, hfold, hflush⟩ := bind_eq_ok.mp hflush
  simp only [Except.ok.injEq] at hflush
  have henv0 : (afterPlain st0 f v adv).env = (afterPlain st f v adv).env := by
    rw [afterPlain_env, afterPlain_env]
  have hbuf0 : (afterPlain st0 f v adv).buf = (afterPlain st f v adv).buf := by
    unfold afterPlain; cases f.kind <;> rfl
  rw [← henv0] at hfold
  have hmfpre : ∀ x ∈ pre ++ [f], mangledFree x.name = true ∧ x.name ≠ "size_" := by
    intro x hx
    rcases List.mem_append.mp hx with hx | hx
    · obtain ⟨a, b, -, -⟩ := hc.gd x (hc.fullIn x (hQ.subP x hx)); exact ⟨a, b⟩
    · simp only [List.mem_singleton] at hx; subst hx; exact ⟨hmf, hns⟩
  have hsep : ∀ q ∈ G, ∀ x ∈ base ++ (pre ++ [f]), x.name ≠ q.name := by
    intro q hq' x hx
    rw [← List.append_assoc] at hx
    rcases List.mem_append.mp hx with hx | hx
    · exact hQ.sep q hq' x hx
    · simp only [List.mem_singleton] at hx
      subst hx
      exact fun hh => hc.nefull q (hQ.subG q hq') hh.symm
  obtain ⟨σ2, hex2, hS2, -⟩ := flush_sim (T := T) (sm := sm) (fdn := f) hfdn hnn G (pre ++ [f]) σ1 (afterPlain st0 f v adv) temp acc
    hS1 (by simp) (by rw [getBuf_cond_of_bufs hb1]; exact h2) h5 hmfpre hsep hQ.gd hfold
  have hS2' : Sim σ2 st1 base (pre ++ [f] ++ G) := by
    rw [← hflush]
    exact hS2.congr hbuf0.symm rfl
  have hq2 : st1.queued = [] := by
    rw [← hflush]
    simp [hq, hfdn]
  refine ⟨σ2, astRead S d sm f ast,
    [DesItem.field (desFieldAst S d sm f none)] ++
      G.map (fun q => DesItem.field (desFieldAst S d sm q (some (f.name ++ "_condition")))),
    pre ++ [f] ++ G, none, fun rest' => emitDesLoop_read_plain rest' ast hfc, ?_, ?_, hQ.flush hfdn hfc hS2' hq2⟩
  · simp [astRead, hfdn, h3]
  · rw [execItems_append _ _ σ σ1 (by rw [execItems_single]; exact hex1), hfdn]
    exact hex2

/-- one member, whichever way the generator treats it -/
theorem stepQ (hnn : ∀ ty b v, r.dec ty b = .ok v → v ≠ .none) {d' : StructDef} (hreb : ∀ st i, rebase d' st i = st)
    (hQ : SimQ S d sm σ st ast full base pre pend) (hc : StepCtx S d sm full f rest base) {idx : Nat} {st1 : DecState}
    (hstep : decFieldStep S T r d' st idx f = .ok st1) : StepOut S T r d sm σ st1 ast full base f := by
  cases hfc : f.cond with
  | none =>
    cases hp : pend with
    | none => exact stepQ_plain hnn hreb hQ hc hfc (fun dn G h => by rw [hp] at h; cases h) hstep
    | some p =>
      obtain ⟨dn, G⟩ := p
      by_cases hdn : f.name = dn
      · subst hp; exact stepQ_disc hnn hreb hQ hc hfc hdn hstep
      · refine stepQ_plain hnn hreb hQ hc hfc ?_ hstep
        intro dn' G' h
        rw [hp] at h
        simp only [Option.some.injEq, Prod.mk.injEq] at h
        rw [← h.1]
        exact fun hh => hdn hh.symm
  | some c =>
    cases hl : lookupField full c.field with
    | some gk => exact stepQ_cond_early hnn hreb hQ hc hfc hl hstep
    | none => exact stepQ_forward hnn hreb hQ hc hfc hl hstep

/-- the member statements of a class simulate `decFrom`, members parked in the temporary buffer included -/
theorem decFrom_simQ (hnn : ∀ ty b v, r.dec ty b = .ok v → v ≠ .none)
    (hnd : allDistinct (d.fields.map (·.name)) = true) (hgd : DesFieldsOk S d)
    (hsm : ∀ f ∈ d.fields, (sm == some (printerName f.name)) = true ↔ ∃ w, f.kind = .sizeF w)
    (d' : StructDef) (hreb : ∀ st i, rebase d' st i = st) (base : List Field) (fs : List Field) :
    ∀ (full post : List Field) (σ : PyState) (st st' : DecState) (idx : Nat) (ast : DesAstState) (pre : List Field)
      (pend : PendQ),
    d.fields = full ++ fs ++ post → wfFieldsFrom S d full (fs ++ post) = true → coveredFrom S full (fs ++ post) = true →
    (∀ f ∈ fs, ∀ n ∈ refsOf f, ∀ x ∈ base, x.name ≠ n) →
    SimQ S d sm σ st ast full base pre pend → decFrom S T r d' fs idx st = .ok st' →
    ∃ σ' pre' pend', execItems S T r (newItems S d sm fs ast) σ = .ok σ' ∧
      SimQ S d sm σ' st' (emitDesLoop S d sm fs ast) (full ++ fs) base pre' pend' := by
  induction fs with
  | nil =>
    intro full post σ st st' idx ast pre pend _ _ _ _ hQ hdec
    simp only [decFrom, Except.ok.injEq] at hdec
    subst hdec
    refine ⟨σ, pre, pend, ?_, ?_⟩
    · simp [newItems, emitDesLoop, execItems]
    · simpa [emitDesLoop] using hQ
  | cons f rest ih =>
    intro full post σ st st' idx ast pre pend hsplit hwf hcov hvis hQ hdec
    unfold decFrom at hdec
    obtain ⟨st1, hstep, hdec⟩ := bind_eq_ok.mp hdec
    simp only [List.cons_append, wfFieldsFrom, coveredFrom, Bool.and_eq_true] at hwf hcov
    have hc : StepCtx S d sm full f (rest ++ post) base :=
      ⟨hnd, hgd, hsm, by rw [hsplit]; simp, hwf.1, hcov.1, hvis f (by simp)⟩
    obtain ⟨σ1, ast1, X, pre1, pend1, hemit, hitems, hex, hQ1⟩ := stepQ hnn hreb hQ hc hstep
    obtain ⟨σ2, pre2, pend2, hex2, hQ2⟩ := ih (full ++ [f]) post σ1 st1 st' (idx + 1) ast1 pre1 pend1
      (by rw [hsplit]; simp) hwf.2 hcov.2 (fun g hg => hvis g (List.mem_cons_of_mem _ hg)) hQ1 hdec
    refine ⟨σ2, pre2, pend2, ?_, ?_⟩
    · rw [newItems_step (hemit rest) hitems, execItems_append _ _ σ σ1 hex]
      exact hex2
    · rw [hemit rest]
      simpa using hQ2

end
end SymbolVerif.Codec

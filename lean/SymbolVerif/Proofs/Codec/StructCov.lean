/-
Struct-level round trip, part 7: the supported-definitions check (`covN`) separated from
admissibility (`admN`), and schemas in which every struct definition is covered.
-/
import SymbolVerif.Proofs.Codec.StructStep
namespace SymbolVerif.Codec
open SymbolVerif.Bytes

theorem admMember_and {a1 a2 a3 : String → Val → Bool}
    (h : ∀ ty v, a1 ty v = true → a2 ty v = true → a3 ty v = true) (vs : List (String × Val)) (f : Field)
    (h1 : admMember a1 vs f = true) (h2 : admMember a2 vs f = true) : admMember a3 vs f = true := by
  unfold admMember at *
  cases hk : f.kind with
  | ref ty l =>
    simp only [hk] at h1 h2 ⊢
    cases hv : Val.get vs f.name with
    | none => rfl
    | some v =>
      simp only [hv, Bool.or_eq_true] at h1 h2 ⊢
      rcases h1 with h1 | h1
      · exact .inl h1
      · rcases h2 with h2 | h2
        · exact .inl h2
        · exact .inr (h ty v h1 h2)
  | array elem m al pl k =>
    simp only [hk] at h1 h2 ⊢
    cases hv : Val.get vs f.name with
    | none => rfl
    | some v =>
      cases v with
      | arr l =>
        simp only [hv, List.all_eq_true] at h1 h2 ⊢
        exact fun x hx => h elem x (h1 x hx) (h2 x hx)
      | _ => rfl
  | _ => rfl

theorem admMember_true {a : String → Val → Bool} (h : ∀ ty v, a ty v = true) (vs : List (String × Val)) (f : Field) :
    admMember a vs f = true := by
  unfold admMember
  cases hk : f.kind with
  | ref ty l =>
    cases hv : Val.get vs f.name with
    | none => rfl
    | some v => simp [h]
  | array elem m al pl k =>
    cases hv : Val.get vs f.name with
    | none => rfl
    | some v =>
      cases v with
      | arr l => simp [h]
      | _ => rfl
  | _ => rfl

theorem okStruct_of {S : Schema} {sup : StructDef → Bool} {r : Rec} {a1 a2 a3 : String → Val → Bool}
    (h : ∀ ty v, a1 ty v = true → a2 ty v = true → a3 ty v = true) (d : StructDef) (vs : List (String × Val))
    (h1 : okStruct S (fun _ => true) r a1 d vs = true) (h2 : covStruct sup a2 d vs = true) :
    okStruct S sup r a3 d vs = true := by
  unfold okStruct at *
  unfold covStruct at h2
  simp only [Bool.and_eq_true, List.all_eq_true, true_and] at h1 h2 ⊢
  exact ⟨⟨h2.1, fun f hf => ⟨(h1.1 f hf).1, admMember_and h vs f (h1.1 f hf).2 (h2.2 f hf)⟩⟩, h1.2⟩

theorem okStep_of {S : Schema} {sup : StructDef → Bool} {r : Rec} {a1 a2 a3 : String → Val → Bool}
    (h : ∀ ty v, a1 ty v = true → a2 ty v = true → a3 ty v = true) (ty : String) (v : Val)
    (h1 : okStep S (fun _ => true) r a1 ty v = true) (h2 : covStep S sup a2 ty v = true) :
    okStep S sup r a3 ty v = true := by
  unfold okStep at *
  unfold covStep at h2
  cases hf : S.find ty with
  | none => rfl
  | some t =>
    cases t with
    | struct d =>
      simp only [hf] at h1 h2 ⊢
      cases v with
      | struct vty vs =>
        simp only at h1 h2 ⊢
        by_cases hab : d.abstract = true
        · simp only [hab, if_true] at h1 h2 ⊢
          cases hfc : S.find vty with
          | none => simp only [hfc] at h1 h2 ⊢; exact h _ _ h1 h2
          | some tc =>
            cases tc with
            | struct dc =>
              simp only [hfc] at h1 h2 ⊢
              by_cases hac : dc.abstract = true
              · simp only [hac, if_true] at h1 h2 ⊢; exact h _ _ h1 h2
              · simp only [hac, Bool.false_eq_true, if_false] at h1 h2 ⊢
                exact okStruct_of h dc vs h1 h2
            | _ => simp only [hfc] at h1 h2 ⊢; exact h _ _ h1 h2
        · simp only [hab, Bool.false_eq_true, if_false] at h1 h2 ⊢
          exact okStruct_of h d vs h1 h2
      | _ => rfl
    | _ => rfl

/-- an admissible value built from supported struct definitions -/
theorem okN_of_adm_cov (S : Schema) (T : String → Bytes → Bytes) (sup : StructDef → Bool) :
    ∀ n ty v, admN S T n ty v = true → covN S sup n ty v = true → okN S T sup n ty v = true := by
  intro n
  induction n with
  | zero => intro _ _ _ _; rfl
  | succ n ih => exact fun ty v h1 h2 => okStep_of ih ty v h1 h2

/-- when every struct definition of the schema is supported, the check is vacuous -/
theorem covN_of_all {S : Schema} {sup : StructDef → Bool}
    (hall : ∀ n d, S.find n = some (.struct d) → sup d = true) : ∀ n ty v, covN S sup n ty v = true := by
  intro n
  induction n with
  | zero => intro _ _; rfl
  | succ n ih =>
    intro ty v
    show covStep S sup (covN S sup n) ty v = true
    unfold covStep
    have hs : ∀ nm d vs, S.find nm = some (.struct d) → covStruct sup (covN S sup n) d vs = true := by
      intro nm d vs hf
      unfold covStruct
      simp only [Bool.and_eq_true, List.all_eq_true]
      exact ⟨hall nm d hf, fun f _ => admMember_true ih vs f⟩
    cases hf : S.find ty with
    | none => rfl
    | some t =>
      cases t with
      | struct d =>
        cases v with
        | struct vty vs =>
          simp only
          by_cases hab : d.abstract = true
          · simp only [hab, if_true]
            cases hfc : S.find vty with
            | none => exact ih _ _
            | some tc =>
              cases tc with
              | struct dc =>
                simp only
                by_cases hac : dc.abstract = true
                · simp only [hac, if_true]; exact ih _ _
                · simp only [hac, Bool.false_eq_true, if_false]; exact hs vty dc vs hfc
              | _ => exact ih _ _
          · simp only [hab, Bool.false_eq_true, if_false]; exact hs ty d vs hf
        | _ => rfl
      | _ => rfl

theorem covered_of_uncovered_nil {S : Schema} (h : uncoveredStructs S = []) :
    ∀ n d, S.find n = some (.struct d) → d.covered = true := by
  intro n d hf
  have hm := Schema.find_mem hf
  unfold uncoveredStructs at h
  rw [List.filterMap_eq_nil_iff] at h
  have := h _ hm
  simp only at this
  by_cases hc : d.covered = true
  · exact hc
  · simp [hc] at this

/-! ### a concrete class seen through its factory type -/

/-- encoding a child object at its own type or at its factory type is the same thing, and so are
    the admissibility checks -/
theorem child_at_factory {S : Schema} {T : String → Bytes → Bytes} (hwf : WF S = true) {a c : String}
    {da dc : StructDef} (hfa : S.find a = some (.struct da)) (hab : da.abstract = true)
    (hchild : (c, dc) ∈ S.children a) (r : Rec) {v : Val} {b : Bytes}
    (henc : encTypeStep S T r c v = .ok b) :
    encTypeStep S T r a v = .ok b ∧
    (∀ sup g, okStep S sup r g a v = okStep S sup r g c v) ∧
    (∀ sup g, covStep S sup g a v = covStep S sup g c v) := by
  have hany : (S.children a).any (·.1 == c) = true := by
    simp only [List.any_eq_true, beq_iff_eq]
    exact ⟨(c, dc), hchild, rfl⟩
  obtain ⟨dc', hm', hfc, hna, -, -, -⟩ := child_facts hwf hfa hany
  unfold encTypeStep at henc
  simp only [hfc] at henc
  cases v with
  | struct vty vs =>
    simp only [hna, Bool.false_eq_true, if_false] at henc
    split at henc
    · rename_i hc
      simp only [Bool.and_eq_true, beq_iff_eq] at hc
      obtain ⟨rfl, hshape⟩ := hc
      refine ⟨?_, ?_, ?_⟩
      · unfold encTypeStep
        simp only [hfa, hab, if_true, hany, hfc, hna, Bool.false_eq_true, if_false, hshape]
        exact henc
      · intro sup g
        unfold okStep
        simp only [hfa, hab, if_true, hfc, hna, Bool.false_eq_true, if_false]
      · intro sup g
        unfold covStep
        simp only [hfa, hab, if_true, hfc, hna, Bool.false_eq_true, if_false]
    · cases henc
  | _ => simp at henc

end SymbolVerif.Codec

/-
Emitted-program semantics, part 1: attribute access by rendered name is member access by schema name,
as long as the names avoid the collisions of the generator's `fix_name`.
-/
import SymbolVerif.Proofs.Codec.EmissionRender
import SymbolVerif.Proofs.Codec.StructBase
namespace SymbolVerif.Codec
open SymbolVerif.Bytes

theorem printerName_of_plain {n : String} (h1 : n ≠ "type") (h2 : n ≠ "property") : printerName n = n := by
  unfold printerName
  simp [h1, h2]

theorem mangledFree_iff {n : String} : mangledFree n = true ↔ n ≠ "type_" ∧ n ≠ "property_" := by
  unfold mangledFree
  simp

theorem rawNameOk_iff {n : String} : rawNameOk n = true ↔ n ≠ "type" ∧ n ≠ "property" := by
  unfold rawNameOk
  simp

/-- `fix_name` is injective on names that are not themselves of the mangled form -/
theorem printerName_inj {a b : String} (ha : mangledFree a = true) (hb : mangledFree b = true)
    (h : printerName a = printerName b) : a = b := by
  obtain ⟨ha1, ha2⟩ := mangledFree_iff.mp ha
  obtain ⟨hb1, hb2⟩ := mangledFree_iff.mp hb
  unfold printerName at h
  by_cases hat : a = "type"
  · subst hat
    by_cases hbt : b = "type"
    · exact hbt.symm
    · by_cases hbp : b = "property"
      · subst hbp; simp at h
      · simp [hbt, hbp] at h
        exact absurd h.symm hb1
  · by_cases hap : a = "property"
    · subst hap
      by_cases hbt : b = "type"
      · subst hbt; simp at h
      · by_cases hbp : b = "property"
        · exact hbp.symm
        · simp [hbt, hbp] at h
          exact absurd h.symm hb2
    · by_cases hbt : b = "type"
      · subst hbt
        simp [hat, hap] at h
        exact absurd h ha1
      · by_cases hbp : b = "property"
        · subst hbp
          simp [hat, hap] at h
          exact absurd h ha2
        · simpa [hat, hap, hbt, hbp] using h

theorem find?_congr' {α : Type} {p q : α → Bool} {l : List α} (h : ∀ x ∈ l, p x = q x) : l.find? p = l.find? q := by
  induction l with
  | nil => rfl
  | cons a l ih =>
    simp only [List.find?_cons, h a (by simp)]
    rw [ih (fun x hx => h x (by simp [hx]))]

/-- the members of the object have unmangled names -/
def NamesOk (vs : List (String × Val)) : Prop := ∀ nv ∈ vs, mangledFree nv.1 = true

/-- `self._<fix m>` / `self.<fix m>` is the member `m` -/
theorem attrOf_printer {vs : List (String × Val)} (hvs : NamesOk vs) {m : String} (hm : mangledFree m = true) :
    attrOf vs (printerName m) = Val.get vs m := by
  unfold attrOf Val.get
  congr 1
  apply find?_congr'
  intro nv hnv
  show (printerName nv.1 == printerName m) = (nv.1 == m)
  by_cases h : nv.1 = m
  · have e1 : (printerName nv.1 == printerName m) = true := by rw [h]; exact beq_self_eq_true _
    have e2 : (nv.1 == m) = true := by rw [h]; exact beq_self_eq_true _
    rw [e1, e2]
  · have : printerName nv.1 ≠ printerName m := fun hh => h (printerName_inj (hvs nv hnv) hm hh)
    have e1 : (printerName nv.1 == printerName m) = false := beq_eq_false_iff_ne.mpr this
    have e2 : (nv.1 == m) = false := beq_eq_false_iff_ne.mpr h
    rw [e1, e2]

/-- `self.<n>` for a name the generator writes unmangled is the member `n`, provided `n` is not `type` / `property` -/
theorem attrOf_raw {vs : List (String × Val)} (hvs : NamesOk vs) {n : String} (hn : rawNameOk n = true)
    (hm : mangledFree n = true) : attrOf vs n = Val.get vs n := by
  obtain ⟨h1, h2⟩ := rawNameOk_iff.mp hn
  have := attrOf_printer hvs hm
  rwa [printerName_of_plain h1 h2] at this

/-- the generator's finding: `self.type` names nothing (the property is called `type_`) -/
theorem attrOf_type (vs : List (String × Val)) : attrOf vs "type" = none ∧ attrOf vs "property" = none := by
  unfold attrOf
  constructor <;>
  · rw [Option.map_eq_none_iff, List.find?_eq_none]
    intro nv _
    unfold printerName
    split <;> rename_i h
    · simp only [Bool.or_eq_true, beq_iff_eq] at h
      rcases h with h | h <;> simp [h]
    · simp only [Bool.or_eq_true, beq_iff_eq, not_or] at h
      simp [h.1, h.2]

end SymbolVerif.Codec

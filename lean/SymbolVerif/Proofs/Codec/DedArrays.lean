/-
Decode-encode direction, part 2: what the array readers return.
Every element comes out of the element decoder; a counted array has the requested number of elements
and, when keyed, strictly ascending keys (so `write_array` accepts it again).
-/
import SymbolVerif.Proofs.Codec.DedInts
import SymbolVerif.Proofs.Codec.StructBase
namespace SymbolVerif.Codec
open SymbolVerif.Bytes

/-- `e` is a value the element decoder returned for some input -/
def FromDec (r : Rec) (elem : String) (e : Val) : Prop := ∃ view, r.dec elem view = .ok e

/-- the keys seen so far (`prev`) followed by `keys` are strictly ascending -/
def chainOk : Option (List KeyPart) → List (List KeyPart) → Bool
  | none, keys => strictlyAscending keys
  | some p, keys => strictlyAscending (p :: keys)

theorem decArrayCount_ok (S : Schema) (T : String → Bytes → Bytes) (r : Rec) (elem : String) (key : Option String)
    (n : Nat) : ∀ (view : Bytes) (prev : Option (List KeyPart)) (acc l : List Val),
    decArrayCount S T r elem key n view prev acc = .ok l →
    ∃ l', l = acc.reverse ++ l' ∧ l'.length = n ∧ (∀ e ∈ l', FromDec r elem e) ∧
      (∀ k, key = some k → ∃ keys, l'.mapM (sortKeyOf S T elem k) = .ok keys ∧ chainOk prev keys = true) := by
  induction n with
  | zero =>
    intro view prev acc l h
    simp only [decArrayCount, Except.ok.injEq] at h
    refine ⟨[], by simp [h], rfl, (fun _ h => by cases h), ?_⟩
    intro k _
    refine ⟨[], rfl, ?_⟩
    cases prev <;> simp [chainOk, strictlyAscending]
  | succ n ih =>
    intro view prev acc l h
    unfold decArrayCount at h
    cases hd : r.dec elem view with
    | error e => simp [hd] at h
    | ok e =>
      simp only [hd] at h
      cases hs : r.size elem e with
      | error err => simp [hs] at h
      | ok s =>
        simp only [hs] at h
        split at h
        · cases h
        · cases key with
          | none =>
            simp only at h
            obtain ⟨l', hl, hlen, hfrom, -⟩ := ih _ _ _ _ h
            refine ⟨e :: l', by simp [hl], by simp [hlen], ?_, fun k hk => by cases hk⟩
            intro x hx
            rcases List.mem_cons.mp hx with rfl | hx
            · exact ⟨view, hd⟩
            · exact hfrom x hx
          | some k =>
            simp only at h
            cases hk : sortKeyOf S T elem k e with
            | error err => simp [hk] at h
            | ok ke =>
              simp only [hk] at h
              have hrec : ∀ (hprev : chainOk prev [ke] = true),
                  decArrayCount S T r elem (some k) n (view.drop s) (some ke) (e :: acc) = .ok l →
                  ∃ l', l = acc.reverse ++ l' ∧ l'.length = n + 1 ∧ (∀ e ∈ l', FromDec r elem e) ∧
                    (∀ k', some k = some k' → ∃ keys, l'.mapM (sortKeyOf S T elem k') = .ok keys ∧ chainOk prev keys = true) := by
                intro hprev h'
                obtain ⟨l', hl, hlen, hfrom, hkeys⟩ := ih _ _ _ _ h'
                obtain ⟨keys, hm, hch⟩ := hkeys k rfl
                refine ⟨e :: l', by simp [hl], by simp [hlen], ?_, ?_⟩
                · intro x hx
                  rcases List.mem_cons.mp hx with rfl | hx
                  · exact ⟨view, hd⟩
                  · exact hfrom x hx
                · intro k' hk'
                  simp only [Option.some.injEq] at hk'
                  subst hk'
                  refine ⟨ke :: keys, by simp [List.mapM_cons, hk, hm, bind, Except.bind, pure, Except.pure], ?_⟩
                  simp only [chainOk] at hch hprev ⊢
                  cases prev with
                  | none => exact hch
                  | some p =>
                    simp only [strictlyAscending, Bool.and_eq_true] at hprev ⊢
                    exact ⟨hprev.1, hch⟩
              cases prev with
              | none => exact hrec (by simp [chainOk, strictlyAscending]) h
              | some p =>
                simp only at h
                split at h
                · rename_i hlt
                  exact hrec (by simp [chainOk, strictlyAscending, hlt]) h
                · cases h

theorem decArrayFill_ok (r : Rec) (elem : String) (fuel : Nat) : ∀ (view : Bytes) (l : List Val),
    decArrayFill r elem fuel view = .ok l → ∀ e ∈ l, FromDec r elem e := by
  induction fuel with
  | zero =>
    intro view l h
    unfold decArrayFill at h
    split at h
    · simp only [Except.ok.injEq] at h; subst h; intro e he; cases he
    · cases h
  | succ n ih =>
    intro view l h
    unfold decArrayFill at h
    split at h
    · simp only [Except.ok.injEq] at h; subst h; intro e he; cases he
    · obtain ⟨e, hd, h⟩ := bind_eq_ok.mp h
      obtain ⟨s, hs, h⟩ := bind_eq_ok.mp h
      split at h
      · cases h
      · obtain ⟨rest, hr, h⟩ := bind_eq_ok.mp h
        simp only [Except.ok.injEq] at h
        subst h
        intro x hx
        rcases List.mem_cons.mp hx with rfl | hx
        · exact ⟨view, hd⟩
        · exact ih _ _ hr x hx

theorem decArrayAligned_ok (r : Rec) (elem : String) (align : Nat) (padLast : Bool) (fuel : Nat) :
    ∀ (view : Bytes) (l : List Val),
    decArrayAligned r elem align padLast fuel view = .ok l → ∀ e ∈ l, FromDec r elem e := by
  induction fuel with
  | zero =>
    intro view l h
    unfold decArrayAligned at h
    split at h
    · simp only [Except.ok.injEq] at h; subst h; intro e he; cases he
    · cases h
  | succ n ih =>
    intro view l h
    unfold decArrayAligned at h
    split at h
    · simp only [Except.ok.injEq] at h; subst h; intro e he; cases he
    · obtain ⟨e, hd, h⟩ := bind_eq_ok.mp h
      obtain ⟨s, hs, h⟩ := bind_eq_ok.mp h
      have aux : ∀ X, (decArrayAligned r elem align padLast n X >>= fun rest => (.ok (e :: rest) : R (List Val))) = .ok l →
          ∀ x ∈ l, FromDec r elem x := by
        intro X hX
        obtain ⟨rest, hr, hX⟩ := bind_eq_ok.mp hX
        simp only [Except.ok.injEq] at hX
        subst hX
        intro x hx
        rcases List.mem_cons.mp hx with rfl | hx
        · exact ⟨view, hd⟩
        · exact ih _ _ hr x hx
      split at h
      · cases h
      · simp only [] at h
        split at h <;> (split at h <;> first | cases h | exact aux _ h)

/-! ### writing a list of encodable elements -/

theorem encArrayPlain_ok (r : Rec) (elem : String) (l : List Val) (h : ∀ e ∈ l, ∃ b, r.enc elem e = .ok b) :
    ∃ b, encArrayPlain r elem l = .ok b := by
  induction l with
  | nil => exact ⟨[], rfl⟩
  | cons e l ih =>
    obtain ⟨be, hbe⟩ := h e (by simp)
    obtain ⟨bl, hbl⟩ := ih (fun x hx => h x (by simp [hx]))
    exact ⟨be ++ bl, by simp [encArrayPlain, hbe, hbl, bind, Except.bind]⟩

theorem encArrayAligned_ok (r : Rec) (elem : String) (align : Nat) (padLast : Bool) (l : List Val)
    (h : ∀ e ∈ l, (∃ b, r.enc elem e = .ok b) ∧ ∃ s, r.size elem e = .ok s) :
    ∃ b, encArrayAligned r elem align padLast l = .ok b := by
  induction l with
  | nil => exact ⟨[], rfl⟩
  | cons e l ih =>
    obtain ⟨⟨be, hbe⟩, ⟨s, hs⟩⟩ := h e (by simp)
    obtain ⟨bl, hbl⟩ := ih (fun x hx => h x (by simp [hx]))
    simp only [encArrayAligned, hbe, hs, hbl, bind, Except.bind]
    exact ⟨_, rfl⟩

theorem elemSizes_ok (r : Rec) (elem : String) (l : List Val) (h : ∀ e ∈ l, ∃ s, r.size elem e = .ok s) :
    ∃ ss, elemSizes r elem l = .ok ss := by
  induction l with
  | nil => exact ⟨[], rfl⟩
  | cons e l ih =>
    obtain ⟨s, hs⟩ := h e (by simp)
    obtain ⟨ss, hss⟩ := ih (fun x hx => h x (by simp [hx]))
    exact ⟨s :: ss, by simp [elemSizes, hs, hss, bind, Except.bind]⟩

end SymbolVerif.Codec

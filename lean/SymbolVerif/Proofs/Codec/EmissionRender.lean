/-
The text of the `serialize` / `size` bodies (Emission.lean) is the rendering of the abstract program
(EmissionSem.lean).
-/
import SymbolVerif.Model.Codec.EmissionSem
namespace SymbolVerif.Codec

theorem render_storeAst (d : StructDef) (f : Field) : (storeAst d f).render = storeExpr d f := by
  unfold storeAst storeExpr
  cases hk : f.kind with
  | int w s => rfl
  | reserved w s v => rfl
  | sizeF w => rfl
  | count w s t a => cases a <;> rfl
  | byteSize w s t =>
    simp only []
    cases hfind : d.fields.find? (·.name == t) with
    | none => rfl
    | some tf =>
      obtain ⟨n, k, c⟩ := tf
      cases k <;> rfl
  | sizeOf w s t => rfl
  | sizeRef w s t dl => rfl
  | ref ty l => rfl
  | barray sf => rfl
  | array elem mode al pl key =>
    simp only
    split
    · rfl
    · cases mode <;> cases key <;> rfl

theorem render_condValueAst (S : Schema) (d : StructDef) (c : Cond) :
    ((condValueAst S d c).render,
      (match d.fields.find? (fun g => g.name == c.field) with
        | some ⟨_, .sizeRef _ _ _ _, _⟩ => "_computed"
        | _ => "")) = condOperands S d c := by
  unfold condValueAst condOperands
  cases hfind : d.fields.find? (fun g => g.name == c.field) with
  | none => rfl
  | some cf =>
    obtain ⟨n, k, cc⟩ := cf
    cases k with
    | ref ty l =>
      simp only
      cases hS : S.find ty with
      | none => rfl
      | some t =>
        cases t with
        | enum w s bw ms =>
          simp only
          cases ms.find? (fun m => m.2 == c.value) <;> rfl
        | _ => rfl
    | _ => rfl

theorem render_condAst (S : Schema) (d : StructDef) (f : Field) :
    (condAst S d f).map CondExpr.render = conditionLine S d f := by
  unfold condAst conditionLine
  cases hc : f.cond with
  | none => rfl
  | some c =>
    simp only
    split
    · rfl
    · have h := render_condValueAst S d c
      simp only [Option.map_some, CondExpr.render, Option.some.injEq]
      rw [← h]
      simp only
      cases hfind : d.fields.find? (fun g => g.name == c.field) with
      | none => cases c.op <;> rfl
      | some cf =>
        obtain ⟨n, k, cc⟩ := cf
        cases k <;> cases c.op <;> rfl

theorem render_sizeAst (f : Field) : (sizeAst f).render = sizeExpr f := by
  unfold sizeAst sizeExpr
  cases f.kind <;> rfl

/-- the lines of `generate_serialize_fields` are the rendering of `emitSerialize` -/
theorem renderSer_emitSerialize (S : Schema) (d : StructDef) :
    renderSer (emitSerialize S d) = serializeFieldLines S d := by
  unfold renderSer emitSerialize serializeFieldLines
  rw [List.flatMap_map]
  congr 1
  funext f
  simp only [SerStmt.render, render_condAst, render_storeAst]

theorem renderSize_emitSize (S : Schema) (d : StructDef) :
    renderSize (emitSize S d) =
      (ownFields d).flatMap fun f => guarded (conditionLine S d f) ("size += " ++ sizeExpr f) := by
  unfold renderSize emitSize
  rw [List.flatMap_map]
  congr 1
  funext f
  simp only [SizeStmt.render, render_condAst, render_sizeAst]

/-- the body of `serialize` -/
theorem serializeBody_eq (S : Schema) (d : StructDef) :
    serializeBody S d =
      ["buffer = bytearray()"] ++ (if d.base.isSome then ["super()._serialize(buffer)"] else []) ++
      (if d.abstract then ["self._serialize(buffer)"] else renderSer (emitSerialize S d)) ++ ["return buffer"] := by
  unfold serializeBody
  rw [renderSer_emitSerialize]

/-- the body of the `size` property -/
theorem sizeBody_eq (S : Schema) (d : StructDef) :
    sizeBody S d =
      ["size = 0"] ++ (if d.base.isSome then ["size += super().size"] else []) ++
      renderSize (emitSize S d) ++ ["return size"] := by
  unfold sizeBody
  rw [renderSize_emitSize]

end SymbolVerif.Codec

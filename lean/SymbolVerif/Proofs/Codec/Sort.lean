/-
The order of sort keys used by keyed arrays (`sorted(..., key=...)`, the `prev >= next` check) and the
behaviour of `sortByKey` (stable merge sort by key).

`KeyPart.lt` puts every `.int` before every `.bytes`, which makes `keyLt` a strict *total* order on all keys;
Python would raise `TypeError` on such a comparison, but one sort key never produces both constructors at one
position (`sameShape`). All order facts are therefore proved without a shape hypothesis, and the `sameShape`
versions asked for by the property are corollaries.
-/
import SymbolVerif.Model.Codec.Render
namespace SymbolVerif.Codec
open SymbolVerif.Bytes

/-! ### strict total orders and their lexicographic extension -/

/-- a Boolean strict total order -/
structure StrictTotal {α : Type} (lt : α → α → Bool) : Prop where
  irrefl : ∀ a, lt a a = false
  trans : ∀ a b c, lt a b = true → lt b c = true → lt a c = true
  tri : ∀ a b, lt a b = true ∨ a = b ∨ lt b a = true

theorem StrictTotal.asymm {α : Type} {lt : α → α → Bool} (h : StrictTotal lt) {a b : α}
    (hab : lt a b = true) : lt b a = false := by
  cases hba : lt b a with
  | false => rfl
  | true => have := h.trans a b a hab hba; rw [h.irrefl] at this; cases this

theorem StrictTotal.ne {α : Type} {lt : α → α → Bool} (h : StrictTotal lt) {a b : α}
    (hab : lt a b = true) : a ≠ b := by
  rintro rfl; rw [h.irrefl] at hab; cases hab

/-- `¬ b < a` and `a ≠ b` is `a < b` -/
theorem StrictTotal.lt_iff {α : Type} {lt : α → α → Bool} (h : StrictTotal lt) (a b : α) :
    lt a b = true ↔ (lt b a = false ∧ a ≠ b) := by
  constructor
  · intro hab; exact ⟨h.asymm hab, h.ne hab⟩
  · rintro ⟨h1, h2⟩
    rcases h.tri a b with t | t | t
    · exact t
    · exact absurd t h2
    · rw [h1] at t; cases t

theorem StrictTotal.lex {α : Type} [BEq α] [LawfulBEq α] {lt : α → α → Bool} (h : StrictTotal lt) :
    StrictTotal (fun (a b : List α) => List.lex a b lt) where
  irrefl := by
    intro a
    induction a with
    | nil => rfl
    | cons x xs ih => simp only [List.lex, h.irrefl, beq_self_eq_true, Bool.true_and, Bool.false_or]; exact ih
  trans := by
    intro a
    induction a with
    | nil =>
      intro b c hab hbc
      cases b with
      | nil => simp [List.lex] at hab
      | cons y ys =>
        cases c with
        | nil => simp [List.lex] at hbc
        | cons z zs => rfl
    | cons x xs ih =>
      intro b c hab hbc
      cases b with
      | nil => simp [List.lex] at hab
      | cons y ys =>
        cases c with
        | nil => simp [List.lex] at hbc
        | cons z zs =>
          simp only [List.lex, Bool.or_eq_true, Bool.and_eq_true, beq_iff_eq] at hab hbc ⊢
          rcases hab with hab | ⟨rfl, hab⟩
          · rcases hbc with hbc | ⟨rfl, hbc⟩
            · exact Or.inl (h.trans _ _ _ hab hbc)
            · exact Or.inl hab
          · rcases hbc with hbc | ⟨rfl, hbc⟩
            · exact Or.inl hbc
            · exact Or.inr ⟨rfl, ih ys zs hab hbc⟩
  tri := by
    intro a
    induction a with
    | nil =>
      intro b
      cases b with
      | nil => exact Or.inr (Or.inl rfl)
      | cons y ys => exact Or.inl rfl
    | cons x xs ih =>
      intro b
      cases b with
      | nil => exact Or.inr (Or.inr rfl)
      | cons y ys =>
        simp only [List.lex, Bool.or_eq_true, Bool.and_eq_true, beq_iff_eq, List.cons.injEq]
        rcases h.tri x y with t | rfl | t
        · exact Or.inl (Or.inl t)
        · rcases ih ys with u | rfl | u
          · exact Or.inl (Or.inr ⟨rfl, u⟩)
          · exact Or.inr (Or.inl ⟨rfl, rfl⟩)
          · exact Or.inr (Or.inr (Or.inr ⟨rfl, u⟩))
        · exact Or.inr (Or.inr (Or.inl t))

/-! ### `bytesLt`, `KeyPart.lt`, `keyLt` are such orders -/

theorem bytesLt_eq_lex (a b : Bytes) : bytesLt a b = List.lex a b (fun x y => decide (x < y)) := by
  induction a generalizing b with
  | nil => cases b <;> rfl
  | cons x xs ih => cases b with
    | nil => rfl
    | cons y ys => simp only [bytesLt, List.lex, ih]

/-- `bytesLt` is the lexicographic order of byte strings (Python's `bytes.__lt__`) -/
theorem bytesLt_iff_lt (a b : Bytes) : bytesLt a b = true ↔ a < b := by
  rw [bytesLt_eq_lex]; exact List.lex_eq_true_iff_lt

theorem keyLt_eq_lex (a b : List KeyPart) : keyLt a b = List.lex a b KeyPart.lt := by
  induction a generalizing b with
  | nil => cases b <;> rfl
  | cons x xs ih => cases b with
    | nil => rfl
    | cons y ys => simp only [keyLt, List.lex, ih]

theorem uint8Lt_strictTotal : StrictTotal (fun (x y : UInt8) => decide (x < y)) where
  irrefl := by intro a; simp
  trans := by intro a b c; simp only [decide_eq_true_eq]; exact UInt8.lt_trans
  tri := by
    intro a b
    simp only [decide_eq_true_eq, UInt8.lt_iff_toNat_lt, ← UInt8.toNat_inj]
    omega

theorem bytesLt_strictTotal : StrictTotal bytesLt := by
  have := uint8Lt_strictTotal.lex
  have e : bytesLt = fun (a b : Bytes) => List.lex a b (fun x y => decide (x < y)) := by
    funext a b; exact bytesLt_eq_lex a b
  rw [e]; exact this

theorem KeyPart.lt_strictTotal : StrictTotal KeyPart.lt where
  irrefl := by
    intro a
    cases a with
    | int i => simp [KeyPart.lt]
    | bytes b => exact bytesLt_strictTotal.irrefl b
  trans := by
    intro a b c hab hbc
    cases a <;> cases b <;> cases c <;> simp only [KeyPart.lt, decide_eq_true_eq] at hab hbc ⊢ <;>
      first
        | omega
        | exact absurd hab (by decide)
        | exact absurd hbc (by decide)
        | exact bytesLt_strictTotal.trans _ _ _ hab hbc
  tri := by
    intro a b
    cases a with
    | int i => cases b with
      | int j =>
        simp only [KeyPart.lt, decide_eq_true_eq, KeyPart.int.injEq]; omega
      | bytes y => exact Or.inl rfl
    | bytes x => cases b with
      | int j => exact Or.inr (Or.inr rfl)
      | bytes y =>
        simp only [KeyPart.lt, KeyPart.bytes.injEq]
        exact bytesLt_strictTotal.tri x y

theorem keyLt_strictTotal : StrictTotal keyLt := by
  have := KeyPart.lt_strictTotal.lex
  have e : keyLt = fun (a b : List KeyPart) => List.lex a b KeyPart.lt := by
    funext a b; exact keyLt_eq_lex a b
  rw [e]; exact this

/-! named consequences -/

theorem bytesLt_irrefl (a : Bytes) : bytesLt a a = false := bytesLt_strictTotal.irrefl a
theorem bytesLt_trans {a b c : Bytes} (h1 : bytesLt a b = true) (h2 : bytesLt b c = true) : bytesLt a c = true :=
  bytesLt_strictTotal.trans a b c h1 h2
theorem bytesLt_asymm {a b : Bytes} (h : bytesLt a b = true) : bytesLt b a = false := bytesLt_strictTotal.asymm h
theorem bytesLt_trichotomy (a b : Bytes) : bytesLt a b = true ∨ a = b ∨ bytesLt b a = true :=
  bytesLt_strictTotal.tri a b

theorem KeyPart.lt_irrefl (a : KeyPart) : a.lt a = false := KeyPart.lt_strictTotal.irrefl a
theorem KeyPart.lt_trans {a b c : KeyPart} (h1 : a.lt b = true) (h2 : b.lt c = true) : a.lt c = true :=
  KeyPart.lt_strictTotal.trans a b c h1 h2
theorem KeyPart.lt_asymm {a b : KeyPart} (h : a.lt b = true) : b.lt a = false := KeyPart.lt_strictTotal.asymm h
theorem KeyPart.lt_trichotomy (a b : KeyPart) : a.lt b = true ∨ a = b ∨ b.lt a = true :=
  KeyPart.lt_strictTotal.tri a b

theorem keyLt_irrefl (a : List KeyPart) : keyLt a a = false := keyLt_strictTotal.irrefl a
theorem keyLt_trans {a b c : List KeyPart} (h1 : keyLt a b = true) (h2 : keyLt b c = true) : keyLt a c = true :=
  keyLt_strictTotal.trans a b c h1 h2
theorem keyLt_asymm {a b : List KeyPart} (h : keyLt a b = true) : keyLt b a = false := keyLt_strictTotal.asymm h
/-- trichotomy holds for all keys (no shape hypothesis is needed in the model) -/
theorem keyLt_trichotomy (a b : List KeyPart) : keyLt a b = true ∨ a = b ∨ keyLt b a = true :=
  keyLt_strictTotal.tri a b
theorem keyLt_ne {a b : List KeyPart} (h : keyLt a b = true) : a ≠ b := keyLt_strictTotal.ne h

/-! `keyLe` -/

theorem keyLe_iff (a b : List KeyPart) : keyLe a b = true ↔ (keyLt a b = true ∨ a = b) := by
  unfold keyLe
  constructor
  · intro h
    rcases keyLt_trichotomy a b with t | t | t
    · exact Or.inl t
    · exact Or.inr t
    · rw [t] at h; cases h
  · rintro (h | rfl)
    · rw [keyLt_asymm h]; rfl
    · rw [keyLt_irrefl]; rfl

theorem keyLe_refl (a : List KeyPart) : keyLe a a = true := (keyLe_iff a a).2 (Or.inr rfl)

theorem keyLe_total (a b : List KeyPart) : (keyLe a b || keyLe b a) = true := by
  rcases keyLt_trichotomy a b with t | rfl | t
  · rw [(keyLe_iff a b).2 (Or.inl t)]; rfl
  · rw [keyLe_refl]; rfl
  · rw [(keyLe_iff b a).2 (Or.inl t)]; simp

theorem keyLe_trans {a b c : List KeyPart} (h1 : keyLe a b = true) (h2 : keyLe b c = true) : keyLe a c = true := by
  rw [keyLe_iff] at *
  rcases h1 with h1 | rfl
  · rcases h2 with h2 | rfl
    · exact Or.inl (keyLt_trans h1 h2)
    · exact Or.inl h1
  · exact h2

theorem keyLe_antisymm {a b : List KeyPart} (h1 : keyLe a b = true) (h2 : keyLe b a = true) : a = b := by
  rw [keyLe_iff] at h1
  rcases h1 with h1 | rfl
  · unfold keyLe at h2; rw [h1] at h2; cases h2
  · rfl

/-- strict = non-strict and different -/
theorem keyLt_iff_le_ne (a b : List KeyPart) : keyLt a b = true ↔ (keyLe a b = true ∧ a ≠ b) := by
  constructor
  · intro h; exact ⟨(keyLe_iff a b).2 (Or.inl h), keyLt_ne h⟩
  · rintro ⟨h1, h2⟩
    rcases (keyLe_iff a b).1 h1 with h | h
    · exact h
    · exact absurd h h2

/-! ### keys of one shape (what one sort key produces) -/

def KeyPart.sameKind : KeyPart → KeyPart → Bool
  | .int _, .int _ => true
  | .bytes _, .bytes _ => true
  | _, _ => false

/-- same length and positionwise the same constructor: `.int` never meets `.bytes` -/
def sameShape : List KeyPart → List KeyPart → Bool
  | [], [] => true
  | a :: as, b :: bs => a.sameKind b && sameShape as bs
  | _, _ => false

theorem keyLt_trichotomy_sameShape (a b : List KeyPart) (_ : sameShape a b = true) :
    keyLt a b = true ∨ a = b ∨ keyLt b a = true := keyLt_trichotomy a b

theorem keyLe_total_sameShape (a b : List KeyPart) (_ : sameShape a b = true) :
    keyLe a b = true ∨ keyLe b a = true := by
  have := keyLe_total a b
  simpa using this

/-- on keys of one shape the comparison never uses the `.int`-before-`.bytes` clause: it is decided by the first
    position where the keys differ, by integer order or by byte-string order there -/
theorem keyLt_sameShape_iff (a b : List KeyPart) (hs : sameShape a b = true) :
    keyLt a b = true ↔ ∃ p x y s t, a = p ++ x :: s ∧ b = p ++ y :: t ∧
      ((∃ i j, x = .int i ∧ y = .int j ∧ i < j) ∨ (∃ u v, x = .bytes u ∧ y = .bytes v ∧ bytesLt u v = true)) := by
  induction a generalizing b with
  | nil =>
    cases b with
    | nil => simp [keyLt]
    | cons y ys => simp [sameShape] at hs
  | cons x xs ih =>
    cases b with
    | nil => simp [sameShape] at hs
    | cons y ys =>
      simp only [sameShape, Bool.and_eq_true] at hs
      simp only [keyLt, Bool.or_eq_true, Bool.and_eq_true, beq_iff_eq]
      constructor
      · rintro (h | ⟨rfl, h⟩)
        · refine ⟨[], x, y, xs, ys, rfl, rfl, ?_⟩
          cases x <;> cases y <;> simp only [KeyPart.sameKind, KeyPart.lt, decide_eq_true_eq] at hs h
          · exact Or.inl ⟨_, _, rfl, rfl, h⟩
          · exact absurd hs.1 (by decide)
          · exact absurd hs.1 (by decide)
          · exact Or.inr ⟨_, _, rfl, rfl, h⟩
        · obtain ⟨p, x', y', s, t, h1, h2, h3⟩ := (ih ys hs.2).1 h
          exact ⟨x :: p, x', y', s, t, by rw [h1]; rfl, by rw [h2]; rfl, h3⟩
      · rintro ⟨p, x', y', s, t, h1, h2, h3⟩
        cases p with
        | nil =>
          simp only [List.nil_append, List.cons.injEq] at h1 h2
          obtain ⟨rfl, rfl⟩ := h1
          obtain ⟨rfl, rfl⟩ := h2
          left
          rcases h3 with ⟨i, j, rfl, rfl, h⟩ | ⟨u, v, rfl, rfl, h⟩
          · simpa [KeyPart.lt] using h
          · simpa [KeyPart.lt] using h
        | cons q p =>
          simp only [List.cons_append, List.cons.injEq] at h1 h2
          obtain ⟨rfl, rfl⟩ := h1
          obtain ⟨rfl, rfl⟩ := h2
          exact Or.inr ⟨rfl, (ih _ hs.2).2 ⟨p, x', y', s, t, rfl, rfl, h3⟩⟩

/-- integer keys compare numerically -/
theorem key_order_is_numeric (a b : Int) : keyLt [.int a] [.int b] = true ↔ a < b := by
  simp [keyLt, KeyPart.lt]

/-- byte-string keys compare as byte strings … -/
theorem key_order_bytes (a b : Bytes) : keyLt [.bytes a] [.bytes b] = bytesLt a b := by
  simp [keyLt, KeyPart.lt]

/-- … which is lexicographic: a proper prefix comes first, otherwise the first differing byte decides -/
theorem bytesLt_iff (a b : Bytes) :
    bytesLt a b = true ↔ (∃ t, t ≠ [] ∧ b = a ++ t) ∨ (∃ p x y s t, a = p ++ x :: s ∧ b = p ++ y :: t ∧ x < y) := by
  induction a generalizing b with
  | nil =>
    cases b with
    | nil => simp [bytesLt]
    | cons y ys => simp [bytesLt]
  | cons x xs ih =>
    cases b with
    | nil => simp [bytesLt]
    | cons y ys =>
      simp only [bytesLt, Bool.or_eq_true, Bool.and_eq_true, beq_iff_eq, decide_eq_true_eq, ih ys]
      constructor
      · rintro (h | ⟨rfl, ⟨t, ht, rfl⟩ | ⟨p, x', y', s, t, rfl, rfl, h⟩⟩)
        · exact Or.inr ⟨[], x, y, xs, ys, rfl, rfl, h⟩
        · exact Or.inl ⟨t, ht, rfl⟩
        · exact Or.inr ⟨x :: p, x', y', s, t, rfl, rfl, h⟩
      · rintro (⟨t, ht, h⟩ | ⟨p, x', y', s, t, h1, h2, h⟩)
        · simp only [List.cons_append, List.cons.injEq] at h
          obtain ⟨rfl, rfl⟩ := h
          exact Or.inr ⟨rfl, Or.inl ⟨t, ht, rfl⟩⟩
        · cases p with
          | nil =>
            simp only [List.nil_append, List.cons.injEq] at h1 h2
            obtain ⟨rfl, rfl⟩ := h1
            obtain ⟨rfl, rfl⟩ := h2
            exact Or.inl h
          | cons q p =>
            simp only [List.cons_append, List.cons.injEq] at h1 h2
            obtain ⟨rfl, rfl⟩ := h1
            obtain ⟨rfl, rfl⟩ := h2
            exact Or.inr ⟨rfl, Or.inr ⟨p, x', y', s, t, rfl, rfl, h⟩⟩

/-! ### `strictlyAscending` -/

theorem strictlyAscending_cons (a : List KeyPart) (l : List (List KeyPart)) :
    strictlyAscending (a :: l) = true ↔ ((∀ b ∈ l, keyLt a b = true) ∧ strictlyAscending l = true) := by
  induction l generalizing a with
  | nil => simp [strictlyAscending]
  | cons b rest ih =>
    simp only [strictlyAscending, Bool.and_eq_true, List.mem_cons, forall_eq_or_imp]
    constructor
    · rintro ⟨hab, hb⟩
      refine ⟨⟨hab, ?_⟩, hb⟩
      intro c hc
      exact keyLt_trans hab (((ih b).1 hb).1 c hc)
    · rintro ⟨⟨hab, _⟩, hb⟩
      exact ⟨hab, hb⟩

/-- the adjacent-pairs check is the pairwise statement (by transitivity) -/
theorem strictlyAscending_iff_pairwise (l : List (List KeyPart)) :
    strictlyAscending l = true ↔ l.Pairwise (fun a b => keyLt a b = true) := by
  induction l with
  | nil => simp [strictlyAscending]
  | cons a l ih => rw [strictlyAscending_cons, List.pairwise_cons, ih]

/-- strictly ascending = ascending and without repeated keys -/
theorem strictlyAscending_iff_sorted_nodup (l : List (List KeyPart)) :
    strictlyAscending l = true ↔ (l.Pairwise (fun a b => keyLe a b = true) ∧ l.Nodup) := by
  rw [strictlyAscending_iff_pairwise, List.Nodup, ← List.pairwise_and_iff]
  exact ⟨fun h => h.imp (fun h => (keyLt_iff_le_ne _ _).1 h), fun h => h.imp (fun h => (keyLt_iff_le_ne _ _).2 h)⟩

/-! ### `sortByKey` -/

/-- the comparison `sortByKey` hands to the merge sort -/
def pairLe (a b : List KeyPart × Val) : Bool := keyLe a.1 b.1

theorem sortByKey_eq (keyed : List (List KeyPart × Val)) :
    sortByKey keyed = (keyed.mergeSort pairLe).map (·.2) := rfl

theorem pairLe_trans (a b c : List KeyPart × Val) (h1 : pairLe a b = true) (h2 : pairLe b c = true) :
    pairLe a c = true := keyLe_trans h1 h2

theorem pairLe_total (a b : List KeyPart × Val) : (pairLe a b || pairLe b a) = true := keyLe_total a.1 b.1

/-- the sorted list of (key, value) pairs is a permutation of the input -/
theorem sortedPairs_perm (keyed : List (List KeyPart × Val)) : (keyed.mergeSort pairLe).Perm keyed :=
  List.mergeSort_perm keyed pairLe

theorem sortedPairs_pairwise (keyed : List (List KeyPart × Val)) :
    (keyed.mergeSort pairLe).Pairwise (fun a b => pairLe a b = true) :=
  List.pairwise_mergeSort pairLe_trans pairLe_total keyed

/-- `sorted(...)` returns a permutation of the values -/
theorem sortByKey_perm (keyed : List (List KeyPart × Val)) : (sortByKey keyed).Perm (keyed.map (·.2)) :=
  (sortedPairs_perm keyed).map _

theorem sortByKey_length (keyed : List (List KeyPart × Val)) : (sortByKey keyed).length = keyed.length := by
  simp [sortByKey]

/-- the keys of the result are ascending -/
theorem sortByKey_sorted (keyed : List (List KeyPart × Val)) :
    ((keyed.mergeSort pairLe).map (·.1)).Pairwise (fun a b => keyLe a b = true) := by
  rw [List.pairwise_map]; exact sortedPairs_pairwise keyed

/-- sorting an already sorted keyed list changes nothing -/
theorem sortByKey_of_sorted (keyed : List (List KeyPart × Val))
    (h : (keyed.map (·.1)).Pairwise (fun a b => keyLe a b = true)) : sortByKey keyed = keyed.map (·.2) := by
  rw [List.pairwise_map] at h
  have h' : keyed.Pairwise (fun a b => pairLe a b = true) := h
  rw [sortByKey_eq, List.mergeSort_of_pairwise h']

/-- sorting is idempotent (on the keyed list) -/
theorem sortByKey_idempotent (keyed : List (List KeyPart × Val)) :
    sortByKey (keyed.mergeSort pairLe) = sortByKey keyed := by
  rw [sortByKey_eq, List.mergeSort_of_pairwise (sortedPairs_pairwise keyed)]; rfl

/-- the keys of the result are strictly ascending exactly when the keys are pairwise distinct -/
theorem sortByKey_strict_iff_distinct (keyed : List (List KeyPart × Val)) :
    strictlyAscending ((keyed.mergeSort pairLe).map (·.1)) = true ↔ (keyed.map (·.1)).Nodup := by
  rw [strictlyAscending_iff_sorted_nodup, ((sortedPairs_perm keyed).map (·.1)).nodup_iff]
  exact ⟨fun h => h.2, fun h => ⟨sortByKey_sorted keyed, h⟩⟩

theorem eq_of_fst_eq_of_nodup {α β : Type} {l : List (α × β)} (hn : (l.map (·.1)).Nodup) {a b : α × β}
    (ha : a ∈ l) (hb : b ∈ l) (h : a.1 = b.1) : a = b := by
  induction l with
  | nil => cases ha
  | cons x xs ih =>
    simp only [List.map_cons, List.nodup_cons, List.mem_map, not_exists, not_and] at hn
    rcases List.mem_cons.1 ha with rfl | ha'
    · rcases List.mem_cons.1 hb with rfl | hb'
      · rfl
      · exact absurd h.symm (hn.1 b hb')
    · rcases List.mem_cons.1 hb with rfl | hb'
      · exact absurd h (hn.1 a ha')
      · exact ih hn.2 ha' hb'

/-- with pairwise distinct keys the result does not depend on the order of the input -/
theorem sortedPairs_order_independent (k1 k2 : List (List KeyPart × Val)) (hp : k1.Perm k2)
    (hn : (k1.map (·.1)).Nodup) : k1.mergeSort pairLe = k2.mergeSort pairLe := by
  have p1 := sortedPairs_perm k1
  have p2 := sortedPairs_perm k2
  refine List.Perm.eq_of_pairwise (le := fun a b => pairLe a b = true) ?_ (sortedPairs_pairwise k1)
    (sortedPairs_pairwise k2) (p1.trans (hp.trans p2.symm))
  intro a b ha hb hab hba
  have ha' : a ∈ k1 := p1.subset ha
  have hb' : b ∈ k1 := hp.symm.subset (p2.subset hb)
  exact eq_of_fst_eq_of_nodup hn ha' hb' (keyLe_antisymm hab hba)

theorem sortByKey_order_independent (k1 k2 : List (List KeyPart × Val)) (hp : k1.Perm k2)
    (hn : (k1.map (·.1)).Nodup) : sortByKey k1 = sortByKey k2 := by
  rw [sortByKey_eq, sortByKey_eq, sortedPairs_order_independent k1 k2 hp hn]

/-! ### `sortByKey` as the model's `sort()` uses it: `keys ← l.mapM k; sortByKey (keys.zip l)` -/

/-- a successful `mapM` of a fallible key accessor is a `map` of a total one -/
theorem mapM_ok_exists_map {k : Val → R (List KeyPart)} {l : List Val} {keys : List (List KeyPart)}
    (h : l.mapM k = .ok keys) : ∃ f : Val → List KeyPart, keys = l.map f ∧ ∀ v ∈ l, k v = .ok (f v) := by
  refine ⟨fun v => match k v with | .ok x => x | .error _ => [], ?_, ?_⟩
  · induction l generalizing keys with
    | nil => simp only [List.mapM_nil, pure, Except.pure, Except.ok.injEq] at h; subst h; rfl
    | cons v vs ih =>
      rw [List.mapM_cons] at h
      cases hv : k v with
      | error e => simp [hv, bind, Except.bind] at h
      | ok x =>
        cases ht : vs.mapM k with
        | error e => simp [hv, ht, bind, Except.bind] at h
        | ok t =>
          simp only [hv, ht, bind, Except.bind, pure, Except.pure, Except.ok.injEq] at h
          subst h
          simp only [List.map_cons, hv, ← ih ht]
  · intro v hv
    induction l generalizing keys with
    | nil => cases hv
    | cons u us ih =>
      rw [List.mapM_cons] at h
      cases hu : k u with
      | error e => simp [hu, bind, Except.bind] at h
      | ok x =>
        cases ht : us.mapM k with
        | error e => simp [hu, ht, bind, Except.bind] at h
        | ok t =>
          rcases List.mem_cons.1 hv with rfl | hv'
          · simp only [hu]
          · exact ih ht hv'

theorem mapM_ok_of_forall {k : Val → R (List KeyPart)} {f : Val → List KeyPart} {l : List Val}
    (h : ∀ v ∈ l, k v = .ok (f v)) : l.mapM k = .ok (l.map f) := by
  induction l with
  | nil => rfl
  | cons v vs ih =>
    rw [List.mapM_cons, h v List.mem_cons_self, ih (fun u hu => h u (List.mem_cons_of_mem _ hu))]
    rfl

/-- the keys of the sorted values, recomputed, are the keys carried along by the sort -/
theorem sortByKey_rekey (k : Val → R (List KeyPart)) (l : List Val) (keys : List (List KeyPart))
    (h : l.mapM k = .ok keys) :
    (sortByKey (keys.zip l)).mapM k = .ok (((keys.zip l).mergeSort pairLe).map (·.1)) := by
  obtain ⟨f, rfl, hf⟩ := mapM_ok_exists_map h
  rw [← List.map_prod_right_eq_zip]
  have hmem : ∀ p ∈ (l.map fun v => (f v, v)).mergeSort pairLe, p.2 ∈ l ∧ p.1 = f p.2 := by
    intro p hp
    rw [List.mem_mergeSort, List.mem_map] at hp
    obtain ⟨v, hv, rfl⟩ := hp
    exact ⟨hv, rfl⟩
  have h1 : ∀ v ∈ sortByKey (l.map fun v => (f v, v)), k v = .ok (f v) := by
    intro v hv
    rw [sortByKey_eq, List.mem_map] at hv
    obtain ⟨p, hp, rfl⟩ := hv
    exact hf _ (hmem p hp).1
  rw [mapM_ok_of_forall h1, sortByKey_eq, List.map_map]
  congr 1
  apply List.map_congr_left
  intro p hp
  exact ((hmem p hp).2).symm

theorem mapM_ok_length {k : Val → R (List KeyPart)} {l : List Val} {keys : List (List KeyPart)}
    (h : l.mapM k = .ok keys) : keys.length = l.length := by
  obtain ⟨f, rfl, -⟩ := mapM_ok_exists_map h; simp

/-- `sort()` of a keyed array returns a permutation of its elements -/
theorem sortByKey_zip_perm (k : Val → R (List KeyPart)) (l : List Val) (keys : List (List KeyPart))
    (h : l.mapM k = .ok keys) : (sortByKey (keys.zip l)).Perm l := by
  have := sortByKey_perm (keys.zip l)
  rwa [show (keys.zip l).map (·.2) = l from List.map_snd_zip (Nat.le_of_eq (mapM_ok_length h).symm)] at this

/-- … whose keys are ascending -/
theorem sortByKey_zip_sorted (k : Val → R (List KeyPart)) (l : List Val) (keys : List (List KeyPart))
    (h : l.mapM k = .ok keys) :
    ∃ keys', (sortByKey (keys.zip l)).mapM k = .ok keys' ∧ keys'.Pairwise (fun a b => keyLe a b = true) :=
  ⟨_, sortByKey_rekey k l keys h, sortByKey_sorted _⟩

/-- … strictly ascending (acceptable to `serialize`/`deserialize`) exactly when the keys are pairwise distinct -/
theorem sortByKey_zip_strict_iff_distinct (k : Val → R (List KeyPart)) (l : List Val) (keys : List (List KeyPart))
    (h : l.mapM k = .ok keys) :
    ∃ keys', (sortByKey (keys.zip l)).mapM k = .ok keys' ∧ (strictlyAscending keys' = true ↔ keys.Nodup) := by
  refine ⟨_, sortByKey_rekey k l keys h, ?_⟩
  rw [sortByKey_strict_iff_distinct,
    show (keys.zip l).map (·.1) = keys from List.map_fst_zip (Nat.le_of_eq (mapM_ok_length h))]

/-- sorting the sorted array (keys recomputed) gives the same array: `sort()` is idempotent -/
theorem sortByKey_zip_idempotent (k : Val → R (List KeyPart)) (l : List Val) (keys : List (List KeyPart))
    (h : l.mapM k = .ok keys) :
    ∃ keys', (sortByKey (keys.zip l)).mapM k = .ok keys' ∧
      sortByKey (keys'.zip (sortByKey (keys.zip l))) = sortByKey (keys.zip l) := by
  refine ⟨_, sortByKey_rekey k l keys h, ?_⟩
  have : (((keys.zip l).mergeSort pairLe).map (·.1)).zip (sortByKey (keys.zip l))
      = (keys.zip l).mergeSort pairLe := (List.zip_of_prod rfl rfl).symm
  rw [this, sortByKey_idempotent]

/-- an already sorted array is left alone -/
theorem sortByKey_zip_of_sorted (k : Val → R (List KeyPart)) (l : List Val) (keys : List (List KeyPart))
    (h : l.mapM k = .ok keys) (hs : keys.Pairwise (fun a b => keyLe a b = true)) : sortByKey (keys.zip l) = l := by
  have hl := mapM_ok_length h
  rw [sortByKey_of_sorted, show (keys.zip l).map (·.2) = l from List.map_snd_zip (Nat.le_of_eq hl.symm)]
  rwa [show (keys.zip l).map (·.1) = keys from List.map_fst_zip (Nat.le_of_eq hl)]

/-- two arrays with the same elements in different orders and pairwise distinct keys sort to the same array -/
theorem sortByKey_zip_order_independent (k : Val → R (List KeyPart)) (l1 l2 : List Val)
    (keys1 keys2 : List (List KeyPart)) (h1 : l1.mapM k = .ok keys1) (h2 : l2.mapM k = .ok keys2)
    (hp : l1.Perm l2) (hn : keys1.Nodup) : sortByKey (keys1.zip l1) = sortByKey (keys2.zip l2) := by
  obtain ⟨f, rfl, hf⟩ := mapM_ok_exists_map h1
  have h2' : l2.mapM k = .ok (l2.map f) := mapM_ok_of_forall (fun v hv => hf v (hp.symm.subset hv))
  rw [h2] at h2'; cases h2'
  rw [← List.map_prod_right_eq_zip, ← List.map_prod_right_eq_zip]
  apply sortByKey_order_independent _ _ (hp.map _)
  rwa [List.map_map, show ((fun x : List KeyPart × Val => x.1) ∘ fun v => (f v, v)) = f from rfl]

end SymbolVerif.Codec

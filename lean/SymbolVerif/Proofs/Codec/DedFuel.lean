/-
Decode-encode direction, part 16: one interpretation step preserves "whatever decodes is admissible and
encodes", and the induction on fuel.
-/
import SymbolVerif.Proofs.Codec.DedFactory
namespace SymbolVerif.Codec
open SymbolVerif.Bytes

theorem WFD_int {S : Schema} (h : WFD S = true) {n : String} {w : Nat} {s : Bool} (hf : S.find n = some (.int w s)) : 0 < w := by
  have hm := Schema.find_mem hf
  unfold WFD at h
  simp only [List.all_eq_true] at h
  simpa using h _ hm

theorem WFD_enum {S : Schema} (h : WFD S = true) {n : String} {w : Nat} {s bw : Bool} {ms : List (String × Int)}
    (hf : S.find n = some (.enum w s bw ms)) : 0 < w := by
  have hm := Schema.find_mem hf
  unfold WFD at h
  simp only [List.all_eq_true] at h
  simpa using h _ hm

theorem WFD_struct {S : Schema} (h : WFD S = true) {n : String} {d : StructDef} (hf : S.find n = some (.struct d)) :
    wfdStruct S d = true := by
  have hm := Schema.find_mem hf
  unfold WFD at h
  simp only [List.all_eq_true] at h
  simpa using h _ hm

section
variable {S : Schema} {T : String → Bytes → Bytes} {g fa : String → Val → Bool} {r : Rec}

theorem ded_step (hwf : WF S = true) (hwd : WFD S = true) (sup : StructDef → Bool) (hctx : DedCtx S g fa r) :
    DedCtx S (okStep S r g) (fitStep S sup r fa) (stepRec S T r) := by
  refine ⟨step_ok hwf hctx.ok, ?_, ?_, ?_⟩
  · -- whatever decodes is admissible and encodes
    intro ty bs v hdec hfit
    replace hdec : decTypeStep S T r ty bs = .ok v := hdec
    show okStep S r g ty v = true ∧ ∃ b, encTypeStep S T r ty v = .ok b
    unfold decTypeStep at hdec
    unfold okStep encTypeStep
    unfold fitStep at hfit
    cases hf : S.find ty with
    | none => simp [hf] at hdec
    | some t =>
      cases t with
      | int w s =>
        simp only [hf, Except.ok.injEq] at hdec ⊢
        subst hdec
        exact ⟨trivial, encInt_decInt_ok (WFD_int hwd hf) s bs⟩
      | bytes n =>
        simp only [hf] at hdec ⊢
        split at hdec
        · cases hdec
        · rename_i hle
          simp only [Except.ok.injEq] at hdec
          subst hdec
          refine ⟨trivial, bs.take n, ?_⟩
          have : (bs.take n).length = n := by rw [List.length_take]; omega
          simp [this]
      | enum w s bw ms =>
        simp only [hf] at hdec ⊢
        split at hdec
        · rename_i hadm
          simp only [Except.ok.injEq] at hdec
          subst hdec
          obtain ⟨b, hb⟩ := encInt_decInt_ok (WFD_enum hwd hf) s bs
          exact ⟨trivial, b, by simp [hadm, hb]⟩
        · cases hdec
      | struct d =>
        simp only [hf] at hdec hfit ⊢
        have hwfd := wfStruct_iff (WF_struct hwf hf)
        by_cases hab : d.abstract = true
        · -- a factory
          simp only [hab, if_true] at hdec
          obtain ⟨sth, hsth, hdec⟩ := bind_eq_ok.mp hdec
          obtain ⟨disc, hdisc, hdec⟩ := bind_eq_ok.mp hdec
          obtain ⟨hbase, -, hcarry, -⟩ := hwfd.abs hab
          cases hlast : ((S.children ty).filter (fun c => c.2.discValues == disc)).getLast? with
          | none => simp [hlast] at hdec
          | some cc =>
            obtain ⟨child, dcx⟩ := cc
            simp only [hlast] at hdec
            have hmemf := List.mem_of_getLast? hlast
            obtain ⟨hmemc, hdv⟩ := List.mem_filter.mp hmemf
            simp only [beq_iff_eq] at hdv
            have hany : (S.children ty).any (·.1 == child) = true := by
              simp only [List.any_eq_true, beq_iff_eq]
              exact ⟨(child, dcx), hmemc, rfl⟩
            obtain ⟨dc, -, hfc, hna, hwc, hbc, htake⟩ := child_facts hwf hf hany
            have hdcx : dcx = dc := by
              have := Schema.find_of_mem (WF_distinct hwf) (Schema.children_mem.mp hmemc).1
              rw [hfc] at this
              simp only [Option.some.injEq, TypeDef.struct.injEq] at this
              exact this.symm
            subst hdcx
            simp only [hfc, hna, Bool.false_eq_true, if_false] at hdec
            have hwdc : wfdStruct S dcx = true := WFD_struct hwd hfc
            -- the fit hypothesis, once the value is known to be a `child` object
            have hfit' : ∀ vs, v = .struct child vs →
                sup dcx = true ∧ dcx.fields.all (fun f => fitField r dcx vs f && admMember fa vs f) = true := by
              intro vs hv
              subst hv
              simp only [hab, if_true, hfc, hna, Bool.false_eq_true, if_false] at hfit
              unfold fitStruct at hfit
              simpa using hfit
            obtain ⟨vs, hv, hshape, hok, ⟨b, hb⟩, stc, hstc, hobj⟩ :=
              ded_concrete hctx hwc hwdc hdec (fun vs hv => (hfit' vs hv).2)
            subst hv
            have hdm := header_disc (S := S) (T := T) (r := r) hwc.names hbase htake hcarry hsth hstc hobj hdisc
            refine ⟨?_, b, ?_⟩
            · simp only [hab, if_true, hfc, hna, Bool.false_eq_true, if_false, Bool.and_eq_true]
              refine ⟨hok, ?_⟩
              unfold admDisc
              simp only [hbc, hf, hdv]
              exact hdm
            · simp only [hab, if_true, hany, hfc, hna, Bool.false_eq_true, if_false, hshape]
              exact hb
        · have hab' : d.abstract = false := by simpa using hab
          simp only [hab', Bool.false_eq_true, if_false] at hdec
          have hwdd : wfdStruct S d = true := WFD_struct hwd hf
          have hfit' : ∀ vs, v = .struct ty vs →
              sup d = true ∧ d.fields.all (fun f => fitField r d vs f && admMember fa vs f) = true := by
            intro vs hv
            subst hv
            simp only [hab', Bool.false_eq_true, if_false] at hfit
            unfold fitStruct at hfit
            simpa using hfit
          obtain ⟨vs, hv, hshape, hok, ⟨b, hb⟩, -⟩ :=
            ded_concrete hctx hwfd hwdd hdec (fun vs hv => (hfit' vs hv).2)
          subst hv
          exact ⟨by simpa [hab'] using hok, b, by simpa [hab', hshape] using hb⟩
  · -- the constructor of a decoded value
    intro ty bs v hdec
    replace hdec : decTypeStep S T r ty bs = .ok v := hdec
    unfold decTypeStep at hdec
    unfold ShapeOf
    cases hf : S.find ty with
    | none => simp [hf] at hdec
    | some t =>
      cases t with
      | int w s => simp only [hf, Except.ok.injEq] at hdec ⊢; exact ⟨_, hdec.symm⟩
      | bytes n =>
        simp only [hf] at hdec ⊢
        split at hdec
        · cases hdec
        · simp only [Except.ok.injEq] at hdec; exact ⟨_, hdec.symm⟩
      | enum w s bw ms =>
        simp only [hf] at hdec ⊢
        split at hdec
        · simp only [Except.ok.injEq] at hdec; exact ⟨_, hdec.symm⟩
        · cases hdec
      | struct d =>
        simp only [hf] at hdec ⊢
        have conc : ∀ n dd, decConcrete S T r n dd bs = .ok v → ∃ n fs, v = .struct n fs := by
          intro n dd h
          unfold decConcrete at h
          obtain ⟨_, -, h⟩ := bind_eq_ok.mp h
          obtain ⟨vs, -, h⟩ := bind_eq_ok.mp h
          simp only [Except.ok.injEq] at h
          exact ⟨n, vs, h.symm⟩
        by_cases hab : d.abstract = true
        · simp only [hab, if_true] at hdec
          obtain ⟨sth, -, hdec⟩ := bind_eq_ok.mp hdec
          obtain ⟨disc, -, hdec⟩ := bind_eq_ok.mp hdec
          cases hlast : ((S.children ty).filter (fun c => c.2.discValues == disc)).getLast? with
          | none => simp [hlast] at hdec
          | some cc =>
            obtain ⟨child, dcx⟩ := cc
            simp only [hlast] at hdec
            have hmemc := (List.mem_filter.mp (List.mem_of_getLast? hlast)).1
            have hany : (S.children ty).any (·.1 == child) = true := by
              simp only [List.any_eq_true, beq_iff_eq]
              exact ⟨(child, dcx), hmemc, rfl⟩
            obtain ⟨dc, -, hfc, hna, -, -, -⟩ := child_facts hwf hf hany
            simp only [hfc, hna, Bool.false_eq_true, if_false] at hdec
            exact conc _ _ hdec
        · have hab' : d.abstract = false := by simpa using hab
          simp only [hab', Bool.false_eq_true, if_false] at hdec
          exact conc _ _ hdec

  · -- enum values that decode are admitted
    intro ty bs v w s bw ms hdec hf
    replace hdec : decTypeStep S T r ty bs = .ok v := hdec
    unfold decTypeStep at hdec
    simp only [hf] at hdec
    split at hdec
    · rename_i hadm
      simp only [Except.ok.injEq] at hdec
      exact ⟨_, hdec.symm, hadm⟩
    · cases hdec

end

/-- every fuel level: whatever decodes (with derived sizes that fit, from supported definitions) is
    admissible and encodes -/
theorem recN_ded {S : Schema} (T : String → Bytes → Bytes) (hwf : WF S = true) (hwd : WFD S = true)
    (sup : StructDef → Bool) :
    ∀ n, DedCtx S (admN S T n) (fitN S T sup n) (recN S T n) := by
  intro n
  induction n with
  | zero =>
    refine ⟨recN_ok T hwf 0, ?_, ?_, ?_⟩
    · intro ty bs v h; cases h
    · intro ty bs v h; cases h
    · intro ty bs v w s bw ms h; cases h
  | succ n ih =>
    rw [recN_succ]
    exact ded_step hwf hwd sup ih

end SymbolVerif.Codec
